#!/usr/bin/env python3
"""Translator for the table-shaped part of the crate: re-extracts the numeric `const`
items the models depend on from /repo's working tree into coq/theories/Gen/Consts.v
on every run.  Parse/ConstsOk.v proves each of them equal to the value the
specification uses (RFC / IEEE numbers), so a changed constant breaks a proof
obligation.  Regex + a tiny arithmetic evaluator; part of the trusted base."""
import os
import re
import sys

REPO = os.environ.get("VERIF_REPO", "/repo")
SRC = os.path.join(REPO, "etherparse", "src")
OUT = os.path.join(os.path.dirname(os.path.dirname(os.path.abspath(__file__))), "coq", "theories", "Gen", "Consts.v")

# (Coq name, file, regex with one group = the Rust expression)
TABLE = [
    ("ET_IPV4", "link/ether_type_impl.rs", r"pub const IPV4: EtherType = Self\((.+?)\);"),
    ("ET_IPV6", "link/ether_type_impl.rs", r"pub const IPV6: EtherType = Self\((.+?)\);"),
    ("ET_ARP", "link/ether_type_impl.rs", r"pub const ARP: EtherType = Self\((.+?)\);"),
    ("ET_VLAN", "link/ether_type_impl.rs", r"pub const VLAN_TAGGED_FRAME: EtherType = Self\((.+?)\);"),
    ("ET_QINQ", "link/ether_type_impl.rs", r"pub const PROVIDER_BRIDGING: EtherType = Self\((.+?)\);"),
    ("ET_VLAN_DOUBLE", "link/ether_type_impl.rs", r"pub const VLAN_DOUBLE_TAGGED_FRAME: EtherType = Self\((.+?)\);"),
    ("ET_MACSEC", "link/ether_type_impl.rs", r"pub const MACSEC: EtherType = Self\((.+?)\);"),
    ("IPN_HOP_BY_HOP", "net/ip_number_impl.rs", r"pub const IPV6_HEADER_HOP_BY_HOP: IpNumber = Self\((.+?)\);"),
    ("IPN_ICMP", "net/ip_number_impl.rs", r"pub const ICMP: IpNumber = Self\((.+?)\);"),
    ("IPN_TCP", "net/ip_number_impl.rs", r"pub const TCP: IpNumber = Self\((.+?)\);"),
    ("IPN_UDP", "net/ip_number_impl.rs", r"pub const UDP: IpNumber = Self\((.+?)\);"),
    ("IPN_ROUTE", "net/ip_number_impl.rs", r"pub const IPV6_ROUTE_HEADER: IpNumber = Self\((.+?)\);"),
    ("IPN_FRAG", "net/ip_number_impl.rs", r"pub const IPV6_FRAGMENTATION_HEADER: IpNumber = Self\((.+?)\);"),
    ("IPN_AUTH", "net/ip_number_impl.rs", r"pub const AUTHENTICATION_HEADER: IpNumber = Self\((.+?)\);"),
    ("IPN_ICMPV6", "net/ip_number_impl.rs", r"pub const IPV6_ICMP: IpNumber = Self\((.+?)\);"),
    ("IPN_DEST_OPTIONS", "net/ip_number_impl.rs", r"pub const IPV6_DESTINATION_OPTIONS: IpNumber = Self\((.+?)\);"),
    ("ETHERNET2_LEN", "link/ethernet2_header.rs", r"pub const LEN: usize = (.+?);"),
    ("VLAN_LEN", "link/single_vlan_header.rs", r"pub const LEN: usize = (.+?);"),
    ("SLL_LEN", "link/linux_sll_header.rs", r"pub const LEN: usize = (.+?);"),
    ("IPV4_MIN_LEN", "net/ipv4_header.rs", r"pub const MIN_LEN: usize = (.+?);"),
    ("IPV4_MAX_LEN", "net/ipv4_header.rs", r"pub const MAX_LEN: usize = (.+?);"),
    ("IPV6_LEN", "net/ipv6_header.rs", r"pub const LEN: usize = (.+?);"),
    ("UDP_LEN", "transport/udp_header.rs", r"pub const LEN: usize = (.+?);"),
    ("TCP_MIN_LEN", "transport/tcp_header.rs", r"pub const MIN_LEN: usize = (.+?);"),
    ("TCP_MAX_LEN", "transport/tcp_header.rs", r"pub const MAX_LEN: usize = (.+?);"),
    ("AUTH_MIN_LEN", "net/ip_auth_header.rs", r"pub const MIN_LEN: usize = (.+?);"),
    ("AUTH_MAX_LEN", "net/ip_auth_header.rs", r"pub const MAX_LEN: usize = (.+?);"),
    ("FRAG_LEN", "net/ipv6_fragment_header.rs", r"pub const LEN: usize = (.+?);"),
    ("ICMPV4_MIN_LEN", "transport/icmpv4_header.rs", r"pub const MIN_LEN: usize = (.+?);"),
    ("ICMPV6_MIN_LEN", "transport/icmpv6_header.rs", r"pub const MIN_LEN: usize = (.+?);"),
    ("ICMPV4_TYPE_TIMESTAMP", "transport/icmpv4/mod.rs", r"pub const TYPE_TIMESTAMP: u8 = (.+?);"),
    ("ICMPV4_TYPE_TIMESTAMP_REPLY", "transport/icmpv4/mod.rs", r"pub const TYPE_TIMESTAMP_REPLY: u8 = (.+?);"),
    ("ICMPV4_TIMESTAMP_LEN", "transport/icmpv4/timestamp_message.rs", r"pub const LEN: usize = (.+?);"),
    ("ARPHRD_ETHERNET", "net/arp_hardware_id.rs", r"pub const ETHERNET: ArpHardwareId = Self\((.+?)\);"),
    ("ARPHRD_FRAD", "net/arp_hardware_id.rs", r"pub const FRAD: ArpHardwareId = Self\((.+?)\);"),
    ("ARPHRD_IPGRE", "net/arp_hardware_id.rs", r"pub const IPGRE: ArpHardwareId = Self\((.+?)\);"),
    ("ARPHRD_RADIOTAP", "net/arp_hardware_id.rs", r"pub const IEEE80211_RADIOTAP: ArpHardwareId = Self\((.+?)\);"),
    ("ARPHRD_NETLINK", "net/arp_hardware_id.rs", r"pub const NETLINK: ArpHardwareId = Self\((.+?)\);"),
    ("SLL_PACKET_TYPE_MAX", "link/linux_sll_packet_type.rs", r"const MAX_VAL: u16 = (.+?);"),
    ("TCP_OPTIONS_MAX_LEN", "transport/tcp_options.rs", r"pub const MAX_LEN: usize = (.+?);"),
    ("IP_DEFRAG_MAX", "defrag/ip_defrag_buf.rs", r"MAX_PAYLOAD_LEN: (?:usize|u16|u32) = (.+?);"),
]
OPTIONAL = {"IP_DEFRAG_MAX", "TCP_OPTIONS_MAX_LEN", "SLL_PACKET_TYPE_MAX"}


def ev(expr):
    e = expr.strip().replace("_", "")
    e = re.sub(r"\s+as\s+\w+", "", e)
    e = e.replace("u32::MAX", "4294967295").replace("u16::MAX", "65535").replace("u8::MAX", "255")
    if not re.fullmatch(r"[0-9a-fA-FxXbB+*()\-\s/]+", e):
        raise ValueError("cannot evaluate %r" % expr)
    return int(eval(e, {"__builtins__": {}}, {}))


def main():
    lines = ["(* GENERATED by tools/gen_consts.py from the crate's working tree -- do not edit, not committed *)",
             "From Coq Require Import NArith.", "Open Scope N_scope.", ""]
    missing = []
    for name, rel, rx in TABLE:
        path = os.path.join(SRC, rel)
        val = None
        if os.path.exists(path):
            m = re.search(rx, open(path).read())
            if m:
                try:
                    val = ev(m.group(1))
                except Exception:
                    val = None
        if val is None:
            if name in OPTIONAL:
                continue
            missing.append("%s (%s)" % (name, rel))
            continue
        lines.append("Definition %s : N := %d." % (name, val))
    text = "\n".join(lines) + "\n"
    os.makedirs(os.path.dirname(OUT), exist_ok=True)
    if not os.path.exists(OUT) or open(OUT).read() != text:
        tmp = OUT + ".tmp.%d" % os.getpid()
        with open(tmp, "w") as f:
            f.write(text)
        os.replace(tmp, OUT)      # atomic: a concurrent coqc never sees a truncated file
    if missing:
        print("gen_consts: could not extract: " + ", ".join(missing))
        return 1
    return 0


if __name__ == "__main__":
    sys.exit(main())
