#!/usr/bin/env python3
import glob
import importlib
import os
import sys

sys.path.insert(0, os.path.dirname(os.path.abspath(__file__)))
import vlib  # noqa: E402


def main():
    ok, out = vlib.gen_consts()
    if not ok:
        print(out)
        return 1
    ok, out = vlib.coq_build("all", timeout=3400)
    print(out[-3000:])
    if not ok:
        print("coq build failed")
        return 1
    rc = 0
    for f in sorted(glob.glob(os.path.join(vlib.ROOT, "tools", "props", "c*.py"))):
        P = importlib.import_module("props." + os.path.basename(f)[:-3])
        ok, out = vlib.ocaml_build(P.EXTRACT, P.MLMOD, P.RUNNER)
        print("ocaml", P.ID, "ok" if ok else "FAILED\n" + out[-2000:])
        rc |= 0 if ok else 1
    for prof in ("debug", "release"):
        ok, out, exe = vlib.harness_build(prof)
        print("harness", prof, "ok" if ok else "FAILED\n" + out[-3000:])
        rc |= 0 if ok else 1
    return rc


if __name__ == "__main__":
    sys.exit(main())
