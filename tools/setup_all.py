#!/usr/bin/env python3
import glob
import importlib
import os
import sys

sys.path.insert(0, os.path.dirname(os.path.abspath(__file__)))
import vlib  # noqa: E402


def main():
    with vlib.Lock("coq"):
        ok, out = vlib.gen_consts()
    if not ok:
        print(out)
        return 1
    import json
    man = json.load(open(os.path.join(vlib.ROOT, "MANIFEST.json")))
    ids = [c["property_id"] for c in man["checks"]]
    rc = 0
    # only what the registered checks need (work in progress must not break setup)
    targets = " ".join("theories/Props/%s.vo" % i for i in ids)
    ok, out = vlib.coq_build(targets, timeout=3400)
    print(out[-3000:])
    if not ok:
        print("coq build failed")
        rc = 1
    for i in ids:
        P = importlib.import_module("props." + i.lower())
        if getattr(P, "RUNNER", None) is not None:
            ok, out = vlib.ocaml_build(P.EXTRACT, P.MLMOD, P.RUNNER)
            print("ocaml", P.ID, "ok" if ok else "FAILED\n" + out[-2000:])
            rc |= 0 if ok else 1
        for prof in ("debug", "release"):
            ok, out, exe = vlib.harness_build(P.HARNESS_BIN, prof, hooks=getattr(P, "HOOKS", False))
            print("harness", P.ID, prof, "ok" if ok else "FAILED\n" + out[-3000:])
            rc |= 0 if ok else 1
    return rc


if __name__ == "__main__":
    sys.exit(main())
