#!/usr/bin/env python3
"""tools/refactor_verify.py <out_dir> <tag> <n>:<check,check,...> ...

Behaviour-preserving refactors delivered by independent sub-agents (the crate's suite passes, no public
behaviour changes): applies each to a scratch worktree of /repo HEAD and runs the named checks against it.
A check that reports a VIOLATION on such a tree is a false alarm of ours.  Records under
/verif/seeded/refactors/<tag>_<n>/ (patch.diff, meta.json)."""
import hashlib, json, os, shutil, subprocess, sys, time
ROOT = os.path.dirname(os.path.dirname(os.path.abspath(__file__)))


def sh(cmd, cwd=None, env=None, timeout=3600):
    e = dict(os.environ); e["CARGO_NET_OFFLINE"] = "true"
    if env: e.update(env)
    p = subprocess.run(cmd, cwd=cwd, shell=True, env=e, timeout=timeout, stdout=subprocess.PIPE, stderr=subprocess.STDOUT, text=True)
    return p.returncode, p.stdout


def main():
    src, tag = sys.argv[1], sys.argv[2]
    for spec in sys.argv[3:]:
        n, checks = spec.split(":")
        d = os.path.join(src, n)
        wt = "/tmp/rv_%s_%s" % (tag, n)
        sh("git -C /repo worktree remove --force %s" % wt)
        sh("git -C /repo worktree add --detach %s" % wt)
        rec = {"checks": {}}
        try:
            rc, out = sh("git apply %s" % os.path.join(d, "patch.diff"), cwd=wt)
            rec["patch_applies"] = rc == 0
            rc, out = sh("cargo test --workspace --offline --no-fail-fast 2>&1 | grep -E '^test result|FAILED|failed|^error'", cwd=wt)
            rec["suite_passes"] = out.count("test result: ok") >= 4 and "FAILED" not in out and "error" not in out
            for cid in checks.split(","):
                t = time.time()
                rc, out = sh("./check %s" % cid, cwd=ROOT, env={"VERIF_REPO": wt})
                viol = [l for l in out.split("\n") if l.startswith("VIOLATION")]
                why = ""
                rp = os.path.join(ROOT, "replays", "%s_violation.json" % cid)
                if viol and os.path.exists(rp):
                    try:
                        j = json.load(open(rp)); why = (j.get("kind", "") + ": " + str(j.get("case", ""))[:200] + " -- " + str(j.get("why", ""))[:400])
                    except Exception:
                        pass
                rec["checks"][cid] = {"exit": rc, "violation": viol[0] if viol else None, "replay": why, "seconds": round(time.time() - t, 1),
                                      "last": out.strip().split("\n")[-1][:200]}
        finally:
            sh("git -C /repo worktree remove --force %s" % wt)
            shutil.rmtree(os.path.join(ROOT, "build", "h_" + hashlib.sha1(wt.encode()).hexdigest()[:10]), ignore_errors=True)
        dst = os.path.join(ROOT, "seeded", "refactors", "%s_%s" % (tag, n))
        os.makedirs(dst, exist_ok=True)
        shutil.copy(os.path.join(d, "patch.diff"), dst)
        meta = {}
        try: meta = json.load(open(os.path.join(d, "meta.json")))
        except Exception: pass
        meta["orchestrator_verification"] = rec
        json.dump(meta, open(os.path.join(dst, "meta.json"), "w"), indent=1)
        print("%s_%s" % (tag, n), "applies" if rec.get("patch_applies") else "NO-APPLY", "suite-ok" if rec.get("suite_passes") else "SUITE-FAIL",
              {k: ("ALARM " + (v["violation"] or "")) if v["violation"] else "quiet" for k, v in rec["checks"].items()}, flush=True)
    sh("python3 -c \"import sys; sys.path.insert(0,'tools'); import vlib\nwith vlib.Lock('coq'): vlib.gen_consts()\"", cwd=ROOT)


if __name__ == "__main__":
    main()
