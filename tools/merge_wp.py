#!/usr/bin/env python3
"""tools/merge_wp.py <wp dir> <base commit> [--apply]
Merges the work of a round-3 agent (a private copy of /verif) back: new files are copied,
marker blocks `(* ==== round3 <name> begin/end ==== *)` appended to Props files are appended
to /verif's Props files, other changed files are copied when /verif's copy is still the base
version and reported otherwise."""
import os
import re
import subprocess
import sys

ROOT = os.path.dirname(os.path.dirname(os.path.abspath(__file__)))
SKIP_DIRS = ("build", "run", "replays", "evidence", "ocaml/gen", "ocaml/bin", "ocaml/_build", "seeded", ".git", ".cache")
SKIP_EXT = (".vo", ".vos", ".vok", ".glob", ".aux", ".cmi", ".cmx", ".o", ".pyc", ".lock")


def base_content(commit, rel):
    p = subprocess.run(["git", "-C", ROOT, "show", "%s:%s" % (commit, rel)], stdout=subprocess.PIPE, stderr=subprocess.DEVNULL)
    return p.stdout if p.returncode == 0 else None


def main():
    wp, base = sys.argv[1].rstrip("/"), sys.argv[2]
    apply = "--apply" in sys.argv
    new, changed, manual, blocks = [], [], [], []
    for d, dirs, fs in os.walk(wp):
        rel_d = os.path.relpath(d, wp)
        if any(rel_d == s or rel_d.startswith(s + "/") for s in SKIP_DIRS):
            dirs[:] = []
            continue
        for f in fs:
            if f.endswith(SKIP_EXT) or f.startswith(".") or f in ("Makefile", "Makefile.conf", "_CoqProject"):
                continue
            rel = os.path.normpath(os.path.join(rel_d, f))
            if rel.startswith("coq/theories/Gen/") or "__pycache__" in rel:
                continue
            src = os.path.join(wp, rel)
            dst = os.path.join(ROOT, rel)
            data = open(src, "rb").read()
            b = base_content(base, rel)
            if b is None:
                if not os.path.exists(dst):
                    new.append(rel)
                elif open(dst, "rb").read() != data:
                    manual.append((rel, "new in wp, but /verif has a different file of that name"))
                continue
            if data == b:
                continue
            if re.match(r"coq/theories/Props/C\d\d\.v$", rel):
                txt = data.decode()
                bl = re.findall(r"\(\* ==== round3 (\w+) begin ==== \*\).*?\(\* ==== round3 \1 end ==== \*\)", txt, re.S)
                found = [m.group(0) for m in re.finditer(r"\(\* ==== round3 (\w+) begin ==== \*\).*?\(\* ==== round3 \1 end ==== \*\)", txt, re.S)]
                # is everything outside the blocks the base?
                rest = txt
                for blk in found:
                    rest = rest.replace(blk, "")
                if rest.strip() != b.decode().strip():
                    manual.append((rel, "Props file changed outside the marker blocks"))
                blocks.append((rel, found))
                continue
            cur = open(dst, "rb").read() if os.path.exists(dst) else None
            if cur == b:
                changed.append(rel)
            elif cur == data:
                pass
            else:
                manual.append((rel, "changed in wp AND in /verif since the base"))
    print("NEW:", *new, sep="\n  ")
    print("CHANGED (copy):", *changed, sep="\n  ")
    print("PROPS BLOCKS:", *["%s: %d block(s)" % (r, len(f)) for r, f in blocks], sep="\n  ")
    print("MANUAL:", *["%s -- %s" % m for m in manual], sep="\n  ")
    if apply:
        for rel in new + changed:
            dst = os.path.join(ROOT, rel)
            os.makedirs(os.path.dirname(dst), exist_ok=True)
            with open(dst, "wb") as f:
                f.write(open(os.path.join(wp, rel), "rb").read())
            if rel == "check" or rel.startswith("tools/") and not rel.endswith(".py"):
                os.chmod(dst, 0o755)
        for rel, found in blocks:
            dst = os.path.join(ROOT, rel)
            cur = open(dst).read()
            for blk in found:
                if blk not in cur:
                    cur = cur.rstrip("\n") + "\n\n" + blk + "\n"
            open(dst, "w").write(cur)
        print("applied")


if __name__ == "__main__":
    main()
