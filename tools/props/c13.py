"""C13: TCP options encode and decode faithfully; iteration is bounded."""
import os

from vlib import hx

ID = "C13"
EXTRACT = "ExtC13.v"
MLMOD = "m_c13"
RUNNER = "run_c13"
HARNESS_BIN = "c13"
RELEASE_ALWAYS = True     # unchecked reads + u8 arithmetic: debug (overflow/debug asserts) and release
RULE = ("raw option areas through TcpOptionsIterator::from_slice: ALL byte strings of length 0..2 (65 793) on every run, "
        "length 3 over an alphabet of interesting bytes (kinds, allowed sizes and their neighbours; 12 letters quick, 24 thorough; thorough also 24 x all 256 size bytes x 24, and length 4 over 12 letters), "
        "structured random areas up to 60 bytes built from valid options, END, truncated options, wrong size bytes, unknown kinds, "
        "every prefix of a few full-length areas; the same areas through TcpOptions::try_from_slice / TcpHeader::set_options_raw "
        "(lengths 0..44); element lists of all six kinds with 0..3 extra SACK blocks (all 8 Some/None masks), extreme values, "
        "required lengths dense around 40, through try_from_elements / TcpHeader::set_options / to_bytes / TcpHeaderSlice. "
        "non-trivial = at least two yielded items, or an error/END after at least one element; distinct = distinct case lines")
ASSUMPTIONS = ["64-bit usize; element lists hold fewer than 2^64/34 elements (required_len does not wrap)"]
PROJECTION = ("every yielded item with all fields, rest() offset+length after every call, rest() after the first None and "
              "after two further calls, error fields, encoded bytes, len(), data_offset(), agreement of the TcpHeader / "
              "TcpHeaderSlice views")

ALLOWED = {2: [4], 3: [3], 4: [2], 5: [10, 18, 26, 34], 8: [10]}
U32 = 0xFFFFFFFF


# ---------------------------------------------------------------------------
# independent (Python) statement of the wire format, used by the oracle
# ---------------------------------------------------------------------------

def be(v, n):
    return v.to_bytes(n, "big")


def parse_el(tok):
    """token -> (kind letter, fields); SACK: (first, [slot, slot, slot])"""
    k = tok[0]
    if k in "NP":
        return (k,)
    a = tok[2:]
    if k in "MW":
        return (k, int(a))
    if k == "T":
        x, y = a.split("-")
        return (k, int(x), int(y))
    if k == "S":
        p = a.split(",")
        sl = [None if s == "-" else tuple(int(z) for z in s.split("-")) for s in p]
        return (k, sl[0], sl[1:])
    raise ValueError(tok)


def el_tok(e):
    k = e[0]
    if k in "NP":
        return k
    if k in "MW":
        return "%s:%d" % (k, e[1])
    if k == "T":
        return "T:%d-%d" % (e[1], e[2])
    return "S:%d-%d," % e[1] + ",".join("-" if s is None else "%d-%d" % s for s in e[2])


def compact(e):
    if e[0] != "S":
        return e
    somes = [s for s in e[2] if s is not None]
    return ("S", e[1], somes + [None] * (3 - len(somes)))


def has_hole(e):
    if e[0] != "S":
        return False
    seen_none = False
    for s in e[2]:
        if s is None:
            seen_none = True
        elif seen_none:
            return True
    return False


def py_wire(e):
    k = e[0]
    if k == "N":
        return b"\x01"
    if k == "M":
        return b"\x02\x04" + be(e[1], 2)
    if k == "W":
        return b"\x03\x03" + be(e[1], 1)
    if k == "P":
        return b"\x04\x02"
    if k == "T":
        return b"\x08\x0a" + be(e[1], 4) + be(e[2], 4)
    blocks = [e[1]] + [s for s in e[2] if s is not None]
    return bytes([5, 2 + 8 * len(blocks)]) + b"".join(be(a, 4) + be(b, 4) for a, b in blocks)


def pad4(n):
    return (n + 3) // 4 * 4


def check_iter(area, toks):
    """the relations of C13 on one printed iteration; returns None or a reason"""
    n = len(area)
    pos = 0
    i = 0
    count = 0
    errored = False
    while i < len(toks) and not toks[i].startswith("end@"):
        t = toks[i]
        if t == "RUNAWAY":
            return "iterator did not stop within len+2 calls"
        if "@" not in t:
            return "unparsable item " + t
        it, rest = t.rsplit("@", 1)
        if errored:
            return "item after an error: " + t
        count += 1
        if it.startswith("E:"):
            errored = True
            f = it.split(":")
            left = n - pos
            if left == 0:
                return "error on an empty rest"
            k = area[pos]
            if f[1] == "unk":
                if int(f[2]) != k or k in (0, 1) or k in ALLOWED:
                    return "UnknownId(%s) but the kind byte is %d" % (f[2], k)
            elif f[1] == "size":
                if int(f[2]) != k or left < 2 or int(f[3]) != area[pos + 1] or k not in ALLOWED or area[pos + 1] in ALLOWED[k]:
                    return "UnexpectedSize%s does not describe bytes %s" % (f[2:], area[pos:pos + 2].hex())
            elif f[1] == "eos":
                kk, e, a = int(f[2]), int(f[3]), int(f[4])
                ok = kk == k and a == left and a < e and k in ALLOWED and (
                    ALLOWED[k] == [e] or (left >= 2 and area[pos + 1] == e and e in ALLOWED[k]) or (e == 2 and left < 2))
                if not ok:
                    return "UnexpectedEndOfSlice%s does not describe the %d bytes left (%s)" % (f[2:], left, area[pos:pos + 2].hex())
            else:
                return "unknown error " + it
            if rest != "%d+0" % n:
                return "rest() after an error is %s, not empty at the end" % rest
        else:
            e = parse_el(it)
            if has_hole(e):
                return "decoded SACK element with a hole: " + it
            w = py_wire(e)
            if area[pos:pos + len(w)] != w:
                return "element %s does not encode to the consumed bytes %s at offset %d" % (it, area[pos:pos + len(w)].hex(), pos)
            pos += len(w)
            if rest != "%d+%d" % (pos, n - pos):
                return "rest() after %s is %s, expected %d+%d (gap/overlap)" % (it, rest, pos, n - pos)
        i += 1
    if i >= len(toks):
        return "no end marker"
    if count > n:
        return "more items than bytes"
    if not errored and not (pos == n or area[pos] == 0):
        return "iteration stopped at offset %d although byte %d is neither END nor the end" % (pos, area[pos])
    want_tail = ["end@%d+0" % n, "x:none", "x:none", "last@%d+0" % n]
    if toks[i:] != want_tail:
        return "not exhausted after the end: %s" % " ".join(toks[i:])
    return None


def oracle(case, line):
    """C13 relations between the input and the implementation's answer"""
    if line.startswith(("PANIC", "CRASH", "NOT-RUN", "MIXED")):
        return line
    parts = case.split()
    toks = line.split()
    if parts[0] == "raw":
        area = b"" if parts[1] == "-" else bytes.fromhex(parts[1])
        return check_iter(area, toks)
    if parts[0] == "hraw":
        content = b"" if parts[1] == "-" else bytes.fromhex(parts[1])
        required = len(content)
        want_items = None
    else:
        els = [parse_el(t) for t in parts[1:]]
        content = b"".join(py_wire(e) for e in els)
        required = sum({"N": 1, "M": 4, "W": 3, "P": 2, "T": 10}.get(e[0], 0) if e[0] != "S"
                       else 10 + 8 * sum(1 for s in e[2] if s is not None) for e in els)
        if required != len(content):
            return "oracle self check: required %d wire %d" % (required, len(content))
        want_items = [el_tok(compact(e)) for e in els]
    if required > 40:
        if line != "err nes=%d" % required:
            return "%d bytes needed: expected NotEnoughSpace(%d), got %s" % (required, required, line[:80])
        return None
    if toks[0] != "ok" or len(toks) < 5:
        return "%d bytes needed, fits, but: %s" % (required, line[:80])
    full = content + bytes(pad4(required) - required)
    if toks[1] != "len=%d" % pad4(required):
        return "len is %s, expected %d" % (toks[1], pad4(required))
    if toks[2] != "do=%d" % (5 + pad4(required) // 4):
        return "data offset %s, expected %d" % (toks[2], 5 + pad4(required) // 4)
    if toks[3] != "bytes=" + hx(full):
        return "encoded %s, expected %s" % (toks[3], hx(full))
    if toks[4] != "hdr=same":
        return "TcpHeader / TcpHeaderSlice view differs from TcpOptions"
    r = check_iter(full, toks[5:])
    if r:
        return r
    if want_items is not None:
        got = [t.rsplit("@", 1)[0] for t in toks[5:] if "@" in t and not t.startswith(("end@", "last@"))]
        if got != want_items:
            return "decoded %s, expected the (compacted) elements %s" % (got, want_items)
    return None


# ---------------------------------------------------------------------------
# generators
# ---------------------------------------------------------------------------

def _u32(rng):
    k = rng.below(6)
    if k == 0:
        return 0
    if k == 1:
        return U32
    if k == 2:
        return rng.below(256)
    if k == 3:
        return 1 << rng.below(32)
    return rng.next() & U32


def _sack(rng, mask=None):
    if mask is None:
        mask = rng.below(8)
    return ("S", (_u32(rng), _u32(rng)), [(_u32(rng), _u32(rng)) if mask >> i & 1 else None for i in range(3)])


def _element(rng):
    k = rng.below(8)
    if k == 0:
        return ("N",)
    if k == 1:
        return ("M", rng.choice([0, 65535, 1460, 536, rng.below(65536)]))
    if k == 2:
        return ("W", rng.choice([0, 255, 14, rng.below(256)]))
    if k == 3:
        return ("P",)
    if k == 4:
        return ("T", _u32(rng), _u32(rng))
    return _sack(rng)


def _size(e):
    return len(py_wire(e))


def _els_case(els):
    return "els " + " ".join(el_tok(e) for e in els) if els else "els"


def _valid_option(rng):
    return py_wire(compact(_element(rng)))


UNKNOWN_KINDS = [6, 7, 9, 10, 11, 18, 19, 28, 29, 30, 34, 69, 127, 128, 253, 254, 255]


def _bad_option(rng):
    """one malformed / unknown option"""
    k = rng.below(7)
    if k == 0:      # truncated valid option (only meaningful at the end; elsewhere the next bytes get swallowed)
        w = _valid_option(rng)
        return w[:rng.below(len(w))] if len(w) > 1 else w
    if k == 1:      # wrong size byte for a fixed size kind
        kind = rng.choice([2, 3, 4, 8])
        good = ALLOWED[kind][0]
        s = rng.choice([good - 1, good + 1, 0, 1, 2, 255, 10, 4, 3, rng.below(256)])
        return bytes([kind, s]) + rng.bytes(rng.below(12))
    if k == 2:      # SACK with a size that is not 10/18/26/34
        s = rng.choice([0, 1, 2, 9, 11, 12, 17, 19, 25, 27, 33, 35, 42, 255, rng.below(256)])
        return bytes([5, s]) + rng.bytes(rng.below(36))
    if k == 3:      # SACK with an allowed size but fewer bytes
        s = rng.choice([10, 18, 26, 34])
        return bytes([5, s]) + rng.bytes(rng.below(s - 1))
    if k == 4:      # unknown kind with a plausible TLV body
        kind = rng.choice(UNKNOWN_KINDS) if rng.chance(2, 3) else rng.range(6, 255)
        if kind == 8:
            kind = 9
        ln = rng.below(10)
        return bytes([kind, ln + 2]) + rng.bytes(ln)
    if k == 5:      # a lone kind byte
        return bytes([rng.choice([2, 3, 4, 5, 8])])
    return rng.bytes(rng.range(1, 6))


def _area(rng, maxlen=60):
    out = bytearray()
    nparts = rng.below(9)
    style = rng.below(10)
    for _ in range(nparts):
        r = rng.below(20)
        if r == 0 and style < 8:
            out += b"\x00"
        elif r <= 2 and style < 7:
            out += _bad_option(rng)
        else:
            out += _valid_option(rng)
    k = rng.below(8)
    if k == 0:
        out += _bad_option(rng)
    elif k == 1:
        out += bytes(rng.below(5))            # END padding
    elif k == 2 and out:
        out = out[:rng.below(len(out) + 1)]   # cut anywhere
    elif k == 3 and out:
        out[rng.below(len(out))] = rng.below(256)   # one corrupted byte
    return bytes(out[:maxlen])


ALPHA_QUICK = [0, 1, 2, 3, 4, 5, 8, 10, 9, 6, 18, 255]
ALPHA_THOROUGH = [0, 1, 2, 3, 4, 5, 6, 7, 8, 9, 10, 11, 17, 18, 19, 26, 27, 33, 34, 35, 40, 127, 128, 255]


def corpus():
    return [
        "raw -",
        "raw 00",
        "raw 0100020405b4",
        "raw 020405b4010303070402080a000000010000000200",
        "raw 050a0000000100000002",
        "raw 0522" + "11" * 32,
        "raw 0522" + "11" * 31,
        "raw 0512" + "11" * 16 + "01",
        "raw 050b0000000100000002",
        "raw 0205b4",
        "raw 020305b400",
        "raw 05",
        "raw 080a00000001",
        "raw 0901",
        "hraw 0101",
        "hraw " + "01" * 40,
        "hraw " + "01" * 41,
        "hraw 020405b401",
        "els",
        "els M:1460 P T:4294967295-7 N W:7 S:1-2,-,3-4,-",
        "els S:1-2,-,-,5-6 S:0-0,-,7-8,9-10",
        "els T:1-2 T:3-4 T:5-6 T:7-8",
        "els T:1-2 T:3-4 T:5-6 T:7-8 N",
        "els S:1-2,3-4,5-6,7-8 M:1 N N",
        "els S:1-2,3-4,5-6,7-8 M:1 N N N",
    ]


def gen_cases(rng, tier):
    big = tier == "thorough"
    cases = []
    # 1. every raw area of length 0, 1, 2
    cases.append("raw -")
    for a in range(256):
        cases.append("raw %02x" % a)
    for a in range(256):
        for b in range(256):
            cases.append("raw %02x%02x" % (a, b))
    # 2. length 3 (and 4 in thorough) over the alphabet of interesting bytes
    alpha = ALPHA_THOROUGH if big else ALPHA_QUICK
    for a in alpha:
        for b in alpha:
            for c in alpha:
                cases.append("raw %02x%02x%02x" % (a, b, c))
    if big:
        for a in ALPHA_QUICK:
            for b in ALPHA_QUICK:
                for c in ALPHA_QUICK:
                    for d in ALPHA_QUICK:
                        cases.append("raw %02x%02x%02x%02x" % (a, b, c, d))
        # kind from the alphabet, EVERY size byte, third byte from the alphabet
        for a in ALPHA_THOROUGH:
            for b in range(256):
                for c in ALPHA_THOROUGH:
                    cases.append("raw %02x%02x%02x" % (a, b, c))
    # 3. every prefix and every single-byte corruption of a few full areas
    fulls = [
        bytes.fromhex("020405b4010303070402080a0000000100000002") + bytes.fromhex("0512") + b"\x11" * 16 + b"\x01\x00",
        bytes.fromhex("0522") + bytes(range(32)) + bytes.fromhex("01010402"),
        bytes.fromhex("051a") + b"\xff" * 24 + bytes.fromhex("080a") + b"\xee" * 8 + bytes.fromhex("03030e01"),
    ]
    for f in fulls:
        for i in range(len(f) + 1):
            cases.append("raw " + hx(f[:i]))
            cases.append("hraw " + hx(f[:i]))
        for i in range(len(f)):
            for v in (0, 1, 5, 8, 10, 34, 255) if not big else range(0, 256, 3):
                g = bytearray(f)
                g[i] = v
                cases.append("raw " + hx(bytes(g)))
    # 4. structured random areas
    for _ in range(400000 if big else 40000):
        cases.append("raw " + hx(_area(rng)))
    for _ in range(40000 if big else 6000):
        cases.append("raw " + hx(rng.bytes(rng.range(3, 12))))
    # 5. raw bytes as header options: all lengths 0..44
    for n in range(0, 45):
        for _ in range(40 if big else 8):
            a = _area(rng, 60)
            a = (a + rng.bytes(n))[:n] if rng.chance(1, 2) else (a + bytes(n))[:n]
            cases.append("hraw " + hx(a))
    for _ in range(60000 if big else 6000):
        cases.append("hraw " + hx(_area(rng, 48)))
    # 6. element lists
    #    every SACK mask alone and in company, extreme values
    for mask in range(8):
        for _ in range(20 if big else 4):
            cases.append(_els_case([_sack(rng, mask)]))
            cases.append(_els_case([_element(rng), _sack(rng, mask), _element(rng)]))
    for v in (0, 1, 255, 256, 65535):
        cases.append(_els_case([("M", v)]))
        cases.append(_els_case([("W", v & 255)]))
        cases.append(_els_case([("T", v, U32 - v)]))
    #    required length dense around the limit: fill up with Noops to hit 36..44 exactly
    for target in range(34, 46):
        for _ in range(200 if big else 25):
            els = []
            tot = 0
            while True:
                e = _element(rng)
                if tot + _size(e) > target:
                    break
                els.append(e)
                tot += _size(e)
            els += [("N",)] * (target - tot)
            # shuffle deterministically
            for i in range(len(els) - 1, 0, -1):
                j = rng.below(i + 1)
                els[i], els[j] = els[j], els[i]
            cases.append(_els_case(els))
    #    free lists
    for _ in range(200000 if big else 20000):
        n = rng.below(7) if rng.chance(4, 5) else rng.below(14)
        cases.append(_els_case([_element(rng) for _ in range(n)]))
    #    long lists (far above 40)
    for n in (41, 64, 100, 300):
        cases.append(_els_case([("N",)] * n))
        cases.append(_els_case([_element(rng) for _ in range(n)]))
    return cases


# ---------------------------------------------------------------------------
# comparison
# ---------------------------------------------------------------------------

def _classify(line):
    if line.startswith("err"):
        return "reject(NotEnoughSpace)"
    toks = line.split()
    items = [t for t in toks if "@" in t and not t.startswith(("end@", "last@"))]
    if items and items[-1].startswith("E:"):
        return "stop:" + items[-1].split(":")[1]
    return "stop:end"


def _blur_error(line):
    return " ".join("E@" + t.rsplit("@", 1)[1] if t.startswith("E:") and "@" in t else t for t in line.split())


def _nontrivial(line):
    toks = line.split()
    items = [t for t in toks if "@" in t and not t.startswith(("end@", "last@"))]
    return len(items) >= 2


def compare(ctx, cases, impl, model_lines):
    corr, orc = [], []
    hist = {"raw": 0, "hraw": 0, "els": 0, "len0-2": 0, "len3-12": 0, "len13-40": 0, "len>40": 0,
            "items0": 0, "items1": 0, "items2-4": 0, "items>=5": 0}
    seen = set()
    nontriv = 0
    first_prof = next(iter(impl)) if impl else None
    for i, c in enumerate(cases):
        parts = c.split()
        hist[parts[0]] += 1
        if parts[0] in ("raw", "hraw"):
            ln = 0 if parts[1] == "-" else len(parts[1]) // 2
        else:
            ln = sum(_size(parse_el(t)) for t in parts[1:])
        hist["len0-2" if ln <= 2 else "len3-12" if ln <= 12 else "len13-40" if ln <= 40 else "len>40"] += 1
        m = s = None
        if model_lines is not None:
            ml = model_lines[i]
            if " | " in ml:
                m, s = ml.split(" | ")
            else:
                m, s = ml, None
        for prof, lines in impl.items():
            il = lines[i]
            if prof == first_prof:
                cls = _classify(il)
                hist[cls] = hist.get(cls, 0) + 1
                ni = len([t for t in il.split() if "@" in t and not t.startswith(("end@", "last@"))])
                hist["items0" if ni == 0 else "items1" if ni == 1 else "items2-4" if ni <= 4 else "items>=5"] += 1
                if c not in seen:
                    seen.add(c)
                    if _nontrivial(il):
                        nontriv += 1
            if m is not None and il != m:
                corr.append((i, "%s: impl '%s' model '%s'" % (prof, il[:300], m[:300])))
            why = oracle(c, il)
            if why is None and s is not None and s != "-" and il != s and _blur_error(il) != _blur_error(s):
                # (which of several truthful errors is reported is not part of the property:
                #  the error itself was checked by oracle(); a different choice than the
                #  model's shows up as a correspondence mismatch)
                why = "differs from the RFC reference decoder/encoder: impl '%s' spec '%s'" % (il[:300], s[:300])
            if why is not None:
                orc.append((i, "%s: %s" % (prof, why), None))
    return {"corr_mismatch": corr, "oracle_fail": orc, "hist": hist, "nontrivial": nontriv,
            "exhaustive": False,
            "extra": {"exhaustive_part": "all raw areas of length 0..2 (65793)"},
            "samples": [cases[0], cases[70000 % len(cases)], cases[len(cases) // 2], cases[-1]]}


# ---------------------------------------------------------------------------
# shrinking of a failing raw / hraw case (oracle as predicate)
# ---------------------------------------------------------------------------

def shrink(ctx, case, why, exes, model_ok):
    import vlib
    parts = case.split()
    if parts[0] not in ("raw", "hraw") or not exes or parts[1] == "-":
        return case, why
    exe = exes.get("debug") or next(iter(exes.values()))
    cur = bytes.fromhex(parts[1])
    cur_why = why
    changed = True
    rounds = 0
    while changed and rounds < 20:
        changed = False
        rounds += 1
        cands = [cur[:i] + cur[i + 1:] for i in range(len(cur))] + [cur[:i] for i in range(len(cur))]
        cands = [c for c in dict.fromkeys(cands) if len(c) < len(cur)]
        if not cands:
            break
        cs = ["%s %s" % (parts[0], hx(c)) for c in cands]
        lines = vlib.run_sharded([exe], cs, ID + "_shrink", nshards=1)
        for c, cl, ln in sorted(zip(cands, cs, lines), key=lambda t: len(t[0])):
            w = oracle(cl, ln)
            if w is not None:
                cur, cur_why, changed = c, "debug: " + w, True
                break
    return "%s %s" % (parts[0], hx(cur)), cur_why
