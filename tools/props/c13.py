"""C13: TCP options encode and decode faithfully; iteration is bounded."""
import os

from vlib import hx

ID = "C13"
EXTRACT = "ExtC13.v"
MLMOD = "m_c13"
RUNNER = "run_c13"
HARNESS_BIN = "c13"
RELEASE_ALWAYS = True     # unchecked reads + u8 arithmetic: debug (overflow/debug asserts) and release
RULE = ("raw option areas through TcpOptionsIterator::from_slice: ALL byte strings of length 0..2 (65 793) on every run, "
        "length 3: every first byte (256) x an alphabet of interesting bytes squared (kinds, allowed sizes and their neighbours, extremes; "
        "12 letters quick = 36 864 areas; thorough 64 letters = 1 048 576 areas, plus 24 x all 256 size bytes x 24), "
        "length 4 over 20 letters in thorough (160 000), "
        "structured random areas up to 60 bytes built from valid options, END, truncated options, wrong size bytes, unknown kinds, "
        "every prefix of a few full-length areas; the same areas through TcpOptions::try_from_slice / TcpHeader::set_options_raw "
        "(lengths 0..44); element lists of all six kinds with 0..3 extra SACK blocks (all 8 Some/None masks), extreme values, "
        "required lengths dense around 40, through try_from_elements / TcpHeader::set_options / to_bytes / TcpHeaderSlice. "
        "header level (hdr): a TcpHeader with random / extreme field values and flags, then 1..4 operations set_options(elements) / "
        "set_options_raw(bytes) in sequence (grow, shrink, reject in between; ALL pairs of raw lengths 0..44 x 0..44 with non-zero bytes; "
        "element lists with required length dense around 40), after every operation the header, its to_bytes, and to_bytes + payload "
        "through TcpHeaderSlice, TcpSlice, TcpHeader::from_slice and read; wire level (wire): arbitrary TCP header bytes with every "
        "data offset 0..15, random reserved bits, structured / malformed option areas, payload behind, cut at every boundary, through "
        "the same four readers. "
        "non-trivial = at least two yielded items, or an error/END after at least one element; distinct = distinct case lines")
ASSUMPTIONS = ["64-bit usize; element lists hold fewer than 2^64/34 elements (required_len does not wrap)"]
PROJECTION = ("every yielded item with all fields, rest() offset+length after every call, rest() after the first None and "
              "after two further calls, error fields, encoded bytes, len(), data_offset(); header level: result of every "
              "set_options / set_options_raw, data_offset(), header_len(), options area, to_bytes() byte for byte, windows "
              "(offset+length) of TcpHeaderSlice::slice / options, TcpSlice::header_slice / payload / options, rest of from_slice, "
              "reader position of read, decoded header == original, and the full iteration of all four option iterators")

ALLOWED = {2: [4], 3: [3], 4: [2], 5: [10, 18, 26, 34], 8: [10]}
U32 = 0xFFFFFFFF


# ---------------------------------------------------------------------------
# independent (Python) statement of the wire format, used by the oracle
# ---------------------------------------------------------------------------

def be(v, n):
    return v.to_bytes(n, "big")


def parse_el(tok):
    """token -> (kind letter, fields); SACK: (first, [slot, slot, slot])"""
    k = tok[0]
    if k in "NP":
        return (k,)
    a = tok[2:]
    if k in "MW":
        return (k, int(a))
    if k == "T":
        x, y = a.split("-")
        return (k, int(x), int(y))
    if k == "S":
        p = a.split(",")
        sl = [None if s == "-" else tuple(int(z) for z in s.split("-")) for s in p]
        return (k, sl[0], sl[1:])
    raise ValueError(tok)


def el_tok(e):
    k = e[0]
    if k in "NP":
        return k
    if k in "MW":
        return "%s:%d" % (k, e[1])
    if k == "T":
        return "T:%d-%d" % (e[1], e[2])
    return "S:%d-%d," % e[1] + ",".join("-" if s is None else "%d-%d" % s for s in e[2])


def compact(e):
    if e[0] != "S":
        return e
    somes = [s for s in e[2] if s is not None]
    return ("S", e[1], somes + [None] * (3 - len(somes)))


def has_hole(e):
    if e[0] != "S":
        return False
    seen_none = False
    for s in e[2]:
        if s is None:
            seen_none = True
        elif seen_none:
            return True
    return False


def py_wire(e):
    k = e[0]
    if k == "N":
        return b"\x01"
    if k == "M":
        return b"\x02\x04" + be(e[1], 2)
    if k == "W":
        return b"\x03\x03" + be(e[1], 1)
    if k == "P":
        return b"\x04\x02"
    if k == "T":
        return b"\x08\x0a" + be(e[1], 4) + be(e[2], 4)
    blocks = [e[1]] + [s for s in e[2] if s is not None]
    return bytes([5, 2 + 8 * len(blocks)]) + b"".join(be(a, 4) + be(b, 4) for a, b in blocks)


def pad4(n):
    return (n + 3) // 4 * 4


def check_iter(area, toks):
    """the relations of C13 on one printed iteration; returns None or a reason"""
    n = len(area)
    pos = 0
    i = 0
    count = 0
    errored = False
    while i < len(toks) and not toks[i].startswith("end@"):
        t = toks[i]
        if t == "RUNAWAY":
            return "iterator did not stop within len+2 calls"
        if "@" not in t:
            return "unparsable item " + t
        it, rest = t.rsplit("@", 1)
        if errored:
            return "item after an error: " + t
        count += 1
        if it.startswith("E:"):
            errored = True
            f = it.split(":")
            left = n - pos
            if left == 0:
                return "error on an empty rest"
            k = area[pos]
            if f[1] == "unk":
                if int(f[2]) != k or k in (0, 1) or k in ALLOWED:
                    return "UnknownId(%s) but the kind byte is %d" % (f[2], k)
            elif f[1] == "size":
                if int(f[2]) != k or left < 2 or int(f[3]) != area[pos + 1] or k not in ALLOWED or area[pos + 1] in ALLOWED[k]:
                    return "UnexpectedSize%s does not describe bytes %s" % (f[2:], area[pos:pos + 2].hex())
            elif f[1] == "eos":
                kk, e, a = int(f[2]), int(f[3]), int(f[4])
                ok = kk == k and a == left and a < e and k in ALLOWED and (
                    ALLOWED[k] == [e] or (left >= 2 and area[pos + 1] == e and e in ALLOWED[k]) or (e == 2 and left < 2))
                if not ok:
                    return "UnexpectedEndOfSlice%s does not describe the %d bytes left (%s)" % (f[2:], left, area[pos:pos + 2].hex())
            else:
                return "unknown error " + it
            if rest != "%d+0" % n:
                return "rest() after an error is %s, not empty at the end" % rest
        else:
            e = parse_el(it)
            if has_hole(e):
                return "decoded SACK element with a hole: " + it
            w = py_wire(e)
            if area[pos:pos + len(w)] != w:
                return "element %s does not encode to the consumed bytes %s at offset %d" % (it, area[pos:pos + len(w)].hex(), pos)
            pos += len(w)
            if rest != "%d+%d" % (pos, n - pos):
                return "rest() after %s is %s, expected %d+%d (gap/overlap)" % (it, rest, pos, n - pos)
        i += 1
    if i >= len(toks):
        return "no end marker"
    if count > n:
        return "more items than bytes"
    if not errored and not (pos == n or area[pos] == 0):
        return "iteration stopped at offset %d although byte %d is neither END nor the end" % (pos, area[pos])
    want_tail = ["end@%d+0" % n, "x:none", "x:none", "last@%d+0" % n]
    if toks[i:] != want_tail:
        return "not exhausted after the end: %s" % " ".join(toks[i:])
    return None



# ---- header level -------------------------------------------------------------

def parse_seg(seg):
    """'res k=v k[ t t ] ...' -> (res, {k: v or [tokens]}); None if malformed"""
    toks = seg.split()
    if not toks:
        return None
    d = {}
    i = 1
    while i < len(toks):
        t = toks[i]
        if t.endswith("["):
            try:
                j = toks.index("]", i)
            except ValueError:
                return None
            d[t[:-1]] = toks[i + 1:j]
            i = j + 1
        elif "=" in t:
            k, v = t.split("=", 1)
            d[k] = v
            i += 1
        else:
            return None
    return toks[0], d


def fixed20(f, doff):
    """RFC 9293 3.1: the 20 fixed octets (f = sp dp seq ack flags win csum urg; flags bit0 = NS/reserved bit 0)"""
    sp, dp, seq, ack, flags, win, csum, urg = f
    return (be(sp, 2) + be(dp, 2) + be(seq, 4) + be(ack, 4) + bytes([(doff << 4) | (flags & 1), (flags >> 1) & 0xFF])
            + be(win, 2) + be(csum, 2) + be(urg, 2))


def views_expect(hl, doff, narea, total, area_txt, it_txt, with_eq):
    """what the four readers must print for a buffer of `total` bytes whose header is hl bytes long"""
    s = ("hs=0+%d hsdo=%d hsopt=20+%d:%s hsit[ %s ] ts=%d tsdo=%d tshs=0+%d tspl=%d+%d tsopt=20+%d:= tsit[ = ] "
         "fs=%d+%d fshl=%d fsdo=%d fsopt== fsit[ = ]" % (hl, doff, narea, area_txt, it_txt, hl, doff, hl, hl, total - hl, narea,
                                                         hl, total - hl, hl, doff))
    if with_eq:
        s += " fseq=eq"
    return s + " rd=%d rdopt== rdeq=eq" % hl


def first_diff(a, b):
    ta, tb = a.split(), b.split()
    for i in range(max(len(ta), len(tb))):
        x = ta[i] if i < len(ta) else "<nothing>"
        y = tb[i] if i < len(tb) else "<nothing>"
        if x != y:
            return "token %d: got '%s', expected '%s'" % (i, x[:120], y[:120])
    return "same tokens, different spacing"


def oracle_hdr(case, line):
    segs = case.split(" / ")
    f = segs[0].split()
    fields = [int(x) for x in f[1:9]]
    payload = b"" if f[9] == "-" else bytes.fromhex(f[9])
    outs = line.split(" ; ")
    if len(outs) != len(segs) - 1:
        return "%d operations but %d results" % (len(segs) - 1, len(outs))
    cur = b""                                   # TcpHeader::new: no options
    for k, (op, out) in enumerate(zip(segs[1:], outs)):
        p = op.split()
        if p[0] == "raw":
            content = b"" if p[1] == "-" else bytes.fromhex(p[1])
            required = len(content)
            want_items = None
        else:
            els = [parse_el(t) for t in p[1:]]
            content = b"".join(py_wire(e) for e in els)
            required = len(content)
            want_items = [el_tok(compact(e)) for e in els]
        if required > 40:
            res = "err:nes=%d" % required      # rejected: the header keeps its options
            want_items = None
        else:
            res = "ok"
            cur = content + bytes(pad4(required) - required)
        ps = parse_seg(out)
        if ps is None or "hit" not in ps[1]:
            return "op %d: unparsable result %s" % (k, out[:120])
        if ps[0] != res:
            return "op %d (%s) needs %d bytes: expected result %s, got %s" % (k, op[:60], required, res, ps[0])
        hit = ps[1]["hit"]
        r = check_iter(cur, hit)
        if r:
            return "op %d (%s): TcpHeader::options_iterator: %s" % (k, op[:60], r)
        if want_items is not None:
            got = [t.rsplit("@", 1)[0] for t in hit if "@" in t and not t.startswith(("end@", "last@"))]
            if got != want_items:
                return "op %d: options_iterator yields %s, expected the (compacted) elements %s" % (k, got, want_items)
        doff = 5 + len(cur) // 4
        hl = 20 + len(cur)
        wire = fixed20(fields, doff) + cur
        exp = "%s do=%d hl=%d area=%s hit[ %s ] bytes=%s %s" % (
            res, doff, hl, hx(cur), " ".join(hit), hx(wire),
            views_expect(hl, doff, len(cur), hl + len(payload), "=", "=", True))
        if out != exp:
            return "op %d (%s) after %s: %s" % (k, op[:60], "; ".join(segs[1:k + 1])[:80] or "-", first_diff(out, exp))
    return None


def oracle_wire(case, line):
    h = case.split()[1]
    bs = b"" if h == "-" else bytes.fromhex(h)
    if len(bs) < 20:
        exp = "hs=ERR:len ts=ERR:len fs=ERR:len rd=ERR:io"
    else:
        doff = bs[12] >> 4
        if doff < 5:
            exp = "hs=ERR:doff:%d ts=ERR:doff:%d fs=ERR:doff:%d rd=ERR:doff:%d" % (doff, doff, doff, doff)
        elif len(bs) < doff * 4:
            exp = "hs=ERR:len ts=ERR:len fs=ERR:len rd=ERR:io"
        else:
            hl = doff * 4
            area = bs[20:hl]
            ps = parse_seg("x " + line)
            if ps is None or "hsit" not in ps[1]:
                return "valid header (data offset %d, %d bytes) but: %s" % (doff, len(bs), line[:120])
            it = ps[1]["hsit"]
            r = check_iter(area, it)
            if r:
                return "TcpHeaderSlice::options_iterator: " + r
            exp = views_expect(hl, doff, len(area), len(bs), hx(area), " ".join(it), False)
    if line != exp:
        return first_diff(line, exp)
    return None


def oracle(case, line):
    """C13 relations between the input and the implementation's answer"""
    if line.startswith(("PANIC", "CRASH", "NOT-RUN", "MIXED")):
        return line
    parts = case.split()
    toks = line.split()
    if parts[0] == "hdr":
        return oracle_hdr(case, line)
    if parts[0] == "wire":
        return oracle_wire(case, line)
    if parts[0] == "raw":
        area = b"" if parts[1] == "-" else bytes.fromhex(parts[1])
        return check_iter(area, toks)
    if parts[0] == "hraw":
        content = b"" if parts[1] == "-" else bytes.fromhex(parts[1])
        required = len(content)
        want_items = None
    else:
        els = [parse_el(t) for t in parts[1:]]
        content = b"".join(py_wire(e) for e in els)
        required = sum({"N": 1, "M": 4, "W": 3, "P": 2, "T": 10}.get(e[0], 0) if e[0] != "S"
                       else 10 + 8 * sum(1 for s in e[2] if s is not None) for e in els)
        if required != len(content):
            return "oracle self check: required %d wire %d" % (required, len(content))
        want_items = [el_tok(compact(e)) for e in els]
    if required > 40:
        if line != "err nes=%d" % required:
            return "%d bytes needed: expected NotEnoughSpace(%d), got %s" % (required, required, line[:80])
        return None
    if toks[0] != "ok" or len(toks) < 5:
        return "%d bytes needed, fits, but: %s" % (required, line[:80])
    full = content + bytes(pad4(required) - required)
    if toks[1] != "len=%d" % pad4(required):
        return "len is %s, expected %d" % (toks[1], pad4(required))
    if toks[2] != "do=%d" % (5 + pad4(required) // 4):
        return "data offset %s, expected %d" % (toks[2], 5 + pad4(required) // 4)
    if toks[3] != "bytes=" + hx(full):
        return "encoded %s, expected %s" % (toks[3], hx(full))
    if toks[4] != "hdr=same":
        return "TcpHeader / TcpHeaderSlice view differs from TcpOptions"
    r = check_iter(full, toks[5:])
    if r:
        return r
    if want_items is not None:
        got = [t.rsplit("@", 1)[0] for t in toks[5:] if "@" in t and not t.startswith(("end@", "last@"))]
        if got != want_items:
            return "decoded %s, expected the (compacted) elements %s" % (got, want_items)
    return None


# ---------------------------------------------------------------------------
# generators
# ---------------------------------------------------------------------------

def _u32(rng):
    k = rng.below(6)
    if k == 0:
        return 0
    if k == 1:
        return U32
    if k == 2:
        return rng.below(256)
    if k == 3:
        return 1 << rng.below(32)
    return rng.next() & U32


def _sack(rng, mask=None):
    if mask is None:
        mask = rng.below(8)
    return ("S", (_u32(rng), _u32(rng)), [(_u32(rng), _u32(rng)) if mask >> i & 1 else None for i in range(3)])


def _element(rng):
    k = rng.below(8)
    if k == 0:
        return ("N",)
    if k == 1:
        return ("M", rng.choice([0, 65535, 1460, 536, rng.below(65536)]))
    if k == 2:
        return ("W", rng.choice([0, 255, 14, rng.below(256)]))
    if k == 3:
        return ("P",)
    if k == 4:
        return ("T", _u32(rng), _u32(rng))
    return _sack(rng)


def _size(e):
    return len(py_wire(e))


def _els_case(els):
    return "els " + " ".join(el_tok(e) for e in els) if els else "els"


def _valid_option(rng):
    return py_wire(compact(_element(rng)))


UNKNOWN_KINDS = [6, 7, 9, 10, 11, 18, 19, 28, 29, 30, 34, 69, 127, 128, 253, 254, 255]


def _bad_option(rng):
    """one malformed / unknown option"""
    k = rng.below(7)
    if k == 0:      # truncated valid option (only meaningful at the end; elsewhere the next bytes get swallowed)
        w = _valid_option(rng)
        return w[:rng.below(len(w))] if len(w) > 1 else w
    if k == 1:      # wrong size byte for a fixed size kind
        kind = rng.choice([2, 3, 4, 8])
        good = ALLOWED[kind][0]
        s = rng.choice([good - 1, good + 1, 0, 1, 2, 255, 10, 4, 3, rng.below(256)])
        return bytes([kind, s]) + rng.bytes(rng.below(12))
    if k == 2:      # SACK with a size that is not 10/18/26/34
        s = rng.choice([0, 1, 2, 9, 11, 12, 17, 19, 25, 27, 33, 35, 42, 255, rng.below(256)])
        return bytes([5, s]) + rng.bytes(rng.below(36))
    if k == 3:      # SACK with an allowed size but fewer bytes
        s = rng.choice([10, 18, 26, 34])
        return bytes([5, s]) + rng.bytes(rng.below(s - 1))
    if k == 4:      # unknown kind with a plausible TLV body
        kind = rng.choice(UNKNOWN_KINDS) if rng.chance(2, 3) else rng.range(6, 255)
        if kind == 8:
            kind = 9
        ln = rng.below(10)
        return bytes([kind, ln + 2]) + rng.bytes(ln)
    if k == 5:      # a lone kind byte
        return bytes([rng.choice([2, 3, 4, 5, 8])])
    return rng.bytes(rng.range(1, 6))


def _area(rng, maxlen=60):
    out = bytearray()
    nparts = rng.below(9)
    style = rng.below(10)
    for _ in range(nparts):
        r = rng.below(20)
        if r == 0 and style < 8:
            out += b"\x00"
        elif r <= 2 and style < 7:
            out += _bad_option(rng)
        else:
            out += _valid_option(rng)
    k = rng.below(8)
    if k == 0:
        out += _bad_option(rng)
    elif k == 1:
        out += bytes(rng.below(5))            # END padding
    elif k == 2 and out:
        out = out[:rng.below(len(out) + 1)]   # cut anywhere
    elif k == 3 and out:
        out[rng.below(len(out))] = rng.below(256)   # one corrupted byte
    return bytes(out[:maxlen])


def _nonzero(rng, n):
    """n bytes, none of them 0 (so that stale bytes would be visible)"""
    return bytes(rng.range(1, 255) for _ in range(n))


def _field(rng, bits):
    k = rng.below(5)
    top = (1 << bits) - 1
    if k == 0:
        return 0
    if k == 1:
        return top
    if k == 2:
        return 1 << rng.below(bits)
    return rng.next() & top


def _hdr_prefix(rng):
    pl = rng.bytes(rng.below(7)) if rng.chance(3, 4) else b""
    return "hdr %d %d %d %d %d %d %d %d %s" % (_field(rng, 16), _field(rng, 16), _field(rng, 32), _field(rng, 32),
                                               rng.below(512), _field(rng, 16), _field(rng, 16), _field(rng, 16), hx(pl))


def _els_of_len(rng, target):
    """element list whose encoding needs exactly `target` bytes"""
    els = []
    tot = 0
    while True:
        e = _element(rng)
        if tot + _size(e) > target:
            break
        els.append(e)
        tot += _size(e)
    els += [("N",)] * (target - tot)
    for i in range(len(els) - 1, 0, -1):
        j = rng.below(i + 1)
        els[i], els[j] = els[j], els[i]
    return els


def _hdr_op(rng):
    k = rng.below(10)
    if k < 4:       # free element list
        n = rng.below(7) if rng.chance(4, 5) else rng.below(14)
        els = [_element(rng) for _ in range(n)]
        return "els " + " ".join(el_tok(e) for e in els) if els else "els"
    if k < 6:       # element list near the limit
        return ("els " + " ".join(el_tok(e) for e in _els_of_len(rng, rng.range(33, 44)))).strip()
    if k < 8:       # raw structured area
        return "raw " + hx(_area(rng, 44))
    if k == 8:      # raw, exact length, non-zero
        return "raw " + hx(_nonzero(rng, rng.below(45)))
    return "raw " + hx(rng.bytes(rng.below(45)))


def _wire(rng, doff):
    """20 fixed bytes with the given data offset (reserved bits random), option area, payload"""
    fixed = bytearray(rng.bytes(20))
    fixed[12] = (doff << 4) | rng.below(16)
    n = max(0, (doff - 5) * 4)
    k = rng.below(4)
    if k == 0:
        area = rng.bytes(n)
    else:
        a = _area(rng, 40)
        area = (a + (bytes(n) if k == 1 else rng.bytes(n)))[:n]
    payload = rng.bytes(rng.below(9)) if rng.chance(2, 3) else b""
    return bytes(fixed) + area + payload


ALPHA_QUICK = [0, 1, 2, 3, 4, 5, 8, 10, 9, 6, 18, 255]
ALPHA_THOROUGH = [0, 1, 2, 3, 4, 5, 6, 7, 8, 9, 10, 11, 17, 18, 19, 26, 27, 33, 34, 35, 40, 127, 128, 255]
# 64 letters: 0..44 (every kind byte 0,1,2,3,4,5,8 and its neighbours, every allowed size 2,3,4,10,18,26,34 with both
# neighbours, every length an option area can have and 41..44) and extreme / bit-pattern values
ALPHA64 = list(range(45)) + [45, 48, 60, 63, 64, 65, 69, 96, 127, 128, 129, 160, 192, 224, 240, 252, 253, 254, 255]
# 20 letters for length 4: all kinds, all allowed sizes, off-by-one sizes, extremes
ALPHA20 = [0, 1, 2, 3, 4, 5, 6, 7, 8, 9, 10, 11, 18, 26, 34, 35, 127, 128, 254, 255]
assert len(set(ALPHA64)) == 64 and len(set(ALPHA20)) == 20


def corpus():
    return [
        "raw -",
        "raw 00",
        "raw 0100020405b4",
        "raw 020405b4010303070402080a000000010000000200",
        "raw 050a0000000100000002",
        "raw 0522" + "11" * 32,
        "raw 0522" + "11" * 31,
        "raw 0512" + "11" * 16 + "01",
        "raw 050b0000000100000002",
        "raw 0205b4",
        "raw 020305b400",
        "raw 05",
        "raw 080a00000001",
        "raw 0901",
        "hraw 0101",
        "hraw " + "01" * 40,
        "hraw " + "01" * 41,
        "hraw 020405b401",
        "els",
        "els M:1460 P T:4294967295-7 N W:7 S:1-2,-,3-4,-",
        "els S:1-2,-,-,5-6 S:0-0,-,7-8,9-10",
        "els T:1-2 T:3-4 T:5-6 T:7-8",
        "els T:1-2 T:3-4 T:5-6 T:7-8 N",
        "els S:1-2,3-4,5-6,7-8 M:1 N N",
        "els S:1-2,3-4,5-6,7-8 M:1 N N N",
        # header level: fill all 40 bytes with 0xff, shrink, reject (header unchanged), raw
        "hdr 1234 80 287454020 4294967295 293 4321 65535 0 aabbcc / raw " + "ff" * 40
        + " / els M:1460 W:7 / els T:1-2 T:3-4 T:5-6 T:7-8 N / raw 0101",
        "hdr 1 2 3 4 0 5 6 7 - / els",
        "hdr 65535 65535 4294967295 4294967295 511 65535 65535 65535 00 / els S:1-2,3-4,5-6,7-8 M:1 N N / els N / raw " + "01" * 41 + " / raw -",
        "hdr 0 0 0 0 1 0 0 0 - / raw " + "ee" * 37 + " / raw 05 / els",
        # wire level: data offset 15 with unknown option + payload; data offset 4; exact; short by one
        "wire 000100020000000300000004f002000500060007080a0000000100000002010109040000" + "00" * 22 + "aabbcc",
        "wire 0001000200000003000000044002000500060007",
        "wire 0001000200000003000000045e02000500060007",
        "wire 000100020000000300000004600200050006000701010100",
        "wire 0001000200000003000000046002000500060007010101",
        "wire 00",
        "wire -",
    ]


def gen_cases(rng, tier):
    big = tier == "thorough"
    cases = []
    # 1. every raw area of length 0, 1, 2
    cases.append("raw -")
    for a in range(256):
        cases.append("raw %02x" % a)
    for a in range(256):
        for b in range(256):
            cases.append("raw %02x%02x" % (a, b))
    # 2. length 3 (and 4 in thorough) over the alphabet of interesting bytes
    #    every first byte x alphabet x alphabet
    alpha = ALPHA64 if big else ALPHA_QUICK
    for a in range(256):
        for b in alpha:
            for c in alpha:
                cases.append("raw %02x%02x%02x" % (a, b, c))
    if big:
        for a in ALPHA20:
            for b in ALPHA20:
                for c in ALPHA20:
                    for d in ALPHA20:
                        cases.append("raw %02x%02x%02x%02x" % (a, b, c, d))
        # kind from the alphabet, EVERY size byte, third byte from the alphabet
        for a in ALPHA_THOROUGH:
            for b in range(256):
                for c in ALPHA_THOROUGH:
                    cases.append("raw %02x%02x%02x" % (a, b, c))
    # 2b. oversized raw areas: every length 41..600 and lengths around 2^16 (the length is narrowed to u8 /
    #     compared with 40 somewhere on every path: wrap-arounds of len mod 256 must still be rejected)
    for n in list(range(41, 601)) + [1023, 1024, 1025, 65535, 65536, 65537, 65576, 65792]:
        cases.append("raw " + hx(_nonzero(rng, n)))
        if n < 300 or n % 256 in (0, 1, 40, 41, 255):
            cases.append("hraw " + hx(_nonzero(rng, n)))
    # 3. every prefix and every single-byte corruption of a few full areas
    fulls = [
        bytes.fromhex("020405b4010303070402080a0000000100000002") + bytes.fromhex("0512") + b"\x11" * 16 + b"\x01\x00",
        bytes.fromhex("0522") + bytes(range(32)) + bytes.fromhex("01010402"),
        bytes.fromhex("051a") + b"\xff" * 24 + bytes.fromhex("080a") + b"\xee" * 8 + bytes.fromhex("03030e01"),
    ]
    for f in fulls:
        for i in range(len(f) + 1):
            cases.append("raw " + hx(f[:i]))
            cases.append("hraw " + hx(f[:i]))
        for i in range(len(f)):
            for v in (0, 1, 5, 8, 10, 34, 255) if not big else range(0, 256, 3):
                g = bytearray(f)
                g[i] = v
                cases.append("raw " + hx(bytes(g)))
    # 4. structured random areas
    for _ in range(400000 if big else 40000):
        cases.append("raw " + hx(_area(rng)))
    for _ in range(40000 if big else 6000):
        cases.append("raw " + hx(rng.bytes(rng.range(3, 12))))
    # 5. raw bytes as header options: all lengths 0..44
    for n in range(0, 45):
        for _ in range(40 if big else 8):
            a = _area(rng, 60)
            a = (a + rng.bytes(n))[:n] if rng.chance(1, 2) else (a + bytes(n))[:n]
            cases.append("hraw " + hx(a))
    for _ in range(60000 if big else 6000):
        cases.append("hraw " + hx(_area(rng, 48)))
    # 6. element lists
    #    every SACK mask alone and in company, extreme values
    for mask in range(8):
        for _ in range(20 if big else 4):
            cases.append(_els_case([_sack(rng, mask)]))
            cases.append(_els_case([_element(rng), _sack(rng, mask), _element(rng)]))
    for v in (0, 1, 255, 256, 65535):
        cases.append(_els_case([("M", v)]))
        cases.append(_els_case([("W", v & 255)]))
        cases.append(_els_case([("T", v, U32 - v)]))
    #    required length dense around the limit: fill up with Noops to hit 36..44 exactly
    for target in range(34, 46):
        for _ in range(200 if big else 25):
            els = []
            tot = 0
            while True:
                e = _element(rng)
                if tot + _size(e) > target:
                    break
                els.append(e)
                tot += _size(e)
            els += [("N",)] * (target - tot)
            # shuffle deterministically
            for i in range(len(els) - 1, 0, -1):
                j = rng.below(i + 1)
                els[i], els[j] = els[j], els[i]
            cases.append(_els_case(els))
    #    free lists
    for _ in range(200000 if big else 20000):
        n = rng.below(7) if rng.chance(4, 5) else rng.below(14)
        cases.append(_els_case([_element(rng) for _ in range(n)]))
    #    long lists (far above 40)
    for n in (41, 64, 100, 300):
        cases.append(_els_case([("N",)] * n))
        cases.append(_els_case([_element(rng) for _ in range(n)]))
    # 7. header level: a header, then set_options / set_options_raw one after the other
    #    ALL pairs of raw lengths (grow / shrink / reject second / reject first), non-zero bytes
    for n1 in range(45):
        for n2 in range(45):
            cases.append("%s / raw %s / raw %s" % (_hdr_prefix(rng), hx(_nonzero(rng, n1)), hx(_nonzero(rng, n2))))
    #    element lists with a required length dense around the limit, before / after something else
    for target in range(30, 46):
        for _ in range(60 if big else 8):
            ops = [_hdr_op(rng), "els " + " ".join(el_tok(e) for e in _els_of_len(rng, target)), _hdr_op(rng)]
            cases.append(_hdr_prefix(rng) + " / " + " / ".join(ops[rng.below(2):]))
    for _ in range(60000 if big else 5000):
        cases.append(_hdr_prefix(rng) + " / " + " / ".join(_hdr_op(rng) for _ in range(rng.range(1, 4))))
    # 8. wire level: arbitrary header bytes through the four readers
    for doff in range(16):
        for cut in (0, 1, 12, 13, 19, 20, 21, doff * 4 - 1, doff * 4, doff * 4 + 1, 59, 60, 61, 64, 70):
            if cut >= 0:
                for _ in range(3):
                    cases.append("wire " + hx(_wire(rng, doff)[:cut]))
    for _ in range(80000 if big else 8000):
        w = _wire(rng, rng.below(16) if rng.chance(1, 3) else rng.range(5, 15))
        if rng.chance(1, 6):
            w = w[:rng.below(len(w) + 1)]
        cases.append("wire " + hx(w))
    return cases


# ---------------------------------------------------------------------------
# comparison
# ---------------------------------------------------------------------------

def _iter_toks(line):
    """the tokens of the (last) fully printed iteration of a line"""
    toks = line.split(" ; ")[-1].split()
    for opener in ("hit[", "hsit["):
        if opener in toks:
            i = toks.index(opener)
            j = toks.index("]", i) if "]" in toks[i:] else len(toks)
            return toks[i + 1:j]
    return toks


def _classify(line):
    if line.startswith("err nes") or line.split(" ; ")[-1].startswith("err:"):
        return "reject(NotEnoughSpace)"
    if line.startswith("hs=ERR"):
        return "reject(header:%s)" % line.split()[0].split(":")[1]
    toks = _iter_toks(line)
    items = [t for t in toks if "@" in t and not t.startswith(("end@", "last@"))]
    if items and items[-1].startswith("E:"):
        return "stop:" + items[-1].split(":")[1]
    return "stop:end"


def _blur_error(line):
    return " ".join("E@" + t.rsplit("@", 1)[1] if t.startswith("E:") and "@" in t else t for t in line.split())


def _nontrivial(line):
    toks = _iter_toks(line)
    items = [t for t in toks if "@" in t and not t.startswith(("end@", "last@"))]
    return len(items) >= 2


def compare(ctx, cases, impl, model_lines):
    corr, orc = [], []
    hist = {"raw": 0, "hraw": 0, "els": 0, "hdr": 0, "wire": 0, "hdr-ops": 0, "hdr-shrink": 0, "hdr-reject": 0,
            "wire-doff<5": 0, "wire-doff5": 0, "wire-doff6-14": 0, "wire-doff15": 0, "wire-short": 0, "len0-2": 0, "len3-12": 0, "len13-40": 0, "len>40": 0,
            "items0": 0, "items1": 0, "items2-4": 0, "items>=5": 0}
    seen = set()
    nontriv = 0
    first_prof = next(iter(impl)) if impl else None
    for i, c in enumerate(cases):
        parts = c.split()
        hist[parts[0]] += 1
        if parts[0] in ("raw", "hraw"):
            ln = 0 if parts[1] == "-" else len(parts[1]) // 2
        elif parts[0] == "hdr":
            ln, prev = 0, 0
            for op in c.split(" / ")[1:]:
                p = op.split()
                n = (0 if p[1] == "-" else len(p[1]) // 2) if p[0] == "raw" else sum(_size(parse_el(t)) for t in p[1:])
                hist["hdr-ops"] += 1
                if n > 40:
                    hist["hdr-reject"] += 1
                else:
                    if pad4(n) < prev:
                        hist["hdr-shrink"] += 1
                    prev = pad4(n)
                ln = max(ln, n)
        elif parts[0] == "wire":
            bs = b"" if parts[1] == "-" else bytes.fromhex(parts[1])
            if len(bs) < 20:
                hist["wire-short"] += 1
                ln = 0
            else:
                d = bs[12] >> 4
                hist["wire-doff<5" if d < 5 else "wire-doff5" if d == 5 else "wire-doff15" if d == 15 else "wire-doff6-14"] += 1
                if len(bs) < d * 4:
                    hist["wire-short"] += 1
                ln = max(0, d * 4 - 20)
        else:
            ln = sum(_size(parse_el(t)) for t in parts[1:])
        hist["len0-2" if ln <= 2 else "len3-12" if ln <= 12 else "len13-40" if ln <= 40 else "len>40"] += 1
        m = s = None
        if model_lines is not None:
            ml = model_lines[i]
            if " | " in ml:
                m, s = ml.split(" | ")
            else:
                m, s = ml, None
        for prof, lines in impl.items():
            il = lines[i]
            if prof == first_prof:
                cls = _classify(il)
                hist[cls] = hist.get(cls, 0) + 1
                ni = len([t for t in _iter_toks(il) if "@" in t and not t.startswith(("end@", "last@"))])
                hist["items0" if ni == 0 else "items1" if ni == 1 else "items2-4" if ni <= 4 else "items>=5"] += 1
                if c not in seen:
                    seen.add(c)
                    if _nontrivial(il):
                        nontriv += 1
            if m is not None and il != m:
                corr.append((i, "%s: impl '%s' model '%s'" % (prof, il[:300], m[:300])))
            why = oracle(c, il)
            if why is None and s is not None and s != "-" and il != s and _blur_error(il) != _blur_error(s):
                # (which of several truthful errors is reported is not part of the property:
                #  the error itself was checked by oracle(); a different choice than the
                #  model's shows up as a correspondence mismatch)
                why = "differs from the RFC reference decoder/encoder: impl '%s' spec '%s'" % (il[:300], s[:300])
            if why is not None:
                orc.append((i, "%s: %s" % (prof, why), None))
    return {"corr_mismatch": corr, "oracle_fail": orc, "hist": hist, "nontrivial": nontriv,
            "exhaustive": False,
            "extra": {"exhaustive_part": "all raw areas of length 0..2 (65793); length 3: all 256 first bytes x alphabet^2 "
                                         "(12 letters quick, 64 letters thorough = 1048576); thorough: length 4 over 20 letters (160000); "
                                         "header level: all 45 x 45 pairs of raw option lengths 0..44"},
            "samples": [cases[0], cases[70000 % len(cases)], cases[len(cases) // 2], cases[-1]]}


# ---------------------------------------------------------------------------
# shrinking of a failing raw / hraw case (oracle as predicate)
# ---------------------------------------------------------------------------

def shrink(ctx, case, why, exes, model_ok):
    import vlib
    parts = case.split()
    if parts[0] not in ("raw", "hraw") or not exes or parts[1] == "-":
        return case, why
    exe = exes.get("debug") or next(iter(exes.values()))
    cur = bytes.fromhex(parts[1])
    cur_why = why
    changed = True
    rounds = 0
    while changed and rounds < 20:
        changed = False
        rounds += 1
        cands = [cur[:i] + cur[i + 1:] for i in range(len(cur))] + [cur[:i] for i in range(len(cur))]
        cands = [c for c in dict.fromkeys(cands) if len(c) < len(cur)]
        if not cands:
            break
        cs = ["%s %s" % (parts[0], hx(c)) for c in cands]
        lines = vlib.run_sharded([exe], cs, ID + "_shrink", nshards=1)
        for c, cl, ln in sorted(zip(cands, cs, lines), key=lambda t: len(t[0])):
            w = oracle(cl, ln)
            if w is not None:
                cur, cur_why, changed = c, "debug: " + w, True
                break
    return "%s %s" % (parts[0], hx(cur)), cur_why
