"""C07: length and content errors describe the real fault (strict entry points; shares model,
runner and harness with C03, compares the complete error records)."""
from props.c03 import *   # noqa: F401,F403
import props.c03 as _c03
import re

ID = "C07"
PROJECTION = "C07: complete error records (required_len, len, len_source, layer, layer_start_offset; content value)"
RULE = (_c03.RULE + "; for C07 a case is non-trivial when it is rejected behind the first header (offset > 0 or a content error of an inner layer)"
        "; second comparison: the LenError of IpHeaders::read (LimitedReader) on every bare-IP case against the reference decoder's error")


def _true_need(data, layer, off, avail, sreq):
    """the largest number of bytes the layer can truthfully be said to require: the reference decoder's number, or -
    when the bytes that carry the header's own length are available - the complete header"""
    need = sreq
    if layer == "Ipv4Header" and avail >= 1 and off < len(data):
        need = max(need, (data[off] & 15) * 4)
    if avail >= 2 and off + 1 < len(data):
        if layer == "Ipv6ExtHeader":
            need = max(need, (data[off + 1] + 1) * 8)
        elif layer == "IpAuthHeader":
            need = max(need, (data[off + 1] + 2) * 4)
    return need


def read_errors_compare(ctx, cases, model_lines):
    """The std::io::Read based decoders report a LenError only through LimitedReader (IpHeaders::read and the
    read_limited functions it calls).  Harness bin c07rd runs IpHeaders::read on a Cursor over every case that starts
    at an IP header; whenever it answers with a length error, the reference decoder (spec part of the runner line for
    SlicedPacket::from_ip on the same bytes) must name the same required_len / len / layer / offset, and the length
    source must be the spec's.  Not compared: IPv6 payload_length 0 (the reader limits the packet to 0 bytes where the
    slice decoders read 'up to the end': the reported record is truthful for that reading; equality with from_slice is
    C06's known finding F15)."""
    idx = [i for i, c in enumerate(cases) if c.split()[0] == "ip" and len(c.split()) > 1 and c.split()[1] != "-"]
    if not idx or model_lines is None:
        return [], {}
    ok, out, exe = vlib.harness_build("c07rd", "debug")
    if not ok:
        return [(0, "c07rd: harness build failed: " + out[-400:], None)], {}
    sub = [cases[i] for i in idx]
    r = vlib.run_sharded([exe], sub, "C07rd_i")
    orc = []
    n_len = 0
    for k, il in zip(idx, r):
        if il.startswith("PANIC") or il.startswith("CRASH"):
            orc.append((k, "IpHeaders::read: " + il, None))
            continue
        if not il.startswith("err len"):
            continue
        data = bytes.fromhex(cases[k].split()[1])
        if len(data) >= 6 and data[0] >> 4 == 6 and data[4] == 0 and data[5] == 0:
            continue
        n_len += 1
        sl = model_lines[k].split(" | ")[1] if " | " in model_lines[k] else None
        if sl is None:
            continue
        if not sl.startswith("err len"):
            orc.append((k, "IpHeaders::read reports '%s' but the wire format prescribes '%s'" % (il, sl), None))
            continue
        i, s = _c03._err_fields(il), _c03._err_fields(sl)
        if s[2] == "slice" and s[3] in ("Ipv4Packet", "Ipv6Packet"):
            # the slice does not hold the announced packet: the slice decoders stop there, a reader cannot know
            # and reports the (equally real) fault it meets inside the announced length
            continue
        # required_len: the reader asks for the 2 length bytes of a generic extension header first, so it may
        # name fewer bytes than the whole header needs - still 'a number of bytes the layer really requires'
        # (len < required <= what the header needs)
        # or, having read them, the complete header where the slice decoder stops at the 8 byte minimum
        need = _true_need(data, s[3], int(s[4]), int(s[1]), int(s[0]))
        req_ok = i[0] == s[0] or (int(i[1]) < int(i[0]) <= need)
        if not req_ok or (i[1], i[3], i[4]) != (s[1], s[3], s[4]):
            orc.append((k, "IpHeaders::read: length error %s but the real fault is %s" % (il, sl), None))
        elif i[2] != s[2]:
            orc.append((k, "IpHeaders::read: len_source %s reported, but the limit of %s bytes comes from %s" % (i[2], i[1], s[2]), None))
    return orc, {"read_runs": len(idx), "read_len_errors_compared": n_len}


_STOP = re.compile(r"stop=(\w+):(len [^\]]*?)\]")


def _lax_stop(part):
    m = _STOP.search(part)
    return (m.group(1), m.group(2).split(" ", 1)[1].split(",")) if m else None


def lax_struct_errors_compare(ctx, cases, model_lines=None):
    """Third comparison: the length stop errors of LaxPacketHeaders (struct family, lax) against those of
    LaxSlicedPacket on the same bytes (harness bin c04 prints both as H=.. / S=..).  The lax slicing records are the
    lax reference decoder's by C05's theorem and C05's own run; struct decoding walks the same bytes up to the point
    where it stops, so a length stop error it reports must be the slicing one: same stop layer, required_len, len,
    layer, offset, and a length source that is the slicing one or `slice`."""
    idx = [i for i, c in enumerate(cases) if c.split()[0] != "sll" and len(c.split()) > 1 and c.split()[1] != "-"]
    if not idx:
        return [], {}
    ok, out, exe = vlib.harness_build("c04", "debug")
    if not ok:
        return [(0, "c04 harness build failed: " + out[-400:], None)], {}
    sub = [cases[i] for i in idx]
    r = vlib.run_sharded([exe], sub, "C07lh_i")
    orc = []
    n = 0
    nh = 0
    for k, il in zip(idx, r):
        # PacketHeaders (strict struct family): its length error against the reference decoder's on the same bytes
        hp0 = il.split(" || ")[0]
        sl0 = model_lines[k].split(" | ")[1] if (model_lines is not None and " | " in model_lines[k]) else None
        if hp0.startswith("err len") and sl0 is not None:
            nh += 1
            data = bytes.fromhex(cases[k].split()[1])
            f = _c03._err_fields(hp0)
            o0 = _c03.oracle(hp0, sl0, True)
            if o0 is None:
                pass
            elif o0[1] is not None:
                orc.append((k, "PacketHeaders: " + o0[0], o0[1]))
            elif sl0.startswith("err len"):
                g = _c03._err_fields(sl0)
                need = _true_need(data, g[3], int(g[4]), int(g[1]), int(g[0]))
                req_ok = f[0] == g[0] or (int(f[1]) < int(f[0]) <= need)
                if not req_ok or (f[1], f[3], f[4]) != (g[1], g[3], g[4]):
                    orc.append((k, "PacketHeaders: length error %s but the real fault is %s" % (hp0, sl0), None))
                elif f[2] != g[2] and f[2] != "slice":
                    orc.append((k, "PacketHeaders: len_source %s reported, but the limit of %s bytes comes from %s" % (f[2], f[1], g[2]), None))
            elif sl0.startswith("err content") and f[3] in ("Ipv4Header", "Ipv6Header", "IpHeader"):
                # first IP header cut short and also unacceptable (F11 family: which of the two is reported
                # depends on the entry point): judge the record against the bytes
                off, ln, req = int(f[4]), int(f[1]), int(f[0])
                floor = {"Ipv4Header": 20, "Ipv6Header": 40, "IpHeader": 1}[f[3]]
                if not (f[2] == "slice" and ln <= len(data) - off and ln < req <= max(floor, _true_need(data, f[3], off, ln, floor))):
                    orc.append((k, "PacketHeaders: length error %s does not describe the bytes (wire format: %s)" % (hp0, sl0), None))
            else:
                orc.append((k, "PacketHeaders reports '%s' but the wire format prescribes '%s'" % (hp0, sl0), None))
        if " lax H=" not in il:
            continue
        lax = il.split(" lax H=", 1)[1]
        hp, _, sp = lax.partition(" S=")
        h, sl = _lax_stop(hp), _lax_stop(sp)
        if h is None:
            continue
        n += 1
        data = bytes.fromhex(cases[k].split()[1])
        if sl is None:
            # lax slicing rejects the same first IP header for its content (it looks at the IHL / version before the
            # length, F11 family): judge the struct family's record directly against the bytes
            hf = h[1]
            off, ln, req = int(hf[4]), int(hf[1]), int(hf[0])
            floor = {"Ipv4Header": 20, "Ipv6Header": 40, "IpHeader": 1}.get(hf[3])
            avail = len(data) - off
            pw = re.search(r"pl=ether\([^)]*?(\d+)\+(\d+)\)", sp)
            if pw and int(pw.group(1)) == off:
                avail = int(pw.group(2))   # the ether payload window lax slicing hands out (MACsec short length)
            if (h[0] == "IpHeader" and floor is not None and hf[2] == "slice" and ln == avail
                    and ln < req <= max(floor, _true_need(data, hf[3], off, ln, floor))):
                continue
            orc.append((k, "LaxPacketHeaders stops with a length error %s,%s that lax slicing of the same bytes does not have (%s)" % (h[0], ",".join(h[1]), sp[:200]), None))
            continue
        hl, hf = h
        ll, lf = sl
        need = _true_need(data, lf[3], int(lf[4]), int(lf[1]), int(lf[0]))
        req_ok = hf[0] == lf[0] or (int(hf[1]) < int(hf[0]) <= need)
        if not req_ok or (hl, hf[1], hf[3], hf[4]) != (ll, lf[1], lf[3], lf[4]):
            orc.append((k, "LaxPacketHeaders stop error %s:%s but the real fault is %s:%s" % (hl, ",".join(hf), ll, ",".join(lf)), None))
        elif hf[2] != lf[2] and hf[2] != "slice":
            orc.append((k, "LaxPacketHeaders stop error: len_source %s reported, but the limit of %s bytes comes from %s" % (hf[2], hf[1], lf[2]), None))
    return orc, {"lax_struct_runs": len(idx), "lax_struct_len_stop_errors_compared": n, "packet_headers_len_errors_compared": nh}


def compare(ctx, cases, impl, model_lines):
    res = _c03.compare(ctx, cases, impl, model_lines, full_errors=True)
    orc, extra = read_errors_compare(ctx, cases, model_lines)
    res["oracle_fail"].extend(orc)
    res.setdefault("extra", {}).update(extra)
    orc, extra = lax_struct_errors_compare(ctx, cases, model_lines)
    res["oracle_fail"].extend(orc)
    res["extra"].update(extra)
    return res
