"""C07: length and content errors describe the real fault (strict entry points; shares model,
runner and harness with C03, compares the complete error records)."""
from props.c03 import *   # noqa: F401,F403
import props.c03 as _c03

ID = "C07"
PROJECTION = "C07: complete error records (required_len, len, len_source, layer, layer_start_offset; content value)"
RULE = (_c03.RULE + "; for C07 a case is non-trivial when it is rejected behind the first header (offset > 0 or a content error of an inner layer)"
        "; second comparison: the LenError of IpHeaders::read (LimitedReader) on every bare-IP case against the reference decoder's error")


def read_errors_compare(ctx, cases, model_lines):
    """The std::io::Read based decoders report a LenError only through LimitedReader (IpHeaders::read and the
    read_limited functions it calls).  Harness bin c07rd runs IpHeaders::read on a Cursor over every case that starts
    at an IP header; whenever it answers with a length error, the reference decoder (spec part of the runner line for
    SlicedPacket::from_ip on the same bytes) must name the same required_len / len / layer / offset, and the length
    source must be the spec's.  Not compared: IPv6 payload_length 0 (the reader limits the packet to 0 bytes where the
    slice decoders read 'up to the end': the reported record is truthful for that reading; equality with from_slice is
    C06's known finding F15)."""
    idx = [i for i, c in enumerate(cases) if c.split()[0] == "ip" and len(c.split()) > 1 and c.split()[1] != "-"]
    if not idx or model_lines is None:
        return [], {}
    ok, out, exe = vlib.harness_build("c07rd", "debug")
    if not ok:
        return [(0, "c07rd: harness build failed: " + out[-400:], None)], {}
    sub = [cases[i] for i in idx]
    r = vlib.run_sharded([exe], sub, "C07rd_i")
    orc = []
    n_len = 0
    for k, il in zip(idx, r):
        if il.startswith("PANIC") or il.startswith("CRASH"):
            orc.append((k, "IpHeaders::read: " + il, None))
            continue
        if not il.startswith("err len"):
            continue
        data = bytes.fromhex(cases[k].split()[1])
        if len(data) >= 6 and data[0] >> 4 == 6 and data[4] == 0 and data[5] == 0:
            continue
        n_len += 1
        sl = model_lines[k].split(" | ")[1] if " | " in model_lines[k] else None
        if sl is None:
            continue
        if not sl.startswith("err len"):
            orc.append((k, "IpHeaders::read reports '%s' but the wire format prescribes '%s'" % (il, sl), None))
            continue
        i, s = _c03._err_fields(il), _c03._err_fields(sl)
        if s[2] == "slice" and s[3] in ("Ipv4Packet", "Ipv6Packet"):
            # the slice does not hold the announced packet: the slice decoders stop there, a reader cannot know
            # and reports the (equally real) fault it meets inside the announced length
            continue
        # required_len: the reader asks for the 2 length bytes of a generic extension header first, so it may
        # name fewer bytes than the whole header needs - still 'a number of bytes the layer really requires'
        # (len < required <= what the header needs)
        # or, having read them, the complete header where the slice decoder stops at the 8 byte minimum
        need = int(s[0])
        off = int(s[4])
        if int(s[1]) >= 2 and off + 1 < len(data):
            if s[3] == "Ipv6ExtHeader":
                need = max(need, (data[off + 1] + 1) * 8)
            elif s[3] == "IpAuthHeader":
                need = max(need, (data[off + 1] + 2) * 4)
        req_ok = i[0] == s[0] or (int(i[1]) < int(i[0]) <= need)
        if not req_ok or (i[1], i[3], i[4]) != (s[1], s[3], s[4]):
            orc.append((k, "IpHeaders::read: length error %s but the real fault is %s" % (il, sl), None))
        elif i[2] != s[2]:
            orc.append((k, "IpHeaders::read: len_source %s reported, but the limit of %s bytes comes from %s" % (i[2], i[1], s[2]), None))
    return orc, {"read_runs": len(idx), "read_len_errors_compared": n_len}


def compare(ctx, cases, impl, model_lines):
    res = _c03.compare(ctx, cases, impl, model_lines, full_errors=True)
    orc, extra = read_errors_compare(ctx, cases, model_lines)
    res["oracle_fail"].extend(orc)
    res.setdefault("extra", {}).update(extra)
    return res
