"""C07: length and content errors describe the real fault (strict entry points; shares model,
runner and harness with C03, compares the complete error records)."""
from props.c03 import *   # noqa: F401,F403
import props.c03 as _c03

ID = "C07"
PROJECTION = "C07: complete error records (required_len, len, len_source, layer, layer_start_offset; content value)"
RULE = _c03.RULE + "; for C07 a case is non-trivial when it is rejected behind the first header (offset > 0 or a content error of an inner layer)"


def compare(ctx, cases, impl, model_lines):
    return _c03.compare(ctx, cases, impl, model_lines, full_errors=True)
