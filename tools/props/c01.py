"""C01: decoding arbitrary bytes never touches memory outside the given slice.
Implementation side: every public decoder + every accessor/iterator/Debug on the result, three
placements (guard pages / poisoned surroundings), debug and release builds, worker processes."""
import os
import pktgen
import vlib
from vlib import hx

ID = "C01"
EXTRACT = None
MLMOD = None
RUNNER = None
HARNESS_BIN = "c01"
RELEASE_ALWAYS = True
RULE = ("byte strings from the structured packet generator (all layer stackings, every length field around its true "
        "value, truncation, trailing bytes, mutations), every prefix of seed packets and noise; each is handed to ALL "
        "public decoders (4 strict + 3 lax slicing entry points x 8 ether types, PacketHeaders/LaxPacketHeaders, every "
        "single-layer *Slice::from_slice(+lax), every header struct from_slice, every read()) and every accessor, "
        "to_header, iterator and Debug/Display of the results, at 3 placements; non-trivial = more than 60 sub-slices "
        "were handed back and checked; distinct = distinct byte strings")
PROJECTION = "no abnormal exit, every returned sub-slice inside the input, rendering independent of placement"
ASSUMPTIONS = ["Rust-level undefined behaviour that does not show as an out-of-window access, a debug precondition "
               "abort or a placement-dependent result (aliasing, provenance, MaybeUninit reads in ArpPacket) is outside "
               "the executable model and only exercised, not decided",
               "the Coq theorems of this check cover the model of the strict slicing path (no failing unchecked "
               "primitive) and the accessor / to_header / to_packet / extension-iterator models of Parse/Access.v for "
               "all strict slice types (C01_accessors_no_oob, C01_windows_inside, C01_single_layer_accessors, "
               "C01_exts_iter_items; C02_accessors_total, C02_*_unwrap, C02_exts_iter_bounded), the same for every "
               "component of every LAX whole-packet result whatever its stop error (Parse/LaxAccess.v: "
               "C01_lax_sliced_wf, C01_lax_accessors_no_oob, C01_lax_windows_inside, C01_lax_exts_iter_items -- the "
               "extension iterator on a chain that was cut --, C01_lax_single_layer_accessors; C02_lax_accessors_total, "
               "C02_lax_exts_iter_bounded) and IpSlice::to_header's expect for strict IP slices "
               "(C02_ip_slice_to_header_expect, via the C04 lockstep lemma); the lax slicers themselves and the "
               "struct decoders: C05/C04; round 3: the packet-level accessors of a STRICT result "
               "(Parse/PacketAccess.v: payload_ether_type / ether_payload / ip_payload / is_ip_payload_fragmented / "
               "vlan / vlan_ids with push_unchecked; C01_strict_packet_accessors_no_oob, "
               "C01_strict_packet_windows_inside, C02_strict_packet_accessors_total), the stored-slice -> iterator "
               "compositions TcpSlice / TcpHeaderSlice -> TcpOptionsIterator and Icmpv6Slice -> payload_slice -> "
               "NdpOptionsIterator (Parse/StoredIter.v on top of the C13 / C17 models; C01_stored_iter_single_layer, "
               "C01_packet_tcp_options_iter, C01_packet_icmp6_payload_slice) and LaxPacketHeaders::from_linux_sll "
               "never Bug (C01_lax_headers_from_linux_sll_no_oob)",
               "the accessor models are hand transliterations; their returned windows are compared with the crate on "
               "every case for the 4 strict and the 3 lax whole-packet entry points (c01acc; lax lines also compare "
               "vlan_ids(); `p` lines: the VALUES and windows of the six packet-level accessors of a strict result), the VALUES of the component accessors (field decoding) are not compared here (field layout is the subject of "
               "C08); IpSlice::to_header is modelled through C04's struct-decoder model (Parse/HdrModel.v) and only "
               "exercised, not compared, by the harness; not modelled: Debug/Display formatting, checksum "
               "calculators beyond their checked sub-slicing, accessors of the "
               "struct-decoder results (PacketHeaders / LaxPacketHeaders), LaxIpSlice built by the single-layer "
               "LaxIpv4Slice/LaxIpv6Slice constructors is covered by theorem only (no separate harness lines)"]
KINDS = ("PANIC", "CRASH", "OUTSIDE", "DIFF", "HANG", "NOT-RUN")
ORACLE_KINDS = ("CRASH", "OUTSIDE", "DIFF", "HANG")      # C02 overrides


def corpus():
    return [
        # F1 witness (LinuxSllHeader::read with packet type > 7)
        "ffff0001" + "00" * 12,
        # F2 witness: lax IPv6, payload length 8, dest-opts next=routing
        "6000000000083c40" + "00" * 32 + "2b00000000000000",
        "0102030405060708090a0b0c08004500001c0000000040110000010203040506070800010002000800aa",
        "-",
        "45",
        "60",
    ]


def gen_cases(rng, tier):
    big = tier == "thorough"
    cases = []
    for _ in range(12000 if not big else 600000):
        ent, data, tag = pktgen.gen_packet(rng)
        cases.append(hx(data))
    n = 0
    while n < (40 if not big else 300):
        ent, data, tag = pktgen.gen_packet(rng)
        if "|" in tag or tag == "noise" or not (20 < len(data) < 120):
            continue
        n += 1
        for i in range(len(data) + 1):
            cases.append(hx(data[:i]))
    # raw TCP option areas (the harness also runs TcpOptionsIterator::from_slice / TcpOptions::try_from_slice on
    # the whole input): every kind x every length byte 0..44, the area ending 0, 1 or 4 bytes early
    for kind in (2, 3, 4, 5, 8):
        for ln in range(0, 45):
            for short in (0, 1, 4):
                for nops in (0, 2):
                    body = rng.bytes(max(0, ln - 2 - short))
                    cases.append(hx(b"\x01" * nops + bytes([kind, ln]) + body))
    for _ in range(300 if not big else 20000):
        cases.append(hx(pktgen.gen_tcp_opts(rng, rng.range(1, 44))))
    # short strings exhaustively biased: every single byte, interesting pairs
    for b in range(256):
        cases.append("%02x" % b)
    return cases


def acc_windows_compare(ctx, cases):
    """extra correspondence (C01 only): every sub-slice stored in a strict or lax whole-packet result or returned
    by an accessor of one of its components -- the window list of the Coq accessor model (Parse/Access.v
    SlicedPacketA.windows, Parse/LaxAccess.v LaxSlicedPacketA.windows + vlan_ids, extracted by ExtC01.v into
    ocaml/run_c01acc) against the crate (harness bin c01acc); the model line also says BUG when any accessor
    run of the model hits Bug"""
    ok, out = vlib.ocaml_build("ExtC01.v", "m_c01", "run_c01acc")
    if not ok:
        return [(0, "c01acc: extraction / model runner build failed: " + out[-400:])], {}
    ok, out, exe = vlib.harness_build("c01acc", "debug")
    if not ok:
        return [(0, "c01acc: harness build failed: " + out[-400:])], {}
    ets = ["et:2048", "et:34525", "et:33024", "et:35045", "et:2054", "et:34984", "et:37120"]
    lines, idx = [], []
    for i, c in enumerate(cases):
        # strict entry points, then (extend-c01b) the three lax ones: LaxSlicedPacketA.windows of
        # Parse/LaxAccess.v (+ vlan_ids) against the crate
        lax = ("leth", "lip", "l" + ets[(i // len(ets)) % len(ets)])
        if getattr(ctx, "tier", "quick") == "thorough":
            lax = (lax[i % 3],)        # thorough tier: 40x the cases, one rotating lax entry point per case
        # round 3: the packet-level accessors of a STRICT result (Parse/PacketAccess.v SlicedPacketPA:
        # payload_ether_type / ether_payload / ip_payload / is_ip_payload_fragmented / vlan / vlan_ids), values
        # and windows, model vs crate
        pk = ("peth", "psll", "pip", "p" + ets[(i // 3) % len(ets)])
        if getattr(ctx, "tier", "quick") == "thorough":
            pk = (pk[i % 4],)
        for e in ("eth", "sll", "ip", ets[i % len(ets)]) + lax + pk:
            lines.append(e + " " + c)
            idx.append(i)
    m = vlib.run_sharded([os.path.join(vlib.OCAML, "bin", "run_c01acc")], lines, "C01acc_m")
    r = vlib.run_sharded([exe], lines, "C01acc_i")
    mism, okc, wins, lax_runs, lax_ok, pk_runs, pk_ok, pk_vlan = [], 0, 0, 0, 0, 0, 0, 0
    for k, (a, b) in enumerate(zip(m, r)):
        lax = lines[k].startswith("l")
        lax_runs += lax
        pkl = lines[k].startswith("p")
        pk_runs += pkl
        if pkl and a == b and a.startswith("ok"):
            pk_ok += 1
            pk_vlan += (" ids= " not in a)
        if a != b:
            mism.append((idx[k], "accessor windows differ for `%s`: model `%s` / crate `%s`" % (lines[k][:120], a[:300], b[:300])))
        elif a.startswith("ok"):
            okc += 1
            wins += a.count("+")
            lax_ok += lax
    return mism, {"accessor_window_runs": len(lines), "accessor_window_runs_accepted": okc,
                  "accessor_windows_equal": wins, "accessor_window_runs_lax": lax_runs,
                  "accessor_window_runs_lax_accepted": lax_ok,
                  "packet_accessor_runs": pk_runs, "packet_accessor_runs_accepted": pk_ok,
                  "packet_accessor_runs_with_vlan_ids": pk_vlan}


def compare(ctx, cases, impl, model_lines, oracle_kinds=None):
    oracle_kinds = oracle_kinds or ORACLE_KINDS
    orc = []
    hist = {}
    seen = set()
    nontriv = 0
    subs = 0
    items = 0
    for i, c in enumerate(cases):
        first = None
        for prof, lines in impl.items():
            il = lines[i]
            kind = il.split()[0] if il else "EMPTY"
            hist[prof + ":" + kind] = hist.get(prof + ":" + kind, 0) + 1
            if kind == "ok":
                f = dict(x.split("=") for x in il.split()[1:])
                if first is None:
                    first = f
                    if c not in seen:
                        seen.add(c)
                        subs += int(f["n"])
                        items += int(f["items"])
                        if int(f["n"]) > 60:
                            nontriv += 1
                elif f["h"] != first["h"]:
                    orc.append((i, "debug and release builds render different results (%s vs %s)" % (first["h"], f["h"]), None))
            elif kind in oracle_kinds or kind in ("EMPTY", "NOT-RUN"):
                orc.append((i, "%s: %s" % (prof, il[:400]), None))
    extra = {"sub_slices_checked": subs, "iterator_items": items}
    mism = []
    if ctx.pid == "C01":
        mism, ex2 = acc_windows_compare(ctx, cases)
        extra.update(ex2)
        extra["model_side"] = ("accessor models Parse/Access.v + Parse/LaxAccess.v: window list of every strict "
                               "(4 entry points) and lax (3 entry points) whole-packet result compared with the crate "
                               "(c01acc); all other decoders: runtime witness only")
    else:
        extra["model_side"] = "none in this check (accessor windows are compared in C01/C03; this check is the runtime witness)"
    return {"corr_mismatch": mism, "oracle_fail": orc, "hist": hist, "nontrivial": nontriv,
            "samples": [cases[2], cases[len(cases) // 2]], "extra": extra}
