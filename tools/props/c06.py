"""C06: equivalent entry points give equivalent answers.

Oracle  = the property's relation between two IMPLEMENTATION answers for the same
          bytes (pairs of entry points), canonicalised: windows shifted (done by
          the harness: pointer offsets relative to the outer buffer), error
          offsets shifted, link layer set aside, the three IP header error enums
          read as the facts they name.
Corr    = implementation vs extracted model, field by field (the model covers:
          SlicedPacket and LaxPacketHeaders families for the whole-packet pairs
          (eth, sll, et4/et6: the model's second answer is the first one COMPUTED
          from from_ether_type by the theorem's shift, so "impl a = model a" and
          "impl b = model b" check the theorem's two sides on the real crate);
          IpSlice/Ipv4Slice/Ipv6Slice, LaxIpSlice/LaxIpv4Slice/LaxIpv6Slice,
          IpHeaders::from_slice/from_ipv4_slice/from_ipv6_slice and their three
          _lax copies for the IP boundary; all 17 read / from_slice pairs)."""
import re
import pktgen
from vlib import hx

ID = "C06"
EXTRACT = "ExtC06.v"
MLMOD = "m_c06"
RUNNER = "run_c06"
HARNESS_BIN = "c06"
RULE = ("case kinds: eth (from_ethernet vs from_ether_type behind the Ethernet II header, 4 families), sll "
        "(from_linux_sll vs from_ether_type behind the 16-byte SLL header: SlicedPacket and LaxPacketHeaders; every "
        "class of SLL header: short / rejected / protocol type not an ether type / ether type), et4/et6 "
        "(from_ether_type(IPv4|IPv6) vs from_ip, 4 families, ether type matching or contradicting the version nibble), "
        "ipb (12 IP boundary implementations + Ipv6Slice::from_slice_lax on the same bytes), rd:<T> (read(Cursor) vs "
        "from_slice, 17 header types); inputs: structured layered packets of tools/pktgen.py with every length field "
        "varied, truncation / trailing bytes / mutation, every prefix of seed packets, enumerated first bytes, noise; "
        "non-trivial = at least one compared pair decoded a header (ok answer) or rejected behind the first byte "
        "(error other than the initial length check); distinct = distinct case lines")
PROJECTION = ("C06: per entry point the canonical line (windows, protocol numbers, flags, length sources, full error "
              "records); read/from_slice outcomes by (ok n | eof | content kind | len record)")
ASSUMPTIONS = [
    "decoded field VALUES of struct headers are compared between implementation answers with the crate's PartialEq "
    "(harness), not against the model (C08/C15 cover the field decoders)",
    "reader = std::io::Cursor over the bytes (no I/O faults; C16 covers faults)",
]

EXT = {0, 43, 44, 51, 60}
TYPES = ["Ethernet2Header", "LinuxSllHeader", "SingleVlanHeader", "MacsecHeader", "Ipv4Header", "Ipv6Header",
         "Ipv4Extensions", "Ipv6Extensions", "IpAuthHeader", "Ipv6RawExtHeader", "Ipv6FragmentHeader", "IpHeaders",
         "ArpPacket", "TcpHeader", "UdpHeader", "Icmpv4Header", "Icmpv6Header"]


def corpus():
    z32 = "00" * 32
    return [
        "eth 0102030405060708090a0b0c08004500001c0000000040110000010203040506070800010002000800aa",
        "eth 0102",
        # Linux SLL start: IPv4/UDP behind it, cut inside UDP; netlink; bad packet type; bad hw; short; VLAN cut
        "sll 00000001000601020304050600000800" + "4500001c0000000040110000010203040506070800010002000800aa",
        "sll 00000001000601020304050600000800" + "4500001c00000000401100000102030405060708000100",
        "sll 0000033800060102030405060000001001020304", "sll 00090001000601020304050600000800aa",
        "sll 00000002000601020304050600000800aa", "sll 000000010006", "sll -",
        "sll 000000010006010203040506000081000005", "sll 00000001000601020304050600000004aabb",
        # IPv4 total_len == header_len / one less / one more (lax struct copies)
        "ipb 450000140000000040110000010203040506070809", "ipb 450000130000000040110000010203040506070809",
        "ipb 450000150000000040110000010203040506070809", "ipb 460000180000000040330000010203040506070801010101",
        "et4 4500001c0000000040110000010203040506070800010002000800aa",
        # F11 witnesses
        "et4 470000000000", "et4 40", "et6 -", "et4 -",
        "ipb 470000000000", "ipb 40", "ipb -",
        "ipb 4500001c0000000040110000010203040506070800010002000800aa",
        # F6 witness (repaired): IPv6 payload length 0, destination options cut short
        "ipb 6000000000003c40" + z32 + "1101",
        "et6 6000000000003c40" + z32 + "1101",
        # F1 witness (repaired): LinuxSllHeader::read validates
        "rd:LinuxSllHeader ffff0001000000000000000000000800",
        "rd:Icmpv4Header 0d00000000000000000000000000000000000000aabb",
        "rd:IpHeaders 6000000000081140" + z32 + "000100020008abcd",
        # F15 candidate: IPv6 payload length 0 in front of an extension header, read vs from_slice
        "rd:IpHeaders 6000000000003c40" + z32 + "11000000000000000001000200080000",
    ]


# ---------------------------------------------------------------------------
# generator
# ---------------------------------------------------------------------------
def _damage(rng, data):
    d = rng.below(10)
    if d < 3 and len(data) > 0:
        return data[:rng.below(len(data) + 1)]
    if d == 3:
        return data + rng.bytes(rng.range(1, 12))
    if d == 4 and len(data) > 0:
        b = bytearray(data)
        for _ in range(rng.range(1, 3)):
            b[rng.below(len(b))] = rng.below(256)
        return bytes(b)
    return data


def _transport(rng, want):
    while True:
        num, tr, tag = pktgen.gen_transport(rng, rng.chance(1, 2))
        if tag == want:
            return tr


def _rd_input(rng, ty):
    """(tag, bytes) mostly-valid input for header type ty"""
    if ty == "Ethernet2Header":
        return ty, rng.bytes(rng.choice([14, 14, 20, rng.below(30)]))
    if ty == "SingleVlanHeader":
        return ty, rng.bytes(rng.choice([4, 4, 8, rng.below(10)]))
    if ty == "LinuxSllHeader":
        pt = rng.choice([0, 1, 4, 7, 7, 8, rng.below(65536)]) if rng.chance(1, 3) else rng.below(8)
        hw = rng.choice([1, 1, 1, 824, 778, 803, 770, 2, rng.below(65536)])
        proto = rng.choice([0x0800, 0x86DD, 1, 4, 9, 10, 0x1C, 0xF5, 0xFA, 0xFB, 0, rng.below(65536)])
        return ty, pktgen.be16(pt) + pktgen.be16(hw) + rng.bytes(10) + pktgen.be16(proto) + rng.bytes(rng.below(6))
    if ty == "MacsecHeader":
        tci = rng.below(256)
        sl = rng.choice([0, 1, 2, 3, 63, rng.below(64)])
        return ty, bytes([tci, (rng.below(4) << 6) | sl]) + rng.bytes(rng.choice([4, 6, 12, 14, 20, rng.below(24)]))
    if ty in ("Ipv4Header", "Ipv6Header", "IpHeaders"):
        want = rng.below(4) if ty == "Ipv4Header" else (4 + rng.below(4) if ty == "Ipv6Header" else rng.below(8))
        et, body, tag = pktgen.gen_ip(rng, want)
        return ty, body
    if ty == "Ipv4Extensions":
        if rng.chance(2, 3):
            return ty + ":51", pktgen.gen_ah(rng, rng.below(256)) + rng.bytes(rng.below(8))
        return ty + ":%d" % rng.choice([6, 17, 0, 60, rng.below(256)]), rng.bytes(rng.below(20))
    if ty == "IpAuthHeader":
        return ty, pktgen.gen_ah(rng, rng.below(256)) + rng.bytes(rng.below(8))
    if ty == "Ipv6Extensions":
        num, tr, ttag = pktgen.gen_transport(rng, True)
        first, chain, xtag = pktgen.gen_ext_chain(rng, num, tr)
        return ty + ":%d" % first, chain
    if ty == "Ipv6RawExtHeader":
        units = rng.choice([0, 0, 1, 2, 255, rng.below(8)])
        true = (units + 1) * 8
        n = true - 2 if rng.chance(2, 3) else rng.below(true + 8)
        return ty, bytes([rng.below(256), units]) + rng.bytes(n)
    if ty == "Ipv6FragmentHeader":
        return ty, rng.bytes(rng.choice([8, 8, 12, rng.below(12)]))
    if ty == "ArpPacket":
        et, body, tag = pktgen.gen_ip(rng, 8)
        return ty, body
    if ty == "TcpHeader":
        return ty, _transport(rng, "tcp")
    if ty == "UdpHeader":
        return ty, _transport(rng, "udp")
    if ty == "Icmpv4Header":
        return ty, _transport(rng, "icmp4")
    if ty == "Icmpv6Header":
        return ty, _transport(rng, "icmp6")
    raise ValueError(ty)


def gen_cases(rng, tier):
    big = tier == "thorough"
    cases = []
    # A: whole packets
    for _ in range(12000 if not big else 400000):
        ent, data, tag = pktgen.gen_packet(rng)
        if ent == "eth":
            cases.append("eth " + hx(data))
        elif ent == "sll":
            cases.append("sll " + hx(data))
            if len(data) >= 16:
                cases.append("eth " + hx(rng.bytes(12) + data[14:16] + data[16:]))
        elif ent.startswith("et:"):
            et = int(ent[3:])
            cases.append("eth " + hx(rng.bytes(12) + pktgen.be16(et) + data))
            if et in (0x0800, 0x86DD):
                cases.append(("et4 " if et == 0x0800 else "et6 ") + hx(data))
        else:
            nib = data[0] >> 4 if data else 0
            k = "et6" if nib == 6 else "et4"
            if rng.chance(1, 12):
                k = "et4" if k == "et6" else "et6"
            cases.append(k + " " + hx(data))
            cases.append("ipb " + hx(data))
    # B: IP packets, damaged
    seeds = []
    for _ in range(12000 if not big else 400000):
        et, body, tag = pktgen.gen_ip(rng, rng.below(8))
        if len(seeds) < (40 if not big else 300) and 24 < len(body) < 120 and "/" in tag:
            seeds.append(body)
        body = _damage(rng, body)
        cases.append("ipb " + hx(body))
        nib = body[0] >> 4 if body else 0
        k = "et6" if nib == 6 else "et4"
        if rng.chance(1, 15):
            k = "et4" if k == "et6" else "et6"
        cases.append(k + " " + hx(body))
        if rng.chance(1, 3):
            cases.append("eth " + hx(rng.bytes(12) + pktgen.be16(0x0800 if k == "et4" else 0x86DD) + body))
    for body in seeds:
        for i in range(len(body) + 1):
            cases.append("ipb " + hx(body[:i]))
            cases.append(("et4 " if body[0] >> 4 == 4 else "et6 ") + hx(body[:i]))
            if rng.chance(1, 4):
                cases.append("eth " + hx(b"\x01" * 12 + (b"\x08\x00" if body[0] >> 4 == 4 else b"\x86\xdd") + body[:i]))
    # every first byte, short and long enough
    for b0 in range(256):
        for n in (1, 6, 19, 20, 39, 40, 60):
            d = bytes([b0]) + rng.bytes(n - 1)
            cases.append("ipb " + hx(d))
            cases.append("et4 " + hx(d))
            cases.append("et6 " + hx(d))
    # D: Linux SLL start: every class of header in front of structured payloads, cut anywhere
    sll_seeds = []
    for _ in range(2500 if not big else 80000):
        et, body, tag = pktgen.gen_ip(rng)
        et2, body2, ltag = pktgen.wrap_link_exts(rng, et, body)
        pt = rng.choice([0, 3, 7, 8, 9, 255, 256, rng.below(65536)]) if rng.chance(1, 8) else rng.below(8)
        hw = rng.choice([1] * 12 + [824, 778, 803, 770, 0, 2, 6, rng.below(65536)])
        proto = et2 if rng.chance(7, 8) else rng.choice([0, 1, 4, 9, 10, 11, 12, 14, 15, 16, 17, 18, 21, 28, 29,
                                                          0xF4, 0xF5, 0xFA, 0xFB, 0x0800, 0x86DD, 0x8100])
        data = pktgen.be16(pt) + pktgen.be16(hw) + rng.bytes(10) + pktgen.be16(proto) + body2
        if len(sll_seeds) < (12 if not big else 120) and pt < 8 and hw == 1 and proto == et2 and len(data) < 110 and "/" in tag:
            sll_seeds.append(data)
        cases.append("sll " + hx(_damage(rng, data)))
    for data in sll_seeds:
        for i in range(len(data) + 1):
            cases.append("sll " + hx(data[:i]))
    # every non-standard / boundary protocol number behind ARPHRD_ETHER, every supported hw id
    for proto in list(range(0, 32)) + list(range(240, 256)) + [0x0800, 0x0806, 0x8100, 0x88E5, 0x86DD]:
        for hw in (1, 824, 778, 803, 770, 0, 2):
            cases.append("sll " + hx(b"\x00\x00" + pktgen.be16(hw) + rng.bytes(10) + pktgen.be16(proto) + rng.bytes(rng.below(30))))
    # E: IPv4 total length around the header length (the three _lax struct copies and their siblings)
    for ihl in (5, 6, 15):
        hl = ihl * 4
        for tl in (0, hl - 1, hl, hl + 1, hl + 7, hl + 8, hl + 12, hl + 13, 65535):
            for extra in (0, 1, 8, 12, 13):
                for proto in (17, 51, 6, 1):
                    hdr = bytes([0x40 | ihl, 0]) + pktgen.be16(tl) + rng.bytes(5) + bytes([proto]) + rng.bytes(hl - 10)
                    body = rng.bytes(extra)
                    if proto == 51 and extra >= 2:
                        body = bytes([17, rng.choice([0, 1, 2])]) + body[2:]
                    cases.append("ipb " + hx(hdr + body))
    # C: read vs from_slice
    per = 1200 if not big else 40000
    for ty in TYPES:
        pref = 0
        for _ in range(per):
            tag, data = _rd_input(rng, ty)
            d = _damage(rng, data)
            cases.append("rd:%s %s" % (tag, hx(d)))
            if pref < (6 if not big else 60) and 0 < len(data) < 100:
                pref += 1
                for i in range(len(data) + 1):
                    cases.append("rd:%s %s" % (tag, hx(data[:i])))
        for _ in range(per // 6):
            n = rng.range(0, 64)
            b = bytearray(rng.bytes(n))
            if n and rng.chance(1, 2):
                b[0] = rng.choice([0x45, 0x46, 0x4F, 0x60, 0x6F, 0x00, 0x50, 0x0d, 0x0e])
            tag = ty
            if ty in ("Ipv4Extensions", "Ipv6Extensions"):
                tag = ty + ":%d" % rng.choice([51, 0, 60, 43, 44, 17, rng.below(256)])
            cases.append("rd:%s %s" % (tag, hx(bytes(b))))
    # MACsec header: every tci_an / short length byte
    for tci in range(256):
        for b1 in (0, 1, 2, 65, 63):
            cases.append("rd:MacsecHeader " + hx(bytes([tci, b1]) + rng.bytes(14)))
    return cases


# ---------------------------------------------------------------------------
# comparison
# ---------------------------------------------------------------------------
def fields(line):
    out = {}
    for part in line.split(" ;; "):
        if "=" in part:
            k, v = part.split("=", 1)
            out[k.strip()] = v.strip()
    return out


_LINK = re.compile(r"link=\S+")
_LAYERS = re.compile(r"layers=\d")


def nolink(s):
    return _LAYERS.sub("layers=*", _LINK.sub("link=*", s))


def canon_err(s):
    return (s.replace("content Ipv4Ihl ", "content IpIhl ")
             .replace("content Ipv4Version ", "content IpUnsupportedVersion ")
             .replace("content Ipv6Version ", "content IpUnsupportedVersion ")
             .replace("content Ipv6AuthZeroPayloadLen ", "content AuthZeroPayloadLen "))


def canon(s):
    return canon_err(nolink(s))


def f11(data):
    return len(data) == 0 or (data[0] >> 4 == 4 and len(data) < 20)


KIND = {"Ipv4Version": "Version", "Ipv6Version": "Version", "IpUnsupportedVersion": "Version",
        "Ipv4Ihl": "Ihl", "IpIhl": "Ihl", "TcpDataOffset": "DataOffset", "AuthZeroPayloadLen": "AuthZeroLen",
        "Ipv6AuthZeroPayloadLen": "AuthZeroLen", "MacsecVersion": "MacsecVersion",
        "MacsecUnmodifiedShortLen": "MacsecShortLen", "HopByHopNotAtStart": "HopNotAtStart"}
SRC = {"slice": 0, "ip4tl": 1, "ip6pl": 2}
LAYER = {"Ipv4Header": 3, "Ipv4Packet": 4, "IpAuthHeader": 5, "Ipv6Header": 6, "Ipv6ExtHeader": 7, "Ipv6FragHeader": 8}


def proj_outcome(v):
    """implementation read / from_slice outcome -> the model's outcome vocabulary"""
    if v.startswith("err "):
        v = v[4:]
    if v.startswith("ok "):
        return "ok " + v.split()[1]
    if v.startswith("content "):
        p = v.split()
        if p[1].startswith("LinuxSll"):
            return v
        return "content " + KIND.get(p[1], p[1])
    if v.startswith("len "):
        a = v[4:].split(",")
        if a[2] in ("slice", "arplen"):     # the data ends inside the announced header
            return "eof"
        return "len %s,%s,%s,%s,%s" % (a[0], a[1], SRC.get(a[2], 99), LAYER.get(a[3], 99), a[4])
    return v


def _abn(v):
    return v.startswith("PANIC") or v.startswith("CRASH") or v.startswith("NOT-RUN")


def oracle_eth(data, fi):
    out = []
    for fam in "SPLQ":
        a, b = fi.get(fam + ".a"), fi.get(fam + ".b")
        if a is None:
            out.append(("%s: missing answer" % fam, None))
            continue
        if len(data) < 14:
            want = "err len 14,%d,slice,Ethernet2Header,0" % len(data)
            if a != want:
                out.append(("%s.from_ethernet on %d bytes: '%s', expected '%s'" % (fam, len(data), a, want), None))
            continue
        if b is None:
            out.append(("%s: missing from_ether_type answer" % fam, None))
        elif nolink(a) != nolink(b):
            out.append(("%s: from_ethernet '%s' vs from_ether_type(+14) '%s'" % (fam, a, b), None))
    for fam in "PQ":
        if fi.get(fam + ".h") == "DIFF":
            out.append(("%s: decoded header values differ between from_ethernet and from_ether_type" % fam, None))
    return out


NONSTD = set(list(range(1, 10)) + [12, 13, 14, 16, 17] + list(range(21, 29)) + list(range(245, 251)))


def sll_class(data):
    """what the 16 bytes in front are, from the bytes alone (linux/if_packet.h, if_arp.h as the crate reads them):
    ('short',) | ('reject', expected error) | ('other', tag, proto) | ('ether', ether type)"""
    if len(data) < 16:
        return ("short",)
    pt = (data[0] << 8) | data[1]
    hw = (data[2] << 8) | data[3]
    proto = (data[14] << 8) | data[15]
    if pt > 7:
        return ("reject", "err content LinuxSllPacketType %d" % pt)
    if hw == 824:
        return ("other", "netlink", proto)
    if hw == 778:
        return ("other", "gre", proto)
    if hw in (803, 770):
        return ("other", "ign", proto)
    if hw == 1:
        return ("other", "nonstd", proto) if proto in NONSTD else ("ether", proto)
    return ("reject", "err content LinuxSllArpHardwareId %d" % hw)


def oracle_sll(data, fi, hist):
    out = []
    c = sll_class(data)
    hist["sll:" + c[0]] = hist.get("sll:" + c[0], 0) + 1
    sa, qa = fi.get("S.a", "?"), fi.get("Q.a", "?")
    n = len(data)
    if c[0] == "short":
        want = "err len 16,%d,slice,LinuxSllHeader,0" % n
        for fam, a in (("S", sa), ("Q", qa)):
            if a != want:
                out.append(("%s.from_linux_sll on %d bytes: '%s', expected '%s'" % (fam, n, a, want), None))
    elif c[0] == "reject":
        for fam, a in (("S", sa), ("Q", qa)):
            if a != c[1]:
                out.append(("%s.from_linux_sll: '%s', expected '%s'" % (fam, a, c[1]), None))
    elif c[0] == "other":
        ws = "ok link=sll(0+16,0+%d) exts=[] net=none tr=none" % n
        wq = "ok layers=1000 pay=sll(%s:%d,16+%d) stop=none" % (c[1], c[2], n - 16)
        if sa != ws:
            out.append(("S.from_linux_sll (protocol type is no ether type): '%s', expected '%s'" % (sa, ws), None))
        if qa != wq:
            out.append(("Q.from_linux_sll (protocol type is no ether type): '%s', expected '%s'" % (qa, wq), None))
    else:
        if fi.get("cls") != "ether:%d" % c[1]:
            out.append(("LinuxSllHeader::from_slice protocol type '%s', the bytes say ether type %d" % (fi.get("cls"), c[1]), None))
        for fam in "SQ":
            a, b = fi.get(fam + ".a"), fi.get(fam + ".b")
            if a is None or b is None or b == "-":
                out.append(("%s: missing answer (a=%s b=%s)" % (fam, a, b), None))
            elif nolink(a) != nolink(b):
                out.append(("%s: from_linux_sll '%s' vs from_ether_type(+16) '%s'" % (fam, a, b), None))
        if fi.get("Q.h") == "DIFF":
            out.append(("Q: decoded header values differ between from_linux_sll and from_ether_type", None))
    if c[0] != "ether" and fi.get("cls") != c[0]:
        out.append(("LinuxSllHeader::from_slice class '%s', the bytes say '%s'" % (fi.get("cls"), c[0]), None))
    return out


def oracle_ett(kind, data, fi, hist):
    out = []
    nib = data[0] >> 4 if data else None
    want_nib = 4 if kind == "et4" else 6
    if nib == want_nib:
        cls = "F11_cut_short_first_ip_header" if f11(data) else None
        for fam in "SP":
            a, b = fi.get(fam + ".a", "?"), fi.get(fam + ".b", "?")
            if canon(a) != canon(b):
                out.append(("%s: from_ether_type(%s) '%s' vs from_ip '%s'" % (fam, kind, a, b), cls))
        for fam in "LQ":
            a, b = fi.get(fam + ".a", "?"), fi.get(fam + ".b", "?")
            if b.startswith("err "):
                if ("stop=(%s)@" % b[4:]) not in a:
                    out.append(("%s: from_ip '%s' but from_ether_type(%s) '%s'" % (fam, b, kind, a), cls))
            elif canon(a) != canon(b):
                out.append(("%s: from_ether_type(%s) '%s' vs from_ip '%s'" % (fam, kind, a, b), cls))
        out.extend(_lax_headers_ip(kind, data, fi))
        for fam in "PQ":
            if fi.get(fam + ".h") == "DIFF":
                out.append(("%s: decoded header values differ between from_ether_type and from_ip" % fam, None))
        hist["et:match"] = hist.get("et:match", 0) + 1
    else:
        # the ether type's decoder must reject (theorem C06_ethertype_mismatch)
        fixed, layer, tag = (20, "Ipv4Header", "Ipv4Version") if kind == "et4" else (40, "Ipv6Header", "Ipv6Version")
        if len(data) < fixed:
            want = "err len %d,%d,slice,%s,0" % (fixed, len(data), layer)
        else:
            want = "err content %s %d" % (tag, nib)
        for fam in "SP":
            a = fi.get(fam + ".a", "?")
            if a != want:
                out.append(("%s: from_ether_type(%s) with version nibble %s: '%s', expected '%s'" % (fam, kind, nib, a, want), None))
        hist["et:mismatch"] = hist.get("et:mismatch", 0) + 1
        # the lax struct family does not look at the ether type (F10): the relation holds for every nibble
        out.extend(_lax_headers_ip(kind, data, fi))
    return out


def _lax_headers_ip(kind, data, fi):
    """C06_laxheaders_ethertype_eq_ip on the implementation: Ok answers equal; a first-header Err of from_ip
    is exactly the stop error (layer IpHeader) of an otherwise empty from_ether_type answer"""
    a, b = fi.get("Q.a", "?"), fi.get("Q.b", "?")
    et = 0x0800 if kind == "et4" else 0x86DD
    if b.startswith("err "):
        want = "ok layers=0000 pay=ether(0,%d,slice,0+%d) stop=(%s)@IpHeader" % (et, len(data), b[4:])
        if a != want:
            return [("Q: from_ip '%s' but from_ether_type(%s) '%s', expected '%s'" % (b, kind, a, want), None)]
    elif a != b:
        return [("Q: from_ether_type(%s) '%s' vs from_ip '%s' (must be identical)" % (kind, a, b), None)]
    return []


_PL = re.compile(r"pl\((?:[01],)?(\d+),")


def _ipn(rec):
    m = _PL.search(rec)
    return int(m.group(1)) if m else None


FAMILIES = [("IpSlice", "Ipv4Slice", "Ipv6Slice", True), ("LaxIpSlice", "LaxIpv4Slice", "LaxIpv6Slice", True),
            ("IpHeaders", "IpHeaders4", "IpHeaders6", False), ("IpHeadersLax", "IpHeaders4Lax", "IpHeaders6Lax", False)]
CROSS = [("IpSlice", "IpHeaders", True), ("Ipv4Slice", "IpHeaders4", False), ("Ipv6Slice", "IpHeaders6", False),
         ("LaxIpSlice", "IpHeadersLax", True), ("LaxIpv4Slice", "IpHeaders4Lax", False), ("LaxIpv6Slice", "IpHeaders6Lax", False)]


def oracle_ipb(data, fi, hist):
    out = []
    nib = data[0] >> 4 if data else None
    cls11 = "F11_cut_short_first_ip_header" if f11(data) else None
    for d, s4, s6, _ in FAMILIES:
        dv = fi.get(d, "?")
        if nib is None:
            if dv != "err len 1,0,slice,IpHeader,0":
                out.append(("%s on empty input: '%s'" % (d, dv), None))
        elif nib in (4, 6):
            sv = fi.get(s4 if nib == 4 else s6, "?")
            if canon_err(dv) != canon_err(sv):
                out.append(("%s '%s' vs %s '%s'" % (d, dv, s4 if nib == 4 else s6, sv), cls11))
        elif dv != "err content IpUnsupportedVersion %d" % nib:
            out.append(("%s with version nibble %d: '%s'" % (d, nib, dv), None))
    for a, b, disp in CROSS:
        av, bv = fi.get(a, "?"), fi.get(b, "?")
        if canon_err(av) == canon_err(bv):
            continue
        # documented (C04): the struct decoder stops at an extension header kind whose slot is filled
        if bv.startswith("ok") and _ipn(bv) in EXT:
            hist["ipb:struct-stops-early"] = hist.get("ipb:struct-stops-early", 0) + 1
            continue
        out.append(("%s '%s' vs %s '%s'" % (a, av, b, bv), cls11 if disp else None))
    out.extend(oracle_v6lax(data, fi, hist))
    th = fi.get("TH", "---")
    if "0" in th:
        out.append(("to_header() of the slice family differs from the struct family's headers (TH=%s)" % th, None))
    return out


_LV6 = re.compile(r"^(ok 6 h=\S+ x=\d+) pl\(([01]),(\d+,[01],\w+,(\d+)\+(\d+))\) stop=(.*)$")


def oracle_v6lax(data, fi, hist):
    """round 3 (v6lax): the 13th copy Ipv6Slice::from_slice_lax against its siblings, on the implementation
    (theorems C06_ipv6_slice_lax_eq_lax_ipv6, C06_ipv6_slice_lax_extends_strict):
      * LaxIpv6Slice Err e                  -> Err e
      * LaxIpv6Slice Ok, stop error (e, _)  -> Err e
      * LaxIpv6Slice Ok, no stop error      -> Ok, the same header / extension window / payload record without the
                                               incomplete flag
      * Ipv6Slice Ok v                      -> Ok v (identical, len_source included); Ipv6Slice Err e -> Err e or e is the
                                               Ipv6Packet length error the lax copy replaces by the slice-length fallback"""
    out = []
    x, l, st = fi.get("Ipv6SliceLax"), fi.get("LaxIpv6Slice"), fi.get("Ipv6Slice")
    if x is None or l is None or st is None:
        return [("Ipv6SliceLax / LaxIpv6Slice / Ipv6Slice answer missing", None)]
    if l.startswith("err "):
        want = l
        hist["v6lax:hdr-err"] = hist.get("v6lax:hdr-err", 0) + 1
    else:
        m = _LV6.match(l)
        if not m:
            return [("LaxIpv6Slice answer not understood: '%s'" % l, None)]
        if m.group(6) == "none":
            want = "%s pl(%s)" % (m.group(1), m.group(3))
            k = "v6lax:ok-fallback" if m.group(2) == "1" else "v6lax:ok"
            hist[k] = hist.get(k, 0) + 1
            if m.group(2) == "1" and (",slice," not in m.group(3) or int(m.group(4)) + int(m.group(5)) != len(data)):
                out.append(("LaxIpv6Slice incomplete but payload '%s' does not end at the slice end" % l, None))
        else:
            sm = re.match(r"^\((.*)\)@\w+$", m.group(6))
            want = "err " + (sm.group(1) if sm else "?")
            hist["v6lax:ext-err"] = hist.get("v6lax:ext-err", 0) + 1
    if x != want:
        out.append(("Ipv6SliceLax '%s' but LaxIpv6Slice '%s' (expected '%s')" % (x, l, want), None))
    if st.startswith("ok"):
        if x != st:
            out.append(("Ipv6Slice accepts with '%s' but Ipv6SliceLax '%s'" % (st, x), None))
    elif x != st:
        a = st[8:].split(",") if st.startswith("err len ") else []
        if not (len(a) == 5 and a[2] == "slice" and a[3] == "Ipv6Packet" and a[4] == "0" and int(a[1]) == len(data)):
            out.append(("Ipv6Slice '%s' but Ipv6SliceLax '%s': not the payload-length fallback" % (st, x), None))
    return out


def f15(data):
    return len(data) >= 7 and data[0] >> 4 == 6 and data[4] == 0 and data[5] == 0 and data[6] in EXT


def oracle_rd(ty, data, fi, hist):
    out = []
    r, s, eq, pos = fi.get("r", "?"), fi.get("s", "?"), fi.get("eq", "-"), fi.get("pos", "?")
    base = ty.split(":")[0]
    s_short = s.startswith("err len ") and s[8:].split(",")[2] in ("slice", "arplen")
    if r.startswith("ok "):
        if base == "IpHeaders" and s_short and s[8:].split(",")[3] in ("Ipv4Packet", "Ipv6Packet"):
            hist["rd:payload-missing"] = hist.get("rd:payload-missing", 0) + 1   # from_slice also wants the payload
            return out
        if s != r:
            out.append(("%s::read '%s' but from_slice '%s'" % (base, r, s), None))
        elif eq != "1":
            out.append(("%s: read and from_slice decode different headers from the same %s bytes" % (base, r[3:]), None))
        elif pos != r.split()[1]:
            out.append(("%s::read consumed %s bytes, header_len is %s" % (base, pos, r.split()[1]), None))
        return out
    if s_short:
        # the slice does not hold the announced header: the reader must not produce one (it did not)
        hist["rd:slice-too-short"] = hist.get("rd:slice-too-short", 0) + 1
        if r not in ("eof",) and not r.startswith("content ") and not r.startswith("len "):
            out.append(("%s::read '%s' on a slice from_slice calls too short ('%s')" % (base, r, s), None))
        return out
    if r == "eof":
        out.append(("%s::read hit end of file but from_slice '%s'" % (base, s), None))
    elif r.startswith("len ") and s.startswith("err len ") and r[4:].split(",")[1:] == s[8:].split(",")[1:]:
        # same limit, same length field, same layer, same offset: the same reason.  required_len is what
        # the reader's CURRENT read_exact call needs (it reads a header in two steps), the slice decoder
        # names the minimum / full header size: not compared
        hist["rd:len-same-reason"] = hist.get("rd:len-same-reason", 0) + 1
    elif r.startswith("content ") or r.startswith("len "):
        if s != "err " + r:
            cls = "F15_ipv6_zero_payload_len_read" if (base == "IpHeaders" and f15(data) and r.startswith("len ")) else None
            out.append(("%s::read rejects with '%s' but from_slice '%s'" % (base, r, s), cls))
    else:
        out.append(("%s::read '%s' vs from_slice '%s'" % (base, r, s), None))
    return out


def _nontrivial(kind, fi):
    vals = [v for k, v in fi.items() if k not in ("eq", "pos", "TH", "P.h", "Q.h", "cls")]
    for v in vals:
        if v.startswith("ok"):
            return True
        if v.startswith("err content") or v.startswith("content"):
            return True
        if v.startswith("err len") and not v.endswith(",0"):
            return True
    return False


def compare(ctx, cases, impl, model_lines):
    corr, orc = [], []
    hist = {}
    seen = set()
    nontriv = 0
    for i, c in enumerate(cases):
        kind, hexs = c.split()
        data = bytes.fromhex(hexs) if hexs != "-" else b""
        k0 = kind.split(":")[0]
        key = kind if k0 != "rd" else "rd:" + kind.split(":")[1]
        mf = fields(model_lines[i]) if model_lines is not None else None
        if model_lines is not None and not mf:
            corr.append((i, "model: '%s'" % model_lines[i]))
        for prof, lines in impl.items():
            il = lines[i]
            if _abn(il):
                orc.append((i, "%s: %s" % (prof, il), None))
                continue
            fi = fields(il)
            # correspondence
            if mf:
                for name, mv in mf.items():
                    iv = fi.get(name)
                    if iv is None:
                        corr.append((i, "%s: field %s missing in '%s'" % (prof, name, il)))
                    elif k0 == "rd":
                        if proj_outcome(iv) != mv:
                            corr.append((i, "%s: %s impl '%s' model '%s'" % (prof, name, iv, mv)))
                    elif nolink(iv) != nolink(mv):
                        corr.append((i, "%s: %s impl '%s' model '%s'" % (prof, name, iv, mv)))
            # oracle
            if k0 == "eth":
                o = oracle_eth(data, fi)
            elif k0 == "sll":
                o = oracle_sll(data, fi, hist)
            elif k0 in ("et4", "et6"):
                o = oracle_ett(k0, data, fi, hist)
            elif k0 == "ipb":
                o = oracle_ipb(data, fi, hist)
            else:
                o = oracle_rd(kind[3:], data, fi, hist)
            for why, cls in o:
                orc.append((i, "%s: %s" % (prof, why), cls))
            if prof == next(iter(impl)):
                verdict = "ok" if any(v.startswith("ok") for v in fi.values()) else "rej"
                hk = key + "/" + verdict
                hist[hk] = hist.get(hk, 0) + 1
                if c not in seen:
                    seen.add(c)
                    if _nontrivial(k0, fi):
                        nontriv += 1
    return {"corr_mismatch": corr, "oracle_fail": orc,
            "hist": dict(sorted(hist.items(), key=lambda kv: -kv[1])[:80]),
            "nontrivial": nontriv,
            "samples": [cases[0], cases[len(cases) // 3], cases[len(cases) // 2], cases[-1]]}
