"""C14: out-of-range lengths and values are rejected, never truncated."""

ID = "C14"
EXTRACT = "ExtC14.v"
MLMOD = "m_c14"
RUNNER = "run_c14"
HARNESS_BIN = "c14"
RELEASE_ALWAYS = True     # narrowing casts / overflow: debug (overflow checks) and release (wrap-around)
RULE = ("every length-taking constructor/setter (37 entry points, see notes/C14.md) at limit-2..limit+2 of its own limit, "
        "0, 1, 2, 2^16+-2, 2^32+-2, 2^63, usize::MAX-1, usize::MAX where the length is passed as a number; APIs taking a "
        "slice get real slices (<= 128 KiB every run; the values just above the 2^32 limits every run and limit-2..limit "
        "in the thorough tier through a lazily mapped 4 GiB zero region); Ipv4Header::new over its whole u16 domain; "
        "alignment rules enumerated (ICV 0..1100, ext payload 0..2200, IPv4/TCP option areas 0..200, all u8 short lengths, "
        "ARP address pairs around 255); a case is non-trivial when its length argument is >= 2; distinct = distinct case lines")
ASSUMPTIONS = [
    "64-bit usize, little-endian host in the correspondence run",
    "a Rust slice is never longer than isize::MAX (language guarantee), used for the builder's usize sums",
    "header_len() of extension headers is a sum of u8-derived sizes (<= 9232) and cannot overflow usize",
]
PROJECTION = ("outcome (Ok/Err/panic), all error fields (actual, max_allowed, value_type or the API's own error variant and number), "
              "the length field and the other header fields after the call, the encoded bytes / decoded value of the accepted length, "
              "checksums (they depend on the length put into the pseudo header)")

M16 = 1 << 16
M32 = 1 << 32
M63 = 1 << 63
M64 = 1 << 64
SMALL = 1 << 17
BIG = M32 + (1 << 17)


def corpus():
    return [
        # F12 (fixed): IpHeaders::set_payload_len error fields with extension headers, both paths
        "iph4 4 3 50 65488",
        "iph4 4 3 50 18446744073709551615",
        "iph6 0 - 1 2 1 3 50 65535",
        "iph6 0 - 1 2 1 3 50 18446744073709551610",
        # every limit once
        "v4new 513 65515", "v4new 513 65516",
        "v4set 40 7 1 65475", "v4set 40 7 1 65476",
        "v6set 7 1 65535", "v6set 7 1 65536",
        "udpwo 65527", "udpwo 65528", "udpw4 65527", "udpw4 65528", "udpw6 65527", "udpw6 65528",
        "udpc4 8 65528", "udpc6 8 65528", "tcpc4 40 65475", "tcpc4 40 65476", "tcphs4 40 65476", "tcps4 40 65476",
        "macsec 1 5 99 61", "macsec 1 5 99 62", "macsec 0 5 98 63", "macsec 0 5 98 64", "macsec 0 9 98 0",
        "macsec 1 5 99 254", "macsec 1 5 99 255", "macsec 1 5 99 256", "macsec 0 5 98 256", "macsec 0 5 98 319",
        "ahnew 1016", "ahnew 1020", "ahnew 1018", "ahset 2 1020", "extnew 2046", "extnew 2054", "extnew 5", "extset 1 2050",
        "v4opt 40", "v4opt 44", "v4opt 256", "v4setopt 8 260", "tcpoptraw 4 40", "tcpoptraw 4 41", "tcpoptraw 4 256",
        "tcpoptel 0 s3s3", "tcpoptel 0 s3ttnn", "tcpoptel 0 s3ttnnn",
        "arpnew 255 255 255 255", "arpnew 256 4 256 4", "arpnew 6 256 6 256", "arpnew 256 4 255 4", "arphw 6 4 256 256",
        "arppr 6 4 256 256", "arphw 6 4 512 512",
        "bld4 8 3 udp 65475", "bld4 8 3 udp 65476", "bld4 0 - udp 65536", "bld6 - - - - 0 - udp 65527",
        "bld6 - - - - 0 - udp 65528", "bld6 - - - - 0 - udp 131064", "bld4 0 - icmp6 65508", "bsz 8 3 udp 100",
    ]


def around(x, d=2):
    return [v for v in range(x - d, x + d + 1) if v >= 0]


NUMERIC_BASE = ([0, 1, 2, 3] + around(255) + around(M16) + around(2 * M16) + around(M32) + around(2 * M32)
                + around(M63) + [M64 - 3, M64 - 2, M64 - 1])


def rnd_len(rng, limit, top):
    """a length: mostly near the limit, otherwise log-uniform up to `top`"""
    k = rng.below(10)
    if k < 4:
        v = limit + rng.range(-40, 40)
    elif k < 6:
        v = limit + rng.range(-3, 3) + rng.choice([M16, 2 * M16, M32, 256, 512, 3 * M16])   # would truncate to ~limit
    elif k < 8:
        v = rng.below(1 << rng.range(1, 64))
    else:
        v = rng.below(70000)
    return max(0, min(v, top))


def slice_lens(rng, limit, big, nrand):
    out = [0, 1, 2, 3] + around(limit) + around(M16) + [70000, SMALL]
    if limit > 0:
        out += [limit + M16 - 1, limit + M16, limit + M16 + 1]      # wrap onto limit-1..limit+1 modulo 2^16
    for _ in range(nrand):
        out.append(rnd_len(rng, limit, SMALL))
    if big:
        out += around(M32) + [M32 + M16, BIG - 64]
    return [v for v in out if 0 <= v <= (BIG - 64 if big else SMALL)]


def v6exts_variants(rng, n):
    out = ["- - - - 0 -", "0 - - - 0 -", "- - - - 1 -", "- - - - 0 0", "255 255 255 255 1 254", "0 0 0 0 1 0", "- - 3 - 0 -", "- - 3 4 0 2"]
    for _ in range(n):
        def o(mx):
            return "-" if rng.chance(1, 2) else str(rng.choice([0, 1, mx, rng.below(mx + 1)]))
        route = o(255)
        fin = o(255) if route != "-" else "-"
        out.append("%s %s %s %s %d %s" % (o(255), o(255), route, fin, rng.below(2), o(254)))
    return out


def v6exts_len(x):
    hop, dst, route, fin, frag, auth = x.split()
    n = 0
    for r in (hop, dst, route, fin):
        if r != "-":
            n += 8 + 8 * int(r)
    if frag == "1":
        n += 8
    if auth != "-":
        n += 12 + 4 * int(auth)
    return n


def tr_len(t):
    if t == "none":
        return 0
    if t.startswith("tcp:"):
        return 20 + int(t[4:])
    return 8


def gen_cases(rng, tier):
    big = tier == "thorough"
    mult = 60 if big else 10
    c = []
    # ---- Ipv4Header::new(u16): the whole domain
    for v in range(0, M16):
        c.append("v4new %d %d" % (rng.below(M16), v))
    # ---- Ipv4Header::set_payload_len
    for ol in range(0, 44, 4):
        lim = 65535 - 20 - ol
        vals = NUMERIC_BASE + around(lim) + around(lim + M16) + around(lim + M32) + [rnd_len(rng, lim, M64 - 1) for _ in range(60 * mult)]
        for v in vals:
            c.append("v4set %d %d %d %d" % (ol, rng.below(M16), rng.next(), v))
    # ---- Ipv4Options / set_options: alignment rule enumerated
    for n in list(range(0, 201)) + [252, 255, 256, 257, 260, 296, 512, 1024, 65536, 65540, SMALL]:
        c.append("v4opt %d" % n)
        for ol0 in (0, 8, 40):
            c.append("v4setopt %d %d" % (ol0, n))
    # ---- Ipv6Header::set_payload_length
    for v in NUMERIC_BASE + around(65535) + around(65535 + M32) + [rnd_len(rng, 65535, M64 - 1) for _ in range(400 * mult)]:
        c.append("v6set %d %d %d" % (rng.below(M16), rng.next(), v))
    # ---- IpHeaders::set_payload_len
    for ol in (0, 4, 20, 40):
        for icv in ("-", "0", "1", "3", "253", "254"):
            e = 0 if icv == "-" else 12 + 4 * int(icv)
            lim = 65535 - 20 - ol - e
            vals = NUMERIC_BASE + around(lim) + around(lim + e) + around(lim + M16) + around(M64 - 1 - e, 3) \
                + [rnd_len(rng, lim, M64 - 1) for _ in range(25 * mult)]
            for v in vals:
                if v < M64:
                    c.append("iph4 %d %s %d %d" % (ol, icv, rng.below(M16), v))
    for x in v6exts_variants(rng, 30 * mult):
        e = v6exts_len(x)
        lim = 65535 - e
        vals = NUMERIC_BASE + around(lim) + around(65535) + around(lim + M16) + around(M64 - 1 - e, 3) \
            + [rnd_len(rng, lim, M64 - 1) for _ in range(25)]
        for v in vals:
            if v < M64:
                c.append("iph6 %s %d %d" % (x, rng.below(M16), v))
    # ---- UDP
    for v in NUMERIC_BASE + around(65527) + around(65527 + M16) + around(65535) + [rnd_len(rng, 65527, M64 - 1) for _ in range(400 * mult)]:
        c.append("udpwo %d" % v)
    for t in ("udpw4", "udpw6"):
        for v in slice_lens(rng, 65527, big, 150 * mult):
            c.append("%s %d" % (t, v))
    for v in slice_lens(rng, 65527, False, 150 * mult):
        c.append("udpc4 %d %d" % (rng.choice([8, 100, (8 + v) & 0xFFFF, rng.below(M16)]), v))
    for v in slice_lens(rng, 65527, False, 20 * mult) + [M32 - 8, M32 - 7, M32, M32 + 1, M32 + 2] + (around(M32 - 1 - 8) if big else []):
        c.append("udpc6 %d %d" % (rng.choice([8, 100, (8 + v) & 0xFFFF, rng.below(M16)]), v))
    # ---- TCP checksums
    for ol in range(0, 44, 4):
        hl = 20 + ol
        n = (40 if ol in (0, 40) else 8) * mult
        for t in ("tcpc4", "tcphs4"):
            for v in slice_lens(rng, 65535 - hl, False, n):
                c.append("%s %d %d" % (t, ol, v))
        for v in slice_lens(rng, 65535 - hl, False, n):
            c.append("tcps4 %d %d" % (ol, v))
        for t in ("tcpc6", "tcphs6", "tcps6"):
            vals = slice_lens(rng, 65535 - hl, False, mult)
            # just above the 32-bit limit: rejected without touching the (lazily mapped) data
            vals += [M32 - hl, M32 - hl + 1, M32, M32 + 1, M32 + 2]
            if big and ol in (0, 4, 40):
                vals += around(M32 - 1 - hl) + [M32 - 1]
            for v in vals:
                c.append("%s %d %d" % (t, ol, v))
    # ---- ICMPv6
    for v in slice_lens(rng, 65527, False, 20 * mult) + [M32 - 8, M32 - 7, M32, M32 + 1, M32 + 2] + (around(M32 - 1 - 8) if big else []):
        c.append("icmp6 %d" % v)
        if v <= SMALL or v > M32 - 9:
            c.append("icmp6w %d" % v)
    # ---- MACsec
    for unmod in (0, 1):
        lim = 63 - 2 * unmod
        vals = list(range(0, 600)) + NUMERIC_BASE + around(lim + M16) + around(lim + M32) + [rnd_len(rng, lim, M64 - 1) for _ in range(300 * mult)]
        for v in vals:
            c.append("macsec %d %d %d %d" % (unmod, rng.below(64), rng.next(), v))
    for v in list(range(0, 600)) + NUMERIC_BASE + [rnd_len(rng, 63, M64 - 1) for _ in range(200)]:
        c.append("mslfl %d" % v)
    for v in range(0, 256):
        c.append("msltry %d" % v)
    # ---- AH ICV: alignment rule and limit enumerated
    for n in list(range(0, 1101)) + [1276, 1280, 2040, 2044, 4096, 65536, 65540, M16 + 1016, SMALL] + [rng.below(SMALL) for _ in range(100)]:
        c.append("ahnew %d" % n)
        c.append("ahset %d %d" % (rng.choice([0, 1, 2, 254, rng.below(255)]), n))
    # ---- IPv6 raw extension header payload
    for n in list(range(0, 2201)) + [4094, 4096, 65534, 65536, 65542, M16 + 2046, SMALL] + [rng.below(SMALL) for _ in range(100)]:
        c.append("extnew %d" % n)
        c.append("extset %d %d" % (rng.choice([0, 1, 255, rng.below(256)]), n))
    # ---- TCP options
    for n in list(range(0, 201)) + [252, 255, 256, 257, 260, 296, 512, 65536, 65537, 65576, SMALL]:
        for ol0 in (0, 4, 40):
            c.append("tcpoptraw %d %d" % (ol0, n))
    for k in range(0, 48):
        c.append("tcpoptel %d %s" % (rng.choice([0, 8, 40]), "n" * k if k else "-"))
    els = ["n", "m", "w", "p", "t", "s0", "s1", "s2", "s3"]
    for _ in range(1500 * mult):
        k = rng.range(0, 9)
        c.append("tcpoptel %d %s" % (rng.choice([0, 8, 40]), "".join(rng.choice(els) for _ in range(k)) or "-"))
    # ---- ARP
    for s in range(0, 301):
        c.append("arpnew %d %d %d %d" % (s, 4, s, 4))
        c.append("arpnew %d %d %d %d" % (6, s, 6, s))
        c.append("arphw 6 4 %d %d" % (s, s))
        c.append("arppr 6 4 %d %d" % (s, s))
    for s in range(250, 262):
        for t in range(250, 262):
            c.append("arpnew %d 4 %d 4" % (s, t))
            c.append("arpnew 6 %d 6 %d" % (s, t))
            c.append("arpnew %d %d %d %d" % (s, t, s, t))
            c.append("arphw %d %d %d %d" % (rng.below(256), rng.below(256), s, t))
            c.append("arppr %d %d %d %d" % (rng.below(256), rng.below(256), s, t))
    for n in (511, 512, 513, 65535, 65536, 65791, SMALL):
        c.append("arpnew %d 4 %d 4" % (n, n))
        c.append("arpnew 6 %d 6 %d" % (n, n))
        c.append("arphw 6 4 %d %d" % (n, n))
        c.append("arppr 6 4 %d %d" % (n, n))
    for _ in range(300 * mult):
        a, b, d, e = (rng.choice([rng.below(300), rng.below(256), 255, 256]) for _ in range(4))
        if rng.chance(2, 3):
            d = a
        if rng.chance(2, 3):
            e = b
        c.append("arpnew %d %d %d %d" % (a, b, d, e))
    # ---- PacketBuilder
    transports = ["none", "udp", "tcp:0", "tcp:40", "tcp:12", "icmp4", "icmp6"]
    for ol in (0, 8, 40):
        for icv in ("-", "0", "254", "3"):
            e = 0 if icv == "-" else 12 + 4 * int(icv)
            for t in transports:
                lim = 65535 - 20 - ol - e - tr_len(t)
                vals = [0, 1, 2] + around(lim) + around(65535 - tr_len(t)) + around(M16) + [lim + M16, 70000] \
                    + [rnd_len(rng, lim, SMALL) for _ in range(3 * mult)]
                if big:
                    vals += around(M32) + [M32 + lim]
                for v in vals:
                    if 0 <= v <= (BIG - 64 if big else SMALL):
                        c.append("bld4 %d %s %s %d" % (ol, icv, t, v))
                for v in [0, 1, lim, lim + 1, M16, M32, M63 - 1] + [rng.below(1 << rng.range(1, 62)) for _ in range(3)]:
                    c.append("bsz %d %s %s %d" % (ol, icv, t, v))
    for x in v6exts_variants(rng, 6 * mult):
        e = v6exts_len(x)
        for t in transports:
            lim = 65535 - e - tr_len(t)
            vals = [0, 1, 2] + around(lim) + around(65535 - tr_len(t)) + around(M16) + [lim + M16, 70000] \
                + [rnd_len(rng, lim, SMALL) for _ in range(3 * mult)]
            if big:
                vals += around(M32) + [M32 + lim]
            for v in vals:
                if 0 <= v <= (BIG - 64 if big else SMALL):
                    c.append("bld6 %s %s %d" % (x, t, v))
    return _spread_heavy(c)


def _spread_heavy(cases):
    """cases that sum over a multi-GiB slice take seconds each: spread them evenly over
    the list so that the shards (contiguous blocks) share them"""
    heavy = [x for x in cases
             if x.split()[0] in ("udpc6", "tcpc6", "tcphs6", "tcps6", "icmp6", "icmp6w", "udpw4", "udpw6", "udpc4")
             and int(x.split()[-1]) > SMALL]
    if not heavy:
        return cases
    hs = set(heavy)
    light = [x for x in cases if x not in hs]
    step = max(1, len(light) // (len(heavy) + 1))
    out = []
    hi = 0
    for i, x in enumerate(light):
        out.append(x)
        if (i + 1) % step == 0 and hi < len(heavy):
            out.append(heavy[hi])
            hi += 1
    out.extend(heavy[hi:])
    return out


BAD_MARKS = ("PANIC", "CRASH", "NOT-RUN", "MISMATCH", "MODIFIED", "OtherValueType", "Err other")


def _parse(line):
    pos, kv = [], {}
    for tok in line.split():
        if "=" in tok:
            k, v = tok.split("=", 1)
            kv[k] = v
        else:
            pos.append(tok)
    return pos, kv


def _length_arg(case):
    p = case.split()
    if p[0] == "tcpoptel":
        return len(p[-1])
    return int(p[-1])


def compare(ctx, cases, impl, model_lines):
    corr, orc = [], []
    hist = {}
    seen = set()
    nontriv = 0
    for i, c in enumerate(cases):
        tag = c.split()[0]
        h = hist.setdefault(tag, {"n": 0, "accepted": 0, "rejected": 0})
        h["n"] += 1
        if c not in seen:
            seen.add(c)
            if _length_arg(c) >= 2:
                nontriv += 1
        m = s = None
        if model_lines is not None:
            ml = model_lines[i]
            if " | " in ml:
                m, s = ml.split(" | ", 1)
            else:
                m, s = ml, None
        first = True
        for prof, lines in impl.items():
            il = lines[i]
            if first:
                first = False
                if il.startswith("Err"):
                    h["rejected"] += 1
                else:
                    h["accepted"] += 1
            if m is not None and il != m:
                corr.append((i, "%s: impl '%s' model '%s'" % (prof, il, m)))
            # oracle: the implementation against Limits/Spec.v directly
            if any(b in il for b in BAD_MARKS):
                orc.append((i, "%s: %s" % (prof, il), None))
                continue
            if s is not None and s != "-":
                sp, skv = _parse(s)
                ip, ikv = _parse(il)
                if sp != ip:
                    orc.append((i, "%s: outcome '%s', the specification demands '%s'" % (prof, il, s), None))
                    continue
                for k, v in skv.items():
                    if ikv.get(k) != v:
                        orc.append((i, "%s: %s is %s, the specification demands %s (impl '%s', spec '%s')"
                                    % (prof, k, ikv.get(k), v, il, s), None))
                        break
    return {"corr_mismatch": corr, "oracle_fail": orc, "hist": hist, "nontrivial": nontriv,
            "samples": [cases[0], cases[len(cases) // 3], cases[len(cases) // 2], cases[-1]]}
