"""C12: extension-header chain bookkeeping is self-consistent."""
from vlib import hx

ID = "C12"
EXTRACT = "ExtC12.v"
MLMOD = "m_c12"
RUNNER = "run_c12"
HARNESS_BIN = "c12"
RULE = ("Ipv6Extensions/Ipv4Extensions values built through the crate's constructors: all 48 representable presence "
        "shapes of the 64 masks (final destination options only exist inside the routing struct) x first value in "
        "{0,43,44,51,60,17,59,random} x next_header fields from the same 8 classes (full product for <= 2 headers, "
        "sampled above), consistently linked chains in RFC and in permuted order (some with one corrupted link), "
        "payload sizes small and at the limits (2046 byte options, 1016 byte ICV); per case: next_header, write "
        "(result + bytes, also on error), header_len, from_slice/from_slice_lax of the written bytes, "
        "set_next_headers(last) followed by next_header/write/from_slice, IpHeaders::set_next_headers/next_header/"
        "header_len, NetHeaders::try_set_next_headers; plus ARBITRARY / damaged byte chains (d6/d4: random chains with "
        "duplicates, late hop-by-hop, truncation, wrong lengths; every sequence of <= 4 header kinds (repeats in every "
        "position) intact, cut exactly at and one byte before every header boundary, with length bytes 0 and 255) "
        "through from_slice, from_slice_lax, write/next_header of the decoded struct, read (Cursor) and read_limited "
        "(LimitedReader over a Cursor, budget = input length), and l6/l4: read_limited with budgets around the header "
        "boundaries and beyond the data. non-trivial = distinct case with >= 2 headers present (e6), an auth "
        "header (e4) or >= 16 input bytes (d6/d4/l6/l4)")
ASSUMPTIONS = ["std::io::Write errors are not modelled (the writer is a Vec<u8>)",
               "header values are built through the crate's constructors (private length fields consistent with the buffers)"]
PROJECTION = ("next_header/write results (error kind, bytes written also on error), header_len, decoded struct + final "
              "number + rest (offset+length inside the input) + error record (required_len,len,layer,offset) of from_slice "
              "and from_slice_lax, bytes re-written from the decoded struct, struct/number/reader position or error "
              "(io kind / LenError with source) of read and read_limited, "
              "next_header fields and returned number of set_next_headers, ether type, IpHeaders next_header/header_len")

EXT = (0, 43, 44, 51, 60)
NUM = {"h": 0, "d": 60, "r": 43, "x": 60, "f": 44, "a": 51}
KINDS = "hdrxfa"
RFC = "hdrfax"          # RFC 8200 4.1 order of the six positions


def corpus():
    z6 = "000000000000"
    return [
        # F3 (fixed 7d8d872): first header 0 without hop-by-hop header
        "e6 0 17 - - - - - -",
        "e6 0 0 - 17:%s - - - -" % z6,
        # F4 (fixed 085cda5): ether type of IpHeaders::Ipv6
        "e6 59 17 0:%s - - - - -" % z6,
        # all six, unlinked
        "e6 0 17 7:%s 0:%s 60:%s 44:%s 43:8191:1:4294967295 51:305419896:4294967295:0908070605040302"
        % (z6, z6 + "00" * 8, z6 + "00" * 16, z6),
        # permuted consistent chain: auth, routing, final dest, fragment
        "e6 51 6 - - 60:%s 44:%s 6:0:0:7 43:1:2:-" % (z6 + "11" * 8, z6),
        # hop-by-hop referenced late
        "e6 60 17 17:%s 0:%s - - - -" % (z6, z6),
        # chain ending on an extension number whose header is absent
        "e6 44 17 - - - - 51:0:0:0 -",
        "e4 51 6 0 0:1:2:01020304",
        "e4 6 6 0 0:1:2:01020304",
        "e4 51 51 40 -",
        "e4 17 51 4 17:4294967295:0:-",
        "d6 0 3c00000000000000" + "2b00000000000000",
        "d6 60 3c00000000000000" + "3c00000000000000" + "1100000000000000",
        "d6 51 11000000000000000000000000",
        "d6 44 2c00000000000001" + "1100000000000002",
        "d4 51 1101000000000001000000020a0b0c0d",
        "d4 51 1100000000000001000000020a0b0c0d",
        "d4 17 0102",
        # six headers (fragment + AH with reserved bits set) then a second routing header: stop in front of it
        "d6 0 3c000102030405062b000707070707073c0109090909090909090909090909092c0008080808080833aa1237010203042b01bbcc00000005000000061100010101010101fffe",
        # destination options cut one byte short / cut exactly at the boundary with an extension number pending
        "d6 60 2c010000000000000000000000000000",
        "d6 60 2c0100000000000000000000000000",
        "d6 44 3c0000010000000911020000000000000000",
        "d6 43 3c00000000000000" + "3c00000000000000" + "3c00000000000000" + "1100000000000000",
        "l6 44 7 40 3c0000010000000911020000000000000000",
        "l6 44 9 40 3c0000010000000911020000000000000000",
        "l6 44 30 0 3c0000010000000911020000000000000000",
        "l6 0 8 40 3c00010203040506",
        "l4 51 5 20 1101bbcc000000010000000277",
        "l4 51 12 20 1101bbcc000000010000000277",
        "arp 17",
        "arp 0",
    ]


class Pools:
    def __init__(self, rng):
        self.rng = rng
        self.raw = {}
        self.icv = {}

    def payload(self, hl):
        p = self.raw.get(hl)
        if p is None:
            n = 6 + 8 * hl
            k = 24 if hl < 8 else 3
            p = [hx(self.rng.bytes(n)) for _ in range(k)] + [hx(bytes(n)), hx(b"\xff" * n)]
            self.raw[hl] = p
        return p[self.rng.below(len(p))]

    def icvhex(self, words):
        p = self.icv.get(words)
        if p is None:
            n = 4 * words
            k = 12 if words < 8 else 2
            p = [hx(self.rng.bytes(n)) for _ in range(k)] + [hx(b"\xff" * n)]
            self.icv[words] = p
        return p[self.rng.below(len(p))]


def _nh(rng, cls=None):
    k = rng.below(8) if cls is None else cls
    return (0, 43, 44, 51, 60, 17, 59, -1)[k] if k != 7 else rng.below(256)


def _hl(rng):
    k = rng.below(256)
    if k < 160:
        return 0
    if k < 208:
        return 1
    if k < 232:
        return 2
    if k < 254:
        return rng.range(3, 6)
    return 255 if k == 255 else 254


def _raw(rng, pools, nh, hl=None):
    return "%d:%s" % (nh, pools.payload(_hl(rng) if hl is None else hl))


def _frag(rng, nh):
    off = (0, 0, 1, 8191, -1)[rng.below(5)]
    if off < 0:
        off = rng.below(8192)
    idn = (0, 4294967295, -1)[rng.below(3)]
    if idn < 0:
        idn = rng.next() & 0xFFFFFFFF
    return "%d:%d:%d:%d" % (nh, off, rng.below(2), idn)


def _auth(rng, pools, nh, words=None):
    if words is None:
        k = rng.below(256)
        words = 0 if k < 80 else (1 if k < 144 else (2 if k < 192 else (3 if k < 224 else (rng.range(4, 8) if k < 254 else (254 if k == 254 else 253)))))
    spi = (0, 4294967295, -1)[rng.below(3)]
    if spi < 0:
        spi = rng.next() & 0xFFFFFFFF
    seq = (0, 4294967295, -1)[rng.below(3)]
    if seq < 0:
        seq = rng.next() & 0xFFFFFFFF
    return "%d:%d:%d:%s" % (nh, spi, seq, pools.icvhex(words))


def _tok(rng, pools, kind, nh, big=False):
    if kind in "hdrx":
        return _raw(rng, pools, nh, 255 if big else None)
    if kind == "f":
        return _frag(rng, nh)
    return _auth(rng, pools, nh, 254 if big else None)

def _chain(rng, seq, final, force=None, fill=False):
    """bytes of a chain of the given header kinds linked to `final`; header boundaries.
    force=(i, v): length byte of header i is v (the data keeps its size unless fill)"""
    data = bytearray()
    bounds = [0]
    for i, kind in enumerate(seq):
        nxt = NUM[seq[i + 1]] if i + 1 < len(seq) else final
        forced = force is not None and force[0] == i
        if kind in "hdrx":
            hl = rng.below(3)
            body = 6 + 8 * (force[1] if forced and fill else hl)
            data += bytes([nxt, force[1] if forced else hl]) + rng.bytes(body)
        elif kind == "f":
            # reserved byte and reserved bits arbitrary; the length byte does not exist (forced: reserved byte)
            data += bytes([nxt, force[1] if forced else rng.below(256)]) + rng.bytes(6)
        else:
            w = rng.below(4)
            body = 10 + 4 * ((force[1] - 1 if force[1] else 0) if forced and fill else w)
            data += bytes([nxt, force[1] if forced else w + 1]) + rng.bytes(body)
        bounds.append(len(data))
    return bytes(data), bounds


def shapes():
    """the 48 representable presence shapes, as strings over 'hdrxfa'"""
    out = []
    for m in range(64):
        s = "".join(k for i, k in enumerate(KINDS) if m >> i & 1)
        if "x" in s and "r" not in s:
            continue
        out.append(s)
    return out


def _e6(first, last, toks):
    return "e6 %d %d %s" % (first, last, " ".join(toks.get(k, "-") for k in KINDS))


def gen_cases(rng, tier):
    big = tier == "thorough"
    pools = Pools(rng)
    cases = []
    shp = shapes()
    firsts = list(range(8))
    # A: every shape x every first class x next_header fields (product when small, else sampled)
    per = 3000 if big else 250
    li = 0
    for s in shp:
        k = len(s)
        for fc in firsts:
            if 8 ** k <= 64:
                combos = []
                for c in range(8 ** k):
                    combos.append([(c >> (3 * i)) & 7 for i in range(k)])
                reps = 3 if k else 8
                combos = combos * reps
            else:
                combos = [[rng.below(8) for _ in range(k)] for _ in range(per)]
            for cl in combos:
                toks = {kind: _tok(rng, pools, kind, _nh(rng, cl[i])) for i, kind in enumerate(s)}
                cases.append(_e6(_nh(rng, fc), _nh(rng, li & 7), toks))
                li += 1
    # B: consistently linked chains, RFC order or permuted, some with one broken link
    for _ in range(700000 if big else 80000):
        s = shp[rng.below(len(shp))]
        order = [k for k in RFC if k in s]
        if not rng.chance(3, 10):
            # random permutation (Fisher-Yates)
            for i in range(len(order) - 1, 0, -1):
                j = rng.below(i + 1)
                order[i], order[j] = order[j], order[i]
            # dest options in front of routing use the first slot, behind it the second
            if "r" in order and "d" in order and "x" in order:
                ir, idd, ix = order.index("r"), order.index("d"), order.index("x")
                if idd > ir or ix < ir:
                    if rng.chance(3, 4):
                        order = [k for k in order if k not in "dx"]
                        order.insert(order.index("r"), "d")
                        order.append("x")
        final = _nh(rng, 5 + rng.below(3)) if rng.chance(4, 5) else _nh(rng, rng.below(5))
        links = {}
        for i, kind in enumerate(order):
            links[kind] = NUM[order[i + 1]] if i + 1 < len(order) else final
        first = NUM[order[0]] if order else final
        if rng.chance(1, 8) and order:
            victim = order[rng.below(len(order))]
            links[victim] = _nh(rng)
        if rng.chance(1, 16):
            first = _nh(rng)
        toks = {kind: _tok(rng, pools, kind, links[kind]) for kind in order}
        cases.append(_e6(first, _nh(rng), toks))
    # C: raw byte chains through from_slice / from_slice_lax
    for _ in range(300000 if big else 24000):
        n = rng.below(9)
        seq = [("h", "d", "r", "f", "a", "d", "r", "a")[rng.below(8)] for _ in range(n)]
        if rng.chance(1, 2) and seq:
            seq[0] = "h" if rng.chance(1, 2) else seq[0]
        final = _nh(rng, 5 + rng.below(3)) if rng.chance(3, 4) else _nh(rng)
        data = bytearray()
        bounds = [0]
        for i, kind in enumerate(seq):
            nxt = NUM[seq[i + 1]] if i + 1 < len(seq) else final
            if kind in "hdr":
                hl = _hl(rng) if rng.chance(1, 40) else rng.below(3)
                data += bytes([nxt, hl]) + rng.bytes(6 + 8 * hl)
            elif kind == "f":
                data += bytes([nxt, rng.below(256)]) + rng.bytes(6)
            else:
                w = rng.below(4)
                data += bytes([nxt, w + 1]) + rng.bytes(10 + 4 * w)
            bounds.append(len(data))
        first = NUM[seq[0]] if seq else final
        m = rng.below(12)
        if m == 0 and data:
            data = data[:rng.below(len(data))]
        elif m == 1 and len(bounds) > 1:
            b = bounds[rng.range(1, len(bounds) - 1)]
            data = data[:max(0, b + rng.range(-1, 1))]
        elif m == 2:
            data += rng.bytes(rng.range(1, 20))
        elif m == 3 and len(bounds) > 1:
            b = bounds[rng.below(len(bounds) - 1)]
            data[b + 1] = (0, 255, data[b + 1] + 1 & 255, rng.below(256))[rng.below(4)]
        elif m == 4:
            first = _nh(rng)
        elif m == 5 and len(bounds) > 1:
            b = bounds[rng.below(len(bounds) - 1)]
            data[b] = _nh(rng)
        cases.append("d6 %d %s" % (first, hx(bytes(data))))
    # F: every sequence of <= 4 (thorough: 5) header kinds -- repeated kinds in every position -- intact, cut
    #    exactly at / one byte before every header boundary, with the length byte of one header 0 / 255
    import itertools
    for k in range(0, 6 if big else 5):
        for seq in itertools.product("hdrfa", repeat=k):
            final = (17, 59, 6, 43, 0, 60, 44, 51)[rng.below(8)] if rng.chance(1, 4) else 17
            data, bounds = _chain(rng, seq, final)
            first = NUM[seq[0]] if seq else final
            cases.append("d6 %d %s" % (first, hx(data + rng.bytes(rng.below(10)))))
            for b in bounds[1:]:
                cases.append("d6 %d %s" % (first, hx(data[:b])))
                cases.append("d6 %d %s" % (first, hx(data[:b - 1])))
            if seq:
                i = rng.below(len(seq))
                for lb in (0, 255):
                    dmg, _ = _chain(rng, seq, final, force=(i, lb))
                    cases.append("d6 %d %s" % (first, hx(dmg)))
                if rng.chance(1, 1 if big else 12):
                    dmg, _ = _chain(rng, seq, final, force=(i, 255), fill=True)
                    cases.append("d6 %d %s" % (first, hx(dmg + rng.bytes(rng.below(4)))))
                if rng.chance(1, 3):
                    cases.append("d6 %d %s" % (_nh(rng), hx(data)))
    # G: read_limited with budgets around the boundaries, beyond the data, and tiny
    for _ in range(60000 if big else 7000):
        n = rng.below(7)
        seq = [("h", "d", "r", "f", "a", "d", "r", "a")[rng.below(8)] for _ in range(n)]
        if seq and rng.chance(1, 3):
            seq[0] = "h"
        final = _nh(rng, 5 + rng.below(3)) if rng.chance(3, 4) else _nh(rng)
        data, bounds = _chain(rng, seq, final)
        data = data + rng.bytes(rng.below(12))
        first = NUM[seq[0]] if seq else final
        m = rng.below(8)
        if m == 0:
            budget = len(data)
        elif m == 1:
            budget = bounds[rng.below(len(bounds))]
        elif m == 2:
            budget = max(0, bounds[rng.below(len(bounds))] - 1)
        elif m == 3:
            budget = bounds[rng.below(len(bounds))] + (1, 2, 7, 8, 11, 12)[rng.below(6)]
        elif m == 4:
            budget = rng.below(13)
        elif m == 5:
            budget = len(data) + rng.range(1, 40)
        else:
            budget = rng.below(len(data) + 1)
        cases.append("l6 %d %d %d %s" % (first, budget, (0, 40, 40, 1234)[rng.below(4)], hx(data)))
    for _ in range(8000 if big else 1500):
        w = rng.below(5)
        data = bytes([_nh(rng), (w + 1, w + 1, w + 1, 0, 255)[rng.below(5)]]) + rng.bytes(10 + 4 * w + rng.below(6))
        budget = (len(data), 12 + 4 * w, 11 + 4 * w, 12, 11, 0, len(data) + 3, rng.below(len(data) + 1))[rng.below(8)]
        first = 51 if rng.chance(5, 6) else _nh(rng)
        cases.append("l4 %d %d %d %s" % (first, budget, (20, 24, 60)[rng.below(3)], hx(data)))
    # D: IPv4
    for auth_present in (0, 1):
        for fc in range(8):
            for lc in range(8):
                for ac in range(8 if auth_present else 1):
                    for _ in range(6 if big else 2):
                        a = _auth(rng, pools, _nh(rng, ac)) if auth_present else "-"
                        cases.append("e4 %d %d %d %s" % (_nh(rng, fc), _nh(rng, lc), 4 * rng.below(11), a))
    for _ in range(30000 if big else 4000):
        w = rng.below(5)
        data = bytearray(bytes([_nh(rng), w + 1]) + rng.bytes(10 + 4 * w))
        m = rng.below(8)
        if m == 0:
            data = data[:rng.below(len(data))]
        elif m == 1:
            data += rng.bytes(rng.range(1, 9))
        elif m == 2:
            data[1] = (0, 255, w + 2, w)[rng.below(4)]
        first = 51 if rng.chance(3, 4) else _nh(rng)
        cases.append("d4 %d %s" % (first, hx(bytes(data))))
    # E: sizes at the limits
    for s in ("h", "d", "r", "rx", "a", "hdrxfa", "hdrfa"):
        for fin in (17, 0):
            order = [k for k in RFC if k in s]
            links = {kind: (NUM[order[i + 1]] if i + 1 < len(order) else fin) for i, kind in enumerate(order)}
            toks = {kind: _tok(rng, pools, kind, links[kind], big=True) for kind in order}
            cases.append(_e6(NUM[order[0]], 59, toks))
            toks = {kind: _tok(rng, pools, kind, _nh(rng), big=True) for kind in order}
            cases.append(_e6(_nh(rng), fin, toks))
    cases.append("e4 51 17 40 " + _auth(rng, pools, 6, 254))
    cases.append("e4 6 51 0 " + _auth(rng, pools, 51, 254))
    for last in (0, 17, 255):
        cases.append("arp %d" % last)
    return cases


def _fields(s):
    d = {}
    for t in s.split():
        if "=" in t:
            k, v = t.split("=", 1)
            d[k] = v
    return d


def _nontrivial(c):
    p = c.split()
    if p[0] == "e6":
        return sum(1 for t in p[3:9] if t != "-") >= 2
    if p[0] == "e4":
        return p[4] != "-"
    if p[0] in ("d6", "d4"):
        return len(p[2]) >= 32
    if p[0] in ("l6", "l4"):
        return len(p[4]) >= 32
    return False


def _oracle(case, il):
    """the property evaluated on the implementation's answers alone (+ the spec fields)"""
    p = case.split()
    tag = p[0]
    if il.startswith("PANIC") or il.startswith("CRASH") or il.startswith("NOT-RUN"):
        return "implementation did not answer: " + il[:120]
    f = _fields(il)
    if tag in ("e6", "e4"):
        v6 = tag == "e6"
        n, w = f.get("n", "?"), f.get("w", "?")
        wst, whex = w.rsplit(":", 1)
        if n.startswith("ok:"):
            if wst != "ok":
                return "next_header is %s but write gives %s" % (n, wst)
        elif wst != n:
            return "next_header fails with %s but write gives %s" % (n, wst)
        if wst == "ok":
            wl = 0 if whex == "-" else len(whex) // 2
            if str(wl) != f.get("l"):
                return "write emitted %d bytes, header_len is %s" % (wl, f.get("l"))
            fin = int(n[3:])
            nonext = (fin not in EXT) if v6 else (fin != 51)
            if nonext:
                if f.get("d") != "ok:same:%d:0" % fin:
                    return "from_slice(write(e)) is %s, expected the same struct, %d, no rest" % (f.get("d"), fin)
                if f.get("x") != "same:%d:0:none" % fin:
                    return "from_slice_lax(write(e)) is %s" % f.get("x")
        if f.get("keep") != "1":
            return "set_next_headers changed something else than next_header fields"
        last = int(p[2])
        if (last not in EXT) if v6 else True:
            if f.get("sn") != "ok:%d" % last:
                return "after set_next_headers(%d) next_header is %s" % (last, f.get("sn"))
            if not f.get("sw", "").startswith("ok:"):
                return "after set_next_headers(%d) write is %s" % (last, f.get("sw", "")[:40])
            if (last != 51 or v6) and f.get("sd") != "ok:same:%d:0" % last:
                return "after set_next_headers(%d) from_slice(write) is %s" % (last, f.get("sd"))
            if f.get("ipn") != "ok:%d" % last:
                return "IpHeaders::next_header after set_next_headers(%d) is %s" % (last, f.get("ipn"))
        want_et = "34525" if v6 else "2048"
        if f.get("et") != want_et:
            return "IpHeaders::set_next_headers returned ether type %s" % f.get("et")
        if f.get("net") != "ok:" + want_et:
            return "NetHeaders::try_set_next_headers returned %s" % f.get("net")
    elif tag in ("d6", "d4"):
        d, x = f.get("d", "?"), f.get("x", "?")
        r, l, wb = f.get("r", "?"), f.get("l", "?"), f.get("wb", "?")
        hdr_off = 40 if tag == "d6" else 20
        if d.startswith("ok:"):
            if x != d[3:] + ":none":
                return "strict from_slice %s but lax %s" % (d[:60], x[:60])
            _, fin, pos = d.rsplit(":", 2)
            off, rl = pos.split("+")
            total = 0 if p[2] == "-" else len(p[2]) // 2
            if int(off) + int(rl) != total:
                return "from_slice: rest %s is not a suffix of the %d input bytes" % (pos, total)
            want = "ok:=d:%s:%s" % (fin, off)
            if r != want:
                return "from_slice ok (%s, consumed %s) but read gives %s" % (fin, off, r[:80])
            if l != want:
                return "from_slice ok (%s, consumed %s) but read_limited(budget = input) gives %s" % (fin, off, l[:80])
            wst, whex = wb.split("/")[0].rsplit(":", 1)
            wl = 0 if whex == "-" else len(whex) // 2
            if wst != "ok" or wl != int(off) or not wb.endswith("/ok:" + fin):
                return "decode then write/next_header: %s (consumed %s bytes, final %s)" % (wb[:80], off, fin)
        else:
            if not x.endswith(":" + d + "/" + x.rsplit("/", 1)[-1]) and tag == "d6":
                return "strict from_slice error %s is not the one lax reports: %s" % (d, x[-80:])
            if tag == "d4" and not x.endswith(":" + d):
                return "strict from_slice error %s is not the one lax reports: %s" % (d, x[-80:])
            if wb != "-":
                return "write-back field without a decoded struct"
            if d in ("hbh", "authzero"):
                if r != d or l != d:
                    return "from_slice %s but read %s / read_limited %s" % (d, r, l)
            elif d.startswith("len:"):
                if r != "io:eof":
                    return "from_slice %s but read gives %s (expected unexpected-eof)" % (d, r[:60])
                dq = d[4:].split(",")
                if not l.startswith("len:"):
                    return "from_slice %s but read_limited gives %s" % (d, l[:60])
                lq = l[4:].split(",")
                if lq[1] != dq[1] or lq[2] != dq[2] or int(lq[3]) != hdr_off + int(dq[3]):
                    return "read_limited LenError %s does not match from_slice %s (+%d)" % (l, d, hdr_off)
                if lq[0] != dq[0] and not (dq[2] == "Ipv6ExtHeader" and int(dq[1]) < 8):
                    return "read_limited required_len %s, from_slice %s" % (lq[0], dq[0])
    return None


def compare(ctx, cases, impl, model_lines):
    corr, orc = [], []
    hist = {"e6": 0, "e4": 0, "d6": 0, "d4": 0, "l6": 0, "l4": 0, "arp": 0,
            "decode stopped at refilled header": 0, "decode: reserved bits lost on write-back": 0,
            "read_limited ok": 0, "read_limited len error": 0, "read_limited eof/content": 0,
            "walk ok non-ext": 0, "walk ok ext": 0, "walk hbh": 0, "walk not-referenced": 0,
            "decode ok": 0, "decode len error": 0, "decode content error": 0,
            "max size header": 0}
    for k in range(7):
        hist["headers=%d" % k] = 0
    masks = set()
    seen = set()
    nontriv = 0
    first_prof = next(iter(impl)) if impl else None
    for i, c in enumerate(cases):
        p = c.split()
        hist[p[0]] += 1
        if p[0] == "e6":
            pres = "".join(k for k, t in zip(KINDS, p[3:9]) if t != "-")
            masks.add(pres)
            hist["headers=%d" % len(pres)] += 1
            if len(c) > 2000:
                hist["max size header"] += 1
        if c not in seen:
            seen.add(c)
            if _nontrivial(c):
                nontriv += 1
        m = s = None
        if model_lines is not None:
            ml = model_lines[i]
            if " | " in ml:
                m, s = ml.split(" | ", 1)
            else:
                m, s = ml, None
        for prof, lines in impl.items():
            il = lines[i]
            if m is not None and il != m:
                corr.append((i, "%s: impl '%s' model '%s'" % (prof, il[:300], m[:300])))
            why = _oracle(c, il)
            if why is None and s is not None and s != "-":
                got = _fields(il)
                for k, v in _fields(s).items():
                    if got.get(k) != v:
                        why = "%s is %s, the RFC 8200 order / wire format gives %s" % (k, str(got.get(k))[:80], v[:80])
                        break
            if why is not None:
                orc.append((i, "%s: %s" % (prof, why), None))
            if prof == first_prof:
                f = _fields(il)
                if p[0] in ("e6", "e4"):
                    n = f.get("n", "")
                    if n.startswith("ok:"):
                        fin = int(n[3:])
                        ext = fin in EXT if p[0] == "e6" else fin == 51
                        hist["walk ok ext" if ext else "walk ok non-ext"] += 1
                    elif n == "hbh":
                        hist["walk hbh"] += 1
                    elif n.startswith("nr:"):
                        hist["walk not-referenced"] += 1
                elif p[0] in ("d6", "d4"):
                    d = f.get("d", "")
                    hist["decode ok" if d.startswith("ok:") else ("decode len error" if d.startswith("len:") else "decode content error")] += 1
                    if d.startswith("ok:"):
                        fin = int(d.rsplit(":", 2)[1])
                        if (fin in EXT) if p[0] == "d6" else fin == 51:
                            hist["decode stopped at refilled header"] += 1
                        whex = f.get("wb", "-").split("/")[0].rsplit(":", 1)[-1]
                        if whex != "-" and not p[2].startswith(whex):
                            hist["decode: reserved bits lost on write-back"] += 1
                elif p[0] in ("l6", "l4"):
                    lv = f.get("l", "")
                    hist["read_limited ok" if lv.startswith("ok:") else ("read_limited len error" if lv.startswith("len:") else "read_limited eof/content")] += 1
    hist["distinct presence shapes (of 48)"] = len(masks)
    return {"corr_mismatch": corr, "oracle_fail": orc, "hist": hist, "nontrivial": nontriv,
            "samples": [cases[0], cases[len(cases) // 3][:400], cases[-4][:400]],
            "exhaustive": False}
