"""C15: bit-field types hold only in-range values and never bleed into neighbours.

Case lines (the same file goes to ocaml/bin/run_c15 and to the harness binary c15):
  try <Type> <lo> <hi>            checked constructors on every value of [lo,hi): RLE of k (Ok, value kept) /
                                  e (Err with actual = v, max_allowed = MAX) / X (anything else), prefixed max=<MAX>
  fromlen <lo> <hi> | fromlenbig <v> | setpl <unmodified 0/1> <lo> <hi>     MacsecShortLen::from_len, set_payload_len
  vlan|ipv4|ipv6|frag|macsec <field> <lo> <hi> <base header fields...>
                                  base header with <field> := v for every v of [lo,hi): to_bytes() of the changed
                                  header, decoded again by every decoder of the crate.  One record per value:
                                  "<hex> [extras] <decoder tag>:<fields> ..."; the line is "base=<hex of base> <record>"
                                  when hi-lo = 1 and "base=<hex> n=<count> h=<FNV-1a64 of the records>" otherwise.
  dec <hdr> <lo> <hi> <pos> <template hex>   template with the 16 bit value v written at byte pos, decoded
  igmp <raw>                      every setter/getter of octet 8 of the IGMPv3 query on this raw value
Runner line: "<model> | <spec>": the spec side packs the RFC layout (Spec.v) and states the expected decode.
"""
import os
import vlib
from vlib import hx

ID = "C15"
EXTRACT = "ExtC15.v"
MLMOD = "m_c15"
RUNNER = "run_c15"
HARNESS_BIN = "c15"
RULE = ("exhaustive: all u8/u16 arguments of the 9 checked constructors, flow label 0..2^20+2^16 (+ windows up to 2^32); "
        "per header every value of every bit field (and of the 8/16 bit neighbours) against all-zeros and all-ones "
        "neighbours, to_bytes() of the real crate vs model vs RFC layout, decoded back by every real decoder; decoders on "
        "every 16 bit value at the bit-field bytes; IGMP octet 8: all 256 raw values x all setter arguments. "
        "evaluations = case lines; extra.values_swept = header/constructor evaluations; a case is non-trivial when it "
        "sweeps at least one value with a non-default neighbour or value; distinct = distinct case lines")
ASSUMPTIONS = ["debug profile (debug_assert in new_unchecked active); release added in the thorough tier",
               "frag identification, MACsec packet number / SCI and values above 2^20+2^16 of the u32 flow label argument are sampled in windows, everything else is enumerated"]
PROJECTION = "all printed bytes and decoded field values (batched lines: FNV-1a64 of the per-value records)"

BITS = {"VlanId": 12, "VlanPcp": 3, "IpDscp": 6, "IpEcn": 2, "IpFragOffset": 13, "Ipv6FlowLabel": 20,
        "MacsecAn": 2, "MacsecShortLen": 6, "Qrv": 3}
ARG = {"VlanId": 16, "VlanPcp": 8, "IpDscp": 8, "IpEcn": 8, "IpFragOffset": 16, "Ipv6FlowLabel": 32,
       "MacsecAn": 8, "MacsecShortLen": 8, "Qrv": 8}

# the python side's own copy of the bit ranges (RFC numbering, bit 0 = msb of byte 0): (offset, length)
RANGES = {
    "vlan": {"pcp": (0, 3), "dei": (3, 1), "vid": (4, 12), "et": (16, 16)},
    "ipv4": {"dscp": (8, 6), "ecn": (14, 2), "tl": (16, 16), "id": (32, 16), "df": (49, 1), "mf": (50, 1),
             "fo": (51, 13), "ttl": (64, 8), "pr": (72, 8), "ck": (80, 16)},
    "ipv6": {"dscp": (4, 6), "ecn": (10, 2), "tc": (4, 8), "fl": (12, 20), "pl": (32, 16), "nh": (48, 8), "hl": (56, 8)},
    "frag": {"nh": (0, 8), "fo": (16, 13), "mf": (31, 1), "id": (32, 32)},
    "macsec": {"es": (1, 1), "scb": (3, 1), "an": (6, 2), "sl": (10, 6), "pn": (16, 32)},
}
DOMAIN = {
    "vlan": {"pcp": 8, "dei": 2, "vid": 4096, "et": 65536},
    "ipv4": {"dscp": 64, "ecn": 4, "tl": 65536, "id": 65536, "df": 2, "mf": 2, "fo": 8192, "ttl": 256, "pr": 256, "ck": 65536},
    "ipv6": {"dscp": 64, "ecn": 4, "tc": 256, "fl": 1 << 20, "pl": 65536, "nh": 256, "hl": 256},
    "frag": {"nh": 256, "fo": 8192, "mf": 2, "id": 1 << 32},
    "macsec": {"es": 2, "scb": 2, "an": 4, "sl": 64, "pn": 1 << 32},
}
BATCH = 4096

Z16 = "00" * 16
F16 = "ff" * 16
BASES = {
    "vlan": ["0 0 0 0", "7 1 4095 65535"],
    "ipv4": ["0 0 0 0 0 0 0 0 0 0 00000000 00000000 -",
             "63 3 65535 65535 1 1 8191 255 255 65535 ffffffff ffffffff " + "ff" * 40,
             "63 3 65535 65535 1 1 8191 255 255 65535 ffffffff ffffffff ffffffff"],
    "ipv6": ["0 0 0 0 0 %s %s" % (Z16, Z16), "255 1048575 65535 255 255 %s %s" % (F16, F16)],
    "frag": ["0 0 0 0", "255 8191 1 4294967295"],
}
MS_PT = ["u0", "u65535", "m", "e", "eu"]
MS_SCI = ["-", "0", "18446744073709551615"]


def corpus():
    return [
        "try VlanId 4094 4098",
        "try IpEcn 0 256",
        "try Ipv6FlowLabel 1048574 1048578",
        "try Ipv6FlowLabel 4294967290 4294967296",
        "vlan vid 4095 4096 7 1 0 65535",
        "vlan pcp 7 8 0 0 0 0",
        "ipv4 dscp 63 64 0 0 0 0 0 0 0 0 0 0 00000000 00000000 -",
        "ipv4 fo 8191 8192 0 0 0 0 0 0 0 0 0 0 00000000 00000000 -",
        "ipv6 fl 1048575 1048576 0 0 0 0 0 %s %s" % (Z16, Z16),
        "ipv6 tc 255 256 0 0 0 0 0 %s %s" % (Z16, Z16),
        "ipv6 dscp 0 1 255 1048575 65535 255 255 %s %s" % (F16, F16),
        "frag fo 8191 8192 0 0 0 0",
        "macsec sl 1 2 u2048 1 1 3 0 4294967295 18446744073709551615",
        "macsec an 3 4 m 0 0 0 0 0 -",
        "igmp 255",
        "igmp 0",
    ]


def _sweep(out, tag, field, dom, base, singles_rng=None):
    """whole domain in batches + single (clear text) lines"""
    if dom <= 64:
        for v in range(dom):
            out.append("%s %s %d %d %s" % (tag, field, v, v + 1, base))
        out.append("%s %s 0 %d %s" % (tag, field, dom, base))
        return
    for lo in range(0, dom, BATCH):
        out.append("%s %s %d %d %s" % (tag, field, lo, min(dom, lo + BATCH), base))
    pts = {0, 1, 2, dom - 1, dom - 2, dom // 2, dom // 2 - 1}
    if singles_rng is not None:
        for _ in range(6):
            pts.add(singles_rng.below(dom))
    for v in sorted(pts):
        out.append("%s %s %d %d %s" % (tag, field, v, v + 1, base))


def _windows(out, tag, field, base, rng, n, width=BATCH):
    """a 32 bit field: bottom, top and random windows"""
    top = 1 << 32
    for lo in [0, top - width] + [rng.below(top - width) for _ in range(n)]:
        out.append("%s %s %d %d %s" % (tag, field, lo, lo + width, base))
    for v in (0, 1, top - 1, top - 2, 0x80000000, 0x7fffffff, 0x01020304, rng.below(top)):
        out.append("%s %s %d %d %s" % (tag, field, v, v + 1, base))


def _rand_hdr(rng, tag):
    if tag == "vlan":
        return "%d %d %d %d" % (rng.below(8), rng.below(2), rng.below(4096), rng.below(65536))
    if tag == "ipv4":
        return "%d %d %d %d %d %d %d %d %d %d %s %s %s" % (
            rng.below(64), rng.below(4), rng.below(65536), rng.below(65536), rng.below(2), rng.below(2),
            rng.below(8192), rng.below(256), rng.below(256), rng.below(65536), hx(rng.bytes(4)), hx(rng.bytes(4)),
            hx(rng.bytes(4 * rng.below(11))))
    if tag == "ipv6":
        return "%d %d %d %d %d %s %s" % (rng.below(256), rng.below(1 << 20), rng.below(65536), rng.below(256),
                                          rng.below(256), hx(rng.bytes(16)), hx(rng.bytes(16)))
    if tag == "frag":
        return "%d %d %d %d" % (rng.below(256), rng.below(8192), rng.below(2), rng.below(1 << 32))
    if tag == "macsec":
        pt = rng.choice(["u%d" % rng.below(65536), "m", "e", "eu"])
        sci = "-" if rng.chance(1, 2) else str(rng.next())
        return "%s %d %d %d %d %d %s" % (pt, rng.below(2), rng.below(2), rng.below(4), rng.below(64), rng.below(1 << 32), sci)
    raise ValueError(tag)


def gen_cases(rng, tier):
    big = tier == "thorough"
    out = []
    # ---- checked constructors: the complete argument type (u8, u16), flow label 0 .. 2^20+2^16
    for t, bits in ARG.items():
        mx = (1 << BITS[t]) - 1
        if bits == 8:
            out.append("try %s 0 256" % t)
            for v in range(256):
                out.append("try %s %d %d" % (t, v, v + 1))
        elif bits == 16:
            for lo in range(0, 65536, 1024):
                out.append("try %s %d %d" % (t, lo, lo + 1024))
            for v in range(max(0, mx - 3), mx + 4):
                out.append("try %s %d %d" % (t, v, v + 1))
            out.append("try %s 65535 65536" % t)
        else:
            top = (1 << 20) + (1 << 16)
            for lo in range(0, top, BATCH):
                out.append("try %s %d %d" % (t, lo, lo + BATCH))
            for v in range(mx - 3, mx + 4):
                out.append("try %s %d %d" % (t, v, v + 1))
            out.append("try %s %d %d" % (t, (1 << 32) - BATCH, 1 << 32))
            for _ in range(16 if not big else 256):
                lo = rng.below((1 << 32) - BATCH)
                out.append("try %s %d %d" % (t, lo, lo + BATCH))
            if big:
                for lo in range(top, 1 << 24, 65536):
                    out.append("try %s %d %d" % (t, lo, lo + 65536))
    out.append("fromlen 0 300")
    for v in (64, 255, 256, 257, 319, 320, 65536, 65599, 1 << 32, (1 << 32) + 5, (1 << 32) + 63, (1 << 64) - 1, (1 << 64) - 193):
        out.append("fromlenbig %d" % v)
    for u in (0, 1):
        out.append("setpl %d 0 300" % u)
        out.append("setpl %d %d %d" % (u, (1 << 32) - 2, (1 << 32) + 70))
        out.append("setpl %d 65530 65610" % u)
    # ---- encoders: every field's whole domain against all-zeros / all-ones neighbours
    for tag in ("vlan", "ipv4", "ipv6", "frag"):
        for base in BASES[tag]:
            for field, dom in DOMAIN[tag].items():
                if tag == "ipv4" and base is BASES["ipv4"][2] and dom > 8192:
                    continue
                if dom == 1 << 32:
                    _windows(out, tag, field, base, rng, 4 if not big else 64)
                else:
                    _sweep(out, tag, field, dom, base, rng)
    for pt in MS_PT:
        for sci in MS_SCI:
            for nb in ("0 0 0 0 0", "1 1 3 63 4294967295", "1 1 3 1 4294967295", "0 0 0 2 0"):
                base = "%s %s %s" % (pt, nb, sci)
                for field, dom in DOMAIN["macsec"].items():
                    if dom == 1 << 32:
                        _windows(out, "macsec", field, base, rng, 1 if not big else 8, 512)
                    else:
                        _sweep(out, "macsec", field, dom, base, rng)
    # ---- random, mostly in-range structured headers (single values, clear text)
    for _ in range(3000 if not big else 60000):
        tag = rng.choice(["vlan", "ipv4", "ipv6", "frag", "macsec"])
        base = _rand_hdr(rng, tag)
        field = rng.choice(list(DOMAIN[tag].keys()))
        dom = DOMAIN[tag][field]
        v = rng.choice([0, dom - 1, rng.below(dom), rng.below(dom)])
        out.append("%s %s %d %d %s" % (tag, field, v, v + 1, base))
    # ---- IGMP octet 8
    for raw in range(256):
        out.append("igmp %d" % raw)
    # ---- decoders on every 16 bit value at the bit-field bytes (valid and malformed headers)
    decs = [
        ("vlan", 0, "00000000"), ("vlan", 0, "0000ffff"), ("vlan", 0, "00000800aabb"),
        ("ipv4", 0, "45" + "00" * 59), ("ipv4", 0, "45" + "ff" * 59), ("ipv4", 0, "45" + "00" * 19),
        ("ipv4", 6, "45" + "00" * 19), ("ipv4", 6, "4f" + "ff" * 59), ("ipv4", 1, "46" + "00" * 23),
        ("ipv6", 0, "00" * 40), ("ipv6", 0, "ff" * 40), ("ipv6", 2, "60" + "00" * 39), ("ipv6", 2, "6f" + "ff" * 39),
        ("ipv6", 0, "60" + "00" * 38),
        ("frag", 2, "00" * 8), ("frag", 2, "ff" * 8), ("frag", 2, "11" * 7),
        ("macsec", 0, "00" * 16), ("macsec", 0, "ff" * 16), ("macsec", 0, "00" * 8), ("macsec", 0, "00" * 6),
        ("macsec", 0, "00" * 14),
    ]
    for hdr, pos, tmpl in decs:
        for lo in range(0, 65536, BATCH):
            out.append("dec %s %d %d %d %s" % (hdr, lo, lo + BATCH, pos, tmpl))
        for v in (0, 1, 0xffff, 0x8000, 0x7fff, 0x6000, 0x6fff, 0x4500, rng.below(65536), rng.below(65536)):
            out.append("dec %s %d %d %d %s" % (hdr, v, v + 1, pos, tmpl))
    for _ in range(2000 if not big else 40000):
        hdr, n = rng.choice([("vlan", 4), ("ipv4", 60), ("ipv6", 40), ("frag", 8), ("macsec", 16)])
        t = bytearray(rng.bytes(n))
        if hdr == "ipv4":
            t[0] = 0x40 | rng.range(0, 15) if rng.chance(9, 10) else t[0]
        if hdr == "ipv6" and rng.chance(9, 10):
            t[0] = 0x60 | (t[0] & 15)
        if hdr == "macsec" and rng.chance(9, 10):
            t[0] &= 0x7f
        if rng.chance(1, 8):
            t = t[:rng.below(n + 1)]
        if len(t) < 2:
            continue
        pos = rng.below(min(len(t) - 1, 8))
        v = (t[pos] << 8) | t[pos + 1]
        out.append("dec %s %d %d %d %s" % (hdr, v, v + 1, pos, hx(bytes(t))))
    # spread the heavy batched lines over the shards
    n = len(out)
    for i in range(n - 1, 0, -1):
        j = rng.below(i + 1)
        out[i], out[j] = out[j], out[i]
    return out


def _bits(b):
    return "".join("{:08b}".format(x) for x in b)


def _expect_try(t, lo, hi):
    mx = (1 << BITS[t]) - 1
    parts = []
    nk = max(0, min(hi, mx + 1) - lo)
    ne = (hi - lo) - nk
    if nk:
        parts.append("k*%d" % nk)
    if ne:
        parts.append("e*%d" % ne)
    return "max=%d %s" % (mx, ",".join(parts))


def _py_oracle(parts, line):
    """independent check on one implementation line; returns None or a reason"""
    tag = parts[0]
    for bad in ("PANIC", "CRASH", "NOT-RUN", "DIFF(", "UB", "OOB", "X*"):
        if bad in line:
            return "implementation output contains %s" % bad
    if tag == "try":
        want = _expect_try(parts[1], int(parts[2]), int(parts[3]))
        if line != want:
            return "constructor accepts/rejects differently from 2^%d-1: got '%s' want '%s'" % (BITS[parts[1]], line[:120], want)
        return None
    if tag in RANGES and int(parts[3]) - int(parts[2]) == 1 and parts[1] != "none":
        f, v = parts[1], int(parts[2])
        toks = line.split()
        if len(toks) < 2 or not toks[0].startswith("base="):
            return "unparsable line"
        base = bytes.fromhex(toks[0][5:])
        new = bytes.fromhex(toks[1])
        if len(base) != len(new):
            return "length of the encoding changed with field %s" % f
        off, ln = RANGES[tag][f]
        a, b = _bits(base), _bits(new)
        if a[:off] != b[:off] or a[off + ln:] != b[off + ln:]:
            d = [i for i in range(len(a)) if a[i] != b[i] and not (off <= i < off + ln)]
            return "field %s := %d changed bit(s) %s outside its range [%d,%d)" % (f, v, d[:8], off, off + ln)
        if int(b[off:off + ln], 2) != v:
            return "field %s := %d is encoded as %d in bits [%d,%d)" % (f, v, int(b[off:off + ln], 2), off, off + ln)
    return None


def _count(parts):
    tag = parts[0]
    if tag in ("try",):
        return int(parts[3]) - int(parts[2])
    if tag in RANGES or tag == "dec":
        return int(parts[3]) - int(parts[2])
    if tag in ("fromlen",):
        return int(parts[2]) - int(parts[1])
    if tag == "setpl":
        return int(parts[3]) - int(parts[2])
    if tag == "igmp":
        return 8 + 2 + 256
    return 1


def compare(ctx, cases, impl, model_lines):
    corr, orc = [], []
    hist = {}
    seen = set()
    nontriv = 0
    swept = 0
    for i, c in enumerate(cases):
        parts = c.split()
        key = parts[0] if parts[0] not in RANGES else "%s.%s" % (parts[0], parts[1])
        if parts[0] in ("try", "dec"):
            key = "%s.%s" % (parts[0], parts[1])
        hist[key] = hist.get(key, 0) + 1
        cnt = _count(parts)
        swept += cnt
        hist["values:" + parts[0]] = hist.get("values:" + parts[0], 0) + cnt
        if c not in seen:
            seen.add(c)
            if cnt >= 1 and any(ch not in "0- " for ch in " ".join(parts[2:])):
                nontriv += 1
        m = s = None
        if model_lines is not None:
            ml = model_lines[i]
            if " | " in ml:
                m, s = ml.split(" | ", 1)
            else:
                m, s = ml, None
        for prof, lines in impl.items():
            il = lines[i]
            if m is not None and il != m:
                corr.append((i, "%s: impl '%s' model '%s'" % (prof, il[:300], m[:300])))
            why = _py_oracle(parts, il)
            if why is None and s is not None and il != s:
                why = "differs from the RFC layout / expected decode: impl '%s' spec '%s'" % (il[:300], s[:300])
            if why is not None:
                orc.append((i, "%s: %s" % (prof, why), None))
    return {"corr_mismatch": corr, "oracle_fail": orc, "hist": hist, "nontrivial": nontriv,
            "samples": [cases[0], cases[len(cases) // 2], cases[-1]],
            "exhaustive": True, "extra": {"values_swept": swept}}


def shrink(ctx, case, why, exes, model_ok):
    """a batched line: find the first single value on which implementation and spec/model differ"""
    parts = case.split()
    tag = parts[0]
    if tag == "try":
        li, hi_i = 2, 3
    elif tag in RANGES or tag == "dec":
        li, hi_i = 2, 3
    else:
        return case, why
    lo, hi = int(parts[li]), int(parts[hi_i])
    if hi - lo <= 1 or hi - lo > 70000:
        return case, why
    singles = []
    for v in range(lo, hi):
        p = list(parts)
        p[li], p[hi_i] = str(v), str(v + 1)
        singles.append(" ".join(p))
    exe = exes.get("debug") or list(exes.values())[0]
    il = vlib.run_sharded([exe], singles, ID + "_shr_i")
    ml = vlib.run_sharded([os.path.join(vlib.OCAML, "bin", RUNNER)], singles, ID + "_shr_m") if model_ok else None
    for k, sc in enumerate(singles):
        w = _py_oracle(sc.split(), il[k])
        if w is None and ml is not None:
            m, _, s = ml[k].partition(" | ")
            if il[k] != s:
                w = "differs from the RFC layout / expected decode: impl '%s' spec '%s'" % (il[k][:400], s[:400])
            elif il[k] != m:
                w = "impl '%s' model '%s'" % (il[k][:400], m[:400])
        if w is not None:
            return sc, w
    return case, why
