"""C10: PacketBuilder emits consistent, parseable packets of the announced size.

Case line:  b <link> <vlan> <net> <transport> <payload>
  link       n | e/<src>/<dst> | s/<packet type>/<valid len>/<addr 8 bytes>
  vlan       n | 1s/<vid> | 2s/<outer>/<inner> | 1h/<pcp.dei.vid.et> | 2h/<..>/<..>        (s = single_vlan()/double_vlan(), h = vlan(VlanHeader))
  net        4s/<src>/<dst>/<ttl>                                                      (.ipv4)
             4h/<dscp.ecn.tl.id.df.mf.fo.ttl.proto.ck>/<src>/<dst>/<options>/<auth|->     (.ip(IpHeaders::Ipv4))
             6s/<src>/<dst>/<hop limit>                                                (.ipv6)
             6h/<tc.fl.pl.nh.hop>/<src>/<dst>/<hop;dest;routing;final dest;frag;auth>   (.ip(IpHeaders::Ipv6))
             a/<hw.proto.op>/<sender hw>/<sender proto>/<target hw>/<target proto>     (.arp)
  transport  r/<ip number>  (write(ip_number, payload))  | u/<sp.dp>
             ts|th|te/<sp.dp.seq.ack.flags.win.urg.ck>/<options raw>[/<elements>]      (tcp()+setters+options_raw | tcp_header | tcp()+setters+options(elements))
             i4|i6/ u.<type>.<code>.<bytes5to8> | q.<id>.<seq> | p.<id>.<seq> | Q.. | P.. (through icmpvN(type))
             i4/ du.<code 0-15>.<next hop mtu> | rd.<code 0-3>.<gateway> | te.<code 0-1> | pp.<code 0-2>.<pointer> |
                 tq|tp.<id>.<seq>.<originate>.<receive>.<transmit>                       (every Icmpv4Type variant, field by field)
             i6/ du.<code 0-6> | tb.<mtu> | te.<code 0-1> | pp.<code 0-10>.<pointer> | rs | ra.<cur hop limit>.<M>.<O>.<lifetime> |
                 ns | na.<R>.<S>.<O> | rd                                                (every Icmpv6Type variant)
  payload    - | <hex> | g<len>.<seed> | c<len>.<byte>
The implementation prints  "<verdict> size=<size()> <bytes through write()> ; vec=.. slice=.. short=.. parse=.. crate=.."
the runner                 "<verdict> size=<final_size> <bytes> | wire=<reference decoder> exp=<expected_x view (C10_parse_back) | - when the payload is not admitted>
                            upto=<ok|DIFF|-> ts=<ok|DIFF|-> dec=<ok|DIFF|->"  (instances of C10_parse_back_upto_transport, C10_timestamp_wrong_size_rejected,
                            C10_icmp4/6_value_back evaluated on the extracted definitions; '-' = hypotheses not met).
"""
import struct

from vlib import hx

ID = "C10"
EXTRACT = "ExtC10.v"
MLMOD = "m_c10"
RUNNER = "run_c10"
HARNESS_BIN = "c10"
RELEASE_ALWAYS = True     # `as u16` / u16 arithmetic: debug (overflow checks) and release
RULE = ("every builder path (none|ethernet2|linux_sll) x (no|single|double VLAN, helper and VlanHeader API) x "
        "(ipv4()|ipv6()|ip(IpHeaders) with IPv4 options / AH and all 48 IPv6 extension shapes|arp) x "
        "(udp|tcp incl. flag setters, options_raw, options(elements), tcp_header|icmpv4/icmpv6 raw, echo helpers, every typed kind|"
        "write(ip_number)) x payload lengths 0,1,2,3,8,9 and the five lengths around every length-field limit "
        "(65507, 65527, 65535 and the limit of the configuration), random header field values, payloads crafted so that the "
        "computed checksum is 0x0000/0xffff; a case is non-trivial when it has at least three layers and a non-empty payload or "
        "ends in a builder error; distinct = distinct case lines")
ASSUMPTIONS = [
    "little-endian host in the correspondence run (the theorems quantify over both endiannesses)",
    "64-bit usize: the sums of header lengths and payload.len() cannot wrap (payload.len() < 2^63)",
    "C10_parse_back (wire reference decoder = expected_x) holds for every configuration whose payload the message type admits (payload_admitted: not write(ip_number) with 1/6/17/58/51 or, over IPv6, an extension header number; not an ICMPv4 timestamp message -- typed TimestampRequest/Reply or raw type 13/14 code 0 -- whose total size is not 20 bytes); for the excluded cases C10_parse_back_upto_ip / _upto_transport / C10_timestamp_wrong_size_rejected state what the decoder returns and C10_parse_back_refuted_* that the full equation fails; the chain part of C10_next_protocol_fields needs chain_pre on write(ip_number) over IPv6",
    "C10_icmp4_value_back(_cfg) / C10_icmp6_value_back(_cfg): beyond cfg_wf the only hypothesis is that a raw Unknown{type, code} (icmpv4_raw / icmpv6_raw) does not name a typed kind (C10_icmp_wf_gap; the 29 ICMPv4 / 28 ICMPv6 pairs are listed by C10_icmp_typed_pairs); such a value is read back as that kind (C10_ex_raw_named; window theorems still apply)",
    "C10_crate_parse_back / C10_build_bytes_ok / C10_checksums_verify additionally assume every payload element is a byte (bytes_ok p)",
    "values satisfy the type invariants of the crate's structs (array sizes, bounded newtypes, option/ICV buffer lengths): cfg_wf in the theorems, enforced by construction in the harness",
]
PROJECTION = "verdict (ok / error kind with its numbers), size(), every byte that reached the sink"

ET_V4, ET_V6, ET_ARP, ET_VLAN, ET_QINQ = 0x0800, 0x86dd, 0x0806, 0x8100, 0x88a8


# ----------------------------------------------------------------------------
# RFC 1071, written plainly
# ----------------------------------------------------------------------------
def ones_sum(b):
    if len(b) & 1:
        b = b + b"\0"
    s = sum(struct.unpack(">%dH" % (len(b) // 2), b))
    while s > 0xffff:
        s = (s & 0xffff) + (s >> 16)
    return s


def rfc1071(b):
    return 0xffff - ones_sum(b)


def payload_bytes(t):
    if t == "-":
        return b""
    if t[0] == "g":
        l, seed = t[1:].split(".")
        l, seed = int(l), int(seed)
        return bytes(((seed + 131 * i + 7 * (i >> 8)) & 255) for i in range(l))
    if t[0] == "c" and "." in t:
        l, b = t[1:].split(".")
        return bytes([int(b)]) * int(l)
    return bytes.fromhex(t)


# ----------------------------------------------------------------------------
# independent reference builder (from the RFC layouts)
# ----------------------------------------------------------------------------
class Unsupported(Exception):
    pass


def be16(v):
    return struct.pack(">H", v & 0xffff)


def be32(v):
    return struct.pack(">I", v & 0xffffffff)


def _raw(t):
    if t == "-":
        return None
    nh, p = t.split(":")
    return [int(nh), bytes.fromhex(p)]


def _frag(t):
    if t == "-":
        return None
    nh, off, m, ident = t.split(":")
    return [int(nh), int(off), int(m), int(ident)]


def _auth(t):
    if t == "-":
        return None
    nh, spi, seq, icv = t.split(":")
    return [int(nh), int(spi), int(seq), bytes.fromhex(icv) if icv != "-" else b""]


def raw_bytes(h, nh):
    return bytes([nh, (len(h[1]) - 6) // 8]) + h[1]


def frag_bytes(h, nh):
    return bytes([nh, 0]) + be16((h[1] << 3) | h[2]) + be32(h[3])


def auth_bytes(h, nh):
    return bytes([nh, len(h[3]) // 4 + 1, 0, 0]) + be32(h[1]) + be32(h[2]) + h[3]


EXT_NUMBERS = (0, 43, 44, 51, 60)


def parse_case(c):
    a = c.split()
    return a[1], a[2], a[3], a[4], a[5]


def tr_number(tr):
    p = tr.split("/")
    return {"r": None, "u": 17, "ts": 6, "th": 6, "te": 6, "i4": 1, "i6": 58}[p[0]] if p[0] != "r" else int(p[1])


def icmp_header(kind, v6):
    """header bytes with a zero checksum, from the RFC figures (RFC 792 / 1191 / 4443 / 4861)"""
    k = kind.split(".")
    z4 = bytes(4)
    if k[0] == "u":
        return bytes([int(k[1]), int(k[2]), 0, 0]) + bytes.fromhex(k[3])
    if k[0] in ("q", "Q"):
        return bytes([128 if v6 else 8, 0, 0, 0]) + be16(int(k[1])) + be16(int(k[2]))
    if k[0] in ("p", "P"):
        return bytes([129 if v6 else 0, 0, 0, 0]) + be16(int(k[1])) + be16(int(k[2]))
    if k[0] == "x":
        b = bytearray(bytes.fromhex(k[1]))
        b[2] = b[3] = 0
        return bytes(b)
    if not v6:
        if k[0] == "du":      # RFC 792 destination unreachable; code 4: RFC 1191 next-hop MTU in octets 6-7
            code = int(k[1])
            return bytes([3, code, 0, 0, 0, 0]) + (be16(int(k[2])) if code == 4 else bytes(2))
        if k[0] == "rd":      # redirect: gateway internet address
            return bytes([5, int(k[1]), 0, 0]) + bytes.fromhex(k[2])
        if k[0] == "te":
            return bytes([11, int(k[1]), 0, 0]) + z4
        if k[0] == "pp":      # parameter problem: pointer in octet 4 (code 0 only)
            code = int(k[1])
            return bytes([12, code, 0, 0, int(k[2]) if code == 0 else 0, 0, 0, 0])
        if k[0] in ("tq", "tp"):   # timestamp / timestamp reply: 20 octets
            return (bytes([13 if k[0] == "tq" else 14, 0, 0, 0]) + be16(int(k[1])) + be16(int(k[2]))
                    + be32(int(k[3])) + be32(int(k[4])) + be32(int(k[5])))
    else:
        if k[0] == "du":
            return bytes([1, int(k[1]), 0, 0]) + z4
        if k[0] == "tb":      # RFC 4443 3.2: MTU
            return bytes([2, 0, 0, 0]) + be32(int(k[1]))
        if k[0] == "te":
            return bytes([3, int(k[1]), 0, 0]) + z4
        if k[0] == "pp":      # RFC 4443 3.4: pointer
            return bytes([4, int(k[1]), 0, 0]) + be32(int(k[2]))
        if k[0] == "rs":
            return bytes([133, 0, 0, 0]) + z4
        if k[0] == "ra":      # RFC 4861 4.2: cur hop limit, M O flags, router lifetime
            return bytes([134, 0, 0, 0, int(k[1]), (int(k[2]) << 7) | (int(k[3]) << 6)]) + be16(int(k[4]))
        if k[0] == "ns":
            return bytes([135, 0, 0, 0]) + z4
        if k[0] == "na":      # RFC 4861 4.4: R S O flags
            return bytes([136, 0, 0, 0, (int(k[1]) << 7) | (int(k[2]) << 6) | (int(k[3]) << 5), 0, 0, 0])
        if k[0] == "rd":
            return bytes([137, 0, 0, 0]) + z4
    raise Unsupported(kind)


def tcp_header(tr):
    p = tr.split("/")
    f = [int(x) for x in p[1].split(".")]
    sp, dp, seq, ack, flags, win, urg, _ck = f
    opts = bytes.fromhex(p[2]) if p[2] != "-" else b""
    b12 = ((5 + len(opts) // 4) << 4) | ((flags >> 8) & 1)
    return be16(sp) + be16(dp) + be32(seq) + be32(ack) + bytes([b12, flags & 0xff]) + be16(win) + be16(0) + be16(urg) + opts


def transport_header_len(tr):
    p = tr.split("/")
    if p[0] == "r":
        return 0
    if p[0] == "u":
        return 8
    if p[0] in ("ts", "th", "te"):
        return 20 + (len(p[2]) // 2 if p[2] != "-" else 0)
    return len(icmp_header(p[1], p[0] == "i6"))


def ref_build(link, vlan, net, tr, payload):
    """returns ('ok', bytes) | ('err', text-or-None) following the property's wording:
    payload too large for a length field / ICMPv6 in IPv4; None = not decided here
    (raw ip number that is itself an extension header number)"""
    n = net.split("/")
    plen = len(payload)
    trn = tr_number(tr)
    tkind = tr.split("/")[0]
    # ---- net + transport
    if n[0] == "a":
        hw, pr, op = [int(x) for x in n[1].split(".")]
        shw, sp, thw, tp = [bytes.fromhex(x) if x != "-" else b"" for x in n[2:6]]
        body = be16(hw) + be16(pr) + bytes([len(shw), len(sp)]) + be16(op) + shw + sp + thw + tp + payload
        et = ET_ARP
    elif n[0] in ("4s", "4h"):
        et = ET_V4
        if n[0] == "4s":
            dscp = ecn = ident = mf = fo = 0
            df = 1
            ttl = int(n[3])
            src, dst = bytes.fromhex(n[1]), bytes.fromhex(n[2])
            opts, auth = b"", None
        else:
            dscp, ecn, _tl, ident, df, mf, fo, ttl, _proto, _ck = [int(x) for x in n[1].split(".")]
            src, dst = bytes.fromhex(n[2]), bytes.fromhex(n[3])
            opts = bytes.fromhex(n[4]) if n[4] != "-" else b""
            auth = _auth(n[5])
        xlen = 0 if auth is None else 12 + len(auth[3])
        thl = transport_header_len(tr)
        ipl = xlen + thl + plen
        mx = 65535 - 20 - len(opts)
        if ipl > mx:
            return ("err", "payloadlen:%d:%d:Ipv4PayloadLength" % (ipl, mx))
        if tkind == "i6":
            return ("err", "icmpv6inipv4")
        proto = 51 if auth is not None else trn
        hl = 20 + len(opts)
        h = bytearray(bytes([0x40 | (hl // 4), (dscp << 2) | ecn]) + be16(hl + ipl) + be16(ident)
                      + be16((df << 14) | (mf << 13) | fo) + bytes([ttl, proto]) + be16(0) + src + dst + opts)
        h[10:12] = be16(rfc1071(bytes(h)))
        x = b"" if auth is None else auth_bytes(auth, trn)
        pseudo = lambda l, p: src + dst + bytes([0, p]) + be16(l)
        body = bytes(h) + x + transport_bytes(tr, payload, pseudo, False)
    elif n[0] in ("6s", "6h"):
        et = ET_V6
        if n[0] == "6s":
            tc = fl = 0
            hop = int(n[3])
            src, dst = bytes.fromhex(n[1]), bytes.fromhex(n[2])
            chain = []
        else:
            tc, fl, _pl, _nh, hop = [int(x) for x in n[1].split(".")]
            src, dst = bytes.fromhex(n[2]), bytes.fromhex(n[3])
            x = n[4].split(";")
            # RFC 8200 4.1 order
            chain = []
            if _raw(x[0]):
                chain.append((0, raw_bytes, _raw(x[0])))
            if _raw(x[1]):
                chain.append((60, raw_bytes, _raw(x[1])))
            if _raw(x[2]):
                chain.append((43, raw_bytes, _raw(x[2])))
            if _frag(x[4]):
                chain.append((44, frag_bytes, _frag(x[4])))
            if _auth(x[5]):
                chain.append((51, auth_bytes, _auth(x[5])))
            if _raw(x[2]) and _raw(x[3]):
                chain.append((60, raw_bytes, _raw(x[3])))
        if tkind == "r" and trn in EXT_NUMBERS and chain:
            return ("any", None)
        xb = b""
        for i, (num, enc, h) in enumerate(chain):
            nxt = chain[i + 1][0] if i + 1 < len(chain) else trn
            xb += enc(h, nxt)
        thl = transport_header_len(tr)
        ipl = len(xb) + thl + plen
        if ipl > 65535:
            return ("err", "payloadlen:%d:65535:Ipv6PayloadLength" % ipl)
        first = chain[0][0] if chain else trn
        h = be32((6 << 28) | (tc << 20) | fl) + be16(ipl) + bytes([first, hop]) + src + dst
        pseudo = lambda l, p: src + dst + be32(l) + bytes([0, 0, 0, p])
        body = h + xb + transport_bytes(tr, payload, pseudo, True)
    else:
        raise Unsupported(net)
    # ---- vlan
    v = vlan.split("/")
    if v[0] == "n":
        vb, first_et = b"", et
    else:
        if v[0] in ("1s", "2s"):
            tags = [(0, 0, int(x)) for x in v[1:]]
        else:
            tags = [tuple(int(y) for y in x.split(".")[:3]) for x in v[1:]]
        tci = lambda t: be16((t[0] << 13) | (t[1] << 12) | t[2])
        if len(tags) == 1:
            vb, first_et = tci(tags[0]) + be16(et), ET_VLAN
        else:
            vb, first_et = tci(tags[0]) + be16(ET_VLAN) + tci(tags[1]) + be16(et), ET_QINQ
    # ---- link
    l = link.split("/")
    if l[0] == "n":
        lb = b""
    elif l[0] == "e":
        lb = bytes.fromhex(l[2]) + bytes.fromhex(l[1]) + be16(first_et)
    else:
        lb = be16(int(l[1])) + be16(1) + be16(int(l[2])) + bytes.fromhex(l[3]) + be16(first_et)
    return ("ok", lb + vb + body)


def transport_bytes(tr, payload, pseudo, v6):
    p = tr.split("/")
    plen = len(payload)
    if p[0] == "r":
        return payload
    if p[0] == "u":
        sp, dp = [int(x) for x in p[1].split(".")]
        h = be16(sp) + be16(dp) + be16(8 + plen) + be16(0)
        ck = rfc1071(pseudo(8 + plen, 17) + h + payload)
        if ck == 0:
            ck = 0xffff
        return h[:6] + be16(ck) + payload
    if p[0] in ("ts", "th", "te"):
        h = tcp_header(tr)
        ck = rfc1071(pseudo(len(h) + plen, 6) + h + payload)
        return h[:16] + be16(ck) + h[18:] + payload
    if p[0] == "i4":
        h = icmp_header(p[1], False)
        ck = rfc1071(h + payload)
        return h[:2] + be16(ck) + h[4:] + payload
    if p[0] == "i6":
        h = icmp_header(p[1], True)
        ck = rfc1071(pseudo(len(h) + plen, 58) + h + payload)
        return h[:2] + be16(ck) + h[4:] + payload
    raise Unsupported(tr)


def verify_checksums(net, tr, out, off_net):
    """receiver side: every checksum present must fold to 0xffff; returns a list of complaints"""
    bad = []
    n = net.split("/")
    t = tr.split("/")[0]
    if n[0] in ("4s", "4h"):
        hl = (out[off_net] & 15) * 4
        if ones_sum(out[off_net:off_net + hl]) != 0xffff:
            bad.append("ipv4 header checksum does not verify")
        src, dst = out[off_net + 12:off_net + 16], out[off_net + 16:off_net + 20]
        tl = struct.unpack(">H", out[off_net + 2:off_net + 4])[0]
        if tl != len(out) - off_net:
            bad.append("ipv4 total length %d, actual %d" % (tl, len(out) - off_net))
        pos, proto = off_net + hl, out[off_net + 9]
        if proto == 51:
            ahl = (out[pos + 1] + 2) * 4
            proto, pos = out[pos], pos + ahl
        pseudo = lambda l, p: src + dst + bytes([0, p]) + be16(l)
    elif n[0] in ("6s", "6h"):
        pl = struct.unpack(">H", out[off_net + 4:off_net + 6])[0]
        if pl != len(out) - off_net - 40:
            bad.append("ipv6 payload length %d, actual %d" % (pl, len(out) - off_net - 40))
        src, dst = out[off_net + 8:off_net + 24], out[off_net + 24:off_net + 40]
        pos, proto = off_net + 40, out[off_net + 6]
        guard = 0
        while proto in EXT_NUMBERS and guard < 8 and t != "r":
            guard += 1
            if proto == 44:
                l = 8
            elif proto == 51:
                l = (out[pos + 1] + 2) * 4
            else:
                l = (out[pos + 1] + 1) * 8
            proto, pos = out[pos], pos + l
        pseudo = lambda l, p: src + dst + be32(l) + bytes([0, 0, 0, p])
    else:
        return bad
    if t == "r":
        return bad
    want = {"u": 17, "ts": 6, "th": 6, "te": 6, "i4": 1, "i6": 58}[t]
    if proto != want:
        bad.append("protocol number in front of the transport header is %d, layer is %d" % (proto, want))
        return bad
    seg = out[pos:]
    if t == "u":
        ul = struct.unpack(">H", seg[4:6])[0]
        if ul != len(seg):
            bad.append("udp length %d, actual %d" % (ul, len(seg)))
        if seg[6:8] == b"\0\0":
            bad.append("udp checksum emitted as 0")
        if ones_sum(pseudo(len(seg), 17) + seg) != 0xffff:
            bad.append("udp checksum does not verify")
    elif t in ("ts", "th", "te"):
        if ones_sum(pseudo(len(seg), 6) + seg) != 0xffff:
            bad.append("tcp checksum does not verify")
    elif t == "i4":
        if ones_sum(seg) != 0xffff:
            bad.append("icmpv4 checksum does not verify")
    elif t == "i6":
        if ones_sum(pseudo(len(seg), 58) + seg) != 0xffff:
            bad.append("icmpv6 checksum does not verify")
    return bad


# ----------------------------------------------------------------------------
# generator
# ----------------------------------------------------------------------------
SRC4, DST4 = "c0a80101", "c0a80102"
SRC6 = "0b0c0d0e0f101112130a15161718191a"
DST6 = "1f202122232425262728292a2b2c2d2e"
MAC1, MAC2 = "010203040506", "0708090a0b0c"

LINKVLAN = [("n", "n"), ("s/3/6/0102030405060000", "n"), ("e/%s/%s" % (MAC1, MAC2), "n"),
            ("e/%s/%s" % (MAC1, MAC2), "1s/5"), ("e/%s/%s" % (MAC1, MAC2), "2s/4095/0"),
            ("e/%s/%s" % (MAC1, MAC2), "1h/7.1.4095.2048"), ("e/%s/%s" % (MAC1, MAC2), "2h/1.1.5.7/2.0.6.34525")]

U16B = (0, 1, 65535)
U32B = (0, 1, 4294967295)


def icmp4_kinds(r):
    """every Icmpv4Type variant with boundary and random field values (tokens without the i4/ prefix)"""
    ks = []
    for code in range(16):
        ks.append("du.%d.%d" % (code, r.choice(U16B + (576, r.below(65536))) if code == 4 else 0))
    ks += ["du.4.0", "du.4.65535", "du.4.%d" % r.below(65536)]
    for code in range(4):
        ks.append("rd.%d.%s" % (code, r.choice(["00000000", "ffffffff", hx(r.bytes(4))])))
    ks += ["te.0", "te.1", "pp.0.0", "pp.0.255", "pp.0.%d" % r.below(256), "pp.1.0", "pp.2.0"]
    for tag in ("tq", "tp"):
        ks.append("%s.0.0.0.0.0" % tag)
        ks.append("%s.65535.65535.4294967295.4294967295.4294967295" % tag)
        ks.append("%s.%d.%d.%d.%d.%d" % (tag, r.below(65536), r.below(65536), r.below(1 << 32), r.below(1 << 32), r.below(1 << 32)))
    ks += ["Q.0.65535", "P.65535.0", "u.%d.%d.%s" % (r.choice([4, 15, 17, 42, 255]), r.below(256), hx(r.bytes(4)))]
    return ks


def icmp6_kinds(r):
    """every Icmpv6Type variant with boundary and random field values"""
    ks = ["du.%d" % c for c in range(7)]
    ks += ["tb.0", "tb.1280", "tb.4294967295", "tb.%d" % r.below(1 << 32), "te.0", "te.1"]
    for code in range(11):
        ks.append("pp.%d.%d" % (code, r.choice(U32B + (r.below(1 << 32),))))
    ks += ["pp.0.4294967295", "pp.10.0", "rs", "ns", "rd"]
    for m in (0, 1):
        for o in (0, 1):
            ks.append("ra.%d.%d.%d.%d" % (r.choice([0, 255, r.below(256)]), m, o, r.choice(U16B + (r.below(65536),))))
    for f in range(8):
        ks.append("na.%d.%d.%d" % (f >> 2, (f >> 1) & 1, f & 1))
    ks += ["Q.0.65535", "P.65535.0", "u.%d.%d.%s" % (r.choice([5, 127, 130, 138, 200, 255]), r.below(256), hx(r.bytes(4)))]
    return ks


def ext_shapes():
    """all 48 representable Ipv6Extensions shapes (payload sizes vary with the shape index)"""
    out = []
    k = 0
    for hop in (0, 1):
        for dst in (0, 1):
            for rt in (0, 1, 2):
                for fr in (0, 1):
                    for au in (0, 1):
                        k += 1
                        rawp = lambda j: "%d:%s" % (j, hx(bytes(((k + i) & 255) for i in range(6 + 8 * ((k + j) % 3)))))
                        x = [rawp(1) if hop else "-", rawp(2) if dst else "-", rawp(3) if rt else "-",
                             rawp(4) if rt == 2 else "-", "9:%d:%d:%d" % (0, 0, k) if fr else "-",
                             "7:%d:%d:%s" % (k, k + 1, hx(bytes(range(4 * (k % 4)))) if k % 4 else "-") if au else "-"]
                        out.append(";".join(x))
    return out


def _fix_auth(tok):
    # an empty icv is written as '-' inside the auth token; the runners expect hex or '-'
    return tok


def rnd_v4h(r, opts=None, auth=None, frag=False):
    ol = r.choice([0, 0, 4, 8, 40]) if opts is None else opts
    f = [r.below(64), r.below(4), r.below(65536), r.below(65536), r.below(2), 1 if (frag and r.chance(1, 2)) else 0,
         (r.range(1, 8191) if frag else 0), r.below(256), r.below(256), r.below(65536)]
    if frag and f[5] == 0 and f[6] == 0:
        f[6] = 1
    a = "-"
    if auth if auth is not None else r.chance(1, 4):
        a = "%d:%d:%d:%s" % (r.below(256), r.below(1 << 32), r.below(1 << 32), hx(r.bytes(4 * r.choice([0, 1, 3, 254]))))
    return "4h/%s/%s/%s/%s/%s" % (".".join(str(x) for x in f), hx(r.bytes(4)), hx(r.bytes(4)), hx(r.bytes(ol)), a)


def rnd_v6h(r, exts=None):
    f = [r.below(256), r.below(1 << 20), r.below(65536), r.below(256), r.below(256)]
    return "6h/%s/%s/%s/%s" % (".".join(str(x) for x in f), hx(r.bytes(16)), hx(r.bytes(16)), exts or "-;-;-;-;-;-")


TCP_OPTS = ["-", "01010100", "020405b4", "0101080a0000000100000002", "020405b40103030704020000",
            "01" * 36 + "00000000", "ff" * 40]
TCP_ELEMS = [("N,N,N,N,T17236488-2216040200", "01010101" + "080a" + "%08x%08x" % (17236488, 2216040200) + "0000"),
             ("M1460,W7,S", "020405b4" + "030307" + "0402" + "000000"),
             ("K1-2", "050a" + "%08x%08x" % (1, 2) + "0000"),
             ("-", "-")]


def rnd_tcp(r, api=None, opts=None):
    api = api or r.choice(["ts", "th"])
    flags = r.below(512)
    ack = r.below(1 << 32) if (api == "th" or flags & 16) else 0
    urg = r.below(65536) if (api == "th" or flags & 32) else 0
    ck = r.below(65536) if api == "th" else 0
    o = r.choice(TCP_OPTS) if opts is None else opts
    if api == "ts" and o != "-":
        # options_raw pads nothing: the raw bytes must already be a multiple of 4 (they are)
        pass
    return "%s/%d.%d.%d.%d.%d.%d.%d.%d/%s" % (api, r.below(65536), r.below(65536), r.below(1 << 32), ack, flags,
                                              r.below(65536), urg, ck, o)


def transports(r, v6):
    t = ["u/%d.%d" % (r.below(65536), r.below(65536)), rnd_tcp(r, "ts"), rnd_tcp(r, "th"),
         "i4/u.%d.%d.%s" % (r.choice([0, 3, 8, 13, 14, 42, 255]), r.below(3), hx(r.bytes(4))),
         "i4/q.%d.%d" % (r.below(65536), r.below(65536)), "i4/p.%d.%d" % (r.below(65536), r.below(65536)),
         "i4/Q.7.8", "i4/P.9.10",
         "i6/u.%d.%d.%s" % (r.choice([1, 128, 135, 200, 255]), r.below(3), hx(r.bytes(4))),
         "i6/q.%d.%d" % (r.below(65536), r.below(65536)), "i6/p.%d.%d" % (r.below(65536), r.below(65536)),
         "i6/Q.7.8", "i6/P.9.10",
         "r/253", "r/%d" % r.choice([17, 6, 1, 58, 59, 4, 41, 255]),
         "i4/" + r.choice(icmp4_kinds(r)), "i4/" + r.choice(icmp4_kinds(r)),
         "i6/" + r.choice(icmp6_kinds(r)), "i6/" + r.choice(icmp6_kinds(r))]
    el = r.choice(TCP_ELEMS)
    t.append("te/%d.%d.%d.0.2.%d.0.0/%s/%s" % (r.below(65536), r.below(65536), r.below(1 << 32), r.below(65536), el[1], el[0]))
    return t


def gen_cases(rng, tier):
    big = tier == "thorough"
    cases = []
    add = lambda l, v, n, t, p: cases.append("b %s %s %s %s %s" % (l, v, n, t, p))
    small = ["-", "07", "0102", "g3.1", "g8.2", "g9.3"]
    shapes = ext_shapes()

    # 1. every stacking x small payload lengths
    for (l, v) in LINKVLAN:
        nets = ["4s/%s/%s/20" % (SRC4, DST4), "6s/%s/%s/47" % (SRC6, DST6),
                rnd_v4h(rng, 0, False), rnd_v4h(rng, 8, False), rnd_v4h(rng, 40, True), rnd_v4h(rng, 0, True),
                rnd_v4h(rng, 4, False, frag=True), rnd_v6h(rng), rnd_v6h(rng, shapes[rng.below(48)])]
        for n in nets:
            for t in transports(rng, n[0] == "6"):
                for p in small:
                    add(l, v, n, t, p)
        if l != "n":
            for hw, pr in ((6, 4), (0, 0), (1, 16), (255, 255)):
                add(l, v, "a/%d.%d.%d/%s/%s/%s/%s" % (rng.choice([1, 6, 65535]), rng.choice([2048, 34525, 0]), rng.choice([1, 2, 65535]),
                                                    hx(rng.bytes(hw)), hx(rng.bytes(pr)), hx(rng.bytes(hw)), hx(rng.bytes(pr))),
                    "r/0", "-")
    # 2. every typed ICMP kind (boundary field values) through every link / VLAN / IP combination
    pays = ["-", "07", "g12.5", "g13.6", "g33.7", "g2.9"]
    j = 0
    for (l, v) in LINKVLAN:
        nets4 = ["4s/%s/%s/64" % (SRC4, DST4), rnd_v4h(rng, rng.choice([4, 8, 40]), True),
                 "6s/%s/%s/64" % (SRC6, DST6), rnd_v6h(rng, shapes[rng.below(48)])]
        nets6 = ["6s/%s/%s/64" % (SRC6, DST6), rnd_v6h(rng, shapes[rng.below(48)]), rnd_v6h(rng, shapes[rng.below(48)])]
        for n in nets4:
            for k in icmp4_kinds(rng):
                j += 1
                add(l, v, n, "i4/" + k, pays[j % len(pays)])
                if k[0] == "t" and k[1] in "qp":
                    # timestamp messages: the empty payload is the admitted one, 12 bytes is what a raw 13/0 admits
                    add(l, v, n, "i4/" + k, "-")
                    add(l, v, n, "i4/" + k, "g12.5")
        for n in nets6:
            for k in icmp6_kinds(rng):
                j += 1
                add(l, v, n, "i6/" + k, pays[j % len(pays)])
        # refused: ICMPv6 in IPv4; fragmenting IPv4 header in front of a typed kind
        add(l, v, "4s/%s/%s/64" % (SRC4, DST4), "i6/" + rng.choice(icmp6_kinds(rng)), "g5.1")
        add(l, v, rnd_v4h(rng, 4, False, frag=True), "i4/" + rng.choice(icmp4_kinds(rng)), "g5.1")
        add(l, v, rnd_v4h(rng, 0, False, frag=True), "i4/tq.1.2.3.4.5", "g5.1")
        for t in ("i4/u.13.0.00010002", "i4/u.14.0.00010002"):
            for p in ("-", "g11.1", "g12.1", "g13.1"):
                add(l, v, "4s/%s/%s/64" % (SRC4, DST4), t, p)
                add(l, v, "6s/%s/%s/64" % (SRC6, DST6), t, p)
    # 3. all 48 extension shapes x transports (+ raw numbers that are extension numbers)
    for k, x in enumerate(shapes):
        n = rnd_v6h(rng, x)
        (l, v) = LINKVLAN[k % len(LINKVLAN)]
        for t in ["u/1.2", rnd_tcp(rng, "ts"), "i6/q.1.2", "i4/q.1.2", "r/253", "r/17", "r/0", "r/43", "r/44", "r/51", "r/60"]:
            for p in ("-", "g1.9", "g2.9", "g5.9"):
                add(l, v, n, t, p)
    for a in (False, True):
        for t in ["r/51", "r/0", "r/253", "i6/q.1.2", "i6/u.1.0.00000000"]:
            for (l, v) in LINKVLAN:
                add(l, v, rnd_v4h(rng, None, a), t, "g4.1")
    # 4. the length-field limits
    lim_nets = [("4s/%s/%s/1" % (SRC4, DST4), 4, 0, 0), ("6s/%s/%s/1" % (SRC6, DST6), 6, 0, 0)]
    for ol in (4, 40):
        lim_nets.append((rnd_v4h(rng, ol, False), 4, ol, 0))
    na = rnd_v4h(rng, 8, True)
    icv = na.split("/")[5].split(":")[3]
    lim_nets.append((na, 4, 8, 12 + (0 if icv == "-" else len(icv) // 2)))
    for k in (5, 17, 47):
        x = shapes[k]
        st, _ = ref_build("n", "n", rnd_v6h(Rng0(), x), "r/253", b"")
        lim_nets.append((rnd_v6h(rng, x), 6, 0, len(_) - 40))
    lim_tr = [("u/7.9", 8), ("r/253", 0), ("ts/1.2.3.0.2.4.0.0/-", 20), ("th/1.2.3.4.511.5.6.7/" + "01" * 40, 60),
              ("i4/q.1.2", 8), ("i6/q.1.2", 8), ("i4/u.13.0.00000000", 8), ("i4/tq.1.2.3.4.5", 20), ("i4/du.4.1500", 8),
              ("i6/ra.64.1.0.1800", 8)]
    reps = 1 if not big else 4
    for (n, fam, ol, xl) in lim_nets:
        for (t, tl) in lim_tr:
            limit = (65535 - 20 - ol if fam == 4 else 65535) - xl - tl
            lens = {limit - 2, limit - 1, limit, limit + 1, limit + 2}
            if t[0] == "u" or big:
                lens |= {65505, 65506, 65507, 65508, 65509, 65525, 65526, 65527, 65528, 65529, 65533, 65534, 65535, 65536, 65537}
            for ln in sorted(lens):
                for _ in range(reps):
                    (l, v) = rng.choice(LINKVLAN)
                    add(l, v, n, t, "g%d.%d" % (ln, rng.below(256)))
    # 5. random values
    for _ in range(6000 if not big else 120000):
        (l, v) = rng.choice(LINKVLAN)
        if l[0] == "e" and rng.chance(1, 2):
            l = "e/%s/%s" % (hx(rng.bytes(6)), hx(rng.bytes(6)))
            if v[0] == "1":
                v = rng.choice(["1s/%d" % rng.below(4096), "1h/%d.%d.%d.%d" % (rng.below(8), rng.below(2), rng.below(4096), rng.below(65536))])
            elif v[0] == "2":
                v = "2h/%d.%d.%d.%d/%d.%d.%d.%d" % (rng.below(8), rng.below(2), rng.below(4096), rng.below(65536),
                                                   rng.below(8), rng.below(2), rng.below(4096), rng.below(65536))
        elif l[0] == "s":
            l = "s/%d/%d/%s" % (rng.below(8), rng.below(65536), hx(rng.bytes(8)))
        k = rng.below(6)
        if k == 0:
            n = "4s/%s/%s/%d" % (hx(rng.bytes(4)), hx(rng.bytes(4)), rng.below(256))
        elif k == 1:
            n = "6s/%s/%s/%d" % (hx(rng.bytes(16)), hx(rng.bytes(16)), rng.below(256))
        elif k in (2, 3):
            n = rnd_v4h(rng, frag=rng.chance(1, 8))
        else:
            n = rnd_v6h(rng, shapes[rng.below(48)] if rng.chance(1, 2) else None)
        t = rng.choice(transports(rng, n[0] == "6"))
        pk = rng.below(10)
        if pk == 0:
            p = "-"
        elif pk == 1:
            p = "c%d.%d" % (rng.below(40), rng.choice([0, 255]))
        elif pk == 2:
            p = "g%d.%d" % (rng.range(100, 2000), rng.below(256))
        else:
            p = hx(rng.bytes(rng.below(48)))
        add(l, v, n, t, p)
    # 6. payloads crafted so that the computed checksum is 0x0000 (UDP must emit 0xffff) or 0xffff
    for _ in range(300 if not big else 3000):
        (l, v) = rng.choice(LINKVLAN)
        n = rng.choice(["4s/%s/%s/%d" % (hx(rng.bytes(4)), hx(rng.bytes(4)), rng.below(256)),
                        "6s/%s/%s/%d" % (hx(rng.bytes(16)), hx(rng.bytes(16)), rng.below(256))])
        t = rng.choice(["u/%d.%d" % (rng.below(65536), rng.below(65536)), rnd_tcp(rng, "ts"), "i4/q.%d.%d" % (rng.below(65536), rng.below(65536)),
                        "i6/q.%d.%d" % (rng.below(65536), rng.below(65536))] if n[0] == "6" else
                       ["u/%d.%d" % (rng.below(65536), rng.below(65536)), rnd_tcp(rng, "ts"), "i4/q.%d.%d" % (rng.below(65536), rng.below(65536))])
        body = bytearray(rng.bytes(2 * rng.range(1, 12)))
        for target in (0, 0xffff):
            body[0] = body[1] = 0
            st, out = ref_build(l, v, n, t, bytes(body))
            # the stored checksum c satisfies sum(others) + c = 0xffff; raising the payload word by (c - target) moves it to target
            offp = len(out) - len(body)
            tl = transport_header_len(t)
            seg_off = offp - tl
            cpos = {"u": 6, "t": 16, "i": 2}[t[0]]
            c = struct.unpack(">H", out[seg_off + cpos:seg_off + cpos + 2])[0]
            if t[0] == "u" and c == 0xffff:
                c = 0xffff
            w = (c - target) % 0xffff
            body[0], body[1] = w >> 8, w & 255
            add(l, v, n, t, hx(bytes(body)))
    return cases


class Rng0:
    """fixed-value stand-in used only to measure lengths"""

    def below(self, n):
        return 0

    def bytes(self, n):
        return bytes(n)

    def choice(self, xs):
        return xs[0]

    def chance(self, a, b):
        return False

    def range(self, a, b):
        return a


def corpus():
    e = "e/%s/%s" % (MAC1, MAC2)
    return [
        "b %s n 4s/%s/%s/20 u/21.1234 0102030405060708" % (e, SRC4, DST4),                       # the crate's doc example
        "b n n 4s/%s/%s/20 u/1.2 g65507.1" % (SRC4, DST4),                                     # largest UDP/IPv4 payload
        "b n n 4s/%s/%s/20 u/1.2 g65508.1" % (SRC4, DST4),                                     # one more: PayloadLen, no wrapped udp length
        "b n n 6s/%s/%s/20 u/1.2 g65527.1" % (SRC6, DST6),
        "b n n 6s/%s/%s/20 u/1.2 g65528.1" % (SRC6, DST6),
        "b %s 1s/1 4s/%s/%s/20 i6/q.1.2 01" % (e, SRC4, DST4),                                  # ICMPv6 in IPv4: error after link, vlan and ip header were written
        "b n n 6h/0.0.0.0.1/%s/%s/-;-;-;-;-;- r/0 0102" % (SRC6, DST6),                         # F3 (fixed): first header 0 without hop-by-hop header
        "b n n 6h/0.0.0.0.1/%s/%s/-;0:010203040506;-;-;-;7:1:2:- r/51 0102" % (SRC6, DST6),      # raw number names a present extension header
        "b %s 2s/1/2 a/1.2048.1/010203040506/0a000001/000000000000/0a000002 r/0 -" % e,
    ]


# ----------------------------------------------------------------------------
# comparison / oracle
# ----------------------------------------------------------------------------
def _kv(s):
    d = {}
    for x in s.split():
        if "=" in x:
            k, v = x.split("=", 1)
            d[k] = v
    return d


def _layers(l, v, n, t):
    return (l != "n") + (0 if v == "n" else int(v[0])) + 1 + (0 if (n[0] == "a" or t[0] == "r") else 1)


def admitted(net, tr, plen):
    """payload admitted by the message type: ICMPv4 timestamp (reply) messages are exactly 20 bytes"""
    p = tr.split("/")
    if p[0] == "i4":
        hb = icmp_header(p[1], False)
        if hb[0] in (13, 14) and hb[1] == 0:
            return len(hb) + plen == 20
    return True


def compare(ctx, cases, impl, model_lines):
    corr, orc = [], []
    hist = {}
    seen = set()
    nontriv = 0
    unmodelled = 0
    modelled = 0

    def bump(k):
        hist[k] = hist.get(k, 0) + 1

    for i, c in enumerate(cases):
        l, v, n, t, ptok = parse_case(c)
        payload = payload_bytes(ptok)
        plen = len(payload)
        m = s = None
        if model_lines is not None:
            ml = model_lines[i]
            m, _, s = ml.partition(" | ")
            if ml.startswith("MODEL-FAIL") or m.startswith("PANIC"):
                corr.append((i, "model: %s" % ml[:200]))
                m = None
            elif m == "unmodelled":
                m = None
                unmodelled += 1
            else:
                modelled += 1
        spec = _kv(s) if s and s != "-" else {}
        try:
            st, want = ref_build(l, v, n, t, payload)
        except Unsupported as ex:
            orc.append((i, "reference builder: unsupported %s" % ex, None))
            continue
        first = c not in seen
        seen.add(c)
        if first:
            bump("link:" + l[0])
            bump("vlan:" + v.split("/")[0])
            bump("net:" + n.split("/")[0] + ("+x" if (n[:2] == "6h" and n.split("/")[4] != "-;-;-;-;-;-") or (n[:2] == "4h" and n.split("/")[5] != "-") else ""))
            bump("tr:" + t.split("/")[0] + ("." + t.split("/")[1].split(".")[0] if t[0] == "i" else ""))
            bump("plen:" + ("0" if plen == 0 else "1-9" if plen < 10 else "10-2000" if plen <= 2000 else ">60000" if plen > 60000 else "2001-60000"))
            bump("expect:" + st + (":" + want.split(":")[0] if st == "err" else ""))
            if st == "ok" and spec:
                hasx = (n[:2] == "6h" and n.split("/")[4] != "-;-;-;-;-;-") or (n[:2] == "4h" and n.split("/")[5] != "-")
                bump("parse_back_theorem:" + ("applies" if spec.get("exp", "-") != "-" else "payload-not-admitted") + ("+x" if hasx else ""))
                for col in ("upto", "ts", "dec"):
                    if spec.get(col, "-") != "-":
                        bump("theorem_instance:" + col + ("+excluded" if spec.get("exp", "-") == "-" else ""))
            if (st == "ok" and _layers(l, v, n, t) >= 3 and plen > 0) or st == "err":
                nontriv += 1
        for prof, lines in impl.items():
            il = lines[i]
            if il.startswith("PANIC") or il.startswith("CRASH") or il.startswith("NOT-RUN"):
                orc.append((i, "%s: %s" % (prof, il[:300]), None))
                continue
            base, _, extra = il.partition(" ; ")
            if m is not None and base != m:
                corr.append((i, "%s: impl '%s' model '%s'" % (prof, base[:400], m[:400])))
            ex = _kv(extra)
            a = base.split()
            verdict = a[0]
            size = int(_kv(base)["size"])
            outb = bytes.fromhex(a[-1]) if a[-1] != "-" else b""
            # the three sinks agree; a buffer that is one byte short is refused up front
            for k, good in (("vec", "same"), ("slice", "same")):
                if ex.get(k) != good:
                    orc.append((i, "%s: sink %s differs from write(): %s" % (prof, k, ex.get(k, "?")[:200]), None))
            if ex.get("short") not in ("space", "na"):
                orc.append((i, "%s: write_to_slice with size()-1 bytes: %s" % (prof, ex.get("short", "?")[:200]), None))
            if st == "any":
                # raw ip number that is itself an extension header number, with extension headers present:
                # the outcome is the chain walk's (C12); correspondence with the model decides, no panic allowed
                continue
            if st == "err":
                if verdict != "err":
                    orc.append((i, "%s: configuration cannot be encoded (%s) but the builder returned %s" % (prof, want, verdict), None))
                elif want is not None and a[1] != want:
                    orc.append((i, "%s: error '%s', expected '%s'" % (prof, a[1], want), None))
                continue
            if verdict != "ok":
                orc.append((i, "%s: encodable configuration rejected: %s" % (prof, " ".join(a[:2])), None))
                continue
            # size and bytes against the independent reference builder
            if len(outb) != size:
                orc.append((i, "%s: wrote %d bytes, size() announced %d" % (prof, len(outb), size), None))
            if outb != want:
                k = next((j for j in range(min(len(outb), len(want))) if outb[j] != want[j]), min(len(outb), len(want)))
                orc.append((i, "%s: bytes differ from the RFC reference encoding at offset %d (got %s, want %s; lengths %d/%d)"
                            % (prof, k, outb[k:k + 8].hex(), want[k:k + 8].hex(), len(outb), len(want)), None))
            off_net = {"n": 0, "e": 14, "s": 16}[l[0]] + (0 if v == "n" else 4 * int(v[0]))
            try:
                for why in verify_checksums(n, t, outb, off_net):
                    orc.append((i, "%s: %s" % (prof, why), None))
            except (IndexError, struct.error):
                orc.append((i, "%s: output too short to hold the configured layers" % prof, None))
            if not outb.endswith(payload):
                orc.append((i, "%s: payload is not the tail of the packet" % prof, None))
            # strict parsing: crate parser = wire reference decoder (= expected view when the theorem applies)
            parse = ex.get("parse", "?")
            if spec.get("wire") is not None and parse != spec["wire"] and m is not None and base == m:
                orc.append((i, "%s: crate parse '%s' differs from the wire reference '%s'" % (prof, parse[:200], spec["wire"][:200]), None))
            if spec.get("exp", "-") != "-" and parse != spec["exp"]:
                orc.append((i, "%s: crate parse '%s' differs from the expected layout '%s'" % (prof, parse[:200], spec["exp"][:200]), None))
            # instances of the round-3 theorems, evaluated by the runner on the extracted definitions
            for col, thm in (("upto", "C10_parse_back_upto_transport"), ("ts", "C10_timestamp_wrong_size_rejected"),
                             ("dec", "C10_icmp4/6_value_back")):
                if spec.get(col) == "DIFF":
                    orc.append((i, "%s: instance of %s does not hold on the extracted model" % (prof, thm), None))
            if spec.get("dec") == "ok" and ex.get("crate") != "ok":
                orc.append((i, "%s: model decoder recovers the configured ICMP type, the crate does not: %s" % (prof, ex.get("crate")), None))
            if spec.get("ts") == "ok" and parse.startswith("ok"):
                orc.append((i, "%s: timestamp message of the wrong size accepted by strict parsing" % prof, None))
            must_parse = (t[0] != "r") and admitted(n, t, plen)
            if must_parse:
                if not parse.startswith("ok"):
                    orc.append((i, "%s: strict parsing rejects the built packet: %s" % (prof, parse[:200]), None))
                elif ex.get("crate") != "ok":
                    orc.append((i, "%s: strict parsing does not recover the configuration: %s" % (prof, ex.get("crate")), None))
            elif parse.startswith("ok") and ex.get("crate") != "ok":
                orc.append((i, "%s: strict parsing does not recover the configuration: %s" % (prof, ex.get("crate")), None))
    return {"corr_mismatch": corr, "oracle_fail": orc, "hist": hist, "nontrivial": nontriv,
            "samples": [cases[0], cases[len(cases) // 3], cases[len(cases) // 2], cases[-1]],
            "extra": {"model_covered_cases": modelled, "correspondence_only_cases": unmodelled,
                      "model_covered": "all link/VLAN/IPv4(+options,+AH)/IPv6(+all extension shapes)/ARP paths, UDP, TCP, EVERY Icmpv4Type / Icmpv6Type variant (raw, echo helpers, destination unreachable x16 incl. next-hop MTU, redirect, time exceeded, parameter problem, 20-byte timestamps; ICMPv6 error kinds, packet too big, NDP kinds with flags), raw payload; errors and bytes left in the sink on error",
                      "oracle_only": "nothing (the x.<bytes> tag is no longer generated)",
                      "theorem_family": "C10_size/C10_errors/C10_never_panic/C10_consistent_*/C10_checksums_verify/C10_next_protocol_fields/C10_parse_back_upto_ip: every configuration; C10_parse_back: every configuration with an admitted payload (extension headers included; exp= column = expected_x); upto= / ts= / dec= columns: instances of C10_parse_back_upto_transport, C10_timestamp_wrong_size_rejected, C10_icmp4/6_value_back"}}
