"""C02: decoders are total (Ok/Err for every input, never a panic or a hang). Shares the harness of C01;
here a panic, an abnormal exit or an iterator that yields more items than bytes is the violation."""
from props.c01 import *   # noqa: F401,F403
import props.c01 as _c01

ID = "C02"
PROJECTION = "no panic / abort / hang; iterators bounded"
ORACLE_KINDS = ("PANIC", "CRASH", "HANG")


def compare(ctx, cases, impl, model_lines):
    res = _c01.compare(ctx, cases, impl, model_lines, oracle_kinds=ORACLE_KINDS)
    # iterators yield no more items than there are bytes (all decoders together: 60 iterator runs per case)
    for i, c in enumerate(cases):
        n = 0 if c == "-" else len(c) // 2
        for prof, lines in impl.items():
            il = lines[i]
            if il.startswith("ok"):
                f = dict(x.split("=") for x in il.split()[1:])
                if int(f["items"]) > 60 * max(n, 1):
                    res["oracle_fail"].append((i, "%s: iterators yielded %s items for %d bytes" % (prof, f["items"], n), None))
    return res
