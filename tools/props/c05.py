"""C05: lax parsing extends strict parsing and flags truncation honestly.

Every case is run through the lax entry point and its strict counterpart (implementation and
model); whole-packet cases additionally through the strict reference decoder (WireSpec).
  correspondence : implementation line == model line (lax || strict), exact
  oracle         : the property's relations between the two implementation answers, between the
                   lax answer and the reference decoder, and between the `incomplete` flags and the
                   length fields of the raw input (computed here, independent of crate and model)
"""
import re
import pktgen
from vlib import hx

ID = "C05"
EXTRACT = "ExtC05.v"
MLMOD = "m_c05"
RUNNER = "run_c05"
HARNESS_BIN = "c05"
RULE = ("structured layered packets of tools/pktgen.py (Ethernet II | bare ether type | bare IP) x 0..4 VLAN/MACsec tags x "
        "(ARP | IPv4[+AH] | IPv6[+extension chain] | unknown) x (UDP|TCP|ICMPv4|ICMPv6|other) with every length field drawn "
        "around its true value, extra truncation (every layer boundary +-1, random cuts) and length fields raised above "
        "the data; single-layer inputs for LaxIpSlice, LaxIpv4Slice, LaxIpv6Slice, LaxMacsecSlice, UdpSlice::from_slice_lax, "
        "Ipv6ExtensionsSlice::from_slice_lax, Ipv4ExtensionsSlice::from_slice_lax; every prefix of seed packets; noise. "
        "non-trivial = the lax result is Ok and (carries a stop error, or an incomplete flag, or a length-field fallback "
        "happened, or it has a layer behind the first header); distinct = distinct (entry, bytes)")
PROJECTION = ("C05: complete rendering of the lax result (all windows, ip numbers, fragmentation, incomplete flags, length "
              "sources, stop error record + layer tag) and of the strict result")
ASSUMPTIONS = [
    "LaxPacketHeaders (header-struct family) is not modelled by this check's runner; (c) is proved about C04's model "
    "(Parse/HdrLaxModel.v), (a) and (b) are proved by composition with C04 (C05_headers_lax_extends_strict, C05_headers_lax_prefix, "
    "Parse/HdrLaxC05.v) outside the documented struct-decoding exception (an IPv6 extension header of a kind whose struct slot is "
    "filled), and compared with PacketHeaders on the implementation side; the payload's incomplete flag of LaxPacketHeaders is "
    "compared with the IP payload's flag of LaxSlicedPacket on the same bytes (oracle_headers_incomplete); IpHeaders::*_lax / Ipv6Slice::from_slice_lax are tied to the slice family by C04/C06",
    "same fault: length errors are compared on (required_len, len, layer, layer_start_offset), content errors on the "
    "variant and value; faults of the IP header itself are compared as a group (layer IpHeader, same offset) because "
    "strict Ipv4Slice/Ipv6Slice and lax LaxIpSlice describe a cut-short IP header differently (finding F11)",
]
F10 = "F10_lax_ignores_ether_type_version"

ET_IPV4, ET_IPV6, ET_MACSEC = 0x0800, 0x86DD, 0x88E5


def corpus():
    eth = "0102030405060708090a0b0c"
    v6 = "60000000" + "0008" + "1140" + "00" * 32 + "0001000200080000"
    return [
        # plain UDP over IPv4 over Ethernet: strict ok, lax identical
        "eth " + eth + "0800" + "4500001c0000000040110000010203040506070800010002000800aa",
        # IPv4 total length 40 > data (28 bytes): fallback, incomplete
        "ip 450000280000000040110000010203040506070800010002000800aa",
        # IPv4 total length 10 < header: fallback, not incomplete
        "ip 4500000a0000000040110000010203040506070800010002000800aa",
        # TCP header cut inside IPv4: stop error TcpHeader
        "ip 45000020000000004006000001020304050607080001000200000000",
        # F10 witness: ether type IPv4, version nibble 6, 48 bytes (complete IPv6/UDP)
        "et:2048 " + v6,
        "eth " + eth + "0800" + v6,
        # F10 the other way round: ether type IPv6 with an IPv4 packet of 28 bytes
        "et:34525 4500001c0000000040110000010203040506070800010002000800aa",
        # F11 shape: cut-short IPv4 header behind the ether type
        "et:2048 4f0000", "et:2048 41", "et:2048 -",
        # F2 witness: IPv6 payload len 8, dest opts next=routing, nothing behind
        "ip 6000000000083c40" + "00" * 32 + "2b00000000000000",
        "lip 6000000000083c40" + "00" * 32 + "2b00000000000000",
        # MACsec short length 20 > data, unmodified
        "lmacsec 00160000000108004500",
        "et:35045 00160000000108004500",
        # MACsec short length + trailing bytes, VLAN cut short behind it
        "et:35045 000400000001" + "8100" + "0102" + "aabbccdd",
        # UDP length field 100 > data, 3 < header
        "ludp 0001000200640000aabb", "ludp 0001000200030000aabb", "ludp 00010002000000",
        # hop-by-hop not at start / cut
        "lx6:0 3c00000000000000" + "0000000000000000", "lx6:0 3c01", "lx6:44 1100", "lx6:51 1100000000000000000000",
        "lx4:51 1100000000000000000000", "lx4:51 1101000000000000000000aa", "lx4:17 0102",
        # ARP behind the ether type: LaxPacketHeaders must report an empty payload like PacketHeaders (fix d79cab6)
        "et:2054 0001080006040001aabbccddeeff0a000001000000000000c0a80001",
        "eth 0102030405060708090a0b0c0806" + "0001080006040001aabbccddeeff0a000001000000000000c0a80001",
        # audit round 1 (C05_lax_prefix_net): IPv6 / dest options (complete) / routing header cut short
        "eth " + eth + "86dd" + "60000000" + "0014" + "3c40" + "00" * 32 + "2b00000000000000" + "1101" + "00" * 10,
        # IPv4 / authentication header with payload length 0
        "ip 4500002000000000403300000102030405060708" + "11" + "00" * 11,
        # IPv4 total length 100 > 24 bytes, authentication header cut short: fallback, resumed decoding fails at the AH
        "ip 4500006400000000403300000102030405060708" + "11040000",
        # IPv6 payload length 50 > data, fragment header + UDP: fallback, resumed decoding accepts
        "ip 6000000000322c40" + "00" * 32 + "1100000000000000" + "0001000200080000",
    ]


# --------------------------------------------------------------------------- generation
def _whole(rng):
    while True:
        ent, data, tag = pktgen.gen_packet(rng)
        if ent != "sll":
            return ent, data, tag


def _damage(rng, data):
    """extra truncation / inflated length fields on top of pktgen's own damage"""
    k = rng.below(8)
    if k < 3 and len(data) > 1:
        return data[:rng.below(len(data))]
    if k == 3 and len(data) > 4:
        return data[:len(data) - rng.range(1, 4)]
    return data


def _single(rng):
    k = rng.below(12)
    if k < 5:
        et, body, tag = pktgen.gen_ip(rng, want=rng.choice([0, 1, 2, 4, 5, 6]))
        first = body[0] >> 4 if body else 0
        ent = rng.choice(["lip", "lip", "lip4" if first == 4 else "lip6", "lip4", "lip6"])
        return ent, _damage(rng, body), ent + ":" + tag
    if k < 7:
        for _ in range(50):
            et, body, tag = pktgen.gen_ip(rng)
            et2, body2, ltag = pktgen.wrap_link_exts(rng, et, body)
            if et2 == ET_MACSEC:
                return "lmacsec", _damage(rng, body2), "lmacsec:" + ltag
        return "lmacsec", rng.bytes(rng.below(30)), "lmacsec:noise"
    if k < 9:
        for _ in range(50):
            num, tr, ttag = pktgen.gen_transport(rng, False)
            if ttag == "udp":
                return "ludp", _damage(rng, tr), "ludp"
        return "ludp", rng.bytes(rng.below(20)), "ludp:noise"
    if k < 11:
        num, tr, ttag = pktgen.gen_transport(rng, True)
        first, chain, xtag = pktgen.gen_ext_chain(rng, num, tr)
        return "lx6:%d" % first, _damage(rng, chain), "lx6:" + xtag
    nh = rng.choice([51, 51, 51, 17, rng.below(256)])
    return "lx4:%d" % nh, _damage(rng, pktgen.gen_ah(rng, rng.below(256)) + rng.bytes(rng.below(12))), "lx4"


def _seed_packets(rng, n):
    out = []
    while len(out) < n:
        ent, data, tag = _whole(rng)
        if "|" not in tag and tag != "noise" and 20 < len(data) < 140:
            out.append((ent, data))
    return out


def gen_cases(rng, tier):
    big = tier == "thorough"
    cases = []
    for _ in range(16000 if not big else 400000):
        ent, data, tag = _whole(rng)
        cases.append("%s %s" % (ent, hx(_damage(rng, data))))
    for _ in range(12000 if not big else 300000):
        ent, data, tag = _single(rng)
        cases.append("%s %s" % (ent, hx(data)))
    for ent, data in _seed_packets(rng, 40 if not big else 300):
        for e, d in pktgen.all_prefixes(ent, data):
            cases.append("%s %s" % (e, hx(d)))
    # every prefix of single-layer seeds
    n = 0
    while n < (40 if not big else 300):
        ent, data, tag = _single(rng)
        if 8 < len(data) < 120:
            n += 1
            for e, d in pktgen.all_prefixes(ent, data):
                cases.append("%s %s" % (e, hx(d)))
    return cases


# --------------------------------------------------------------------------- oracle
_FLAG = re.compile(r"\b(pl|un|mod)\((\d),")
FALLBACK_LAYERS = ("Ipv4Packet", "Ipv6Packet", "MacsecPacket", "UdpPayload")
IPHDR_LAYERS = ("IpHeader", "Ipv4Header", "Ipv6Header")
IPHDR_CONTENT = ("IpUnsupportedVersion", "IpIhl", "Ipv4Version", "Ipv4Ihl", "Ipv6Version")
TAG_OF = {
    "VlanHeader": ("VlanHeader",), "MacsecHeader": ("MacsecHeader",), "Arp": ("Arp",),
    "IpAuthHeader": ("IpAuthHeader",), "Ipv6FragHeader": ("Ipv6FragHeader",),
    "Ipv6ExtHeader": ("Ipv6HopByHopHeader", "Ipv6DestOptionsHeader", "Ipv6RouteHeader"),
    "UdpHeader": ("UdpHeader",), "TcpHeader": ("TcpHeader",),
    "Icmpv4": ("Icmpv4",), "Icmpv4Timestamp": ("Icmpv4",), "Icmpv4TimestampReply": ("Icmpv4",), "Icmpv6": ("Icmpv6",),
}
CONTENT_TAG = {
    "MacsecVersion": "MacsecHeader", "MacsecUnmodifiedShortLen": "MacsecHeader", "AuthZeroPayloadLen": "IpAuthHeader",
    "Ipv6AuthZeroPayloadLen": "IpAuthHeader", "HopByHopNotAtStart": "Ipv6HopByHopHeader", "TcpDataOffset": "TcpHeader",
}


def strictify(lax):
    """lax ok rendering -> (strict rendering, incomplete flags, stop text)"""
    body, _, stop = lax.partition(" stop=")
    stop = stop or "none"
    flags = [m.group(2) for m in _FLAG.finditer(body)]
    return _FLAG.sub(lambda m: m.group(1) + "(", body), flags, stop


def parse_err(e):
    """'len r,l,src,layer,off' | 'content Kind v' -> tuple"""
    if e.startswith("len "):
        r, l, s, ly, o = e[4:].split(",")
        return ("len", int(r), int(l), s, ly, int(o))
    _, kind, v = e.split()
    return ("content", kind, v)


def is_iphdr(e):
    return (e[0] == "len" and e[4] in IPHDR_LAYERS) or (e[0] == "content" and e[1] in IPHDR_CONTENT)


def first_header_fault(ent, e):
    """is the strict error `e` a fault of the very first header of entry point `ent`?"""
    if ent == "eth":
        return e[0] == "len" and e[4] == "Ethernet2Header"
    if ent in ("ip", "lip"):
        return is_iphdr(e)
    if ent == "lip4":
        return (e[0] == "len" and e[4] == "Ipv4Header") or (e[0] == "content" and e[1] in ("Ipv4Version", "Ipv4Ihl"))
    if ent == "lip6":
        return (e[0] == "len" and e[4] == "Ipv6Header") or (e[0] == "content" and e[1] == "Ipv6Version")
    if ent == "lmacsec":
        return (e[0] == "len" and e[4] == "MacsecHeader") or (e[0] == "content" and e[1].startswith("Macsec"))
    if ent == "ludp":
        return e[0] == "len" and e[4] == "UdpHeader" and e[3] != "udplen"
    return False     # et:, lx6:, lx4: never return Err


def is_fallback(e):
    return e[0] == "len" and (e[4] in FALLBACK_LAYERS or (e[4] == "UdpHeader" and e[3] == "udplen"))


def same_fault(ref, lax, tag, ref_is_spec):
    """ref: strict implementation / reference decoder error; lax: error inside stop_err"""
    if is_iphdr(ref):
        if not is_iphdr(lax) or (tag is not None and tag != "IpHeader"):
            return "fault of the IP header (%s) but lax stop_err is %s@%s" % (ref, lax, tag)
        if ref[0] == "len" and lax[0] == "len" and ref[5] != lax[5]:
            return "IP header fault at offset %d, lax says %d" % (ref[5], lax[5])
        return None
    if ref[0] != lax[0]:
        return "fault %s, lax recorded %s" % (ref, lax)
    if ref[0] == "content":
        # ip_auth::HeaderError travels as Ipv4Exts(e) or wrapped as ipv6_exts::HeaderError::IpAuth(e)
        norm = lambda e: ("content", "AuthZeroPayloadLen", e[2]) if e[1] == "Ipv6AuthZeroPayloadLen" else e
        if norm(ref) != norm(lax):
            return "fault %s, lax recorded %s" % (ref, lax)
        if tag is not None and tag != CONTENT_TAG.get(ref[1]):
            return "content fault %s recorded on layer %s" % (ref, tag)
        return None
    if (ref[1], ref[2], ref[4], ref[5]) != (lax[1], lax[2], lax[4], lax[5]):
        return "fault %s, lax recorded %s" % (ref, lax)
    f7 = lax[4] == "Arp" and lax[3] == "arplen"      # finding F7 (C07): arplen names the field behind required_len
    src_ok = (ref[3] == "slice" or lax[3] == "slice") if ref_is_spec == "either" else ((lax[3] == "slice") if ref_is_spec else (ref[3] == "slice"))
    if ref[3] != lax[3] and not f7 and not src_ok:
        return "length source of the fault: %s vs lax %s" % (ref[3], lax[3])
    if tag is not None and tag not in TAG_OF.get(ref[4], ()):
        return "fault on layer %s recorded with layer tag %s" % (ref[4], tag)
    return None


def f10_shape(ent, data, e):
    """known class F10: the ether type said IPv4 / IPv6 and the version nibble is the other one"""
    if not (ent == "eth" or ent.startswith("et:")):
        return False
    if e[0] == "content":
        return (e[1], e[2]) in (("Ipv4Version", "6"), ("Ipv6Version", "4"))
    if e[0] == "len" and e[4] == "Ipv6Header" and e[5] < len(data):
        return data[e[5]] >> 4 == 4
    if e[0] == "len" and e[4] == "Ipv4Header" and e[5] < len(data):
        return data[e[5]] >> 4 == 6
    return False


_STOP = re.compile(r"^\((.*)\)(?:@(\w+))?$")
_WIN = r"(\d+)\+(\d+)"


def check_incomplete(ent, data, lax_ok):
    """(d): incomplete flags vs the length fields of the raw input; returns None | why"""
    body = lax_ok.partition(" stop=")[0]
    # enclosing slice of the current layer: [start, end)
    if ent == "eth":
        enc = (14, len(data))
    else:
        enc = (0, len(data))
    m = re.search(r"exts=\[(.*?)\] net=", body)
    exts = [x for x in m.group(1).split(";") if x] if m else []
    if ent == "lmacsec":
        exts = [body[3:]]
    for x in exts:
        if x.startswith("vlan("):
            o, l = map(int, re.match(r"vlan\(" + _WIN, x).groups())
            enc = (o + 4, o + l)
            continue
        mm = re.match(r"macsec\(" + _WIN + r",(un|mod)\((\d),(?:(\d+),(\w+),)?" + _WIN + r"\)\)", x)
        if not mm:
            return "cannot parse %s" % x
        ho, hl, kind, inc, _et, src, po, pl = mm.groups()
        ho, hl, inc, po, pl = int(ho), int(hl), int(inc), int(po), int(pl)
        tci, sl = data[ho], data[ho + 1] & 63
        unmod = (tci & 0x0C) == 0
        body_len = (sl - 2) if unmod else sl
        avail = enc[1] - enc[0]
        promised_more = sl > 0 and hl + body_len > avail
        if bool(inc) != promised_more:
            return "MACsec at %d: incomplete=%d but short length %d promises %d bytes behind a %d byte SecTAG and %d are there" % (
                ho, inc, sl, body_len, hl, avail - hl)
        if inc:
            if po + pl != enc[1]:
                return "MACsec at %d incomplete: payload %d+%d does not end at the slice end %d" % (ho, po, pl, enc[1])
            if kind == "un" and src != "slice":
                return "MACsec at %d incomplete: len_source %s" % (ho, src)
        enc = (po, po + pl)
    mm = re.search(r"net=(v4|v6)\(" + _WIN + r",.*pl\((\d),(\d+),(\d),(\w+)," + _WIN + r"\)\)", body)
    if mm:
        ver, ho, hl, inc, _num, _fr, src, po, pl = mm.groups()
        ho, hl, inc, po, pl = int(ho), int(hl), int(inc), int(po), int(pl)
        avail = enc[1] - enc[0]
        if ver == "v4":
            field = (data[ho + 2] << 8) | data[ho + 3]
            promised_more = field > avail
        else:
            field = (data[ho + 4] << 8) | data[ho + 5]
            promised_more = 40 + field > avail
        if bool(inc) != promised_more:
            return "IP%s at %d: incomplete=%d but the length field %d vs %d bytes in the slice" % (ver, ho, inc, field, avail)
        if inc and (src != "slice" or po + pl != enc[1]):
            return "IP%s at %d incomplete: len_source %s, payload %d+%d, slice end %d" % (ver, ho, src, po, pl, enc[1])
    return None


def oracle(ent, data, L, S, W):
    """L: lax implementation, S: strict implementation, W: reference decoder (or None).
    returns None | (why, class)"""
    for x in (L, S):
        if x.startswith(("PANIC", "CRASH", "NOT-RUN")) or "OUTSIDE" in x:
            return ("abnormal: " + x, None)
    refs = [(S, False, "strict")] + ([(W, True, "reference decoder")] if W not in (None, "-") else [])
    if L.startswith("ok"):
        sl, flags, stop = strictify(L)
        why = check_incomplete(ent, data, L)
        if why:
            return ("(d) " + why, None)
        for R, is_spec, who in refs:
            if R.startswith("ok"):
                # (a)
                if sl != R:
                    return ("(a) %s accepts with '%s' but lax gives '%s'" % (who, R, L), None)
                if stop != "none" or "1" in flags:
                    return ("(a) %s accepts but lax has stop_err=%s incomplete=%s" % (who, stop, flags), None)
            else:
                e = parse_err(R[4:])
                if first_header_fault(ent, e):
                    return ("(c) first header undecodable (%s: %s) but lax returned Ok" % (who, R), None)
                if is_fallback(e):
                    continue
                m = _STOP.match(stop)
                why = "no stop_err" if not m else same_fault(e, parse_err(m.group(1)), m.group(2), is_spec)
                if why:
                    return ("(b) %s: %s [lax: %s]" % (who, why, L), F10 if f10_shape(ent, data, e) else None)
        return None
    if L.startswith("err"):
        le = parse_err(L[4:])
        if not first_header_fault(ent, le):
            return ("(c) lax returned Err for a fault behind the first header: %s" % L, None)
        for R, is_spec, who in refs:
            if not R.startswith("err"):
                return ("(c) lax Err '%s' but %s accepts" % (L, who), None)
            why = same_fault(parse_err(R[4:]), le, None, is_spec)
            if why:
                return ("(c) %s: %s" % (who, why), None)
        return None
    return ("unparsable lax line '%s'" % L, None)


_HFLAG = re.compile(r"\b(ether|macsecmod|ip|udp|tcp|icmp4|icmp6)\((\d),")


_LPL = re.compile(r"\bpl\((\d),")
_HPAY = re.compile(r"\bpay=(ip|udp|tcp|icmp4|icmp6)\((\d),")


def oracle_headers_incomplete(L, LH):
    """(d) for the header-struct family: LaxPacketHeaders has no network payload of its own, its
    (transport or IP) payload inherits the `incomplete` flag of the IP payload - which for the same
    bytes is the flag LaxSlicedPacket reports (and that one is checked against the raw length
    fields by check_incomplete).  A dropped or invented flag is a violation of (d)."""
    if not (L.startswith("ok") and LH.startswith("ok")):
        return None
    a = _LPL.search(L)
    b = _HPAY.search(LH)
    if a and b and a.group(1) != b.group(2):
        return ("(d) headers: LaxPacketHeaders payload %s incomplete=%s but the IP payload of the same bytes is incomplete=%s "
                "(LaxSlicedPacket: %s)" % (b.group(1), b.group(2), a.group(1), L), None)
    return None


def oracle_headers(ent, data, LH, SH):
    """header-struct family, implementation side only: the same relations between
    LaxPacketHeaders (LH) and PacketHeaders (SH).  (The two families are tied to each other by
    C04, including its documented exception, so LH is not compared with LaxSlicedPacket here.)"""
    for x in (LH, SH):
        if x.startswith(("PANIC", "CRASH", "NOT-RUN")) or "OUTSIDE" in x:
            return ("abnormal (headers): " + x, None)
    if LH.startswith("err"):
        le = parse_err(LH[4:])
        if not SH.startswith("err") or not first_header_fault(ent, le):
            return ("(c) LaxPacketHeaders '%s' but PacketHeaders '%s'" % (LH, SH), None)
        why = same_fault(parse_err(SH[4:]), le, None, "either")
        return ("(c) headers: " + why, None) if why else None
    body, _, stop = LH.partition(" stop=")
    if SH.startswith("ok"):
        flags = [m.group(2) for m in _HFLAG.finditer(body)]
        if _HFLAG.sub(lambda m: m.group(1) + "(", body) != SH or stop != "none" or "1" in flags:
            return ("(a) PacketHeaders accepts with '%s' but LaxPacketHeaders gives '%s'" % (SH, LH), None)
        return None
    e = parse_err(SH[4:])
    if first_header_fault(ent, e):
        return ("(c) first header undecodable (PacketHeaders: %s) but LaxPacketHeaders returned Ok" % SH, None)
    if is_fallback(e):
        return None
    m = _STOP.match(stop)
    why = "no stop_err" if not m else same_fault(e, parse_err(m.group(1)), m.group(2), "either")
    if why:
        return ("(b) headers: %s [PacketHeaders: %s, LaxPacketHeaders: %s]" % (why, SH, LH), F10 if f10_shape(ent, data, e) else None)
    return None


def _nontrivial(L):
    if not L.startswith("ok"):
        return False
    if " stop=(" in L or "pl(1," in L or "un(1," in L or "mod(1," in L:
        return True
    return ("exts=[]" not in L and "exts=" in L) or ("net=none" not in L and "net=" in L) or L.startswith("ok macsec") or "next=" in L


_PKT = re.compile(r"link=(\S+) exts=\[(\S*)\] net=(\S+) tr=(\S+)")


def oracle_prefix(ent, L, pw):
    """(b), 'every layer in front of the fault': the instrumented strict reference decoder rejects
    with `rej <e> @@ <packet decoded so far>`; every layer of that packet must be a layer of the lax
    result, unchanged.  returns None | (why, class)"""
    if not pw.startswith("rej "):
        return None
    e_txt, _, q_txt = pw[4:].partition(" @@ ")
    if first_header_fault(ent, parse_err(e_txt)):
        return None
    if not L.startswith("ok"):
        return ("(b) strict reference rejects behind the first header (%s) but lax is '%s'" % (e_txt, L), None)
    mq, ml = _PKT.search(q_txt), _PKT.search(strictify(L)[0])
    if not mq or not ml:
        return ("(b) cannot parse '%s' / '%s'" % (q_txt, L), None)
    ql, qx, qn, qt = mq.groups()
    ll, lx, ln, lt = ml.groups()
    qxs = [x for x in qx.split(";") if x]
    lxs = [x for x in lx.split(";") if x]
    if ql != ll or lxs[:len(qxs)] != qxs or qn not in ("none", ln) or qt not in ("none", lt):
        return ("(b) layers in front of the fault %s are '%s' but lax returned '%s'" % (e_txt, q_txt, L), None)
    return None


# ---- audit round 1: (b) for faults inside the network layer --------------------------------------
_LNET = re.compile(r" net=(\S+) tr=(\S+) stop=(.*)$")
_NW_REJNET = re.compile(r"^rejnet (\(.*\)@\w+) net=(\S+)$")
_NW_AFTER = re.compile(r"^(?:acc|rej .*) net=(\S+)$")
_PLFLAGS = re.compile(r"pl\((\d),\d+,\d,(\w+),")


def net_class(nw):
    """histogram class of the finer instrumented strict reference decoder's answer"""
    if nw.startswith("fb "):
        return "fb->" + nw.partition(" -> ")[2].split(" ", 1)[0]
    return nw.split(" ", 1)[0]


def oracle_prefix_net(L, nw):
    """C05_lax_prefix_net on the implementation: `nw` = rendering of pwire2 (Parse/LaxWire2.v, the strict
    reference decoder handing back the network layer decoded so far).
      rejnet (e)@tag net=N : the lax result must be Ok with network layer exactly N, stop error exactly
                             (e)@tag, no transport layer
      fb e inc=b -> R      : (length fallback) the lax network layer has incomplete=b and len_source Slice;
                             R = rejnet ...: as above; R = acc/rej ... net=V: the lax network layer without
                             the incomplete flag is V
    returns None | (why, class)"""
    def rejnet(txt):
        m = _NW_REJNET.match(txt)
        if not m:
            return "cannot parse '%s'" % txt
        ml = _LNET.search(L)
        if not L.startswith("ok") or not ml:
            return "strict reference fails inside the network layer (%s) but lax is '%s'" % (txt, L)
        if ml.group(1) != m.group(2):
            return "network layer decoded in front of the fault is '%s' but lax has '%s'" % (m.group(2), ml.group(1))
        if ml.group(3) != m.group(1):
            return "fault inside the network layer %s but lax stop_err is %s" % (m.group(1), ml.group(3))
        if ml.group(2) != "none":
            return "fault inside the network layer %s but lax decoded a transport layer %s" % (m.group(1), ml.group(2))
        return None
    if nw.startswith("rejnet "):
        why = rejnet(nw)
        return ("(b-net) " + why, None) if why else None
    if nw.startswith("fb "):
        head, _, res = nw.partition(" -> ")
        inc = head.rsplit(" inc=", 1)[1]
        ml = _LNET.search(L)
        if not L.startswith("ok") or not ml:
            return ("(b-net) IP length fallback (%s) but lax is '%s'" % (head, L), None)
        fl = _PLFLAGS.search(ml.group(1))
        if not fl or fl.group(1) != inc or fl.group(2) != "slice":
            return ("(b-net) IP length fallback (%s): lax network layer '%s' must have incomplete=%s, len_source slice" % (
                head, ml.group(1), inc), None)
        if res.startswith("rejnet "):
            why = rejnet(res)
            return ("(b-net) resumed after %s: %s" % (head, why), None) if why else None
        m = _NW_AFTER.match(res)
        if not m:
            return ("(b-net) cannot parse resumed decoding '%s'" % res, None)
        if _FLAG.sub(lambda x: x.group(1) + "(", ml.group(1)) != m.group(1):
            return ("(b-net) resumed after %s: network layer '%s' but lax has '%s'" % (head, m.group(1), ml.group(1)), None)
    return None
# ---- end audit round 1 ----


# ---- round 3 c05d: (b) through the length fallbacks, whole resumed packet (C05_lax_prefix_resumed) ----
_EXT1 = re.compile(r"^macsec\((\d+\+\d+),(un|mod)\((\d),(?:(\d+),(\w+),)?")


def resumed_class(rw):
    """histogram class of pwire3's answer: the chain of fallbacks (m = MACsec, i = IP) and the leaf"""
    ks = []
    while rw.startswith("fb "):
        head, _, rw = rw.partition(" -> ")
        ks.append("m" if ",MacsecPacket," in head else "i")
    return "fb[%s]->%s" % ("".join(ks), rw.split(" ", 1)[0]) if ks else rw.split(" ", 1)[0]


def oracle_resumed(ent, L, rw):
    """C05_lax_prefix_resumed on the implementation: `rw` = rendering of pwire3 (Parse/LaxWire3.v).  Only
    answers that contain a fallback are checked here (the others are oracle_prefix / oracle_prefix_net's).
      fb e inc=b @@ Q -> R : Q is a prefix of the strictified lax result; MACsec: the link extension at
                             index |exts Q| is a MACsec header with incomplete=b (and len_source slice if
                             unmodified); IP: the network layer has incomplete=b, len_source slice; then R
      acc P               : the strictified lax result IS P (link, exts, net, tr), stop=none
      rej e @@ Q          : Q is a prefix of the strictified lax result (the fault itself: older clauses)
      rejnet (e)@t net=N @@ Q : Q prefix, network layer N, stop (e)@t, no transport
    returns None | (why, class)"""
    if not rw.startswith("fb "):
        return None
    if not L.startswith("ok"):
        return ("(b-res) length fallback (%s) but lax is '%s'" % (rw, L), None)
    sl, _, stop = strictify(L)
    ml = _PKT.search(sl)
    mlx = _PKT.search(L)
    if not ml or not mlx:
        return ("(b-res) cannot parse '%s'" % L, None)
    ll, lx, ln, lt = ml.groups()
    lxs = [x for x in lx.split(";") if x]
    lxs_flag = [x for x in mlx.group(2).split(";") if x]

    def prefix(q_txt):
        mq = _PKT.search(q_txt)
        if not mq:
            return "cannot parse '%s'" % q_txt
        ql, qx, qn, qt = mq.groups()
        qxs = [x for x in qx.split(";") if x]
        if ql != ll or lxs[:len(qxs)] != qxs or qn not in ("none", ln) or qt not in ("none", lt):
            return "layers '%s' are not a prefix of the lax result '%s'" % (q_txt, L)
        return None

    cur = rw
    while cur.startswith("fb "):
        head, _, cur = cur.partition(" -> ")
        e_txt, _, q_txt = head[3:].partition(" @@ ")
        e_txt, _, inc = e_txt.rpartition(" inc=")
        why = prefix(q_txt)
        if why:
            return ("(b-res) fallback %s: %s" % (e_txt, why), None)
        if ",MacsecPacket," in e_txt:
            k = len([x for x in _PKT.search(q_txt).group(2).split(";") if x])
            mx = _EXT1.match(lxs_flag[k]) if k < len(lxs_flag) else None
            if not mx or mx.group(3) != inc or (mx.group(2) == "un" and mx.group(5) != "slice"):
                return ("(b-res) MACsec short-length fallback %s: link extension %d of '%s' must be a MACsec header "
                        "with incomplete=%s, len_source slice" % (e_txt, k, L, inc), None)
        else:
            fl = _PLFLAGS.search(mlx.group(3))
            if not fl or fl.group(1) != inc or fl.group(2) != "slice":
                return ("(b-res) IP length fallback %s: network layer of '%s' must have incomplete=%s, len_source slice"
                        % (e_txt, L, inc), None)
    if cur.startswith("acc "):
        ma = _PKT.search(cur)
        if not ma or ma.groups() != (ll, lx, ln, lt) or stop != "none":
            return ("(b-res) resumed strict decoding accepts with '%s' but lax returned '%s'" % (cur[4:], L), None)
        return None
    if cur.startswith("rejnet "):
        body, _, q_txt = cur.partition(" @@ ")
        why = prefix(q_txt)
        m = _NW_REJNET.match(body)
        mn = _LNET.search(L)
        if not why and (not m or not mn):
            why = "cannot parse '%s'" % cur
        if not why and (mn.group(1) != m.group(2) or mn.group(3) != m.group(1) or mn.group(2) != "none"):
            why = "resumed decoding fails inside the network layer (%s) but lax is '%s'" % (body, L)
        return ("(b-res) " + why, None) if why else None
    if cur.startswith("rej "):
        e_txt, _, q_txt = cur[4:].partition(" @@ ")
        why = prefix(q_txt)
        if not why and not is_fallback(parse_err(e_txt)):
            # lax_outcome: the same record (length source: the reference's, or slice, or F7) on a fitting tag;
            # faults of the IP header as a group (same_fault)
            ms = _STOP.match(stop)
            why = ("resumed decoding rejects with %s but lax has no stop error: '%s'" % (e_txt, L)) if not ms \
                else same_fault(parse_err(e_txt), parse_err(ms.group(1)), ms.group(2), True)
        if why and f10_shape_resumed(e_txt):
            return None
        return ("(b-res) resumed decoding: " + why, None) if why else None
    return ("(b-res) cannot parse '%s'" % rw, None)


def f10_shape_resumed(e_txt):
    """known finding F10 inside a resumed decoding: the strict reference rejects the header of the version the
    ether type announced (the older clauses classify the top-level case; here the rejection sits behind a
    fallback, where lax decodes the other version)"""
    e = parse_err(e_txt)
    return (e[0] == "content" and e[1] in ("Ipv4Version", "Ipv6Version")) or (e[0] == "len" and e[4] == "Ipv6Header")
# ---- end round 3 c05d ----


def compare(ctx, cases, impl, model_lines):
    corr, orc = [], []
    hist = {}
    seen = set()
    nontriv = 0
    for i, c in enumerate(cases):
        ent, h = c.split()
        data = bytes.fromhex(h) if h != "-" else b""
        m = w = lw = pw = nw = rw = None
        if model_lines is not None:
            ml = model_lines[i]
            if " |R " in ml:            # round 3 c05d
                ml, rw = ml.rsplit(" |R ", 1)
                k = "%s:reference3 %s" % (ent.split(":")[0], resumed_class(rw))
                hist[k] = hist.get(k, 0) + 1
            if " |N " in ml:            # audit round 1
                ml, nw = ml.rsplit(" |N ", 1)
                k = "%s:reference2 %s" % (ent.split(":")[0], net_class(nw))
                hist[k] = hist.get(k, 0) + 1
            if " |P " in ml:
                ml, pw = ml.rsplit(" |P ", 1)
            if " |L " in ml:
                ml, lw = ml.rsplit(" |L ", 1)
            if " | " in ml:
                m, w = ml.rsplit(" | ", 1)
            else:
                m = ml
        ref = m or next(iter(impl.values()))[i]
        L0 = ref.split(" || ")[0]
        S0 = ref.split(" || ")[1] if " || " in ref else "?"
        kind = ent.split(":")[0]
        cls = "err" if L0.startswith("err") else ("stop@" + L0.rsplit("@", 1)[1] if " stop=(" in L0 and "@" in L0.rsplit(" stop=", 1)[1]
                                                  else ("stop" if " stop=(" in L0 else ("incomplete" if re.search(r"\b(pl|un|mod)\(1,", L0) else "clean")))
        key = "%s:lax %s/strict %s" % (kind, cls, "ok" if S0.startswith("ok") else "err")
        hist[key] = hist.get(key, 0) + 1
        if c not in seen:
            seen.add(c)
            if _nontrivial(L0):
                nontriv += 1
        for prof, lines in impl.items():
            il, _, hdrs = lines[i].partition(" ## ")
            if m is not None and il != m:
                corr.append((i, "%s: impl '%s' model '%s'" % (prof, il, m)))
            if " || " not in il:
                orc.append((i, "%s: %s" % (prof, il), None))
                continue
            L, S = il.split(" || ")
            o = oracle(ent, data, L, S, w)
            if not o and lw is not None and L != lw:
                o = ("(ref) lax result differs from the lax reference decoder (Parse/LaxWire.v): impl '%s' reference '%s'" % (L, lw), None)
            if not o and pw is not None:
                o = oracle_prefix(ent, L, pw)
            if not o and nw is not None:    # audit round 1
                o = oracle_prefix_net(L, nw)
            if not o and rw is not None:    # round 3 c05d
                o = oracle_resumed(ent, L, rw)
            if not o and hdrs:
                LH, _, SH = hdrs.partition(" ## ")
                o = oracle_headers(ent, data, LH, SH)
                if not o:
                    o = oracle_headers_incomplete(L, LH)
            if o:
                orc.append((i, "%s: %s" % (prof, o[0]), o[1]))
    return {"corr_mismatch": corr, "oracle_fail": orc, "hist": dict(sorted(hist.items(), key=lambda kv: -kv[1])[:60]),
            "nontrivial": nontriv, "samples": [cases[0], cases[len(cases) // 3], cases[len(cases) // 2], cases[-1]]}
