"""C11: fragments reassemble to the original payload in any arrival order."""
import itertools
import re
from vlib import hx

ID = "C11"
EXTRACT = "ExtC11.v"
MLMOD = "m_c11"
RUNNER = "run_c11"
HARNESS_BIN = "c11"
RELEASE_ALWAYS = True      # set_len on spare capacity: look at debug and release
HOOKS = True               # harness built with --cfg etherparse_verif: IpDefragPool::verif_stats (add-only hook, /repo 40f4741)
RULE = ("one case = one delivery history. buf: IpDefragBuf::new(+stale vectors) then add(); after every add the return value, "
        "is_complete, end, data length, sections (in Vec order) and data (bytes outside every section masked) are compared with the model, "
        "verdict/completeness/payload with the Spec. pool: packets built and sliced by the crate (Ethernet, 0-3 VLAN tags, IPv4 / IPv6+fragment header), "
        "process_sliced_packet / return_buf / retain; every return value compared. Histories: every permutation of every cut into <= kmax fragments "
        "(quick 4, thorough 6) x duplicate deliveries (all single duplicates for k<=4, all double for k<=3, sampled beyond), random fragment soups "
        "(overlaps with different bytes, conflicting ends, unaligned, beyond 65535, empty payloads), 65535-byte datagrams, up to 4 interleaved streams "
        "whose ids differ in exactly one component, id reuse after completion, buffer return/reuse, eviction. "
        "Regression class of the repaired finding F8 (a final fragment that ends below data stored while the total length was unknown must be "
        "rejected with ConflictingEnd{largest stored end, its end}, buffer unchanged, in either order): 1-4 stored sections (gaps, overlaps, empty "
        "fragments), final fragment ending below / inside / exactly at / beyond the largest stored end, then the rest of the datagram; directly and "
        "through the pool. "
        "After EVERY pool operation verif_stats() = (active streams, pooled data vectors, pooled section vectors) is compared with the model's "
        "(|active|, |free data|, |free sections|) and, independently, with the bookkeeping the property prescribes (oracle: completion (a-1,d,s+1); "
        "first fragment (a+1,d-1,s-1) floored at 0; failing first fragment (a,max(1,d),max(1,s)); return (a,d+1,s); retain evicting n (a-n,d+n,s+n); "
        "everything else unchanged; a = number of streams with an entry). Book-keeping histories: retain with predicates on the timestamp "
        "(>=, <, !=, ==, parity, all, none), returns of handed-out and of foreign vectors, failing first fragments, evictions followed by the late fragments "
        "and by a full re-delivery; every interleaving of two 2-fragment datagrams x one retain/return at every position. "
        "non-trivial = distinct history with >= 3 deliveries that reaches a completion or an error")
ASSUMPTIONS = ["allocation never fails (AllocationFailure is not modelled)",
               "IpFragOffset <= 8191 (type invariant of the crate's IpFragOffset, enforced by try_new)",
               "the pool model starts after the slice has been inspected: the packet -> (stream id, offset, more-fragments, payload) step is exercised "
               "by the correspondence run (packets built and sliced by the crate), not modelled"]
PROJECTION = ("per delivery: verdict with all error fields, is_complete, end, data length, sections, masked data / returned payload, ip number, length source; "
              "per pool operation: verif_stats()")


def corpus():
    return [
        # the repaired finding F8 and its mirror image: the second delivery is rejected in both orders
        # (conflict:16:12 resp. conflict:12:16), the buffer stays as it was, the right final fragment still completes
        "buf 17 - 0 a:0:1:000102030405060708090a0b0c0d0e0f a:1:0:aabbccdd",
        "buf 17 - 0 a:1:0:aabbccdd a:0:1:000102030405060708090a0b0c0d0e0f",
        "buf 17 - 0 a:0:1:000102030405060708090a0b0c0d0e0f a:1:0:aabbccdd a:1:0:aabbccdd a:1:0:08090a0b0c0d0e0f",
        # final fragment overlapping the stored section from below its end (ends at 15 < 16), then exactly at the maximum (accepted)
        "buf 17 - 0 a:0:1:000102030405060708090a0b0c0d0e0f a:1:0:aabbccddeeff11 a:0:0:00112233445566778899aabbccddee a:1:0:aabbccddeeff1122",
        # several stored sections [0,8) [32,40) [16,24): the maximum (40) is reported; 39 rejected, 40 accepted
        "buf 6 - 0 a:0:1:0102030405060708 a:4:1:292a2b2c2d2e2f30 a:2:1:1516171819202122 a:3:0:090909 a:4:0:09090909090909 a:4:0:0909090909090909 a:1:1:0908070605040302 a:3:1:0908070605040302",
        # maximum is not the last section and not the first: [32,40) [0,8) [48,56) [16,24); end 48 rejected, end 57 accepted
        "buf 6 ffffffffffffffffffffffffffffffffffffffff 2 a:4:1:292a2b2c2d2e2f30 a:0:1:0102030405060708 a:6:1:3132333435363738 a:2:1:1516171819202122 a:5:0:0909090909090909 a:7:0:77",
        # empty non-final fragment stored beyond the end of the final one: the final one is rejected (conflict:16:8)
        "buf 17 - 0 a:2:1:- a:0:0:0001020304050607 a:0:1:0001020304050607",
        # empty final fragment at the stored maximum is accepted; below it rejected
        "buf 17 - 0 a:0:1:000102030405060708090a0b0c0d0e0f a:1:0:- a:2:0:-",
        # in order, reverse order, duplicate, with stale vectors handed to new()
        "buf 6 ffffffffffffffffffffffffffffffffffffffff 2 a:0:1:0001020304050607 a:1:1:08090a0b0c0d0e0f a:2:0:101112",
        "buf 6 ffffffffffffffffffffffffffffffffffffffff 2 a:2:0:101112 a:1:1:08090a0b0c0d0e0f a:1:1:08090a0b0c0d0e0f a:0:1:0001020304050607",
        # rejects
        "buf 17 - 0 a:0:1:00010203 a:8191:0:0001020304050607 a:8191:0:00010203040506 a:0:0:0011 a:0:0:001122 a:1:1:0001020304050607",
        "buf 17 - 0 z:0:1:65536:3 z:0:0:65535:3",
        "buf 17 - 0 a:0:0:-",
        # pool: two streams differing in the identification only, interleaved, then buffer reuse
        "pool 2 4/-/0a000001/0a000002/7/17/0 4/-/0a000001/0a000002/8/17/0 "
        "p:0:0:1:1:0001020304050607 p:1:1:0:1:f8f9fafbfc p:0:1:0:2:08090a p:1:0:1:2:f0f1f2f3f4f5f6f7 r r r "
        "p:0:1:0:3:4142 p:0:0:1:3:3132333435363738",
        # pool: unfragmented packets pass through, v6, vlan, eviction
        "pool 2 6/5.6/20010db8000000000000000000000001/20010db8000000000000000000000002/99/6/3 4/5/0a000001/0a000002/99/6/3 "
        "p:0:0:0:1:00112233 p:1:0:0:1:00112233 p:0:0:1:2:0001020304050607 p:1:0:1:3:1011121314151617 t:3 p:0:1:0:4:08 p:1:1:0:4:18",
        # pool: failing first fragment (both vectors go to the free lists), foreign return, eviction by several predicates, late fragment
        "pool 3 4/-/0a000001/0a000002/7/17/0 4/-/0a000001/0a000002/8/17/0 4/-/0a000001/0a000002/9/17/0 "
        "p:0:0:1:1:0102030405060708 p:1:0:1:2:0102030405060708 p:1:1:0:3:09 p:2:0:1:4:010203 r rf:eeeeee t:ge:2 "
        "p:0:1:0:5:09 p:0:0:1:6:0102030405060708 t:lt:6 t:mod:1 t:ne:6 t:eq:6 t:none:0 t:all:0 p:2:8191:0:7:00000000000000000000000000000000",
        # pool: the repaired F8 through the pool, both orders, v4 and v6; the entry survives the reject and completes afterwards
        "pool 1 4/-/0a000001/0a000002/7/17/0 p:0:0:1:1:000102030405060708090a0b0c0d0e0f p:0:1:0:2:aabbccdd p:0:2:0:3:1011",
        "pool 1 4/-/0a000001/0a000002/7/17/0 p:0:1:0:1:aabbccdd p:0:0:1:2:000102030405060708090a0b0c0d0e0f p:0:0:1:3:0001020304050607",
        "pool 1 6/5/20010db8000000000000000000000001/20010db8000000000000000000000002/99/6/3 "
        "p:0:0:1:1:000102030405060708090a0b0c0d0e0f p:0:4:1:2:2021222324252627 p:0:3:0:3:aabbccdd p:0:2:1:4:1011121314151617 "
        "p:0:3:1:5:18191a1b1c1d1e1f p:0:5:0:6:28",
    ]


# ---------------------------------------------------------------------------
def _frag(fo, mf, data):
    return "a:%d:%d:%s" % (fo, 1 if mf else 0, hx(data))


def _cut(P, sizes):
    """fragments of P: sizes (units of 8 bytes) of the non-final fragments, the final one takes the rest"""
    out = []
    fo = 0
    for n in sizes:
        out.append((fo, True, P[fo * 8:(fo + n) * 8]))
        fo += n
    out.append((fo, False, P[fo * 8:]))
    return out


def _stale(rng):
    k = rng.below(4)
    if k == 0:
        return "- 0"
    if k == 1:
        return "%s 0" % hx(b"\xee" * rng.range(1, 40))
    return "%s %d" % (hx(b"\xdd" * rng.range(1, 64)), rng.range(1, 3))


def _perm_cases(rng, kmax, big):
    cases = []
    for k in range(1, kmax + 1):
        # a few shapes per k: sizes of non-final fragments, length of the tail
        shapes = []
        shapes.append(([1] * (k - 1), 8))
        shapes.append(([1] * (k - 1), rng.range(1, 7)))
        shapes.append(([rng.range(1, 3) for _ in range(k - 1)], rng.range(1, 20)))
        if big:
            shapes.append(([rng.range(1, 4) for _ in range(k - 1)], rng.range(1, 9)))
        for sizes, tail in shapes:
            L = 8 * sum(sizes) + tail
            P = rng.bytes(L)
            fr = _cut(P, sizes)
            idx = list(range(len(fr)))
            for perm in itertools.permutations(idx):
                dels = [list(perm)]
                n = len(perm)
                if k <= 4:
                    for d in idx:                       # every single duplicate at every position
                        for pos in range(n + 1):
                            x = list(perm)
                            x.insert(pos, d)
                            dels.append(x)
                if k <= 3:
                    for d1 in idx:                      # every double duplicate
                        for d2 in idx:
                            for p1 in range(n + 1):
                                for p2 in range(n + 2):
                                    x = list(perm)
                                    x.insert(p1, d1)
                                    x.insert(p2, d2)
                                    dels.append(x)
                else:
                    for _ in range(3 if k <= 4 else 2):  # sampled double duplicates
                        x = list(perm)
                        x.insert(rng.below(len(x) + 1), rng.choice(idx))
                        x.insert(rng.below(len(x) + 1), rng.choice(idx))
                        dels.append(x)
                for x in dels:
                    cases.append("buf %d %s %s" % (rng.below(256), _stale(rng),
                                                   " ".join(_frag(*fr[i]) for i in x)))
    return cases


def _soup_frag(rng, st):
    """one random fragment of a fragment soup; st carries the nominal payload"""
    P = st["P"]
    L = len(P)
    units = (L + 7) // 8
    k = rng.below(20)
    if k < 11:       # consistent fragment of P (possibly overlapping earlier ones)
        fo = rng.below(units) if units else 0
        n = rng.range(0, 3)
        end = min(L, (fo + n) * 8)
        if rng.chance(1, 3) or end >= L:
            return (fo, False, P[fo * 8:]) if rng.chance(3, 4) else (fo, True, P[fo * 8:(L // 8) * 8])
        return (fo, True, P[fo * 8:end])
    if k < 13:       # same range, different bytes (overlap resolution: last writer wins)
        fo = rng.below(units + 1)
        n = rng.range(0, 2)
        return (fo, True, rng.bytes(8 * n))
    if k < 15:       # another end
        fo = rng.below(units + 2)
        return (fo, False, rng.bytes(rng.range(0, 12)))
    if k < 16:       # unaligned non-final
        return (rng.below(units + 1), True, rng.bytes(rng.range(1, 23)))
    if k < 17:       # around the 65535 limit
        fo = rng.range(8185, 8191)
        return (fo, rng.chance(1, 2), rng.bytes(rng.choice([0, 7, 8, 15, 16, 48, 55, 56])))
    if k < 18:       # empty
        return (rng.below(units + 2), rng.chance(1, 2), b"")
    if k < 19:       # beyond the payload, non-final (F8 feeder)
        return (units + rng.below(3), True, rng.bytes(8 * rng.range(0, 2)))
    fo = rng.below(units + 1)
    return (fo, rng.chance(1, 2), rng.bytes(rng.range(0, 30)))


def _soup_cases(rng, n):
    cases = []
    for _ in range(n):
        L = rng.choice([0, 1, 7, 8, 9, 16, 20, 24, 31, 40, 47, 48]) if rng.chance(2, 3) else rng.range(0, 90)
        st = {"P": rng.bytes(L)}
        steps = rng.range(1, 12)
        cases.append("buf %d %s %s" % (rng.below(256), _stale(rng),
                                       " ".join(_frag(*_soup_frag(rng, st)) for _ in range(steps))))
    return cases


def _late_end_frags(rng):
    """one history of the regression class of the repaired finding F8: sections stored while the total length is unknown,
    then final fragments ending below / inside / at / beyond the largest stored end, then the rest of the datagram"""
    nsec = rng.range(1, 4)
    units = rng.range(nsec, 9)
    P = rng.bytes(units * 8 + rng.range(0, 7))
    stored = []
    hi = 0
    for _ in range(nsec):
        fo = rng.below(units)
        n = rng.range(0, 2) if rng.chance(1, 6) else rng.range(1, 3)
        n = min(n, units - fo)
        data = P[fo * 8:(fo + n) * 8] if rng.chance(5, 6) else rng.bytes(n * 8)
        stored.append((fo, True, data))
        hi = max(hi, (fo + n) * 8)
    out = list(stored)
    for _ in range(rng.range(1, 3)):
        k = rng.below(10)
        if k < 5 and hi > 0:         # ends below the maximum (1 .. hi-1), any offset
            e = rng.range(0, hi - 1)
        elif k < 7:                  # exactly at the maximum: accepted
            e = hi
        elif k < 8 and hi > 0:       # one byte below
            e = hi - 1
        else:                        # beyond
            e = hi + rng.range(1, 12)
        fo = rng.below(e // 8 + 1)
        if rng.chance(1, 5):
            fo = e // 8
        ln = e - fo * 8
        data = (P + rng.bytes(16))[fo * 8:fo * 8 + ln] if rng.chance(2, 3) else rng.bytes(ln)
        out.append((fo, False, data))
    # the rest: the proper cut of P, shuffled (completes when the accepted end is len(P))
    sizes = [1] * units if len(P) % 8 else [1] * (units - 1)
    rest = _cut(P, sizes) if P else []
    for i in range(len(rest) - 1, 0, -1):
        j = rng.below(i + 1)
        rest[i], rest[j] = rest[j], rest[i]
    out += rest[:rng.range(0, len(rest))] if rng.chance(1, 3) else rest
    if rng.chance(1, 4):             # mirror image: final fragment(s) first
        fin = [f for f in out if not f[1]]
        non = [f for f in out if f[1]]
        out = fin[:1] + non + fin[1:]
    return out


def _late_end_cases(rng, n):
    cases = []
    for i in range(n):
        fr = _late_end_frags(rng)
        if i % 3 == 2:
            # through the pool (a leading unfragmented final fragment at offset 0 would pass through: keep as is, the oracle knows)
            v = 4 if rng.chance(1, 2) else 6
            alen = 4 if v == 4 else 16
            s = {"v": v, "vl": [rng.below(4096)] if rng.chance(1, 2) else [], "src": rng.bytes(alen), "dst": rng.bytes(alen),
                 "ident": rng.below(65536), "proto": rng.choice([6, 17, 47]), "chan": rng.below(2)}
            ops = ["p:0:%d:%d:%d:%s" % (f[0], 1 if f[1] else 0, t + 1, hx(f[2])) for t, f in enumerate(fr)]
            cases.append("pool 1 %s %s" % (_sdef(s), " ".join(ops)))
        else:
            cases.append("buf %d %s %s" % (rng.below(256), _stale(rng), " ".join(_frag(*f) for f in fr)))
    return cases


def _late_end_enum():
    """exhaustive small grid: one or two stored 8-byte-unit sections (offsets 0..3, lengths 0..2 units), then every final
    fragment with offset 0..4 and length 0..9 -- both orders"""
    cases = []
    for fo1 in range(4):
        for n1 in range(3):
            for zfo in range(5):
                for zl in range(10):
                    a = _frag(fo1, True, bytes((fo1 * 8 + i) & 255 for i in range(n1 * 8)))
                    z = _frag(zfo, False, bytes((0xa0 + i) & 255 for i in range(zl)))
                    cases.append("buf 17 - 0 %s %s" % (a, z))
                    cases.append("buf 17 - 0 %s %s" % (z, a))
    for fo1, fo2 in ((0, 2), (2, 0), (1, 3), (3, 1), (0, 1), (2, 2)):
        for zfo in range(5):
            for zl in range(0, 10, 3):
                a = _frag(fo1, True, bytes(8))
                b = _frag(fo2, True, bytes(range(8)))
                z = _frag(zfo, False, bytes((0xa0 + i) & 255 for i in range(zl)))
                for order in ((a, b, z), (a, z, b), (z, a, b)):
                    cases.append("buf 17 - 0 %s" % " ".join(order))
    return cases


def _big_cases(rng, n):
    cases = []
    for j in range(n):
        L = rng.choice([65535, 65528, 65535, 60000, 4097, 9000])
        step = rng.choice([1480, 1472, 8192, 512, 65528])
        step -= step % 8
        seed = rng.below(256)
        fr = []
        off = 0
        while off < L:
            ln = min(step, L - off)
            mf = off + ln < L
            # pattern bytes depend on the absolute offset so that overlapping pieces agree
            fr.append("z:%d:%d:%d:%d" % (off // 8, 1 if mf else 0, ln, (off * 7 + seed) & 255))
            off += ln
        order = list(range(len(fr)))
        for i in range(len(order) - 1, 0, -1):
            k = rng.below(i + 1)
            order[i], order[k] = order[k], order[i]
        if len(order) > 24:
            order = order[:0] + order     # keep all: completeness needs all
        extra = [rng.choice(order) for _ in range(2)]
        seq = order[:len(order) // 2] + extra[:1] + order[len(order) // 2:] + extra[1:]
        cases.append("buf 17 %s %s" % (_stale(rng), " ".join(fr[i] for i in seq)))
    # oversize
    cases.append("buf 17 - 0 z:0:0:65536:1 z:1:0:65528:1 z:1:0:65527:9")
    cases.append("buf 17 - 0 z:8191:1:8:1 z:8191:0:7:1 z:8191:0:8:1 z:0:1:65528:%d" % 1)
    return cases


def _streams(rng, n):
    """n stream ids: the first is a base, the others differ from it (or from each other) in exactly one component"""
    v4 = rng.chance(1, 2)
    alen = 4 if v4 else 16
    base = {"v": 4 if v4 else 6, "vl": [rng.below(4096) for _ in range(rng.below(4))],
            "src": rng.bytes(alen), "dst": rng.bytes(alen), "ident": rng.below(65536),
            "proto": rng.choice([6, 17, 1, 47, 132, 253]), "chan": rng.below(3)}
    out = [base]
    seen = {repr(sorted(base.items()))}
    guard = 0
    while len(out) < n and guard < 100:
        guard += 1
        s = dict(rng.choice(out))
        s["vl"] = list(s["vl"])
        k = rng.below(8)
        if k == 0:
            s["ident"] = (s["ident"] + rng.range(1, 3)) % 65536
        elif k == 1:
            b = bytearray(s["src"]); i = rng.below(len(b)); b[i] ^= 1 << rng.below(8); s["src"] = bytes(b)
        elif k == 2:
            b = bytearray(s["dst"]); i = rng.below(len(b)); b[i] ^= 1 << rng.below(8); s["dst"] = bytes(b)
        elif k == 3:
            s["proto"] = rng.choice([x for x in [6, 17, 1, 47, 132, 253] if x != s["proto"]])
        elif k == 4:
            s["chan"] = s["chan"] + 1
        elif k == 5:
            if s["vl"] and rng.chance(1, 2):
                s["vl"][rng.below(len(s["vl"]))] ^= 1 << rng.below(12)
            elif len(s["vl"]) < 3:
                s["vl"].append(rng.below(4096))
            else:
                s["vl"].pop()
        elif k == 6:
            s["src"], s["dst"] = s["dst"], s["src"]
        else:
            # other ip version with the "same" addresses
            if s["v"] == 4:
                s["v"] = 6; s["src"] = s["src"] + bytes(12); s["dst"] = s["dst"] + bytes(12)
            else:
                s["v"] = 4; s["src"] = s["src"][:4]; s["dst"] = s["dst"][:4]
        key = repr(sorted(s.items()))
        if key in seen:
            continue
        seen.add(key)
        out.append(s)
    return out


def _sdef(s):
    return "%d/%s/%s/%s/%d/%d/%d" % (s["v"], ".".join(str(x) for x in s["vl"]) if s["vl"] else "-",
                                     s["src"].hex(), s["dst"].hex(), s["ident"], s["proto"], s["chan"])


def _pool_cases(rng, n, maxstreams):
    cases = []
    for _ in range(n):
        ns = rng.range(1, maxstreams)
        streams = _streams(rng, ns)
        ns = len(streams)
        # per stream: a queue of datagrams (id reuse after completion), each cut + shuffled + duplicates
        queues = []
        for s in range(ns):
            q = []
            for _d in range(rng.range(1, 3)):
                k = rng.range(2, 5)
                sizes = [rng.range(1, 3) for _ in range(k - 1)]
                tail = rng.range(1, 16)
                P = rng.bytes(8 * sum(sizes) + tail)
                fr = _cut(P, sizes)
                order = list(range(len(fr)))
                for i in range(len(order) - 1, 0, -1):
                    j = rng.below(i + 1)
                    order[i], order[j] = order[j], order[i]
                if rng.chance(1, 2):
                    order.insert(rng.below(len(order) + 1), rng.choice(order))
                dg = [fr[i] for i in order]
                st = {"P": P}
                if rng.chance(1, 4):     # damage: conflicting / oversized / unaligned / overlapping extras
                    for _x in range(rng.range(1, 2)):
                        dg.insert(rng.below(len(dg) + 1), _soup_frag(rng, st))
                if rng.chance(1, 8):     # unfragmented packet in between
                    dg.insert(rng.below(len(dg) + 1), (0, False, rng.bytes(rng.range(0, 12))))
                q.extend(dg)
            queues.append(q)
        ops = []
        ts = 1
        pos = [0] * ns
        while any(pos[s] < len(queues[s]) for s in range(ns)):
            s = rng.choice([x for x in range(ns) if pos[x] < len(queues[x])])
            fo, mf, data = queues[s][pos[s]]
            pos[s] += 1
            ts += rng.below(2)
            ops.append("p:%d:%d:%d:%d:%s" % (s, fo, 1 if mf else 0, ts, hx(data)))
            r = rng.below(12)
            if r == 0:
                ops.append("r")
            elif r == 1 and rng.chance(1, 3):
                ops.append("t:%d" % max(0, ts - rng.below(3)))
        cases.append("pool %d %s %s" % (ns, " ".join(_sdef(s) for s in streams), " ".join(ops)))
    return cases


def _pool_perm_cases(rng, kmax):
    """every permutation of every cut through the pool, one stream, v4 and v6"""
    cases = []
    for v in (4, 6):
        for k in range(2, kmax + 1):
            sizes = [rng.range(1, 2) for _ in range(k - 1)]
            P = rng.bytes(8 * sum(sizes) + rng.range(1, 8))
            fr = _cut(P, sizes)
            alen = 4 if v == 4 else 16
            s = {"v": v, "vl": [7] if k % 2 else [], "src": rng.bytes(alen), "dst": rng.bytes(alen),
                 "ident": rng.below(65536), "proto": 17, "chan": 0}
            for perm in itertools.permutations(range(len(fr))):
                ops = ["p:0:%d:%d:1:%s" % (fr[i][0], 1 if fr[i][1] else 0, hx(fr[i][2])) for i in perm]
                # a second datagram on the same id must start from a clean state
                ops.append("r")
                ops += ["p:0:%d:%d:2:%s" % (fr[i][0], 1 if fr[i][1] else 0, hx(bytes(b ^ 0x5a for b in fr[i][2])))
                        for i in reversed(perm)]
                cases.append("pool 1 %s %s" % (_sdef(s), " ".join(ops)))
    return cases


def _pool_big(rng):
    cases = []
    for v, maxlen in ((4, 65515), (6, 65527)):
        alen = 4 if v == 4 else 16
        s = {"v": v, "vl": [], "src": rng.bytes(alen), "dst": rng.bytes(alen), "ident": 1, "proto": 17, "chan": 0}
        # one full-size datagram in 3 pieces, out of order; then too-big fragments
        a = 32760
        ops = ["q:0:%d:0:1:%d:%d" % (2 * a // 8, 65535 - 2 * a, (2 * a * 7 + 5) & 255),
               "q:0:0:1:1:%d:%d" % (a, 5), "q:0:%d:1:1:%d:%d" % (a // 8, a, (a * 7 + 5) & 255),
               "q:0:8191:0:2:8:1", "q:0:8191:1:2:0:1", "q:0:1:1:2:%d:1" % (maxlen - maxlen % 8), "q:0:8190:0:3:16:1"]
        cases.append("pool 1 %s %s" % (_sdef(s), " ".join(ops)))
    return cases

_PREDS = ["ge", "lt", "ne", "eq", "mod", "all", "none"]


def _pred_op(rng, ts):
    k = rng.choice(_PREDS)
    return "t:%s:%d" % (k, max(0, ts + rng.below(4) - 2))


def _bad_first(rng):
    """a fragment that every buffer rejects: unaligned non-final, or beyond 65535"""
    if rng.chance(1, 2):
        return (rng.below(4), True, rng.bytes(rng.choice([1, 3, 7, 9, 15])))
    return (8191, rng.chance(1, 2), rng.bytes(rng.choice([8, 9, 16])))


def _pool_book_cases(rng, n, maxstreams):
    """histories aimed at the bookkeeping: frequent returns (own and foreign vectors), retain with every predicate,
    failing first fragments, evictions followed by late fragments and by a complete re-delivery"""
    cases = []
    for _ in range(n):
        streams = _streams(rng, rng.range(1, maxstreams))
        ns = len(streams)
        queues = []
        for s in range(ns):
            q = []
            for _d in range(rng.range(1, 3)):
                k = rng.range(2, 4)
                sizes = [rng.range(1, 2) for _ in range(k - 1)]
                P = rng.bytes(8 * sum(sizes) + rng.range(1, 9))
                fr = _cut(P, sizes)
                order = list(range(len(fr)))
                for i in range(len(order) - 1, 0, -1):
                    j = rng.below(i + 1)
                    order[i], order[j] = order[j], order[i]
                dg = [fr[i] for i in order]
                if rng.chance(1, 3):
                    dg = dg + dg          # the whole datagram again (after an eviction the second copy completes)
                q.extend(dg)
            queues.append(q)
        ops = []
        ts = 1
        pos = [0] * ns
        while any(pos[s] < len(queues[s]) for s in range(ns)):
            r = rng.below(16)
            if r < 9:
                s = rng.choice([x for x in range(ns) if pos[x] < len(queues[x])])
                fo, mf, data = queues[s][pos[s]]
                pos[s] += 1
                ts += rng.below(3)
                ops.append("p:%d:%d:%d:%d:%s" % (s, fo, 1 if mf else 0, ts, hx(data)))
            elif r < 11:
                fo, mf, data = _bad_first(rng)
                ts += rng.below(2)
                ops.append("p:%d:%d:%d:%d:%s" % (rng.below(ns), fo, 1 if mf else 0, ts, hx(data)))
            elif r < 13:
                ops.append("r")
            elif r < 14:
                ops.append("rf:%s" % hx(rng.bytes(rng.range(0, 20))))
            else:
                ops.append(_pred_op(rng, ts))
        ops += ["r"] * rng.below(3)
        if rng.chance(1, 2):
            ops.append(_pred_op(rng, ts))
        cases.append("pool %d %s %s" % (ns, " ".join(_sdef(s) for s in streams), " ".join(ops)))
    return cases


def _pool_book_enum(rng, big):
    """two streams, one 2-fragment datagram each: every interleaving of the four deliveries (timestamps 1..4)
    x one extra operation (every retain predicate/cutoff, return, foreign return, failing first fragment of a
    third stream) at every position; then the evicted datagrams are delivered again completely"""
    cases = []
    streams = _streams(rng, 3)
    while len(streams) < 3:
        streams = _streams(rng, 3)
    sd = " ".join(_sdef(s) for s in streams)
    PA = rng.bytes(8 + rng.range(1, 8))
    PB = rng.bytes(8 + rng.range(1, 8))
    fa = _cut(PA, [1])
    fb = _cut(PB, [1])
    items = [(0, fa[0]), (0, fa[1]), (1, fb[0]), (1, fb[1])]
    extras = ["r", "rf:ee", "t:none:0", "t:all:0", "t:mod:0", "t:mod:1", "p:2:0:1:9:010203", "p:2:8191:0:9:" + "00" * 16]
    extras += ["t:ge:%d" % c for c in range(1, 6)] + ["t:lt:%d" % c for c in range(1, 6)]
    extras += ["t:ne:%d" % c for c in range(1, 5)] + ["t:eq:%d" % c for c in range(1, 5)]
    tail = ["p:0:%d:%d:7:%s" % (f[0], 1 if f[1] else 0, hx(f[2])) for f in fa] + ["r"] + \
           ["p:1:%d:%d:8:%s" % (f[0], 1 if f[1] else 0, hx(f[2])) for f in reversed(fb)] + ["r", "r"]
    perms = list(itertools.permutations(range(4)))
    for perm in perms:
        base = []
        for n, i in enumerate(perm):
            sid, f = items[i]
            base.append("p:%d:%d:%d:%d:%s" % (sid, f[0], 1 if f[1] else 0, n + 1, hx(f[2])))
        for pos in range(5):
            for e in extras:
                if not big and rng.below(3):      # quick: a third of the grid (the grid is fully enumerated in thorough)
                    continue
                ops = base[:pos] + [e] + base[pos:] + tail
                cases.append("pool 3 %s %s" % (sd, " ".join(ops)))
    return cases


# --- BEGIN extend-c11b: the packet step (frames -> IpFragId / offset / flag / payload) -----------------------
def _be16(v):
    return bytes([(v >> 8) & 255, v & 255])


def _pk_frame(rng, s, fo, mf, data, ent="eth", second_frag=False):
    """one frame of stream s (dict of _streams) carrying the fragment (fo, mf, data); every field that is NOT part of
    IpFragId is drawn afresh: MAC addresses, TPID / PCP / DEI of the VLAN tags, IPv4 IHL + options, DSCP/ECN, DF, TTL,
    checksum, optional AH in front of the payload; IPv6 traffic class, flow label, hop limit, hop-by-hop / destination
    options / routing headers in front of the fragment header, reserved bits of the fragment header, destination options
    or AH behind it, optionally a SECOND fragment header (other identification) behind the first"""
    if s["v"] == 4:
        inner = data
        proto = s["proto"]
        if rng.chance(1, 8):
            icv = rng.bytes(4 * rng.range(1, 3))
            inner = bytes([s["proto"], len(icv) // 4 + 1, 0, 0]) + rng.bytes(8) + icv + data
            proto = 51
        ihl = rng.choice([5, 5, 5, 6, 8, 15])
        opts = rng.bytes(ihl * 4 - 20)
        flags = (rng.below(2) << 14) | ((1 if mf else 0) << 13) | fo
        ip = (bytes([0x40 | ihl, rng.below(256)]) + _be16(ihl * 4 + len(inner)) + _be16(s["ident"] & 0xFFFF) + _be16(flags)
              + bytes([rng.below(256), proto]) + rng.bytes(2) + s["src"] + s["dst"] + opts + inner)
        if rng.chance(1, 6):
            ip += rng.bytes(rng.range(1, 6))          # padding behind the total length
        et = 0x0800
    else:
        chain = []      # (kind, bytes without next header octet)
        if rng.chance(1, 3):
            chain.append((0, None))
        for _ in range(rng.choice([0, 0, 1, 2])):
            chain.append((rng.choice([60, 43]), None))
        chain.append((44, None))
        if second_frag:
            chain.append((44, "second"))
        if rng.chance(1, 5):
            chain.append((rng.choice([60, 51]), None))
        out = data
        nxt = s["proto"]
        for kind, what in reversed(chain):
            if kind == 44:
                if what == "second":
                    hdr = bytes([nxt, rng.below(256)]) + _be16((rng.below(8192) << 3) | rng.below(8)) + rng.bytes(4)
                else:
                    hdr = (bytes([nxt, rng.below(256)]) + _be16((fo << 3) | (rng.below(4) << 1) | (1 if mf else 0))
                           + bytes([(s["ident"] >> 24) & 255, (s["ident"] >> 16) & 255, (s["ident"] >> 8) & 255, s["ident"] & 255]))
            elif kind == 51:
                icv = rng.bytes(4 * rng.range(1, 3))
                hdr = bytes([nxt, len(icv) // 4 + 1, 0, 0]) + rng.bytes(8) + icv
            else:
                units = rng.choice([0, 0, 1, 2])
                hdr = bytes([nxt, units]) + rng.bytes((units + 1) * 8 - 2)
            out = hdr + out
            nxt = kind
        ip = (bytes([0x60 | rng.below(16)]) + rng.bytes(3) + _be16(len(out)) + bytes([nxt, rng.below(256)])
              + s["src"] + s["dst"] + out)
        et = 0x86DD
    if ent == "ip":
        return ip
    body = ip
    for vid in reversed(s["vl"]):
        body = _be16((rng.below(16) << 12) | vid) + _be16(et) + body
        et = rng.choice([0x8100, 0x88A8, 0x9100])
    return rng.bytes(12) + _be16(et) + body


def _pk_streams(rng, n):
    ss = _streams(rng, n)
    for s in ss:
        if s["v"] == 6:
            s["ident"] = (s["ident"] * 65537 + s["chan"]) & 0xFFFFFFFF if rng.chance(1, 2) else s["ident"]
    # the changes above may have made two ids equal / unequal in another way: recompute distinctness by label
    return ss


def _pk_label(labels, s):
    key = (s["v"], tuple(s["vl"]), s["src"], s["dst"], s["ident"] & (0xFFFF if s["v"] == 4 else 0xFFFFFFFF), s["proto"], s["chan"])
    if key not in labels:
        labels[key] = len(labels)
    return labels[key]


def _pk_cases(rng, n, noise):
    import pktgen
    cases = []
    for _ in range(n):
        ss = _pk_streams(rng, rng.range(2, 4))
        labels = {}
        queue = []       # per stream: list of fragments still to deliver
        for s in ss:
            k = rng.range(2, 3)
            P = rng.bytes(8 * (k - 1) + rng.range(1, 9))
            fr = _cut(P, [1] * (k - 1))
            # random order inside the stream
            order = list(fr)
            for i in range(len(order) - 1, 0, -1):
                j = rng.below(i + 1)
                order[i], order[j] = order[j], order[i]
            queue.append(order)
        ops = []
        ts = 0
        live = [i for i in range(len(ss))]
        while live:
            ts += 1
            r = rng.below(12)
            if r == 0:
                ops.append("r")
                continue
            if r == 1:
                # an unfragmented packet of one of the streams: passes through, never changes a reassembly
                s = rng.choice(ss)
                ent = "ip" if (not s["vl"] and rng.chance(1, 3)) else "eth"
                ops.append("k:u:%s:%d:%d:%s" % (ent, s["chan"], ts, hx(_pk_frame(rng, s, 0, False, rng.bytes(rng.range(0, 12)), ent))))
                continue
            if r == 2 and noise:
                ent, data, _ = pktgen.gen_packet(rng)
                if len(data) <= 400:
                    ops.append("k:x:%s:%d:%d:%s" % (ent.replace(":", ""), rng.below(3), ts, hx(data)))
                continue
            i = rng.choice(live)
            s = ss[i]
            fo, mf, data = queue[i].pop()
            if not queue[i]:
                live.remove(i)
            ent = "ip" if (not s["vl"] and rng.chance(1, 3)) else "eth"
            second = s["v"] == 6 and rng.chance(1, 10)
            ops.append("k:%d:%s:%d:%d:%s" % (_pk_label(labels, s), ent, s["chan"], ts, hx(_pk_frame(rng, s, fo, mf, data, ent, second))))
        cases.append("pk " + " ".join(ops))
    return cases


def _pk_pair_enum(rng):
    """every key component on its own: a first fragment of a base datagram, then a first fragment that differs in exactly
    that component (two open reassemblies) resp. in non-key fields only (one), IPv4 and IPv6, 0-3 VLAN tags"""
    cases = []
    for v in (4, 6):
        for nv in range(4):
            alen = 4 if v == 4 else 16
            base = {"v": v, "vl": [rng.below(4096) for _ in range(nv)], "src": rng.bytes(alen), "dst": rng.bytes(alen),
                    "ident": rng.below(65536), "proto": 17, "chan": 1}
            variants = [("same", dict(base))]
            for comp in ("ident", "src", "dst", "proto", "chan", "swap", "ver") + tuple("vl%d" % i for i in range(nv)) + ("vl+", "vl-"):
                s = dict(base); s["vl"] = list(base["vl"])
                if comp == "ident":
                    s["ident"] ^= 1 << rng.below(16)
                elif comp in ("src", "dst"):
                    b = bytearray(s[comp]); b[rng.below(alen)] ^= 1 << rng.below(8); s[comp] = bytes(b)
                elif comp == "proto":
                    s["proto"] = 6
                elif comp == "chan":
                    s["chan"] = 2
                elif comp == "swap":
                    s["src"], s["dst"] = s["dst"], s["src"]
                elif comp == "ver":
                    if v == 4:
                        s["v"] = 6; s["src"] = s["src"] + bytes(12); s["dst"] = s["dst"] + bytes(12)
                    else:
                        s["v"] = 4; s["src"] = s["src"][:4]; s["dst"] = s["dst"][:4]
                elif comp == "vl+":
                    if nv == 3:
                        continue
                    s["vl"].append(rng.below(4096))
                elif comp == "vl-":
                    if nv == 0:
                        continue
                    s["vl"].pop()
                else:
                    s["vl"][int(comp[2:])] ^= 1 << rng.below(12)
                variants.append((comp, s))
            for comp, s in variants:
                labels = {}
                P = rng.bytes(11)
                Q = rng.bytes(13)
                f1 = "k:%d:eth:%d:1:%s" % (_pk_label(labels, base), base["chan"], hx(_pk_frame(rng, base, 0, True, P[:8])))
                f2 = "k:%d:eth:%d:2:%s" % (_pk_label(labels, s), s["chan"], hx(_pk_frame(rng, s, 0, True, Q[:8])))
                f3 = "k:%d:eth:%d:3:%s" % (_pk_label(labels, base), base["chan"], hx(_pk_frame(rng, base, 1, False, P[8:])))
                f4 = "k:%d:eth:%d:4:%s" % (_pk_label(labels, s), s["chan"], hx(_pk_frame(rng, s, 1, False, Q[8:])))
                cases.append("pk %s %s %s %s" % (f1, f2, f3, f4))
    return cases
# --- END extend-c11b (generators) ------------------------------------------------------------------------------


def gen_cases(rng, tier):
    big = tier == "thorough"
    cases = []
    import os
    if os.environ.get("C11_ONLY") == "pk":
        # debugging knob (mutant runs): only the frame histories of the packet step
        for _ in range(20 if big else 3):
            cases += _pk_pair_enum(rng)
        return cases + _pk_cases(rng, 60000 if big else 2500, True)
    cases += _perm_cases(rng, 6 if big else 4, big)
    cases += _soup_cases(rng, 200000 if big else 6000)
    cases += _late_end_enum()
    cases += _late_end_cases(rng, 60000 if big else 3000)
    cases += _big_cases(rng, 20 if big else 2)
    cases += _pool_perm_cases(rng, 5 if big else 4)
    cases += _pool_cases(rng, 200000 if big else 4000, 4)
    cases += _pool_big(rng)
    cases += _pool_book_enum(rng, big)
    cases += _pool_book_cases(rng, 100000 if big else 3000, 4)
    # extend-c11b: the packet step
    for _ in range(20 if big else 3):
        cases += _pk_pair_enum(rng)
    cases += _pk_cases(rng, 60000 if big else 2500, True)
    return cases


# ---------------------------------------------------------------------------
_STATS_RE = re.compile(r" stats=(\S+)")


def _split_stats(step):
    """'none stats=1,0,0' -> ('none', (1, 0, 0)); no hook build ('stats=-') or no stats -> (answer, None)"""
    m = _STATS_RE.search(step)
    if not m:
        return step, None
    ans = step[:m.start()] + step[m.end():]
    if m.group(1) == "-":
        return ans, None
    return ans, tuple(int(x) for x in m.group(1).split(","))


def _pred(kind, arg):
    return {"ge": lambda t: arg <= t, "lt": lambda t: t < arg, "ne": lambda t: t != arg, "eq": lambda t: t == arg,
            "mod": lambda t: t % 2 == (arg & 1), "all": lambda t: True, "none": lambda t: False}[kind]


def _book_oracle(case, ist, hist):
    """the bookkeeping the property prescribes, recomputed from the implementation's own answers:
    returns (step, message) of the first operation whose verif_stats() differs, or None"""
    toks = case.split()
    ns = int(toks[1])
    sdefs = toks[2:2 + ns]
    ops = toks[2 + ns:]
    if len(ops) != len(ist):
        return None
    act = {}          # stream definition -> timestamp of the last accepted fragment
    a = d = s = 0
    evicted_keys = set()
    for j, (op, step) in enumerate(zip(ops, ist)):
        ans, st = _split_stats(step)
        if st is None:
            return None
        parts = op.split(":")
        if parts[0] in ("p", "q"):
            key = sdefs[int(parts[1])]
            fo, mf, ts = int(parts[2]), parts[3] == "1", int(parts[4])
            frag = mf or fo != 0
            if ans == "none":
                if not frag:
                    pass
                elif key in act:
                    act[key] = ts
                else:
                    act[key] = ts
                    a, d, s = a + 1, max(d - 1, 0), max(s - 1, 0)
                    if key in evicted_keys:
                        evicted_keys.discard(key)
                        hist["late_fragment_after_eviction"] += 1
            elif ans.startswith("done"):
                if key not in act:
                    return j, "a payload is returned for a stream that has no entry"
                del act[key]
                a, s = a - 1, s + 1
            elif ans.startswith("err"):
                if not frag:
                    return j, "an unfragmented packet is answered with an error"
                if key not in act:
                    d, s = max(1, d), max(1, s)
                    hist["failing_first_fragment"] += 1
            else:
                return None
        elif parts[0] == "r":
            if ans == "ret1":
                d += 1
        elif parts[0] == "rf":
            d += 1
            hist["foreign_return"] += 1
        elif parts[0] == "t":
            f = _pred("ge", int(parts[1])) if len(parts) == 2 else _pred(parts[1], int(parts[2]))
            gone = [k for k, t in act.items() if not f(t)]
            for k in gone:
                del act[k]
                evicted_keys.add(k)
            n = len(gone)
            hist["retain_evictions"] += n
            a, d, s = a - n, d + n, s + n
        hist["stats_checked"] += 1
        if st != (a, d, s) or a != len(act):
            return j, "after '%s' (answer '%s') verif_stats() = %s, the bookkeeping of the property gives %s" % (
                op[:60], ans[:40], st, (a, d, s))
    return None


def _steps(line):
    return [s.strip() for s in line.split(" ; ")] if line else []


def _fields(step):
    """'ok c=1 e=19 n=19 s=0-19 d=..' -> (verdict, dict)"""
    parts = step.split()
    return parts[0], dict(p.split("=", 1) for p in parts[1:] if "=" in p)


# --- BEGIN extend-c11b: comparison of the packet step ----------------------------------------------------------
def _pk_parse(step):
    """'sl key=K ans stats=..' -> (sliced, K, ans); buffer operations -> (None, None, ans)"""
    ans, st = _split_stats(step)
    parts = ans.split(" ")
    if len(parts) >= 3 and parts[1].startswith("key="):
        return parts[0], parts[1][4:], " ".join(parts[2:]), st
    return None, None, ans, st


def _pk_oracle(case, ist, sst, hist):
    """implementation against the wire specification (key, answer, number of open reassemblies) and against the labels
    of the generator (same label <=> same IpFragId; 'u' <=> passes through)"""
    ops = case.split()[1:]
    if len(ops) != len(ist) or len(sst) != len(ist):
        return 0, "%d operations, %d answers, %d Spec answers" % (len(ops), len(ist), len(sst))
    by_label = {}
    ids = {}
    for j, (op, a, b) in enumerate(zip(ops, ist, sst)):
        sl, key, ans, st = _pk_parse(a)
        if sl is None:
            continue
        b, _, bact = b.partition(" act=")
        bparts = b.split(" ", 1)
        skey, sans = bparts[0][4:], bparts[1]
        hist["pk_frames"] += 1
        if sl == "unsl":
            hist["pk_unsliced"] += 1
        if key != skey:
            return j, "key read by the crate '%s', wire key '%s'" % (key, skey)
        if ans != sans:
            return j, "answer '%s', the Spec on the wire fragments gives '%s'" % (ans[:120], sans[:120])
        if st is not None and bact and st[0] != int(bact):
            return j, "%d open reassemblies, the Spec has %d" % (st[0], int(bact))
        label = op.split(":")[1]
        if key == "-":
            hist["pk_passthrough"] += 1
        else:
            hist["pk_fragments"] += 1
            hist["pk_v%s" % key[0]] += 1
        if label == "x":
            continue
        if label == "u":
            if key != "-" or ans != "none":
                return j, "an unfragmented packet got key '%s' answer '%s'" % (key, ans[:80])
            continue
        if key == "-":
            return j, "a fragment of stream %s got no key" % label
        idpart = key.split(":", 1)[0]
        if label in by_label and by_label[label] != idpart:
            return j, "two frames of the same datagram (label %s) got ids '%s' and '%s'" % (label, by_label[label], idpart)
        if idpart in ids and ids[idpart] != label:
            return j, "frames of two datagrams that differ in a key field (labels %s, %s) got the same id '%s'" % (ids[idpart], label, idpart)
        by_label[label] = idpart
        ids[idpart] = label
    hist["pk_streams_max"] = max(hist["pk_streams_max"], len(by_label))
    return None
# --- END extend-c11b (comparison) ------------------------------------------------------------------------------


def compare(ctx, cases, impl, model_lines):
    corr, orc = [], []
    hist = {"buf": 0, "pool": 0, "steps<=4": 0, "steps<=8": 0, "steps>8": 0, "completions": 0, "err:toobig": 0,
            "err:unaligned": 0, "err:conflict": 0, "late_end_reject_histories": 0, "late_end_rejects": 0,
            "final_fragment_at_stored_maximum_accepted": 0, "spec_evaluated": 0, "ret1": 0, "retain": 0,
            "max_data_len": 0, "stats_checked": 0, "retain_evictions": 0, "failing_first_fragment": 0, "foreign_return": 0,
            "late_fragment_after_eviction": 0, "stats_unobserved_lines": 0,
            "pk": 0, "pk_frames": 0, "pk_unsliced": 0, "pk_passthrough": 0, "pk_fragments": 0, "pk_v4": 0, "pk_v6": 0,
            "pk_streams_max": 0}
    seen = set()
    nontriv = 0
    for i, c in enumerate(cases):
        kind = c.split(" ", 1)[0]
        hist[kind] += 1
        m = s = None
        if model_lines is not None:
            ml = model_lines[i]
            if " | " in ml:
                m, s = ml.split(" | ", 1)
            else:
                m, s = ml, None
        first = True
        for prof, lines in impl.items():
            il = lines[i]
            mm = m
            if "stats=-" in il:
                # harness built without --cfg etherparse_verif: the three numbers are not observable
                il = _STATS_RE.sub("", il)
                mm = _STATS_RE.sub("", m) if m is not None else None
                hist["stats_unobserved_lines"] += 1
            if mm is not None and il != mm:
                # locate the first differing step for the report
                a, b = _steps(il), _steps(mm)
                k = next((j for j in range(min(len(a), len(b))) if a[j] != b[j]), min(len(a), len(b)))
                corr.append((i, "%s: step %d impl '%s' model '%s'" % (
                    prof, k, a[k] if k < len(a) else "<none>", b[k] if k < len(b) else "<none>")))
            ist = _steps(il)
            if il.startswith("PANIC") or il.startswith("CRASH") or il == "NOT-RUN":
                orc.append((i, "%s: %s" % (prof, il[:200]), None))
                continue
            if kind == "pk":
                # extend-c11b: the packet step against the wire specification and the generator's labels
                if first:
                    first = False
                    n = len(ist)
                    hist["steps<=4" if n <= 4 else ("steps<=8" if n <= 8 else "steps>8")] += 1
                    done = sum(1 for x in ist if " done:" in x)
                    hist["completions"] += done
                    if c not in seen:
                        seen.add(c)
                        if n >= 3 and done:
                            nontriv += 1
                    ph = hist
                else:
                    ph = dict.fromkeys(hist, 0)
                if s is not None:
                    bad = _pk_oracle(c, ist, _steps(s), ph)
                    if bad is not None:
                        orc.append((i, "%s: operation %d: %s" % (prof, bad[0], bad[1]), None))
                continue
            if kind == "pool":
                # the property's own bookkeeping against the numbers of the hook (every profile)
                bad = _book_oracle(c, ist, hist if first else dict.fromkeys(hist, 0))
                if bad is not None:
                    orc.append((i, "%s: operation %d: %s" % (prof, bad[0], bad[1]), None))
            if first:
                first = False
                n = len(ist)
                ians = [_split_stats(x)[0] for x in ist]
                hist["steps<=4" if n <= 4 else ("steps<=8" if n <= 8 else "steps>8")] += 1
                done = sum(1 for x in ians if x.startswith("done") or " c=1 " in x)
                errs = 0
                for x in ians:
                    for e in ("toobig", "unaligned", "conflict"):
                        if x.startswith(e) or x.startswith("err:" + e):
                            hist["err:" + e] += 1
                            errs += 1
                    if x == "ret1":
                        hist["ret1"] += 1
                    if x == "retain":
                        hist["retain"] += 1
                    if kind == "buf":
                        v, f = _fields(x)
                        if "n" in f:
                            hist["max_data_len"] = max(hist["max_data_len"], int(f["n"]))
                hist["completions"] += done
                if c not in seen:
                    seen.add(c)
                    if n >= 3 and (done or errs):
                        nontriv += 1
            # oracle: implementation against the Spec, step by step
            if s is None or s == "-":
                continue
            first_prof = list(impl.keys())[0]
            if first is False and prof == first_prof:
                hist["spec_evaluated"] += 1
            sst = _steps(s)
            if len(sst) != len(ist):
                orc.append((i, "%s: %d steps from the implementation, %d from the Spec" % (prof, len(ist), len(sst)), None))
                continue
            nlate = 0
            for j, (a, b) in enumerate(zip(ist, sst)):
                if kind == "buf":
                    av, af = _fields(a)
                    bv, bf = _fields(b)
                    late = bf.get("l") == "1"
                    ok = (av == bv and af.get("c") == bf.get("c") and (bf.get("c") != "1" or af.get("d") == bf.get("p")))
                    if j > 0 and ok and av == "ok" and prof == first_prof:
                        # a final fragment accepted while the end was unknown and data was stored: it ends at or beyond the maximum
                        pv, pf = _fields(ist[j - 1])
                        if pf.get("e") == "-" and af.get("e") not in (None, "-") and pf.get("n") == af.get("e") != "0":
                            hist["final_fragment_at_stored_maximum_accepted"] += 1
                else:
                    ia, istat = _split_stats(a)
                    b, _, bact = b.partition(" act=")
                    late = b.endswith(" late=1")
                    if late:
                        b = b[:-len(" late=1")]
                    a = ia
                    ok = ((a == b) or b == "-") and (istat is None or not bact or istat[0] == int(bact))
                if late:
                    nlate += 1
                if not ok:
                    # no known class any more: the former finding F8 (a final fragment that ends below data accepted earlier is
                    # not rejected) is a violation like every other difference
                    orc.append((i, "%s: delivery %d: implementation '%s', Spec '%s'%s" % (
                        prof, j, a[:160], b[:160],
                        " (a final fragment ends below data accepted earlier: the Spec demands ConflictingEnd, buffer unchanged)"
                        if late else ""), None))
                    break
            if prof == first_prof and nlate:
                hist["late_end_reject_histories"] += 1
                hist["late_end_rejects"] += nlate
    return {"corr_mismatch": corr, "oracle_fail": orc, "hist": hist, "nontrivial": nontriv,
            "samples": [cases[0][:300], cases[len(cases) // 2][:300], cases[-1][:300]]}
