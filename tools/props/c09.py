"""C09: checksums equal the RFC 1071 Internet checksum."""
from vlib import hx

ID = "C09"
EXTRACT = "ExtC09.v"
MLMOD = "m_c09"
RUNNER = "run_c09"
HARNESS_BIN = "c09"
RELEASE_ALWAYS = True     # wrap-around arithmetic: debug (overflow checks) and release
RULE = ("helper calls (u64/u32 add_slice with arbitrary start, Sum16BitWords call sequences) and protocol checksums; "
        "every length 0..64 exhaustively x {zeros, ones, random}, random lengths up to 2 kB, accumulators started at "
        "2^32-1-d / 2^64-1-d; a case is non-trivial when its data is not all-zero and longer than 2 bytes; distinct = distinct case lines")
ASSUMPTIONS = ["little-endian host in the correspondence run (theorems cover both endiannesses)"]
PROJECTION = "all printed numbers (sum, checksum, non-zero checksum, both widths)"


def corpus():
    return [
        "h64 0 0001f203f4f5f6f7",
        "h32 0 0001f203f4f5f6f7",
        "seq 2:0001 4:f203f4f5 s:f6f7",
        "h64 18446744073709551615 ffff01",
        "h32 4294967295 ffff01",
        "h64 0 -",
        "seq s:-",
        "seq s:ffff",
        "seq s:0000",
        "h64 18446744073709551615 ffffffffffffffffffffffffffffffff",
    ]


def _pattern(rng, n):
    k = rng.below(10)
    if k == 0:
        return bytes(n)
    if k == 1:
        return b"\xff" * n
    if k == 2:
        b = bytearray(n)
        if n:
            b[rng.below(n)] = rng.range(1, 255)
        return bytes(b)
    if k == 3:
        b = bytearray(b"\xff" * n)
        if n:
            b[rng.below(n)] = rng.below(255)
        return bytes(b)
    return rng.bytes(n)


def _pieces(rng, data):
    """cut data into Sum16BitWords calls at even offsets"""
    out = []
    i = 0
    n = len(data)
    while i < n:
        left = n - i
        opts = ["s"]
        if left >= 2:
            opts.append("2")
        if left >= 4:
            opts.append("4")
        if left >= 8:
            opts.append("8")
        if left >= 16:
            opts.append("16")
        k = rng.choice(opts)
        if k == "s":
            if rng.chance(1, 3):
                m = left
            else:
                m = 2 * rng.below(left // 2 + 1)
                if m == 0 and rng.chance(1, 2):
                    m = left
            out.append("s:" + hx(data[i:i + m]))
            i += m
        else:
            m = int(k)
            out.append(k + ":" + hx(data[i:i + m]))
            i += m
    if not out:
        out.append("s:-")
    return " ".join(out)


def gen_cases(rng, tier):
    cases = []
    big = tier == "thorough"
    # exhaustive lengths 0..64 x patterns
    for n in range(0, 65):
        for pat in (bytes(n), b"\xff" * n, rng.bytes(n), rng.bytes(n)):
            cases.append("h64 0 " + hx(pat))
            cases.append("h32 0 " + hx(pat))
    # accumulators near the wrap
    for _ in range(4000 if not big else 60000):
        n = rng.range(0, 40)
        d = rng.below(70000) if rng.chance(1, 2) else rng.below(4)
        cases.append("h64 %d %s" % ((1 << 64) - 1 - d, hx(_pattern(rng, n))))
        cases.append("h32 %d %s" % ((1 << 32) - 1 - d, hx(_pattern(rng, n))))
        cases.append("h64 %d %s" % (rng.next(), hx(_pattern(rng, n))))
        cases.append("h32 %d %s" % (rng.next() & 0xFFFFFFFF, hx(_pattern(rng, n))))
    # random lengths
    for _ in range(3000 if not big else 100000):
        n = rng.range(0, 2048) if rng.chance(1, 10) else rng.range(0, 100)
        d = _pattern(rng, n)
        cases.append("h64 0 " + hx(d))
        cases.append("h32 0 " + hx(d))
    # call sequences / splits
    for _ in range(12000 if not big else 400000):
        n = rng.range(0, 80)
        d = _pattern(rng, n)
        cases.append("seq " + _pieces(rng, d))
    return cases


def _nontrivial(case):
    parts = case.split()
    data = "".join(p.split(":")[-1] for p in parts[1:] if p != "-") if parts[0] == "seq" else parts[-1]
    data = data.replace("-", "")
    return len(data) > 4 and data.strip("0") != ""


def compare(ctx, cases, impl, model_lines):
    corr, orc = [], []
    hist = {"h64": 0, "h32": 0, "seq": 0, "len<=8": 0, "len<=64": 0, "len>64": 0, "start!=0": 0}
    seen = set()
    nontriv = 0
    for i, c in enumerate(cases):
        parts = c.split()
        hist[parts[0]] += 1
        if parts[0] != "seq":
            ln = 0 if parts[2] == "-" else len(parts[2]) // 2
            if parts[1] != "0":
                hist["start!=0"] += 1
        else:
            ln = sum(0 if p.endswith(":-") else len(p.split(":")[1]) // 2 for p in parts[1:])
        hist["len<=8" if ln <= 8 else ("len<=64" if ln <= 64 else "len>64")] += 1
        if c not in seen:
            seen.add(c)
            if _nontrivial(c):
                nontriv += 1
        m = s = None
        if model_lines is not None:
            ml = model_lines[i]
            if " | " in ml:
                m, s = ml.split(" | ")
            else:
                m, s = ml, None
        for prof, lines in impl.items():
            il = lines[i]
            if m is not None and il != m:
                corr.append((i, "%s: impl '%s' model '%s'" % (prof, il, m)))
            # oracle: implementation against RFC 1071 directly
            if s is not None and s != "-":
                want = dict(x.split("=") for x in s.split())
                got = dict(x.split("=") for x in il.split() if "=" in x)
                for k, v in want.items():
                    if got.get(k) != v:
                        orc.append((i, "%s: %s is %s, RFC 1071 gives %s" % (prof, k, got.get(k), v), None))
                        break
            elif il.startswith("PANIC") or il.startswith("CRASH"):
                orc.append((i, "%s: %s" % (prof, il), None))
    return {"corr_mismatch": corr, "oracle_fail": orc, "hist": hist, "nontrivial": nontriv,
            "samples": [cases[0], cases[len(cases) // 2], cases[-1]]}
