"""C09: checksums equal the RFC 1071 Internet checksum."""
from vlib import hx

ID = "C09"
EXTRACT = "ExtC09.v"
MLMOD = "m_c09"
RUNNER = "run_c09"
HARNESS_BIN = "c09"
RELEASE_ALWAYS = True     # wrap-around arithmetic: debug (overflow checks) and release
RULE = ("helper calls (u64/u32 add_slice with arbitrary start, Sum16BitWords call sequences) and every protocol checksum function "
        "(IPv4 header, UDP/TCP over IPv4/IPv6 from structs, header slices and slices, with_*_checksum, ICMPv4, ICMPv6 incl. "
        "is_checksum_valid, IGMP, TransportHeader::update_checksum_*): structured header values x payload lengths 0..64 exhaustively "
        "x {zeros, ones, random} + random to 2 kB + payloads adjusted so that the computed checksum is 0 / 0xffff x address patterns; "
        "oracle = independent RFC 1071 computation in Python over pseudo header + header (zero checksum field) + payload; "
        "every length 0..64 exhaustively x {zeros, ones, random}, random lengths up to 2 kB, accumulators started at "
        "2^32-1-d / 2^64-1-d; a case is non-trivial when its data is not all-zero and longer than 2 bytes; distinct = distinct case lines")
ASSUMPTIONS = ["little-endian host in the correspondence run (theorems cover both endiannesses)"]
PROJECTION = ("all printed numbers (sum, checksum, non-zero checksum, both widths); protocol cases: the checksum / error numbers / "
              "reject / valid flag (the serialised header `hdr=` is compared with the oracle only)")


def corpus():
    return [
        "h64 0 0001f203f4f5f6f7",
        "h32 0 0001f203f4f5f6f7",
        "seq 2:0001 4:f203f4f5 s:f6f7",
        "h64 18446744073709551615 ffff01",
        "h32 4294967295 ffff01",
        "h64 0 -",
        "seq s:-",
        "seq s:ffff",
        "seq s:0000",
        "h64 18446744073709551615 ffffffffffffffffffffffffffffffff",
    ] + proto_corpus()


def _pattern(rng, n):
    k = rng.below(10)
    if k == 0:
        return bytes(n)
    if k == 1:
        return b"\xff" * n
    if k == 2:
        b = bytearray(n)
        if n:
            b[rng.below(n)] = rng.range(1, 255)
        return bytes(b)
    if k == 3:
        b = bytearray(b"\xff" * n)
        if n:
            b[rng.below(n)] = rng.below(255)
        return bytes(b)
    return rng.bytes(n)


def _pieces(rng, data):
    """cut data into Sum16BitWords calls at even offsets"""
    out = []
    i = 0
    n = len(data)
    while i < n:
        left = n - i
        opts = ["s"]
        if left >= 2:
            opts.append("2")
        if left >= 4:
            opts.append("4")
        if left >= 8:
            opts.append("8")
        if left >= 16:
            opts.append("16")
        k = rng.choice(opts)
        if k == "s":
            if rng.chance(1, 3):
                m = left
            else:
                m = 2 * rng.below(left // 2 + 1)
                if m == 0 and rng.chance(1, 2):
                    m = left
            out.append("s:" + hx(data[i:i + m]))
            i += m
        else:
            m = int(k)
            out.append(k + ":" + hx(data[i:i + m]))
            i += m
    if not out:
        out.append("s:-")
    return " ".join(out)


# ===========================================================================
# PROTOCOL LEVEL
# ===========================================================================
import struct

HELPER_TAGS = ("h64", "h32", "seq")
PROTO_TAGS = ("ip4h", "udp4", "udp6", "udp4w", "udp6w", "tcp4", "tcp6", "tcp4hs", "tcp6hs", "tcp4s", "tcp6s",
              "icmp4", "icmp6", "icmp6v", "igmp", "upd4", "upd6")
U16 = 0xFFFF
U32 = 0xFFFFFFFF


# ---- the oracle: plain RFC 1071, written independently of model and crate --
def inet_sum(b):
    """one's complement sum of the big-endian 16 bit words, odd tail padded with 0, carries folded"""
    if len(b) & 1:
        b = b + b"\x00"
    s = sum(struct.unpack(">%dH" % (len(b) // 2), b))
    while s >> 16:
        s = (s & 0xFFFF) + (s >> 16)
    return s


def inet_cksum(b):
    return (~inet_sum(b)) & 0xFFFF


def be16(v):
    return struct.pack(">H", v)


def be32(v):
    return struct.pack(">I", v)


def pseudo4(src, dst, proto, ulen):          # RFC 768 / RFC 9293
    return src + dst + bytes([0, proto]) + be16(ulen)


def pseudo6(src, dst, ulen, nh):             # RFC 8200 8.1
    return src + dst + be32(ulen) + bytes([0, 0, 0, nh])


def unhex(h):
    return b"" if h == "-" else bytes.fromhex(h)


def o_ip4h(a):
    dscp, ecn, tl, ident, df, mf, fo, ttl, pr = [int(x) for x in a[:9]]
    src, dst, opts = unhex(a[9]), unhex(a[10]), unhex(a[11])

    def hdr(ck):
        return (bytes([0x40 | (5 + len(opts) // 4), (dscp << 2) | ecn]) + be16(tl) + be16(ident) +
                be16((df << 14) | (mf << 13) | fo) + bytes([ttl, pr]) + be16(ck) + src + dst + opts)
    ck = inet_cksum(hdr(0))
    return "ck=%d hdr=%s" % (ck, hdr(ck).hex())


def udp_args(a):
    return int(a[0]), int(a[1]), int(a[2]), a[3:]


def nz(c):
    return 0xFFFF if c == 0 else c


def o_udp(v6, with_ctor, a, info):
    if with_ctor:
        sp, dp = int(a[0]), int(a[1])
        rest = a[2:]
    else:
        sp, dp, length, rest = udp_args(a)
    src, dst, p = unhex(rest[0]), unhex(rest[1]), unhex(rest[2])
    if with_ctor:
        limit = U16 - 8
        length = (8 + len(p)) & 0xFFFF
    else:
        limit = (U32 - 8) if v6 else (U16 - 8)
    if len(p) > limit:
        return "err=%d,%d" % (len(p), limit)
    ph = pseudo6(src, dst, length, 17) if v6 else pseudo4(src, dst, 17, length)

    def hdr(ck):
        return be16(sp) + be16(dp) + be16(length) + be16(ck)
    ck = nz(inet_cksum(ph + hdr(0) + p))
    if not with_ctor and length != 8 + len(p):
        info["udp_length_field_inconsistent"] = info.get("udp_length_field_inconsistent", 0) + 1
        if 8 + len(p) <= 0xFFFFFFFF:
            ph2 = pseudo6(src, dst, 8 + len(p), 17) if v6 else pseudo4(src, dst, 17, (8 + len(p)) & 0xFFFF)
            if nz(inet_cksum(ph2 + hdr(0) + p)) != ck:
                info["udp_differs_from_actual_length_reading"] = info.get("udp_differs_from_actual_length_reading", 0) + 1
    return ("ck=%d hdr=%s" % (ck, hdr(ck).hex())) if with_ctor else ("ck=%d" % ck)


def tcp_fields(a):
    sp, dp, seq, ack, fl, win, urg = [int(x) for x in a[:7]]
    opts = unhex(a[7])

    def hdr(ck):
        return (be16(sp) + be16(dp) + be32(seq) + be32(ack) +
                bytes([((5 + len(opts) // 4) << 4) | (1 if fl & 256 else 0), fl & 0xFF]) +
                be16(win) + be16(ck) + be16(urg) + opts)
    return hdr, a[8:]


def o_tcp(v6, a, with_hdr=True):
    hdr, rest = tcp_fields(a)
    src, dst, p = unhex(rest[0]), unhex(rest[1]), unhex(rest[2])
    hl = len(hdr(0))
    limit = (U32 if v6 else U16) - hl
    if len(p) > limit:
        return "err=%d,%d" % (len(p), limit)
    ph = pseudo6(src, dst, hl + len(p), 6) if v6 else pseudo4(src, dst, 6, hl + len(p))
    ck = inet_cksum(ph + hdr(0) + p)
    return ("ck=%d hdr=%s" % (ck, hdr(ck).hex())) if with_hdr else ("ck=%d" % ck)


def tcp_raw_split(b):
    """what a TCP receiver does with raw bytes: data offset in the high nibble of byte 12"""
    if len(b) < 20:
        return None
    hl = (b[12] >> 4) * 4
    if hl < 20 or len(b) < hl:
        return None
    return b[:hl], b[hl:]


def o_tcp_raw(v6, a, whole):
    if whole:
        b, src, dst = unhex(a[0]), unhex(a[1]), unhex(a[2])
        sp = tcp_raw_split(b)
        if sp is None:
            return "reject"
        hdr, p = sp
        limit = U32 if v6 else U16
        if len(b) > limit:
            return "err=%d,%d" % (len(b), limit)
    else:
        hb, src, dst, p = unhex(a[0]), unhex(a[1]), unhex(a[2]), unhex(a[3])
        sp = tcp_raw_split(hb)
        if sp is None:
            return "reject"
        hdr = sp[0]
        limit = (U32 if v6 else U16) - len(hdr)
        if len(p) > limit:
            return "err=%d,%d" % (len(p), limit)
    z = hdr[:16] + b"\x00\x00" + hdr[18:]
    tl = len(hdr) + len(p)
    ph = pseudo6(src, dst, tl, 6) if v6 else pseudo4(src, dst, 6, tl)
    return "ck=%d" % inet_cksum(ph + z + p)


def icmp4_wire(a):
    """RFC 792 (RFC 1191 for the next-hop MTU) layout; returns (f(ck) -> header bytes, rest of args)"""
    v = a[0]
    if v == "unk":
        ty, code, b = int(a[1]), int(a[2]), unhex(a[3])
        return (lambda ck: bytes([ty, code]) + be16(ck) + b), a[4:]
    if v in ("erep", "ereq"):
        ty = 0 if v == "erep" else 8
        i, q = int(a[1]), int(a[2])
        return (lambda ck: bytes([ty, 0]) + be16(ck) + be16(i) + be16(q)), a[3:]
    if v == "du":
        code, mtu = int(a[1]), int(a[2])
        rest4 = (b"\x00\x00" + be16(mtu)) if code == 4 else b"\x00\x00\x00\x00"
        return (lambda ck: bytes([3, code]) + be16(ck) + rest4), a[3:]
    if v == "red":
        code, gw = int(a[1]), unhex(a[2])
        return (lambda ck: bytes([5, code]) + be16(ck) + gw), a[3:]
    if v == "te":
        code = int(a[1])
        return (lambda ck: bytes([11, code]) + be16(ck) + bytes(4)), a[2:]
    if v == "pp":
        code, ptr = int(a[1]), int(a[2])
        rest4 = bytes([ptr, 0, 0, 0]) if code == 0 else bytes(4)
        return (lambda ck: bytes([12, code]) + be16(ck) + rest4), a[3:]
    if v in ("tsq", "tsr"):
        ty = 13 if v == "tsq" else 14
        i, q, o, r, t = [int(x) for x in a[1:6]]
        return (lambda ck: bytes([ty, 0]) + be16(ck) + be16(i) + be16(q) + be32(o) + be32(r) + be32(t)), a[6:]
    raise ValueError("icmp4 variant " + v)


def icmp6_wire(a):
    """RFC 4443 / RFC 4861 layout of the first 8 bytes"""
    v = a[0]
    if v == "unk":
        ty, code, b = int(a[1]), int(a[2]), unhex(a[3])
        return (lambda ck: bytes([ty, code]) + be16(ck) + b), a[4:]
    if v == "du":
        code = int(a[1])
        return (lambda ck: bytes([1, code]) + be16(ck) + bytes(4)), a[2:]
    if v == "ptb":
        mtu = int(a[1])
        return (lambda ck: bytes([2, 0]) + be16(ck) + be32(mtu)), a[2:]
    if v == "te":
        code = int(a[1])
        return (lambda ck: bytes([3, code]) + be16(ck) + bytes(4)), a[2:]
    if v == "pp":
        code, ptr = int(a[1]), int(a[2])
        return (lambda ck: bytes([4, code]) + be16(ck) + be32(ptr)), a[3:]
    if v in ("ereq", "erep"):
        ty = 128 if v == "ereq" else 129
        i, q = int(a[1]), int(a[2])
        return (lambda ck: bytes([ty, 0]) + be16(ck) + be16(i) + be16(q)), a[3:]
    if v == "rs":
        return (lambda ck: bytes([133, 0]) + be16(ck) + bytes(4)), a[1:]
    if v == "ra":
        chl, m, o, lt = [int(x) for x in a[1:5]]
        return (lambda ck: bytes([134, 0]) + be16(ck) + bytes([chl, (m << 7) | (o << 6)]) + be16(lt)), a[5:]
    if v == "ns":
        return (lambda ck: bytes([135, 0]) + be16(ck) + bytes(4)), a[1:]
    if v == "na":
        r, so, o = [int(x) for x in a[1:4]]
        return (lambda ck: bytes([136, 0]) + be16(ck) + bytes([(r << 7) | (so << 6) | (o << 5), 0, 0, 0])), a[4:]
    if v == "red":
        return (lambda ck: bytes([137, 0]) + be16(ck) + bytes(4)), a[1:]
    raise ValueError("icmp6 variant " + v)


def igmp_wire(a):
    """RFC 2236 / RFC 3376 layout"""
    v = a[0]
    if v == "q":
        m, g = int(a[1]), unhex(a[2])
        return (lambda ck: bytes([0x11, m]) + be16(ck) + g), a[3:]
    if v == "qs":
        m, g, r, q, n = int(a[1]), unhex(a[2]), int(a[3]), int(a[4]), int(a[5])
        return (lambda ck: bytes([0x11, m]) + be16(ck) + g + bytes([r, q]) + be16(n)), a[6:]
    if v in ("r1", "r2", "lg"):
        ty = {"r1": 0x12, "r2": 0x16, "lg": 0x17}[v]
        g = unhex(a[1])
        return (lambda ck: bytes([ty, 0]) + be16(ck) + g), a[2:]
    if v == "r3":
        f, n = unhex(a[1]), int(a[2])
        return (lambda ck: bytes([0x22, 0]) + be16(ck) + f + be16(n)), a[3:]
    if v == "unk":
        ty, r1, r = int(a[1]), int(a[2]), unhex(a[3])
        return (lambda ck: bytes([ty, r1]) + be16(ck) + r), a[4:]
    raise ValueError("igmp variant " + v)


def o_icmp4(a, with_hdr=True):
    hdr, rest = icmp4_wire(a)
    p = unhex(rest[0])
    ck = inet_cksum(hdr(0) + p)
    return ("ck=%d hdr=%s" % (ck, hdr(ck).hex())) if with_hdr else ("ck=%d" % ck), rest[1:]


def o_icmp6(a, with_hdr=True):
    hdr, rest = icmp6_wire(a)
    src, dst, p = unhex(rest[0]), unhex(rest[1]), unhex(rest[2])
    if len(p) > U32 - 8:
        return "err=%d,%d" % (len(p), U32 - 8)
    ck = inet_cksum(pseudo6(src, dst, 8 + len(p), 58) + hdr(0) + p)
    return ("ck=%d hdr=%s" % (ck, hdr(ck).hex())) if with_hdr else ("ck=%d" % ck)


def o_icmp6v(a):
    b, src, dst = unhex(a[0]), unhex(a[1]), unhex(a[2])
    if len(b) < 8:
        return "reject"
    return "valid=%d" % (1 if inet_sum(pseudo6(src, dst, len(b), 58) + b) == 0xFFFF else 0)


def o_igmp(a):
    hdr, rest = igmp_wire(a)
    p = unhex(rest[0])
    ck = inet_cksum(hdr(0) + p)
    return "ck=%d hdr=%s" % (ck, hdr(ck).hex())


def o_upd(v6, a, info):
    kind, rest = a[0], a[1:]
    if kind == "udp":
        return o_udp(v6, False, rest, info)
    if kind == "tcp":
        return o_tcp(v6, rest, with_hdr=False)
    if kind == "icmp4":
        # ICMPv4 has no pseudo header: the addresses are not used
        hdr, r2 = icmp4_wire(rest)
        return "ck=%d" % inet_cksum(hdr(0) + unhex(r2[2]))
    if kind == "icmp6":
        if not v6:
            return "err=icmpv6-in-ipv4"
        return o_icmp6(rest, with_hdr=False)
    raise ValueError(kind)


def oracle(case, info):
    a = case.split()
    t, a = a[0], a[1:]
    if t == "ip4h":
        return o_ip4h(a)
    if t in ("udp4", "udp6"):
        return o_udp(t == "udp6", False, a, info)
    if t in ("udp4w", "udp6w"):
        return o_udp(t == "udp6w", True, a, info)
    if t in ("tcp4", "tcp6"):
        return o_tcp(t == "tcp6", a)
    if t in ("tcp4hs", "tcp6hs"):
        return o_tcp_raw(t == "tcp6hs", a, False)
    if t in ("tcp4s", "tcp6s"):
        return o_tcp_raw(t == "tcp6s", a, True)
    if t == "icmp4":
        return o_icmp4(a)[0]
    if t == "icmp6":
        return o_icmp6(a)
    if t == "icmp6v":
        return o_icmp6v(a)
    if t == "igmp":
        return o_igmp(a)
    if t in ("upd4", "upd6"):
        return o_upd(t == "upd6", a, info)
    raise ValueError("tag " + t)


# ---- generators -----------------------------------------------------------
def _u(rng, bits):
    k = rng.below(6)
    if k == 0:
        return 0
    if k == 1:
        return (1 << bits) - 1
    if k == 2:
        return rng.below(4)
    if k == 3:
        return (1 << bits) - 1 - rng.below(4)
    return rng.next() & ((1 << bits) - 1)


def _addr(rng, n):
    k = rng.below(6)
    if k == 0:
        return bytes(n)
    if k == 1:
        return b"\xff" * n
    if k == 2:
        return (bytes([192, 168, 1, rng.below(256)]) if n == 4 else
                bytes.fromhex("20010db8") + bytes(11) + bytes([rng.below(256)]))
    return rng.bytes(n)


def _opts(rng, maxwords=10):
    k = rng.below(5)
    n = 0 if k == 0 else (maxwords if k == 1 else rng.below(maxwords + 1))
    pat = rng.below(4)
    b = bytes(4 * n) if pat == 0 else (b"\xff" * (4 * n) if pat == 1 else rng.bytes(4 * n))
    return b


def _payloads(rng, big):
    """payload plan of one function: every length 0..64 x {zeros, ones, random}, then random lengths"""
    out = []
    for n in range(0, 65):
        out.append(bytes(n))
        out.append(b"\xff" * n)
        out.append(rng.bytes(n))
    for _ in range(260 if not big else 6000):
        n = rng.range(0, 2048) if rng.chance(1, 6) else rng.range(0, 130)
        out.append(_pattern(rng, n))
    return out


def g_ip4h(rng):
    o = _opts(rng)
    return "ip4h %d %d %d %d %d %d %d %d %d %s %s %s" % (
        _u(rng, 6), _u(rng, 2), _u(rng, 16), _u(rng, 16), rng.below(2), rng.below(2), _u(rng, 13),
        _u(rng, 8), _u(rng, 8), hx(_addr(rng, 4)), hx(_addr(rng, 4)), hx(o))


def g_udp_hdr(rng, p):
    k = rng.below(4)
    length = (8 + len(p)) & 0xFFFF if k < 2 else (_u(rng, 16) if k == 2 else max(0, 8 + len(p) + rng.range(-3, 3)) & 0xFFFF)
    return "%d %d %d" % (_u(rng, 16), _u(rng, 16), length)


def g_tcp_hdr(rng):
    return "%d %d %d %d %d %d %d %s" % (_u(rng, 16), _u(rng, 16), _u(rng, 32), _u(rng, 32), _u(rng, 9),
                                        _u(rng, 16), _u(rng, 16), hx(_opts(rng)))


def g_tcp_raw(rng):
    """raw TCP header bytes: valid data offset mostly, reserved bits and checksum field random"""
    k = rng.below(12)
    doff = rng.range(5, 15)
    b = bytearray(rng.bytes(doff * 4) if rng.chance(3, 4) else (b"\xff" * (doff * 4) if rng.chance(1, 2) else bytes(doff * 4)))
    b[12] = (doff << 4) | (b[12] & 0x0F)
    if k == 0:
        b[12] = (rng.below(5) << 4) | (b[12] & 0x0F)      # data offset too small
    elif k == 1:
        b = b[:rng.below(len(b))]                          # cut short
    return bytes(b)


ICMP4_VARIANTS = ("unk", "erep", "ereq", "du", "red", "te", "pp", "tsq", "tsr")
ICMP6_VARIANTS = ("unk", "du", "ptb", "te", "pp", "ereq", "erep", "rs", "ra", "ns", "na", "red")
IGMP_VARIANTS = ("q", "qs", "r1", "r2", "r3", "lg", "unk")


def g_icmp4_type(rng, v=None):
    v = v or rng.choice(ICMP4_VARIANTS)
    if v == "unk":
        return "unk %d %d %s" % (_u(rng, 8), _u(rng, 8), hx(_addr(rng, 4)))
    if v in ("erep", "ereq"):
        return "%s %d %d" % (v, _u(rng, 16), _u(rng, 16))
    if v == "du":
        return "du %d %d" % (rng.below(16), _u(rng, 16))
    if v == "red":
        return "red %d %s" % (rng.below(4), hx(_addr(rng, 4)))
    if v == "te":
        return "te %d" % rng.below(2)
    if v == "pp":
        return "pp %d %d" % (rng.below(3), _u(rng, 8))
    return "%s %d %d %d %d %d" % (v, _u(rng, 16), _u(rng, 16), _u(rng, 32), _u(rng, 32), _u(rng, 32))


def g_icmp6_type(rng, v=None):
    v = v or rng.choice(ICMP6_VARIANTS)
    if v == "unk":
        return "unk %d %d %s" % (_u(rng, 8), _u(rng, 8), hx(_addr(rng, 4)))
    if v == "du":
        return "du %d" % rng.below(7)
    if v == "ptb":
        return "ptb %d" % _u(rng, 32)
    if v == "te":
        return "te %d" % rng.below(2)
    if v == "pp":
        return "pp %d %d" % (rng.below(11), _u(rng, 32))
    if v in ("ereq", "erep"):
        return "%s %d %d" % (v, _u(rng, 16), _u(rng, 16))
    if v == "ra":
        return "ra %d %d %d %d" % (_u(rng, 8), rng.below(2), rng.below(2), _u(rng, 16))
    if v == "na":
        return "na %d %d %d" % (rng.below(2), rng.below(2), rng.below(2))
    return v


def g_igmp_type(rng, v=None):
    v = v or rng.choice(IGMP_VARIANTS)
    if v == "q":
        return "q %d %s" % (_u(rng, 8), hx(_addr(rng, 4)))
    if v == "qs":
        return "qs %d %s %d %d %d" % (_u(rng, 8), hx(_addr(rng, 4)), _u(rng, 8), _u(rng, 8), _u(rng, 16))
    if v in ("r1", "r2", "lg"):
        return "%s %s" % (v, hx(_addr(rng, 4)))
    if v == "r3":
        return "r3 %s %d" % (hx(_addr(rng, 2) if False else rng.bytes(2)), _u(rng, 16))
    return "unk %d %d %s" % (_u(rng, 8), _u(rng, 8), hx(_addr(rng, 4)))


def _adjust(case_fn, p, info=None):
    """choose the first payload word so that the computed checksum becomes 0 (the complete sum folds to
    0xffff before complementing): compute the checksum with the word 0 using the Python oracle and store it
    there (the word sits at an even offset of the summed byte string)."""
    if len(p) < 2:
        return p
    p0 = b"\x00\x00" + p[2:]
    r = oracle(case_fn(p0), {})
    if not r.startswith("ck="):
        return p
    ck = int(r.split()[0][3:])
    # for the UDP functions the oracle already maps 0 to 0xffff; ck == 0xffff then means "sum + 0xffff": fine
    return be16(ck) + p[2:]


def gen_proto(rng, tier):
    big = tier == "thorough"
    cases = []

    def emit(mk):
        """mk(payload) -> case line; runs the payload plan plus checksum-0 adjusted payloads"""
        for p in _payloads(rng, big):
            cases.append(mk(p))
        for _ in range(40 if not big else 600):
            p = rng.bytes(rng.range(2, 70))
            fixed = {}

            def once(q):
                # the header part must be the same for the probe and the final case
                if "c" not in fixed:
                    fixed["c"] = mk(b"@@PAYLOAD@@")
                return fixed["c"].replace(hx(b"@@PAYLOAD@@"), hx(q))
            cases.append(once(_adjust(once, p)))

    for _ in range(700 if not big else 20000):
        cases.append(g_ip4h(rng))
    emit(lambda p: "udp4 %s %s %s %s" % (g_udp_hdr(rng, p), hx(_addr(rng, 4)), hx(_addr(rng, 4)), hx(p)))
    emit(lambda p: "udp6 %s %s %s %s" % (g_udp_hdr(rng, p), hx(_addr(rng, 16)), hx(_addr(rng, 16)), hx(p)))
    emit(lambda p: "udp4w %d %d %s %s %s" % (_u(rng, 16), _u(rng, 16), hx(_addr(rng, 4)), hx(_addr(rng, 4)), hx(p)))
    emit(lambda p: "udp6w %d %d %s %s %s" % (_u(rng, 16), _u(rng, 16), hx(_addr(rng, 16)), hx(_addr(rng, 16)), hx(p)))
    emit(lambda p: "tcp4 %s %s %s %s" % (g_tcp_hdr(rng), hx(_addr(rng, 4)), hx(_addr(rng, 4)), hx(p)))
    emit(lambda p: "tcp6 %s %s %s %s" % (g_tcp_hdr(rng), hx(_addr(rng, 16)), hx(_addr(rng, 16)), hx(p)))
    emit(lambda p: "tcp4hs %s %s %s %s" % (hx(g_tcp_raw(rng)), hx(_addr(rng, 4)), hx(_addr(rng, 4)), hx(p)))
    emit(lambda p: "tcp6hs %s %s %s %s" % (hx(g_tcp_raw(rng)), hx(_addr(rng, 16)), hx(_addr(rng, 16)), hx(p)))
    emit(lambda p: "tcp4s %s %s %s" % (hx(g_tcp_raw(rng) + p), hx(_addr(rng, 4)), hx(_addr(rng, 4))))
    emit(lambda p: "tcp6s %s %s %s" % (hx(g_tcp_raw(rng) + p), hx(_addr(rng, 16)), hx(_addr(rng, 16))))
    emit(lambda p: "icmp4 %s %s" % (g_icmp4_type(rng), hx(p)))
    emit(lambda p: "icmp6 %s %s %s %s" % (g_icmp6_type(rng), hx(_addr(rng, 16)), hx(_addr(rng, 16)), hx(p)))
    emit(lambda p: "igmp %s %s" % (g_igmp_type(rng), hx(p)))
    # every variant of the three message enums at least a few times with short payloads
    for v in ICMP4_VARIANTS:
        for code_rep in range(20):
            cases.append("icmp4 %s %s" % (g_icmp4_type(rng, v), hx(_pattern(rng, rng.below(12)))))
    for code in range(16):
        cases.append("icmp4 du %d %d %s" % (code, _u(rng, 16), hx(rng.bytes(rng.below(9)))))
    for v in ICMP6_VARIANTS:
        for code_rep in range(20):
            cases.append("icmp6 %s %s %s %s" % (g_icmp6_type(rng, v), hx(_addr(rng, 16)), hx(_addr(rng, 16)),
                                               hx(_pattern(rng, rng.below(12)))))
    for v in IGMP_VARIANTS:
        for code_rep in range(20):
            cases.append("igmp %s %s" % (g_igmp_type(rng, v), hx(_pattern(rng, rng.below(12)))))
    # is_checksum_valid: correct messages, the 0x0000/0xffff alternative, corrupted, random, too short
    for _ in range(1500 if not big else 40000):
        src, dst = _addr(rng, 16), _addr(rng, 16)
        n = rng.range(0, 2048) if rng.chance(1, 12) else rng.range(0, 70)
        p = _pattern(rng, n)
        hdrf, _r = icmp6_wire(g_icmp6_type(rng).split())
        k = rng.below(10)
        if k == 0 and len(p) >= 2:
            # make the computed checksum 0: store the checksum (computed with payload word 0) in the payload
            p0 = b"\x00\x00" + p[2:]
            c0 = inet_cksum(pseudo6(src, dst, 8 + len(p0), 58) + hdrf(0) + p0)
            p = be16(c0) + p[2:]
        ck = inet_cksum(pseudo6(src, dst, 8 + len(p), 58) + hdrf(0) + p)
        msg = bytearray(hdrf(ck) + p)
        if k == 1 and ck in (0, 0xFFFF):
            msg[2:4] = be16(ck ^ 0xFFFF)
        elif k == 0 and ck == 0 and rng.chance(1, 2):
            msg[2:4] = b"\xff\xff"                      # -0 instead of +0: still folds to 0xffff
        elif k == 2:
            i = rng.below(len(msg))
            msg[i] ^= 1 << rng.below(8)                 # single bit error: must be rejected
        elif k == 3:
            i = rng.below(len(msg))
            msg[i] = (~msg[i]) & 0xFF
        elif k == 4:
            msg = bytearray(rng.bytes(rng.range(0, 40)))
        elif k == 5:
            msg = msg[:rng.below(9)]                    # shorter than / equal to the minimum
        elif k == 6 and len(msg) >= 12:
            # swap two 16-bit words: sum-invariant, must still be accepted
            msg[4:6], msg[8:10] = msg[8:10], msg[4:6]
        elif k == 7:
            src = _addr(rng, 16)                        # other source address
        cases.append("icmp6v %s %s %s" % (hx(bytes(msg)), hx(src), hx(dst)))
    # TransportHeader::update_checksum_ipv4 / _ipv6
    for _ in range(900 if not big else 20000):
        n = rng.range(0, 300) if rng.chance(1, 5) else rng.range(0, 40)
        p = _pattern(rng, n)
        kind = rng.choice(("udp", "tcp", "icmp4", "icmp6"))
        h = {"udp": lambda: g_udp_hdr(rng, p), "tcp": lambda: g_tcp_hdr(rng),
             "icmp4": lambda: g_icmp4_type(rng), "icmp6": lambda: g_icmp6_type(rng)}[kind]()
        if rng.chance(1, 2):
            cases.append("upd4 %s %s %s %s %s" % (kind, h, hx(_addr(rng, 4)), hx(_addr(rng, 4)), hx(p)))
        else:
            cases.append("upd6 %s %s %s %s %s" % (kind, h, hx(_addr(rng, 16)), hx(_addr(rng, 16)), hx(p)))
    return cases


def proto_corpus():
    a4, b4 = "c0a8012a", "0a000001"
    a6, b6 = "20010db8000000000000000000000001", "fe80000000000000020000fffe000009"
    z6 = "00" * 16
    big = lambda n: hx(bytes(n))
    c = [
        "ip4h 10 1 1234 4660 1 0 291 64 17 %s %s 01020304" % (a4, b4),
        "ip4h 0 0 0 0 0 0 0 0 0 00000000 00000000 -",
        "ip4h 63 3 65535 65535 1 1 8191 255 255 ffffffff ffffffff " + "ff" * 40,
        "udp4 1234 53 11 %s %s 010203" % (a4, b4),
        "udp6 1234 53 11 %s %s 010203" % (a6, b6),
        # the length field does not describe the payload (field 8, one payload byte)
        "udp4 0 0 8 00000000 00000000 01",
        "udp6 0 0 8 %s %s 01" % (z6, z6),
        # sum of everything = 0xffff: computed 0 is replaced by 0xffff
        "udp4 0 0 8 00000000 00000000 ffde",
        "udp4w 0 0 00000000 00000000 ffdc",
        # limits of the range checks
        "udp4 1 2 65535 %s %s %s" % (a4, b4, big(65527)),
        "udp4 1 2 65535 %s %s %s" % (a4, b4, big(65528)),
        "udp4w 1 2 %s %s %s" % (a4, b4, big(65527)),
        "udp4w 1 2 %s %s %s" % (a4, b4, big(65528)),
        "udp6w 1 2 %s %s %s" % (a6, b6, big(65528)),
        # accepted by calc_checksum_ipv6_raw although no 16 bit length field can describe it
        "udp6 1 2 0 %s %s %s" % (a6, b6, big(65528)),
        "tcp4 80 40000 305419896 2271560481 346 65535 7 020405b4 %s %s 010203" % (a4, b4),
        "tcp6 80 40000 305419896 2271560481 346 65535 7 020405b4 %s %s 010203" % (a6, b6),
        "tcp4 1 2 3 4 0 5 6 - %s %s %s" % (a4, b4, big(65515)),
        "tcp4 1 2 3 4 0 5 6 - %s %s %s" % (a4, b4, big(65516)),
        "tcp4 1 2 3 4 0 5 6 %s %s %s %s" % ("01" * 40, a4, b4, big(65475)),
        "tcp4 1 2 3 4 0 5 6 %s %s %s %s" % ("01" * 40, a4, b4, big(65476)),
        "tcp6 1 2 3 4 0 5 6 - %s %s %s" % (a6, b6, big(65516)),
        "tcp4hs 00509c401234567887654321615affffabcd0007020405b4 %s %s 010203" % (a4, b4),
        "tcp6hs 00509c401234567887654321615affffabcd0007020405b4 %s %s 010203" % (a6, b6),
        # more than 64 kB: the 32 bit length of the IPv6 pseudo header has a non-zero high half
        "tcp6hs %s %s %s %s" % ("00" * 12 + "50" + "00" * 7, a6, b6, big(65516)),
        "icmp6 ereq 1 2 %s %s %s" % (a6, b6, big(65528)),
        "icmp6v %s %s %s" % ("8000" + "5280" + "00" * 65532, a6, b6),
        "tcp4hs %s %s %s %s" % ("00" * 12 + "50" + "00" * 7, a4, b4, big(65516)),
        "tcp4hs %s %s %s %s" % ("00" * 12 + "50" + "00" * 7, a4, b4, big(65515)),
        "tcp4s 00509c401234567887654321615affffabcd0007020405b4010203 %s %s" % (a4, b4),
        "tcp6s 00509c401234567887654321615affffabcd0007020405b4010203 %s %s" % (a6, b6),
        "tcp4s %s %s %s" % ("00" * 12 + "50" + "00" * 7 + "00" * 65515, a4, b4),
        "tcp4s %s %s %s" % ("00" * 12 + "50" + "00" * 7 + "00" * 65516, a4, b4),
        "tcp6s %s %s %s" % ("00" * 12 + "50" + "00" * 7 + "00" * 65516, a6, b6),
        "tcp4s 00509c401234567887654321 %s %s" % (a4, b4),
        "icmp4 tsq 1 2 305419896 2271560481 4294967295 -",
        "icmp4 ereq 4660 1 686921",
        # everything zero: the sum is 0, the checksum 0xffff
        "icmp4 erep 0 0 -",
        "icmp4 erep 0 0 000000",
        "icmp4 unk 0 0 00000000 -",
        "icmp4 du 4 1500 4500",
        "icmp4 pp 0 20 4500",
        "icmp6 ereq 4660 1 %s %s 686921" % (a6, b6),
        "icmp6 ra 64 1 0 1800 %s %s 0101000102030405" % (a6, b6),
        "icmp6 na 1 1 1 %s %s %s" % (a6, b6, "ff" * 16),
        # computed checksum 0x0000
        "icmp6 unk 255 189 00000000 %s %s -" % (z6, z6),
        "icmp6v 8000b6d712340001686921 %s %s" % (a6, b6),
        "icmp6v 8000b6d612340001686921 %s %s" % (a6, b6),
        "icmp6v ffbd000000000000 %s %s" % (z6, z6),
        "icmp6v ffbdffff00000000 %s %s" % (z6, z6),
        "icmp6v ffbd0001 %s %s" % (z6, z6),
        "igmp qs 100 e0000001 10 125 1 0a000007",
        "igmp r3 0000 1 04000000e0000001",
        "igmp q 0 00000000 -",
        "upd4 tcp 80 40000 305419896 2271560481 346 65535 7 020405b4 %s %s 010203" % (a4, b4),
        "upd4 icmp6 red %s %s -" % (a4, b4),
        "upd4 udp 1 2 11 %s %s %s" % (a4, b4, big(65528)),
        "upd6 icmp6 ereq 4660 1 %s %s 686921" % (a6, b6),
        "upd6 icmp4 ereq 4660 1 %s %s 686921" % (a6, b6),
        "upd6 udp 1 2 11 %s %s 010203" % (a6, b6),
    ]
    # payloads of 64 kB and more: only the IPv6 functions accept them; the 32 bit length of the pseudo
    # header then has a non-zero upper half (a length narrowed to 16 bits is wrong exactly here)
    hdr20 = "00" * 12 + "50" + "00" * 7
    for n in (65536, 65537, 70001):
        pl = ("ff" * n) if n != 65537 else ("a5" * n)
        c.append("tcp6 1 2 3 4 0 5 6 - %s %s %s" % (a6, b6, pl))
        c.append("tcp6hs %s %s %s %s" % (hdr20, a6, b6, pl))
        c.append("tcp6s %s %s %s" % (hdr20 + pl, a6, b6))
        c.append("icmp6 ereq 1 2 %s %s %s" % (a6, b6, pl))
        c.append("udp6 1 2 0 %s %s %s" % (a6, b6, pl))
        c.append("upd6 tcp 1 2 3 4 0 5 6 - %s %s %s" % (a6, b6, pl))
        msg = bytes([129, 0, 0, 0, 0, 1, 0, 2]) + bytes.fromhex(pl)
        ck = inet_cksum(pseudo6(bytes.fromhex(a6), bytes.fromhex(b6), len(msg), 58) + msg)
        c.append("icmp6v %s %s %s" % ((msg[:2] + be16(ck) + msg[4:]).hex(), a6, b6))
        # IPv4 functions must refuse them
        c.append("tcp4 1 2 3 4 0 5 6 - %s %s %s" % (a4, b4, pl))
        c.append("tcp4s %s %s %s" % (hdr20 + pl, a4, b4))
    return c


def gen_cases(rng, tier):
    cases = []
    big = tier == "thorough"
    # exhaustive lengths 0..64 x patterns
    for n in range(0, 65):
        for pat in (bytes(n), b"\xff" * n, rng.bytes(n), rng.bytes(n)):
            cases.append("h64 0 " + hx(pat))
            cases.append("h32 0 " + hx(pat))
    # accumulators near the wrap
    for _ in range(4000 if not big else 60000):
        n = rng.range(0, 40)
        d = rng.below(70000) if rng.chance(1, 2) else rng.below(4)
        cases.append("h64 %d %s" % ((1 << 64) - 1 - d, hx(_pattern(rng, n))))
        cases.append("h32 %d %s" % ((1 << 32) - 1 - d, hx(_pattern(rng, n))))
        cases.append("h64 %d %s" % (rng.next(), hx(_pattern(rng, n))))
        cases.append("h32 %d %s" % (rng.next() & 0xFFFFFFFF, hx(_pattern(rng, n))))
    # final folding: every combination of boundary values in the 16 bit lanes of the accumulator (the carries
    # of ones_complement's folding steps happen exactly when lane sums cross 0xffff / 0x1ffff / 0x2fffe ...)
    lanes = [0, 1, 2, 0x7FFF, 0x8000, 0xFFFD, 0xFFFE, 0xFFFF]
    for a in lanes:
        for b in lanes:
            s32 = (a << 16) | b
            for data in ("-", "0001", "ffff"):
                cases.append("h32 %d %s" % (s32, data))
            for c in lanes:
                for d in lanes:
                    s64 = (a << 48) | (b << 32) | (c << 16) | d
                    cases.append("h64 %d -" % s64)
                    if rng.chance(1, 4):
                        cases.append("h64 %d %s" % (s64, rng.choice(["0001", "ffff", "fffe0001", "0202fefeffffffff"])))
    # random lengths
    for _ in range(3000 if not big else 100000):
        n = rng.range(0, 2048) if rng.chance(1, 10) else rng.range(0, 100)
        d = _pattern(rng, n)
        cases.append("h64 0 " + hx(d))
        cases.append("h32 0 " + hx(d))
    # call sequences / splits
    for _ in range(12000 if not big else 400000):
        n = rng.range(0, 80)
        d = _pattern(rng, n)
        cases.append("seq " + _pieces(rng, d))
    cases.extend(gen_proto(rng.fork(), tier))
    return cases


def _nontrivial(case):
    parts = case.split()
    if parts[0] in PROTO_TAGS:
        # some non-zero data beyond the tag: longest hex argument has a non-zero byte and > 2 bytes
        big = max(parts[1:], key=len)
        return len(big) > 4 and big.strip("0-") != ""
    data = "".join(p.split(":")[-1] for p in parts[1:] if p != "-") if parts[0] == "seq" else parts[-1]
    data = data.replace("-", "")
    return len(data) > 4 and data.strip("0") != ""


def compare(ctx, cases, impl, model_lines):
    corr, orc = [], []
    hist = {"h64": 0, "h32": 0, "seq": 0, "len<=8": 0, "len<=64": 0, "len>64": 0, "start!=0": 0}
    seen = set()
    nontriv = 0
    info = {}
    for i, c in enumerate(cases):
        parts = c.split()
        hist[parts[0]] = hist.get(parts[0], 0) + 1
        if parts[0] in PROTO_TAGS:
            if c not in seen:
                seen.add(c)
                if _nontrivial(c):
                    nontriv += 1
            _compare_proto(i, c, impl, model_lines, corr, orc, hist, info)
            continue
        if parts[0] != "seq":
            ln = 0 if parts[2] == "-" else len(parts[2]) // 2
            if parts[1] != "0":
                hist["start!=0"] += 1
        else:
            ln = sum(0 if p.endswith(":-") else len(p.split(":")[1]) // 2 for p in parts[1:])
        hist["len<=8" if ln <= 8 else ("len<=64" if ln <= 64 else "len>64")] += 1
        if c not in seen:
            seen.add(c)
            if _nontrivial(c):
                nontriv += 1
        m = s = None
        if model_lines is not None:
            ml = model_lines[i]
            if " | " in ml:
                m, s = ml.split(" | ")
            else:
                m, s = ml, None
        for prof, lines in impl.items():
            il = lines[i]
            if m is not None and il != m:
                corr.append((i, "%s: impl '%s' model '%s'" % (prof, il, m)))
            # oracle: implementation against RFC 1071 directly
            if s is not None and s != "-":
                want = dict(x.split("=") for x in s.split())
                got = dict(x.split("=") for x in il.split() if "=" in x)
                for k, v in want.items():
                    if got.get(k) != v:
                        orc.append((i, "%s: %s is %s, RFC 1071 gives %s" % (prof, k, got.get(k), v), None))
                        break
            elif il.startswith("PANIC") or il.startswith("CRASH"):
                orc.append((i, "%s: %s" % (prof, il), None))
            elif parts[0] in ("h64", "h32") and parts[1] != "0":
                # accumulator with a start value: no RFC checksum of a byte string to compare with, but the
                # end-around-carry arithmetic is fixed by RFC 1071: the accumulator stays congruent mod 65535 to
                # start + the 16 bit words added (native = little-endian lanes on this host), is 0 only if both are,
                # and ones_complement is the complement of its 16 bit fold, stored big-endian
                w = _helper_start_oracle(parts, il)
                if w:
                    orc.append((i, "%s: %s" % (prof, w), None))
    hist.update(info)
    return {"corr_mismatch": corr, "oracle_fail": orc, "hist": hist, "nontrivial": nontriv,
            "samples": [x[:300] for x in (cases[0], cases[len(cases) // 2], cases[-1])]}


def _helper_start_oracle(parts, il):
    try:
        got = dict(x.split("=") for x in il.split() if "=" in x)
        acc, oc, nz = int(got["sum"]), int(got["oc"]), int(got["nz"])
    except Exception:
        return "unparsable answer '%s'" % il[:80]
    start = int(parts[1])
    data = b"" if parts[2] == "-" else bytes.fromhex(parts[2])
    words = 0
    for k in range(0, len(data) - 1, 2):
        words += data[k] | (data[k + 1] << 8)
    if len(data) % 2:
        words += data[-1]
    total = start + words
    if (acc - total) % 65535 != 0 or ((acc == 0) != (total == 0)):
        return "accumulator %d is not congruent (mod 2^16-1) to start %d + the words added (%d)" % (acc, start, words)
    fold = 65535 if (acc != 0 and acc % 65535 == 0) else acc % 65535
    c = 65535 - fold
    want = ((c & 255) << 8) | (c >> 8)
    if oc != want:
        return "ones_complement of the accumulator %d is %d, the complement of its 16 bit end-around-carry fold is %d" % (acc, oc, want)
    if nz != (want if want != 0 else 65535):
        return "to_ones_complement_with_no_zero is %d for a checksum of %d" % (nz, want)
    return None


def _proj(line):
    """correspondence projection of a protocol line: drop the serialised header"""
    return " ".join(t for t in line.split() if not t.startswith("hdr="))


def _compare_proto(i, c, impl, model_lines, corr, orc, hist, info):
    want = oracle(c, info)
    m = sp = None
    if model_lines is not None:
        ml = model_lines[i]
        m, sp = (ml.split(" | ") + [None])[:2] if " | " in ml else (ml, None)
    # payload length bucket / outcome histogram
    w0 = want.split()[0]
    kind = "err" if w0.startswith("err=") else ("reject" if w0 == "reject" else ("valid" if w0.startswith("valid=") else "ck"))
    hist["proto:" + kind] = hist.get("proto:" + kind, 0) + 1
    if w0 in ("ck=0", "ck=65535"):
        hist["proto:" + w0] = hist.get("proto:" + w0, 0) + 1
    if w0.startswith("valid="):
        hist["proto:" + w0] = hist.get("proto:" + w0, 0) + 1
    for prof, lines in impl.items():
        il = lines[i]
        if m is not None and _proj(il) != m:
            corr.append((i, "%s: impl '%s' model '%s'" % (prof, il[:200], m)))
        if il != want:
            orc.append((i, "%s: %s gives '%s', the RFC computation gives '%s'" % (prof, c.split()[0], il[:200], want[:200]), None))
    # the extracted Coq specification must agree with the Python oracle as well (guards the spec itself)
    if sp is not None and sp != _proj(want):
        orc.append((i, "Coq spec '%s' differs from the Python RFC computation '%s'" % (sp, _proj(want)), None))
