"""C17: typed control-message views (ICMPv4/ICMPv6 type decoding, NDP payloads and
options, IGMP headers and group records, ARP Ethernet/IPv4 view) follow their formats."""
from vlib import hx

ID = "C17"
EXTRACT = "ExtC17.v"
MLMOD = "m_c17"
RUNNER = "run_c17"
HARNESS_BIN = "c17"
RULE = ("entry points: Icmpv4Slice (from_slice, icmp_type, header_len, payload), Icmpv6Slice (from_slice, icmp_type, payload, "
        "payload_slice + Icmpv6PayloadSlice::from_slice and every accessor), NdpOptionsIterator + every option accessor, "
        "IgmpHeader::from_slice, ReportGroupRecordV3Header::from_slice, MaxResponseCode/flags/s_flag/qrv, ArpPacketSlice accessors, "
        "ArpPacket::try_eth_ipv4 / TryFrom.  Enumerated in every run: all 65536 (type, code) pairs for ICMPv4, ICMPv6 and the "
        "ICMPv6 payload dispatch (message length 8..20 resp. payload length across the fixed-part sizes), all 256 IGMP types x "
        "lengths 0..40, all 256 max-resp/raw-byte-8 values, NDP option type 0..8,255 x length units 0..6 x area length around "
        "units*8, ARP address sizes 0..8 x 0..8.  Random: mostly valid structured inputs with type/code/length bytes from assigned "
        "values, neighbours and random, truncated/extended, lengths 0..300.  non-trivial = distinct case accepted by the crate "
        "(not a length error) and longer than 8 bytes")
# ---- audit1-c17 ----
RULE += ("; typed NDP option slices constructed DIRECTLY from arbitrary bytes (tag oc: Source/TargetLinkLayerAddressOptionSlice, "
         "PrefixInformationOptionSlice + PrefixInformation::from_slice/from_bytes, RedirectedHeaderOptionSlice, MtuOptionSlice, "
         "UnknownNdpOptionSlice ::from_slice): 6 constructors x type {0..6,255} x length units 0..5 x 15 sizes, plus random options "
         "with the constructor's type / foreign types / cut / extended / changed length octet")
# ---- end audit1-c17 ----
ASSUMPTIONS = ["64-bit usize (ICMPv6 upper length bound 2^32-1 is modelled, not reachable in the correspondence run)"]
PROJECTION = "kind tags, all integer fields, all sub-slice ranges (off+len), error records (required_len, len, len_source, layer, offset)"

V4_TYPES = [0, 3, 4, 5, 8, 11, 12, 13, 14]
V6_TYPES = [1, 2, 3, 4, 128, 129, 133, 134, 135, 136, 137]
NDP_FIXED = {133: 0, 134: 8, 135: 16, 136: 16, 137: 32}


def corpus():
    import os
    if os.environ.get("C17_NO_CORPUS"):      # generator measurement only (mutant runs)
        return []
    return [
        "i4 03040000000005dc4500",
        "i4 0d00000000010002000000030000000400000100",
        "i4 0d0000000001000200000003000000040000010009",
        "i4 0e00000000010002000000030000000400000100",
        "i4 0e000000000100020000000300000004000001",
        "i4 0310000001020304",
        "i4 0400000000000000",
        "i4 0301",
        "i4 -",
        "i6 8600000040800708",
        "i6 880000006000000001",
        "i6 0107000001020304",
        "i6 040a0000deadbeef",
        "i6 040b0000deadbeef",
        "p6 87000000000000000102030405060708090a0b0c0d0e0f10",
        "p6 8700000000000000fe8000000000000000000000000000010101020304050607",
        "p6 8600000000000000000000010000000205010000000005dc",
        "p6 86000000000000000000000100000002050100",
        "p6 8900000000000000" + "11" * 32,
        "p6 8900000000000000" + "11" * 31,
        "p6 8901000000000000" + "11" * 3,
        "no 010102030405060705010000000005dc0303000000000000000000000000000000000000000000",
        "no 0304c0c0000000010000000200000000fe80000000000000000000000000000104020000000000004500001400000000",
        "no 07",
        "no 0700000000000000",
        "no 0702000000000000",
        "no 0501000000000500",
        "no 0502000000000500" + "00" * 8,
        "no 0303" + "00" * 22,
        "no 0305" + "00" * 38,
        "no -",
        "ig 11640000e0000001",
        "ig 11640000e00000010000",
        "ig 11640000e0000001027d00010a000001",
        "ig 2200000000000002",
        "ig 2109000001020304",
        "gr 0102000ae0000001aabb",
        "gr 01020003e00000",
        "mr 200",
        "arp 00010800060400010102030405060a0000010000000000000a000002",
        "arp 000108000504000101020304050a00000100000000000a000002",
        "arp 00010800ffff0001",
        "arp 0001080006",
        # ---- audit1-c17 ---- typed NDP option constructors on arbitrary bytes
        "oc 3 0304c0c0000000010000000200000000fe800000000000000000000000000001",
        "oc 3 0504c0c0000000010000000200000000fe800000000000000000000000000001",
        "oc 3 0305c0c0000000010000000200000000fe800000000000000000000000000001",
        "oc 3 0304c0c0000000010000000200000000fe8000000000000000000000000000",
        "oc 5 0501000000000500",
        "oc 5 0301000000000500",
        "oc 5 0502000000000500",
        "oc 1 0101020304050607",
        "oc 1 0201020304050607",
        "oc 2 0201020304050607",
        "oc 1 01",
        "oc 1 -",
        "oc 4 04010000",
        "oc 4 0402000000000000",
        "oc 4 04020000000000004500001400000000",
        "oc 0 0301000000000000",
        # ---- end audit1-c17 ----
    ]


def _pick_near(rng, vals):
    k = rng.below(10)
    v = rng.choice(vals)
    if k < 6:
        return v
    if k == 6:
        return (v + 1) & 0xFF
    if k == 7:
        return (v - 1) & 0xFF
    return rng.below(256)


def _ndp_option(rng):
    ty = rng.choice([1, 2, 3, 4, 5, 0, 6, 7, 14, 24, 25, 31, 255]) if rng.chance(4, 5) else rng.below(256)
    natural = {3: 4, 5: 1}.get(ty, rng.choice([1, 1, 2, 3, 5]))
    k = rng.below(12)
    if k < 8:
        lu = natural
    elif k == 8:
        lu = 0
    elif k == 9:
        lu = natural + 1
    elif k == 10:
        lu = max(0, natural - 1)
    else:
        lu = rng.below(256)
    body_units = lu if rng.chance(9, 10) else natural
    body = rng.bytes(max(0, body_units * 8 - 2)) if body_units * 8 <= 320 else rng.bytes(30)
    return bytes([ty, lu]) + body


def _ndp_area(rng):
    n = rng.choice([0, 1, 1, 2, 2, 3, 4, 6])
    out = b""
    for _ in range(n):
        out += _ndp_option(rng)
    k = rng.below(10)
    if k == 0 and out:
        out = out[:rng.below(len(out) + 1)]
    elif k == 1:
        out += rng.bytes(rng.range(1, 9))
    elif k == 2 and out:
        out = out[:-1]
    return out[:300]


def _arp(rng):
    if rng.chance(1, 4):
        # a well-formed Ethernet/IPv4 packet, sometimes with trailing bytes
        op = rng.choice([1, 2, 3, 4]) if rng.chance(3, 4) else rng.below(65536)
        pkt = bytes([0, 1, 8, 0, 6, 4, op >> 8, op & 255]) + rng.bytes(20)
        return pkt + (rng.bytes(rng.below(20)) if rng.chance(1, 3) else b"")
    hw = rng.choice([1, 1, 1, 1, 0, 2, 6, 257, 256]) if rng.chance(5, 6) else rng.below(65536)
    pt = rng.choice([0x0800, 0x0800, 0x0800, 0x0806, 0x86DD, 0x0801, 0x07FF, 0x0008]) if rng.chance(5, 6) else rng.below(65536)
    hs = rng.choice([6, 6, 6, 6, 5, 7, 0, 4, 8, 255]) if rng.chance(7, 8) else rng.below(256)
    ps = rng.choice([4, 4, 4, 4, 3, 5, 0, 6, 16, 255]) if rng.chance(7, 8) else rng.below(256)
    op = rng.choice([1, 2, 3, 4, 0, 65535]) if rng.chance(3, 4) else rng.below(65536)
    body = rng.bytes(2 * hs + 2 * ps)
    pkt = bytes([hw >> 8, hw & 255, pt >> 8, pt & 255, hs, ps, op >> 8, op & 255]) + body
    k = rng.below(10)
    if k == 0:
        pkt = pkt[:rng.below(len(pkt) + 1)]
    elif k == 1:
        pkt = pkt[:-1]
    elif k == 2:
        pkt += rng.bytes(rng.range(1, 30))
    return pkt


def gen_cases(rng, tier):
    cases = []
    big = tier == "thorough"
    fixed_tail = bytes(range(0xA0, 0xA0 + 12))
    # ---- all (type, code) pairs: ICMPv4, ICMPv6, ICMPv6 payload dispatch
    ck = b"\x12\x34"
    b48 = b"\x81\xc2\x05\xdc"
    for t in range(256):
        for c in range(256):
            n = 8 + ((t * 7 + c * 3) % 13)           # 8..20
            msg = (bytes([t, c]) + ck + b48 + fixed_tail)[:n]
            cases.append("i4 " + hx(msg))
            cases.append("i6 " + hx(msg))
            pl = (0, 7, 8, 15, 16, 31, 32, 41)[(t + c) % 8]
            cases.append("p6 " + hx(bytes([t, c]) + ck + b48 + bytes((i * 37 + t) & 255 for i in range(pl))))
    # timestamp exact-size rule and neighbours, every length 0..24
    for t in (12, 13, 14, 15):
        for c in (0, 1, 255):
            for n in range(0, 25):
                cases.append("i4 " + hx((bytes([t, c]) + rng.bytes(30))[:n]))
    # NDP payload kinds: every payload length 0..48
    for t in range(132, 139):
        for c in (0, 1):
            for n in range(0, 49):
                cases.append("p6 " + hx(bytes([t, c]) + rng.bytes(6 + n)))
    # short inputs for every entry point
    for n in range(0, 9):
        for tag in ("i4", "i6", "p6", "ig", "gr", "arp", "no"):
            cases.append("%s %s" % (tag, hx(rng.bytes(n))))
    # ---- IGMP: all types x lengths 0..40
    for t in range(256):
        for n in range(0, 41):
            cases.append("ig " + hx((bytes([t]) + rng.bytes(40))[:n]))
    for c in range(256):
        cases.append("mr %d" % c)
        cases.append("ig " + hx(bytes([0x11, c]) + rng.bytes(6) + bytes([c]) + rng.bytes(3 + rng.below(9))))
    for n in range(0, 30):
        cases.append("gr " + hx(rng.bytes(n)))
    for _ in range(300 if not big else 20000):
        nsrc = rng.below(5)
        aux = rng.below(3)
        rec = bytes([_pick_near(rng, [1, 2, 3, 4, 5, 6]), aux, 0, nsrc]) + rng.bytes(4 + 4 * nsrc + 4 * aux)
        if rng.chance(1, 5):
            rec = rec[:rng.below(len(rec) + 1)]
        cases.append("gr " + hx(rec))
    # ---- NDP options: systematic type x units x area length
    for ty in list(range(0, 9)) + [255]:
        for lu in range(0, 7):
            for n in sorted({0, 1, 2, 3, max(0, lu * 8 - 1), lu * 8, lu * 8 + 1, lu * 8 + 2, lu * 8 + 8, 8, 32, 33}):
                area = (bytes([ty, lu]) + rng.bytes(70))[:n]
                cases.append("no " + hx(area))
            # followed by a valid option
            cases.append("no " + hx(bytes([ty, lu]) + rng.bytes(max(0, lu * 8 - 2)) + bytes([1, 1, 1, 2, 3, 4, 5, 6])))
    for lu in range(0, 256):
        cases.append("no " + hx((bytes([_pick_near(rng, [1, 2, 3, 4, 5]), lu]) + rng.bytes(298))[:rng.choice([300, 8, lu * 8 if lu * 8 <= 300 else 16])]))
    for _ in range(20000 if not big else 600000):
        cases.append("no " + hx(_ndp_area(rng)))
    for _ in range(3000 if not big else 100000):
        n = rng.range(0, 40) if rng.chance(3, 4) else rng.range(0, 300)
        b = bytearray(rng.bytes(n))
        # bias type / unit bytes to small numbers
        for i in range(0, n, 8):
            if rng.chance(2, 3):
                b[i] = rng.below(8)
            if i + 1 < n and rng.chance(2, 3):
                b[i + 1] = rng.below(6)
        cases.append("no " + hx(bytes(b)))
    # ---- audit1-c17 ---- typed option constructors called directly (kind 0 = UnknownNdpOptionSlice)
    for k in range(0, 6):
        for ty in (0, 1, 2, 3, 4, 5, 6, 255):
            for lu in (0, 1, 2, 3, 4, 5):
                for n in sorted({0, 1, 2, 7, 8, 9, 15, 16, 17, 24, 31, 32, 33, 40, lu * 8}):
                    cases.append("oc %d %s" % (k, hx((bytes([ty, lu]) + rng.bytes(40))[:n])))
    for _ in range(6000 if not big else 150000):
        k = rng.below(6)
        opt = bytearray(_ndp_option(rng)[:300])
        j = rng.below(10)
        if j < 4 and k and len(opt) >= 2:
            opt[0] = k                                   # the constructor's own type
            if k in (3, 5) and rng.chance(3, 4):
                lu = {3: 4, 5: 1}[k]
                opt = bytearray(bytes([k, lu]) + rng.bytes(lu * 8 - 2))
        elif j == 4 and opt:
            opt = opt[:rng.below(len(opt) + 1)]
        elif j == 5:
            opt += rng.bytes(rng.range(1, 9))
        elif j == 6 and len(opt) >= 2:
            opt[1] = rng.choice([0, 1, 2, 4, 5, 255])
        cases.append("oc %d %s" % (k, hx(bytes(opt))))
    # ---- end audit1-c17 ----
    # ---- NDP messages with options (payload view, then the options area through the iterator)
    for _ in range(4000 if not big else 100000):
        t = _pick_near(rng, [133, 134, 135, 136, 137])
        c = 0 if rng.chance(9, 10) else rng.below(256)
        fixed = NDP_FIXED.get(t, rng.below(33))
        k = rng.below(8)
        if k == 0:
            fixed = max(0, fixed - 1)
        elif k == 1:
            fixed = rng.below(fixed + 1)
        msg = bytes([t, c]) + rng.bytes(6 + fixed) + (_ndp_area(rng) if rng.chance(4, 5) else b"")
        cases.append("p6 " + hx(msg[:300]))
        cases.append("i6 " + hx(msg[:300]))
    # ---- random ICMP streams, lengths 0..300
    for _ in range(12000 if not big else 200000):
        n = rng.range(0, 30) if rng.chance(2, 3) else rng.range(0, 300)
        t4 = _pick_near(rng, V4_TYPES)
        c4 = rng.choice([0, 0, 0, 1, 2, 3, 4, 4, 5, 15, 16]) if rng.chance(7, 8) else rng.below(256)
        if t4 in (13, 14) and rng.chance(1, 2):
            n = rng.choice([19, 20, 20, 20, 21])
        cases.append("i4 " + hx((bytes([t4, c4]) + rng.bytes(300))[:n]))
        t6 = _pick_near(rng, V6_TYPES)
        c6 = rng.choice([0, 0, 0, 0, 1, 2, 6, 7, 10, 11]) if rng.chance(7, 8) else rng.below(256)
        m6 = (bytes([t6, c6]) + rng.bytes(300))[:n]
        cases.append("i6 " + hx(m6))
        cases.append("p6 " + hx(m6))
    # ---- ARP
    for hs in range(0, 9):
        for ps in range(0, 9):
            for hw, pt in ((1, 0x0800), (1, 0x0806), (6, 0x0800)):
                full = bytes([hw >> 8, hw & 255, pt >> 8, pt & 255, hs, ps, 0, 1]) + rng.bytes(2 * hs + 2 * ps)
                cases.append("arp " + hx(full))
                cases.append("arp " + hx(full + b"\xee\xee"))
                if len(full) > 8:
                    cases.append("arp " + hx(full[:-1]))
    for hw in (0, 1, 2, 255, 256, 257, 65535):
        for pt in (0x0800, 0x0801, 0x07FF, 0x0008, 0x86DD, 0):
            cases.append("arp " + hx(bytes([hw >> 8, hw & 255, pt >> 8, pt & 255, 6, 4, 0, 2]) + rng.bytes(20)))
    for n in range(0, 40):
        cases.append("arp " + hx((bytes([0, 1, 8, 0, 6, 4, 0, 1]) + rng.bytes(40))[:n]))
    for _ in range(6000 if not big else 200000):
        cases.append("arp " + hx(_arp(rng)))
    return cases


def _class(tag, out):
    if out.startswith("PANIC") or out.startswith("CRASH") or out.startswith("NOT-RUN"):
        return "crash"
    # ---- audit1-c17 ----
    if tag == "oc":
        if out.startswith("ERR Hdr"):
            return "oc:unexpected-header"
        return "oc:reject" if out.startswith("ERR") else "oc:accept"
    # ---- end audit1-c17 ----
    if tag == "no":
        if "ERR" in out:
            return "no:reject"
        return "no:all-ok"
    if tag == "arp":
        if out.startswith("E:"):
            return "arp:len-error"
        return "arp:eth" if "; eth " in out else "arp:not-eth-ipv4"
    if out.startswith("E:"):
        return tag + ":len-error"
    if out.startswith("Unk") or out.startswith("Raw"):
        return tag + ":unknown/raw"
    return tag + ":typed"


def compare(ctx, cases, impl, model_lines):
    corr, orc = [], []
    hist = {}
    seen = set()
    nontriv = 0
    for i, c in enumerate(cases):
        tag = c.split()[0]
        m = s = None
        if model_lines is not None:
            ml = model_lines[i]
            if " | " in ml:
                m, s = ml.split(" | ", 1)
            else:
                m, s = ml, None
        first = True
        for prof, lines in impl.items():
            il = lines[i]
            if first:
                k = _class(tag, il)
                hist[k] = hist.get(k, 0) + 1
                if c not in seen:
                    seen.add(c)
                    if not il.startswith("E:") and not il.startswith("PANIC") and len(c) > 3 + 16:
                        nontriv += 1
                first = False
            if m is not None and il != m:
                corr.append((i, "%s: impl '%s' model '%s'" % (prof, il[:300], m[:300])))
            if il.startswith("PANIC") or il.startswith("CRASH") or il.startswith("NOT-RUN"):
                orc.append((i, "%s: %s" % (prof, il[:300]), None))
            elif s is not None and s != "-" and il != s:
                orc.append((i, "%s: crate gives '%s', the RFC tables give '%s'" % (prof, il[:300], s[:300]), None))
    hist["cases"] = len(cases)
    pick = [x for x in (0, len(cases) // 3, len(cases) // 2, len(cases) - 1) if x < len(cases)]
    return {"corr_mismatch": corr, "oracle_fail": orc, "hist": hist, "nontrivial": nontriv,
            "samples": [cases[x][:200] for x in pick],
            "extra": {"enumerated": "65536 (type,code) x {ICMPv4, ICMPv6, ICMPv6 payload}; 256 IGMP types x 41 lengths; 256 octet values"}}
