"""C04: decoding into header structs (PacketHeaders / LaxPacketHeaders) agrees with
slicing (SlicedPacket / LaxSlicedPacket) converted with to_header()."""
import re
import pktgen
from pktgen import be16
from vlib import hx

ID = "C04"
EXTRACT = "ExtC04.v"
MLMOD = "m_c04"
RUNNER = "run_c04"
HARNESS_BIN = "c04"
RULE = ("the structured layered packets of the parse stack (Ethernet II | bare ether type | bare IP x 0..4 VLAN/MACsec "
        "tags x ARP | IPv4[+AH] | IPv6[+chain] | unknown x UDP|TCP|ICMPv4|ICMPv6|other, every length field drawn around "
        "its true value, truncation / trailing bytes / mutations, every prefix of seed packets, noise) plus three focused "
        "streams: IPv6 chains with repeated extension kinds and faults behind the repetition, UDP length fields below / "
        "at / above the IP payload size (enumerated), MACsec short length + trailing bytes in front of VLAN / MACsec / IP "
        "headers that are cut short; non-trivial = decoding got beyond the first header (link extension, net or transport "
        "header present, or an error located at offset > 0); distinct = distinct (entry, bytes)")
PROJECTION = ("C04: rendering of PacketHeaders (header kinds + lengths, payload kind/numbers/window, complete error "
              "record) and of SlicedPacket converted with to_header() + innermost payload")
ASSUMPTIONS = [
    "header structs are observed as kind + serialized length in the model/implementation correspondence; their field "
    "values are compared as Rust values (==) between the two families on the implementation side only (field decoders: C08/C15)",
    "LaxPacketHeaders is modelled (Parse/HdrLaxModel.v) and compared exactly with the implementation on every case; the whole-packet "
    "relation LaxPacketHeaders vs LaxSlicedPacket is proved in Coq about the two models (C04_lax_headers_eq_slices, relation lhagree of "
    "Parse/HdrLaxCut.v: same verdict, header windows, payload up to the carried-forward MACsec length source, stop error record up to "
    "len_source Slice, F11 pair on the IP header) through the conversion lconv, a Coq definition mirroring harness/src/hdrlax.rs::"
    "of_lax_sliced + innermost that is not itself extracted; on the implementation side the two lax families are compared by the oracle "
    "(same headers, payload kind and byte range, Err vs Ok, stop layer)",
]
EXT_KINDS = ("60", "43", "44", "51")


def corpus():
    v6h = "6000000000{plen:04x}{nh:02x}40" + "00" * 32
    return [
        "eth 0102030405060708090a0b0c08004500001c0000000040110000010203040506070800010002000800aa",
        "ip 4500001c0000000040110000010203040506070800010002000800aa",
        "eth 0102",
        # F5 witnesses: UDP length 8 inside a 12 byte IP payload; UDP length 100; UDP length 3
        "ip 450000200000000040110000010203040506070800010002000800aa01020304",
        "ip 450000200000000040110000010203040506070800010002006400aa01020304",
        "ip 450000200000000040110000010203040506070800010002000300aa01020304",
        # F6 witness: IPv6 payload length 0, destination options cut short
        "ip 6000000000003c40" + "00" * 32 + "1101",
        # F9 witness: MACsec short length + trailing bytes, VLAN cut short behind it
        "et:35045 000400000001" + "8100" + "0102" + "aabbccdd",
        "eth 0102030405060708090a0b0c88e5" + "000400000001" + "8100" + "0102" + "aabbccdd",
        # F11 witnesses (known): first byte announces an IPv4 header, fewer than 20 bytes
        "ip 40",
        "ip 470000000000",
        # documented exception: fragment, fragment, UDP
        "ip " + v6h.format(plen=24, nh=44) + "2c00000000000000" + "1100000000000000" + "0001000200080000",
        # dest, dest, routing ; second dest ends struct decoding
        "ip " + v6h.format(plen=32, nh=60) + "3c00000000000000" + "2b00000000000000" + "1100000000000000" + "0001000200080000",
        # dest, routing, dest, dest: the fourth header is the one without slot; a fault behind it (hop-by-hop) goes unnoticed
        "ip " + v6h.format(plen=40, nh=60) + "2b00000000000000" + "3c00000000000000" + "3c00000000000000" + "0000000000000000" + "3b00000000000000",
        # auth, auth with zero payload length behind it
        "ip " + v6h.format(plen=24, nh=51) + "3301000000000000" + "00000000" + "1100000000000000" + "00000000",
        # ARP behind a bare ether type (lax: payload must be Empty since d79cab6)
        "et:2054 0001080006040001aabbccddeeff0a000001000000000000c0a80001",
        # LaxPacketHeaders::from_linux_sll: IPv4/UDP behind SLL; netlink (payload = LinuxSll); cut short; VLAN cut short
        "sll 0000000100060102030405060000" + "0800" + "4500001c0000000040110000010203040506070800010002000800aa",
        "sll 0000033800000000000000000000" + "0010" + "aabbccdd",
        "sll 00000001000601020304",
        "sll 0000000100060102030405060000" + "8100" + "0102",
        # lax/iter witness (F2)
        "ip 6000000000083c40" + "00" * 32 + "2b00000000000000",
    ]


# ---------------------------------------------------------------------------
# focused generators
# ---------------------------------------------------------------------------

def _ext(rng, kind, nxt, bad=False):
    if kind in (0, 60, 43):
        units = rng.choice([0, 0, 0, 1, 2])
        return bytes([nxt, units]) + rng.bytes((units + 1) * 8 - 2)
    if kind == 44:
        fo = rng.choice([0, 0, 0, 1, 8191])
        mf = rng.choice([0, 0, 1])
        return bytes([nxt, 0]) + be16((fo << 3) | mf) + rng.bytes(4)
    plen = 0 if bad else rng.choice([1, 1, 2, 4])
    return bytes([nxt, plen]) + rng.bytes(max(0, (plen + 2) * 4 - 2))


def _transport(rng):
    k = rng.below(6)
    pl = rng.bytes(rng.choice([0, 4, 9]))
    if k == 0:
        return 17, rng.bytes(4) + be16(rng.choice([8 + len(pl), 8 + len(pl), 0, 8, 7, 100])) + rng.bytes(2) + pl
    if k == 1:
        h = bytearray(rng.bytes(20))
        h[12] = (rng.choice([5, 5, 6, 4, 15]) << 4) | (h[12] & 15)
        return 6, bytes(h) + rng.bytes(rng.choice([0, 4, 40])) + pl
    if k == 2:
        return 58, bytes([rng.choice([128, 129, 1, 135]), 0]) + rng.bytes(rng.choice([2, 6, 6, 22]))
    if k == 3:
        return 1, bytes([rng.choice([8, 13, 14, 0]), 0]) + rng.bytes(rng.choice([6, 18, 18, 2, 19]))
    if k == 4:
        return 59, b""
    return rng.choice([2, 47, 50, 253]), rng.bytes(rng.below(12))


def gen_dup_chain(rng):
    """IPv6 with repeated extension kinds; faults behind the repetition"""
    n = rng.range(2, 6)
    kinds = [rng.choice([60, 43, 44, 51, 60, 43, 44, 51, 60, 0]) for _ in range(n)]
    if rng.chance(1, 4):
        kinds[0] = 0
    if rng.chance(1, 2):      # force a repetition
        i = rng.below(n)
        kinds.insert(rng.range(i + 1, n), kinds[i])
    num, tr = _transport(rng)
    out, nxt = tr, num
    bad_at = rng.below(len(kinds)) if rng.chance(1, 5) else -1
    for i in reversed(range(len(kinds))):
        out = _ext(rng, kinds[i], nxt, bad=(i == bad_at)) + out
        nxt = kinds[i]
    plen = pktgen.vary(rng, len(out), 0) if rng.chance(1, 4) else len(out)
    hdr = bytes([0x60 | rng.below(16)]) + rng.bytes(3) + be16(plen) + bytes([nxt, 64]) + rng.bytes(32)
    data = hdr + out
    d = rng.below(8)
    if d == 0 and len(data) > 40:
        data = data[:rng.range(40, len(data))]
    elif d == 1:
        data += rng.bytes(rng.range(1, 9))
    tag = "dup:" + ",".join(str(k) for k in kinds)
    w = rng.below(6)
    if w < 2:
        return "ip", data, tag
    if w < 4:
        return "et:34525", data, tag
    if w == 4:
        return "eth", rng.bytes(12) + be16(0x86DD) + data, tag
    return "eth", rng.bytes(12) + be16(0x8100) + rng.bytes(2) + be16(0x86DD) + data, tag


def enum_udp_len():
    """UDP length field below / at / above the size of the IP payload (F5 situation), enumerated"""
    out = []
    for n in (0, 1, 4, 12):
        true = 8 + n
        for ln in sorted({0, 1, 3, 7, 8, 9, true - 1, true, true + 1, true + 2, 100, 65535}):
            if ln < 0:
                continue
            udp = b"\x00\x01\x00\x02" + be16(ln) + b"\x00\x00" + bytes(range(1, n + 1))
            for trail in (0, 3):
                v4 = bytes([0x45, 0]) + be16(20 + len(udp)) + b"\x00\x00\x00\x00\x40\x11\x00\x00" + bytes(8)
                v6 = b"\x60\x00\x00\x00" + be16(len(udp)) + b"\x11\x40" + bytes(32)
                v6z = b"\x60\x00\x00\x00" + be16(0) + b"\x11\x40" + bytes(32)
                t = bytes([0xEE] * trail)
                out.append("ip %s" % hx(v4 + udp + t))
                out.append("ip %s" % hx(v6 + udp + t))
                out.append("ip %s" % hx(v6z + udp + t))
                out.append("eth %s" % hx(bytes(12) + be16(0x0800) + v4 + udp + t))
                out.append("et:33024 %s" % hx(b"\x00\x05" + be16(0x86DD) + v6 + udp + t))
    return out


def gen_f9(rng):
    """MACsec (unmodified) with a short length that cuts the inner VLAN / MACsec / IP / ARP header short,
    trailing bytes behind the short-length area (F9 situation)"""
    sci = rng.chance(1, 2)
    inner_kind = rng.below(5)
    if inner_kind == 0:
        et, inner = 0x8100, rng.bytes(rng.below(5))
    elif inner_kind == 1:
        et, inner = rng.choice([0x88A8, 0x9100]), rng.bytes(2) + be16(0x8100) + rng.bytes(rng.below(5))
    elif inner_kind == 2:
        et, inner = 0x88E5, bytes([rng.choice([0x00, 0x20, 0x08, 0x2C]), rng.below(64)]) + rng.bytes(rng.below(16))
    elif inner_kind == 3:
        _, ip, _ = pktgen.gen_ip(rng, rng.choice([0, 5, 8]))
        et = {4: 0x0800, 6: 0x86DD}.get(ip[0] >> 4 if ip else 0, 0x0806)
        inner = ip[:rng.below(len(ip) + 1)] if rng.chance(2, 3) else ip
    else:
        et, inner = 0x0806, b"\x00\x01\x08\x00\x06\x04\x00\x01" + rng.bytes(rng.below(21))
    body = be16(et) + inner
    k = rng.below(6)
    if k < 3:
        sl = len(body)
    elif k == 3:
        sl = max(2, len(body) - rng.range(1, 4))
    elif k == 4:
        sl = len(body) + rng.range(1, 3)
    else:
        sl = 0
    if sl > 63:
        sl = 0
    trailer = rng.bytes(rng.choice([0, 1, 4, 4, 6]))
    tci = (0x20 if sci else 0) | rng.below(4)
    sec = bytes([tci, sl]) + rng.bytes(4) + (rng.bytes(8) if sci else b"")
    data = sec + body + trailer
    if rng.chance(1, 3):
        data = rng.bytes(2) + be16(0x88E5) + data
        ent_et = 0x8100
    else:
        ent_et = 0x88E5
    if rng.chance(1, 2):
        return "et:%d" % ent_et, data, "f9"
    return "eth", rng.bytes(12) + be16(ent_et) + data, "f9"


def _seed_packets(rng, n):
    out = []
    while len(out) < n:
        ent, data, tag = pktgen.gen_packet(rng)
        if ent == "sll":
            continue
        if "|" not in tag and tag != "noise" and 20 < len(data) < 140:
            out.append((ent, data, tag))
    return out


def gen_cases(rng, tier):
    big = tier == "thorough"
    cases = list(enum_udp_len())
    n_struct = 24000 if not big else 1200000
    k = 0
    while k < n_struct:
        ent, data, tag = pktgen.gen_packet(rng)
        if ent == "sll":
            if k % 4 == 0:
                # LaxPacketHeaders::from_linux_sll (model correspondence only: no slicing counterpart)
                cases.append("sll %s" % hx(data))
            ent, data = "eth", data[2:]      # 14 bytes of link header in front of the same body
        cases.append("%s %s" % (ent, hx(data)))
        k += 1
    for _ in range(8000 if not big else 400000):
        ent, data, tag = gen_dup_chain(rng)
        cases.append("%s %s" % (ent, hx(data)))
    for _ in range(4000 if not big else 200000):
        ent, data, tag = gen_f9(rng)
        cases.append("%s %s" % (ent, hx(data)))
    for ent, data, tag in _seed_packets(rng, 40 if not big else 300):
        for e, d in pktgen.all_prefixes(ent, data):
            cases.append("%s %s" % (e, hx(d)))
    for _ in range(10 if not big else 100):
        ent, data, tag = gen_dup_chain(rng)
        for e, d in pktgen.all_prefixes(ent, data):
            cases.append("%s %s" % (e, hx(d)))
    # F11 class, enumerated over the first byte: every IHL, lengths 1..19
    for b0 in range(0x40, 0x50):
        for ln in (1, 6, 19):
            cases.append("ip %s" % hx(bytes([b0]) + bytes(ln - 1)))
    return cases


# ---------------------------------------------------------------------------
# comparison
# ---------------------------------------------------------------------------
_PL = re.compile(r" pl=(\w+)(?:\(([^)]*)\))?$")
_NET = re.compile(r" net=(\w+)(?:\(([^)]*)\))?")


def _split_impl(il):
    parts = il.split(" || ")
    if len(parts) != 4:
        return None
    return parts


def _fields(ok_line):
    """'ok link=.. exts=[..] net=.. tr=.. pl=..' -> dict"""
    m = re.match(r"ok link=(\S+) exts=\[([^\]]*)\] net=(\S+) tr=(\S+) pl=(\S+)$", ok_line)
    if not m:
        return None
    return {"link": m.group(1), "exts": m.group(2), "net": m.group(3), "tr": m.group(4), "pl": m.group(5)}


def _win(s):
    a, b = s.split("+")
    return int(a), int(b)


def strict_oracle(ent, data, H, S, cmp):
    """relation between the two implementation answers -> None | (why, known_class)"""
    if H.startswith("PANIC") or S.startswith("PANIC"):
        return ("abnormal: %s / %s" % (H, S), None)
    if H == S:
        if cmp not in ("eq", "-"):
            return ("same layers and payload but header values differ: hdrs=%s (%s)" % (cmp, H), None)
        return None
    # both reject: the verdict is the same; the error RECORDS are the subject of C06/C07 (they differ in the
    # F11 class: cut-short first IPv4 header at the bare-IP entry point), not of this property
    if H.startswith("err") and S.startswith("err"):
        return None
    # the documented exception
    hf = _fields(H) if H.startswith("ok") else None
    if hf and hf["net"].startswith("v6(") and hf["tr"] == "none" and hf["pl"].startswith("ip("):
        hp = hf["pl"][3:-1].split(",")
        if hp[0] in EXT_KINDS:
            if S.startswith("err"):
                return None            # a fault behind the extension header goes unnoticed by struct decoding
            sf = _fields(S)
            if sf is None:
                return ("unparsable slicing line '%s'" % S, None)
            if (hf["link"], hf["exts"]) != (sf["link"], sf["exts"]):
                return ("exception case but link layers differ: '%s' vs '%s'" % (H, S), None)
            hn = hf["net"][3:-1].split(",")
            sn = sf["net"][3:-1].split(",") if sf["net"].startswith("v6(") else None
            if sn is None or hn[0] != sn[0] or hn[1] not in (sn[1], "-") or int(hn[3]) >= int(sn[3]):
                return ("exception case but IPv6 header/extension lengths are inconsistent: '%s' vs '%s'" % (H, S), None)
            if cmp not in ("eq", "diff(transport)"):
                return ("exception case but header values differ in front of the cut: hdrs=%s" % cmp, None)
            if sf["tr"] == "none" and sf["pl"].startswith("ip("):
                sp = sf["pl"][3:-1].split(",")
                ho, hl = _win(hp[3])
                so, sl = _win(sp[3])
                if ho + hl != so + sl or ho >= so or hp[2] != sp[2]:
                    return ("exception case but the payload windows do not end together: '%s' vs '%s'" % (H, S), None)
            return None
    return ("struct decoding '%s' but slicing (converted) '%s' [hdrs=%s]" % (H, S, cmp), None)


def _lax_fields(x):
    """'ok[link=..,exts=[..],net=..,tr=..,pl=..,stop=..]' -> dict | None"""
    m = re.match(r"ok\[link=(.*?),exts=\[(.*?)\],net=(.*?),tr=(.*?),pl=(.*),stop=(.*)\]$", x)
    if not m:
        return None
    return dict(zip(("link", "exts", "net", "tr", "pl", "stop"), m.groups()))


def _pl_kind_win(pl):
    """'udp(0,42+0)' -> ('udp', '42+0'); 'empty' -> ('empty', None)"""
    if "(" not in pl:
        return (pl, None)
    return (pl[:pl.index("(")], pl[:-1].split(",")[-1])


def lax_oracle(ent, data, lax):
    """lax families on the implementation side: 'lax H=.. S=.. hdrs=.. pl=.. stop=..'.
    The property asks for: the same headers, a payload of the same kind covering the same byte range, the same
    verdict (Err vs Ok; stopped or not and the layer of the stop).  Error record details belong to C06/C07."""
    if lax in ("lax=todo", ""):
        return None
    if "PANIC" in lax:
        return ("abnormal (lax): " + lax, None)
    m = re.match(r"lax H=(.*) S=(.*) hdrs=(\S+) pl=(\S+) stop=(\S+)$", lax)
    if not m:
        return ("unparsable lax line '%s'" % lax, None)
    H, S, hd, pl, st = m.groups()
    if H.startswith("err") or S.startswith("err"):
        if H.startswith("err") and S.startswith("err"):
            return None
        return ("lax verdicts differ: '%s' vs '%s'" % (H, S), None)
    hf, sf = _lax_fields(H), _lax_fields(S)
    if hf is None or sf is None:
        return ("unparsable lax result '%s' / '%s'" % (H, S), None)
    # documented exception: the struct family stopped in front of an extension header without slot
    mm = re.match(r"ip\((\d+),", hf["pl"])
    if mm and mm.group(1) in EXT_KINDS and hf["net"].startswith("v6(") and hf["tr"] == "none" \
            and hd in ("eq", "diff(transport)") and (hf["link"], hf["exts"]) == (sf["link"], sf["exts"]) \
            and hf["stop"] == "none" and hf != sf:
        return None
    if hd != "eq":
        return ("lax header values differ (%s): %s" % (hd, lax), None)
    for k in ("link", "exts", "net", "tr"):
        if hf[k] != sf[k]:
            return ("lax layers differ (%s): %s" % (k, lax), None)
    if _pl_kind_win(hf["pl"]) != _pl_kind_win(sf["pl"]):
        return ("lax payloads differ: %s" % lax, None)
    hs, ss = hf["stop"], sf["stop"]
    if (hs == "none") != (ss == "none") or hs.split(":")[0] != ss.split(":")[0]:
        return ("lax stop verdicts differ: %s" % lax, None)
    return None


def _nontrivial(line):
    if line.startswith("ok"):
        return ("exts=[]" not in line) or ("net=none" not in line)
    if line.startswith("err len"):
        return not line.endswith(",0")
    return line.startswith("err content")


def compare(ctx, cases, impl, model_lines):
    corr, orc = [], []
    hist = {}
    # ---- audit1-c04 ---- the per-slot field behind " ## " (struct Ipv6Extensions, strict and lax):
    # implementation against model, exact; stripped before the older fields are parsed
    def _strip_slots(lines):
        if lines is None:
            return None, None
        a, b = [], []
        for l in lines:
            if " ## " in l:
                x, y = l.rsplit(" ## ", 1)
            else:
                x, y = l, None
            a.append(x)
            b.append(y)
        return a, b
    model_lines, _mslots = _strip_slots(model_lines)
    _islots = {}
    for _prof in list(impl.keys()):
        impl[_prof], _islots[_prof] = _strip_slots(impl[_prof])
    _nslots = 0
    for _i, _c in enumerate(cases):
        if _c.startswith("sll"):
            continue
        for _prof, _sl in _islots.items():
            if _sl[_i] is None:
                orc.append((_i, "%s: no slots field in the implementation answer" % _prof, None))
            elif _mslots is not None:
                if _mslots[_i] is None:
                    corr.append((_i, "model runner printed no slots field"))
                elif _mslots[_i] != _sl[_i]:
                    corr.append((_i, "%s: Ipv6Extensions slots impl '%s' model '%s'" % (_prof, _sl[_i], _mslots[_i])))
            if _sl[_i] is not None and "slots=hbh" in _sl[_i]:
                _nslots += 1
    hist["ipv6-struct-with-slots"] = _nslots
    # ---- end audit1-c04 ----
    seen = set()
    nontriv = 0
    n_exc = 0
    for i, c in enumerate(cases):
        ent_full, hexs = c.split()[:2]
        ent = ent_full.split(":")[0]
        data = bytes.fromhex(hexs) if hexs != "-" else b""
        hm = sm = cm = stopped = hw = cw = lm = None
        if ent == "sll":
            # LaxPacketHeaders::from_linux_sll: implementation against the model, exact
            for prof, lines in impl.items():
                if "PANIC" in lines[i] or not lines[i].startswith("sll H="):
                    orc.append((i, "%s: abnormal implementation answer: %s" % (prof, lines[i][:300]), None))
                elif model_lines is not None and lines[i] != model_lines[i]:
                    corr.append((i, "%s: LaxPacketHeaders::from_linux_sll impl '%s' model '%s'" % (prof, lines[i], model_lines[i])))
            hist["sll:lax-model"] = hist.get("sll:lax-model", 0) + 1
            if c not in seen:
                seen.add(c)
                if impl and "exts=[]" not in next(iter(impl.values()))[i]:
                    nontriv += 1
            continue
        if model_lines is not None:
            mp = model_lines[i].split(" | ")
            if len(mp) == 7:
                hm, sm, cm, stopped, hw, cw, lm = mp
                hw, cw, lm = hw[3:], cw[3:], lm[len("laxH="):]
            else:
                corr.append((i, "model runner: '%s'" % model_lines[i][:200]))
        klass = None
        for prof, lines in impl.items():
            il = lines[i]
            parts = _split_impl(il)
            if parts is None:
                orc.append((i, "%s: abnormal implementation answer: %s" % (prof, il[:300]), None))
                continue
            H, S, cmp, lax = parts
            cmp = cmp[len("hdrs="):] if cmp.startswith("hdrs=") else cmp
            # correspondence: both implementation families against their models
            if hm is not None:
                if H != hm:
                    corr.append((i, "%s: PacketHeaders impl '%s' model '%s'" % (prof, H, hm)))
                if S != sm:
                    corr.append((i, "%s: SlicedPacket(converted) impl '%s' model '%s'" % (prof, S, sm)))
                # the proved statement, re-evaluated: struct model = cut slicing model (incl. header windows)
                if hm != cm or hw != cw:
                    f11 = ent == "ip" and 0 < len(data) < 20 and data[0] >> 4 == 4
                    if not f11:
                        corr.append((i, "model of PacketHeaders '%s' [%s] differs from the cut slicing model '%s' [%s]" % (hm, hw, cm, cw)))
                # oracle 1: implementation against the specification of the property (cut slicing, converted)
                if H != cm and not (H.startswith("err") and cm.startswith("err")):
                    orc.append((i, "%s: PacketHeaders '%s' but slicing cut at the first refilled extension gives '%s'" % (prof, H, cm), None))
            # oracle 2: the relation between the two implementation answers
            o = strict_oracle(ent, data, H, S, cmp)
            if o:
                orc.append((i, "%s: %s" % (prof, o[0]), o[1]))
                klass = "violation"
            elif H.startswith("err") and S.startswith("err") and H != S:
                klass = "agree-err-record-differs(F11)"
            elif H == S:
                klass = "agree-ok" if H.startswith("ok") else "agree-err"
            else:
                klass = "exception-slicing-ok" if S.startswith("ok") else "exception-slicing-err"
            o = lax_oracle(ent, data, lax)
            if o:
                orc.append((i, "%s: %s" % (prof, o[0]), o[1]))
            # correspondence of the lax struct family: LaxPacketHeaders impl against its model, exact
            if lm is not None:
                ml = re.match(r"lax H=(.*) S=(.*) hdrs=(\S+) pl=(\S+) stop=(\S+)$", lax)
                if not ml:
                    corr.append((i, "%s: unparsable lax line '%s'" % (prof, lax[:200])))
                elif ml.group(1) != lm:
                    corr.append((i, "%s: LaxPacketHeaders impl '%s' model '%s'" % (prof, ml.group(1), lm)))
        ref = hm or (next(iter(impl.values()))[i].split(" || ")[0] if impl else "")
        key = "%s:%s" % (ent, klass)
        hist[key] = hist.get(key, 0) + 1
        if klass and klass.startswith("exception"):
            n_exc += 1
        if c not in seen:
            seen.add(c)
            if _nontrivial(ref):
                nontriv += 1
    return {"corr_mismatch": corr, "oracle_fail": orc,
            "hist": dict(sorted(hist.items(), key=lambda kv: -kv[1])[:60]),
            "nontrivial": nontriv,
            "samples": [cases[0], cases[len(cases) // 3], cases[len(cases) // 2], cases[-1]],
            "extra": {"documented_exception_cases": n_exc}}
