"""C16: I/O faults and short buffers surface as errors without partial garbage."""
import os
import re

import vlib
from vlib import hx

ID = "C16"
EXTRACT = "ExtC16.v"
MLMOD = "m_c16"
RUNNER = "run_c16"
HARNESS_BIN = "c16"
RELEASE_ALWAYS = True     # usize arithmetic of LimitedReader: debug (overflow checks) and release
RULE = ("every `write` of the crate against an instrumented io::Write that accepts k bytes (k = 0..len+2, enumerated) in "
        "chunks of 1/3/all and then fails with Err or Ok(0); Ethernet2/LinuxSll write_to_slice and the builder's write_to_slice "
        "for every slice length 0..len+2 with 16 canary bytes in front of and behind the slice; every `read`/`read_limited` against an "
        "instrumented io::Read that ends (EOF or Err) at every k = 0..len, LimitedReader budgets 0..len+1 and explicit "
        "read_exact/start_layer sequences; non-trivial = multi-part writer/builder/reader case with the fault strictly inside "
        "the encoding (0 < k < len) or a slice shorter than required; distinct = distinct case lines")
ASSUMPTIONS = [
    "real OS error kinds are not modelled: only ErrorKind::Other, WriteZero (Ok(0) from write) and UnexpectedEof (Ok(0) from read), produced by the instrumented devices; Interrupted is never returned",
    "devices are fail-stop (a reader/writer that failed does not recover); a LimitedReader re-used after an Io error of a recovering reader is outside the statement",
    "byte layout of the parts is a parameter of the model (to_bytes() of the real header, obtained in a reference pass); C16 is about sequencing/error propagation",
    "writes outside the output slice: the model (C16_slice_frame) places the returned slice contents into a flat memory and proves the rest unchanged, which rests on the transliterated bounds checks of safe slice indexing; on the real crate 16 canary bytes in front of and behind every slice are checked",
    "error propagation: a writer/reader that drops an I/O error is expressible (IoFault/Propagate.v) and refuted; that each crate function is the propagating program given there is checked by this run only",
]
PROJECTION = "result class (ok / io:kind / content:tag / len fields / space), bytes received or buffer contents, bytes pulled, LimitedReader state"

SINGLE = ["eth", "vlan", "sll", "link_eth", "link_sll", "macsec", "arp", "ip6h", "frag", "udp", "icmp4", "icmp6",
          "tr_udp", "tr_icmp4", "tr_icmp6"]
TWO = ["ip4h", "ip4h_raw", "auth", "rawext", "tcp", "tr_tcp"]
MULTI = set(TWO) | {"x4", "x6", "iph4", "iph6", "bld"}


# ----------------------------------------------------------------------------
# header byte strings (only as much layout as needed to get a decodable value)
# ----------------------------------------------------------------------------
def g_eth(r):
    return r.bytes(14)


def g_vlan(r):
    return r.bytes(4)


def g_sll(r):
    return bytes([0, r.below(5), 0, 1]) + r.bytes(2) + r.bytes(8) + r.bytes(2)


def g_macsec(r, sc=None, unmod=None):
    sc = r.chance(1, 2) if sc is None else sc
    unmod = r.chance(1, 2) if unmod is None else unmod
    tci = (r.below(4)) | (0x20 if sc else 0) | (r.below(2) << 6) | (r.below(2) << 4)
    if not unmod:
        tci |= r.choice([0x04, 0x08, 0x0c])
    sl = r.choice([0, 2, 5, 63]) if unmod else r.below(64)
    b = bytes([tci, sl]) + r.bytes(4)
    if sc:
        b += r.bytes(8)
    if unmod:
        b += r.bytes(2)
    return b


def g_arp(r, hw=None, pr=None):
    hw = r.choice([0, 1, 6, 8, 255]) if hw is None else hw
    pr = r.choice([0, 4, 16, 255]) if pr is None else pr
    return r.bytes(4) + bytes([hw, pr]) + r.bytes(2) + r.bytes(2 * hw + 2 * pr)


def g_ip6h(r, nh=None, plen=None):
    b = bytearray(r.bytes(40))
    b[0] = 0x60 | (b[0] & 0xf)
    if nh is not None:
        b[6] = nh
    if plen is not None:
        b[4] = plen >> 8
        b[5] = plen & 255
    return bytes(b)


def g_udp(r):
    return r.bytes(8)


def g_icmp4(r, ts=None):
    ts = r.chance(1, 3) if ts is None else ts
    if ts:
        return bytes([r.choice([13, 14]), 0]) + r.bytes(18)
    b = bytearray(r.bytes(8))
    if b[0] in (13, 14) and b[1] == 0:
        b[1] = 1
    return bytes(b)


def g_icmp6(r):
    return r.bytes(8)


def g_tcp(r, words=None):
    words = r.below(11) if words is None else words
    b = bytearray(r.bytes(20 + 4 * words))
    b[12] = ((5 + words) << 4) | (b[12] & 1)
    return bytes(b)


def g_ip4h(r, words=None, proto=None, total=None):
    words = r.below(11) if words is None else words
    b = bytearray(r.bytes(20 + 4 * words))
    b[0] = 0x40 | (5 + words)
    t = (b[2] << 8) | b[3]
    if total is not None:
        t = total
    t = max(t, len(b))
    b[2] = t >> 8
    b[3] = t & 255
    if proto is not None:
        b[9] = proto
    return bytes(b)


def g_auth(r, nh=None, words=None):
    words = r.choice([0, 1, 3, 8]) if words is None else words
    return bytes([r.below(256) if nh is None else nh, words + 1]) + r.bytes(2) + r.bytes(8) + r.bytes(4 * words)


def g_rawext(r, nh=None, units=None):
    units = r.choice([0, 0, 1, 2, 4]) if units is None else units
    return bytes([r.below(256) if nh is None else nh, units]) + r.bytes(6 + 8 * units)


def g_frag(r, nh=None):
    b = bytearray(r.bytes(8))
    if nh is not None:
        b[0] = nh
    return bytes(b)


HOP, DEST, ROUTE, FRAG, AUTH = 0, 60, 43, 44, 51


def g_x6(r, mask, last, mode):
    """slots hop,dest,routing,final,frag,auth (bit i of mask) ; returns (first, [hex|-]*6).
    mode 0: next headers chained in the order the crate writes; 1: one link broken; 2: random links"""
    present = [bool(mask >> i & 1) for i in range(6)]
    if present[3] and not present[2]:
        present[3] = False
    order = [(0, HOP), (1, DEST), (2, ROUTE), (4, FRAG), (5, AUTH), (3, DEST)]
    chain = [(i, num) for (i, num) in order if present[i]]
    nh = {}
    for j, (i, num) in enumerate(chain):
        nh[i] = chain[j + 1][1] if j + 1 < len(chain) else last
    first = chain[0][1] if chain else last
    pool = [0, 60, 43, 44, 51, 17, 6, 59, last]
    if mode == 1 and chain:
        i = r.choice(chain)[0]
        nh[i] = r.choice(pool)
        if r.chance(1, 4):
            first = r.choice(pool)
    elif mode == 2:
        for (i, _) in chain:
            nh[i] = r.choice(pool)
        first = r.choice(pool)
    out = []
    for i in range(6):
        if not present[i]:
            out.append("-")
        elif i == 4:
            out.append(hx(g_frag(r, nh[i])))
        elif i == 5:
            out.append(hx(g_auth(r, nh[i])))
        else:
            out.append(hx(g_rawext(r, nh[i])))
    return first, out


# ----------------------------------------------------------------------------
# specs
# ----------------------------------------------------------------------------
def writer_specs(rng, tier):
    """list of (entry, spec)"""
    big = tier == "thorough"
    out = []
    rep = 2 if not big else 8
    for _ in range(rep):
        out += [("eth", hx(g_eth(rng))), ("vlan", hx(g_vlan(rng))), ("sll", hx(g_sll(rng))),
                ("link_eth", hx(g_eth(rng))), ("link_sll", hx(g_sll(rng))),
                ("ip6h", hx(g_ip6h(rng))), ("frag", hx(g_frag(rng))), ("udp", hx(g_udp(rng))),
                ("icmp6", hx(g_icmp6(rng))), ("tr_udp", hx(g_udp(rng))), ("tr_icmp6", hx(g_icmp6(rng)))]
        for sc in (False, True):
            for un in (False, True):
                out.append(("macsec", hx(g_macsec(rng, sc, un))))
        for (hw, pr) in ((6, 4), (0, 0), (1, 16), (255, 255) if big else (8, 4)):
            out.append(("arp", hx(g_arp(rng, hw, pr))))
        for ts in (False, True):
            out.append(("icmp4", hx(g_icmp4(rng, ts))))
            out.append(("tr_icmp4", hx(g_icmp4(rng, ts))))
        for w in (0, 1, 3, 10):
            out.append(("tcp", hx(g_tcp(rng, w))))
            out.append(("tr_tcp", hx(g_tcp(rng, w))))
            out.append(("ip4h", hx(g_ip4h(rng, w))))
            out.append(("ip4h_raw", hx(g_ip4h(rng, w))))
        for w in (0, 1, 4):
            out.append(("auth", hx(g_auth(rng, None, w))))
        for u in (0, 1, 3):
            out.append(("rawext", hx(g_rawext(rng, None, u))))
    # Ipv4Extensions::write
    for start in (51, 17, 0):
        out.append(("x4", "%d;%s" % (start, hx(g_auth(rng, 17, 2)))))
        out.append(("x4", "%d;-" % start))
    # Ipv6Extensions::write : all 64 presence masks, consistent chains; broken / random chains
    for mask in range(64):
        first, slots = g_x6(rng, mask, rng.choice([17, 6, 58]), 0)
        out.append(("x6", "%d;%s" % (first, ";".join(slots))))
    for _ in range(40 if not big else 400):
        mask = rng.below(64)
        first, slots = g_x6(rng, mask, rng.choice([17, 6, 0, 60]), rng.choice([1, 2]))
        out.append(("x6", "%d;%s" % (first, ";".join(slots))))
    # first header 0 without a hop-by-hop header (fixed finding of C12)
    first, slots = g_x6(rng, 0b100010, 17, 0)
    out.append(("x6", "0;%s" % ";".join(slots)))
    # IpHeaders::write
    for w in (0, 2, 10):
        out.append(("iph4", "%s;%s" % (hx(g_ip4h(rng, w, 51)), hx(g_auth(rng, 6, 1)))))
        out.append(("iph4", "%s;-" % hx(g_ip4h(rng, w, 17))))
    out.append(("iph4", "%s;%s" % (hx(g_ip4h(rng, 1, 17)), hx(g_auth(rng, 6, 1)))))   # auth not referenced
    for mask in (0, 1, 0b000111, 0b111111, 0b110100, 0b001110) + ((0b010101, 0b100011, 0b011000) if big else ()):
        first, slots = g_x6(rng, mask, 17, 0)
        out.append(("iph6", "%s;%s" % (hx(g_ip6h(rng, first)), ";".join(slots))))
    first, slots = g_x6(rng, 0b001111, 17, 1)
    out.append(("iph6", "%s;%s" % (hx(g_ip6h(rng, first)), ";".join(slots))))
    return out


def builder_specs(rng, tier):
    big = tier == "thorough"
    out = []

    def ip4(words, auth):
        return "4/%s/%s" % (hx(g_ip4h(rng, words, 0, 0)), hx(g_auth(rng, 0, 2)) if auth else "-")

    def ip6(mask):
        _, slots = g_x6(rng, mask, 17, 0)
        return "6/%s/%s" % (hx(g_ip6h(rng, 0, 0)), "/".join(slots))

    pay = lambda n: hx(rng.bytes(n))
    cfgs = [
        ("e", 0, ip4(0, False), "u", 5),
        ("e", 1, ip4(3, False), "t/" + hx(b"\x02\x04\x05\xb4\x01\x01\x01\x00"), 3),      # IPv4 options + TCP options
        ("e", 2, ip4(10, True), "u", 0),                                                  # max options + AH
        ("s", 0, ip4(1, True), "i4", 4),
        ("n", 0, ip4(2, False), "n/253", 7),
        ("e", 0, ip6(0), "u", 9),
        ("e", 1, ip6(0b111111), "t/" + hx(bytes(40)), 2),                                  # all six extension headers
        ("e", 2, ip6(0b000111), "i6", 6),
        ("s", 0, ip6(0b110000), "u", 1),
        ("n", 0, ip6(0b001110), "n/59", 0),
        ("n", 0, ip6(0b100001), "t/-", 11),
        ("e", 0, "a/" + hx(g_arp(rng, 6, 4)), "u", 0),
        ("e", 1, "a/" + hx(g_arp(rng, 6, 4)), "u", 0),
        ("e", 0, ip4(0, False), "i6", 3),                                                  # Icmpv6InIpv4 after the ip header
        ("e", 2, ip4(4, False), "i6", 0),
    ]
    if big:
        for mask in range(0, 64, 3):
            cfgs.append((rng.choice("en"), 0, ip6(mask), rng.choice(["u", "t/01010101", "i6", "n/17"]), rng.below(20)))
        for w in range(0, 11):
            cfgs.append((rng.choice("esn"), 0, ip4(w, rng.chance(1, 2)), rng.choice(["u", "t/-", "i4", "n/6"]), rng.below(20)))
    for (link, vlan, net, tr, pl) in cfgs:
        if net.startswith("a/"):
            tr, pl = "u", 0      # ignored by the ARP builder (no transport, no payload)
        out.append("%s;%d;%s;%s;%s" % (link, vlan, net, tr, pay(pl)))
    return out


def reference(exe, items):
    """items: list of (entry, spec) -> list of model structs (or None when the description is not decodable)"""
    os.makedirs(vlib.RUN, exist_ok=True)
    path = os.path.join(vlib.RUN, "C16_ref_%d.cases" % os.getpid())
    with open(path, "w") as f:
        for (e, s) in items:
            f.write("ref %s %s\n" % (e, s))
    rc, out = vlib.sh([exe, path], timeout=600)
    os.unlink(path)
    lines = out.split("\n")
    if lines and lines[-1] == "":
        lines.pop()
    if rc != 0 or len(lines) != len(items):
        raise RuntimeError("C16 reference pass failed rc=%s lines=%d/%d: %s" % (rc, len(lines), len(items), out[-400:]))
    return [("!" + l.replace(" ", "_")[:120]) if (l.startswith("PANIC") or " " in l) else l for l in lines]


def m_len(entry, m):
    """total length of the complete encoding described by a model struct (when every part is written)"""
    def slot(s):
        return 0 if s == "-" else len(s.split(":")[2]) // 2

    def hl(h):
        return 0 if h == "-" else len(h) // 2
    if entry in SINGLE:
        return hl(m)
    if entry in TWO:
        a, b = m.split(",")
        return hl(a) + hl(b)
    t = m.split(";")
    if entry == "x4":
        return slot(t[1])
    if entry == "x6":
        return sum(slot(s) for s in t[1:])
    if entry == "iph4":
        a, b = t[0].split(",")
        return hl(a) + hl(b) + slot(t[2])
    if entry == "iph6":
        return hl(t[0]) + sum(slot(s) for s in t[2:])
    if entry == "bld":
        n = 0
        for p in [t[0]] + (t[1].split("+") if t[1] != "-" else []) + [t[5]]:
            if p != "-":
                n += int(p.split(":")[0])
        net = t[2].split("/")
        n += int(net[1].split(":")[0])
        if net[0] in "46":
            n += sum(slot(s) for s in net[3:])
        return n + hl(t[6])
    raise ValueError(entry)


def wf_problem(entry, m):
    """declared header_len()/LEN of every part must equal the length of its to_bytes()"""
    def chk_slot(s):
        if s == "-":
            return None
        nh, ln, h = s.split(":")
        return None if int(ln) * 2 == len(h) else "slot declares %s, encodes %d" % (ln, len(h) // 2)

    def chk_part(p):
        if p == "-":
            return None
        ln, h = p.split(":")
        hl = 0 if h == "-" else len(h) // 2
        return None if int(ln) == hl else "part declares %s, encodes %d" % (ln, hl)
    t = m.split(";")
    todo = []
    if entry == "x4":
        todo = [chk_slot(t[1])]
    elif entry == "x6":
        todo = [chk_slot(s) for s in t[1:]]
    elif entry == "iph4":
        todo = [chk_slot(t[2])]
    elif entry == "iph6":
        todo = [chk_slot(s) for s in t[2:]]
    elif entry == "bld":
        todo = [chk_part(t[0]), chk_part(t[5])] + [chk_part(p) for p in (t[1].split("+") if t[1] != "-" else [])]
        net = t[2].split("/")
        todo.append(chk_part(net[1]))
        if net[0] in "46":
            todo += [chk_slot(s) for s in net[3:]]
    for x in todo:
        if x:
            return x
    return None


# ----------------------------------------------------------------------------
# readers
# ----------------------------------------------------------------------------
def reader_inputs(rng, tier):
    """list of (entry, data) for plain readers and (entry, data, limited=True)"""
    big = tier == "thorough"
    out = []
    rep = 1 if not big else 5
    for _ in range(rep):
        out += [("eth", g_eth(rng)), ("vlan", g_vlan(rng)), ("sll", g_sll(rng)), ("frag8", g_frag(rng)),
                ("udp", g_udp(rng)), ("icmp6", g_icmp6(rng)), ("ip6h", g_ip6h(rng)),
                ("ip6h", bytes([0x45]) + rng.bytes(39))]
        for w in (0, 1, 10):
            out.append(("ip4h", g_ip4h(rng, w)))
            out.append(("tcp", g_tcp(rng, w)))
        out.append(("ip4h", bytes([0x43]) + rng.bytes(30)))       # ihl < 5
        out.append(("ip4h", bytes([0x65]) + rng.bytes(30)))       # version
        out.append(("tcp", rng.bytes(12) + bytes([0x40]) + rng.bytes(20)))   # data offset < 5
        for ts in (False, True):
            out.append(("icmp4", g_icmp4(rng, ts)))
        out.append(("icmp4", bytes([13, 1]) + rng.bytes(18)))
        for sc in (False, True):
            for un in (False, True):
                out.append(("macsec", g_macsec(rng, sc, un) + rng.bytes(3)))
        out.append(("macsec", bytes([0x80, 0]) + rng.bytes(14)))
        out.append(("macsec", bytes([0x00, 1]) + rng.bytes(14)))
        for (hw, pr) in ((6, 4), (0, 0), (255, 1)):
            out.append(("arp", g_arp(rng, hw, pr)))
        for w in (0, 2):
            out.append(("auth", g_auth(rng, None, w)))
            out.append(("authl", g_auth(rng, None, w)))
        out.append(("auth", bytes([17, 0]) + rng.bytes(12)))
        out.append(("authl", bytes([17, 0]) + rng.bytes(12)))
        for u in (0, 2):
            out.append(("rawext", g_rawext(rng, None, u)))
            out.append(("rawextl", g_rawext(rng, None, u)))
        out.append(("frag", g_frag(rng)))
        out.append(("fragl", g_frag(rng)))
        out.append(("x4:51", g_auth(rng, 17, 1) + rng.bytes(4)))
        out.append(("x4l:51", g_auth(rng, 17, 1) + rng.bytes(4)))
        out.append(("x4:17", rng.bytes(8)))
        out.append(("x4l:17", rng.bytes(8)))
    # extension chains on the wire: consistent, duplicated, hop-by-hop late
    masks = [0b111111, 0b000111, 0b110001, 0b001110, 0b100000] + ([rng.below(64) for _ in range(20)] if big else [])
    for mask in masks:
        first, slots = g_x6(rng, mask, 17, 0)
        # wire order = order the crate writes
        order = [0, 1, 2, 4, 5, 3]
        wire = b"".join(bytes.fromhex(slots[i]) for i in order if slots[i] != "-")
        out.append(("x6:%d" % first, wire + rng.bytes(4)))
        out.append(("x6l:%d" % first, wire + rng.bytes(4)))
        out.append(("iph", g_ip6h(rng, first, len(wire) + 8) + wire + rng.bytes(8)))
        if len(wire) > 8:
            out.append(("iph", g_ip6h(rng, first, len(wire) - 3) + wire + rng.bytes(8)))     # payload length cuts the chain
            out.append(("iph", g_ip6h(rng, first, 1) + wire + rng.bytes(8)))
    dup = g_rawext(rng, 60, 0) + g_rawext(rng, 60, 1) + g_rawext(rng, 17, 0)
    out.append(("x6:60", dup))
    out.append(("x6l:60", dup))
    late = g_rawext(rng, 0, 0) + g_rawext(rng, 17, 0)
    out.append(("x6:60", late))
    out.append(("x6l:60", late))
    out.append(("x6:0", g_rawext(rng, 0, 0) + g_rawext(rng, 17, 0)))
    out.append(("iph", g_ip6h(rng, 0, 0) + g_rawext(rng, 17, 1)))                            # payload length 0
    # IpHeaders::read, IPv4 with and without AH, total_len too small / cutting the AH
    for w in (0, 3):
        a = g_auth(rng, 6, 2)
        hl = 20 + 4 * w
        out.append(("iph", g_ip4h(rng, w, 51, hl + len(a) + 5) + a + rng.bytes(5)))
        out.append(("iph", g_ip4h(rng, w, 51, hl + len(a) - 1) + a + rng.bytes(5)))
        out.append(("iph", g_ip4h(rng, w, 51, hl + 3) + a))
        out.append(("iph", g_ip4h(rng, w, 17, hl) + rng.bytes(4)))
        h = bytearray(g_ip4h(rng, w, 17, hl))
        h[2], h[3] = 0, hl - 1                                                                # total_len < header_len
        out.append(("iph", bytes(h) + rng.bytes(4)))
    out.append(("iph", bytes([0x43]) + rng.bytes(30)))
    out.append(("iph", bytes([0x75]) + rng.bytes(30)))
    return out


def corpus():
    return [
        "lr 4 10 9 2 0 010203040506070809 r2,s5,r3,r1,r2",
        "lr 6 0 5 1 1 0102030405 r2,r5,r4,s7,r1",
        "r iph 42 5 0 6000000000080040" + "01" * 16 + "02" * 16 + "1101" + "00" * 14,
        "r eth 13 1 1 " + "ab" * 14,
    ]


def gen_cases(rng, tier):
    big = tier == "thorough"
    ok, out, exe = vlib.harness_build(HARNESS_BIN, "debug")
    if not ok:
        return []
    cases = []
    # ---- writers against the faulting io::Write
    specs = writer_specs(rng, tier) + [("bld", s) for s in builder_specs(rng, tier)]
    ms = reference(exe, specs)
    for (entry, spec), m in zip(specs, ms):
        if m.startswith("!"):
            # the reference pass could not describe the value (generator bug or a crate that contradicts itself)
            cases.append("w %s 0 1 0 %s UNDECODABLE:%s" % (entry, spec, m[1:]))
            continue
        n = m_len(entry, m)
        modes = [(1 << 20, 0), (1, 1)] + ([(3, 0)] if (big or entry in MULTI) else [])
        for (chunk, zero) in modes:
            for k in range(0, n + 3):
                cases.append("w %s %d %d %d %s %s" % (entry, k, chunk, zero, spec, m))
        if entry in MULTI or entry == "bld":
            # transient fault: the device fails once at byte k and accepts data again afterwards - anything it
            # receives then was written after the failure (not a prefix of the encoding any more)
            for k in range(0, n + 1):
                cases.append("wt %s %d %d %d %s %s" % (entry, k, 1 << 20, 0, spec, m))
        if entry in ("eth", "sll"):
            for nn in range(0, n + 3):
                cases.append("ws %s %d %s %s" % (entry, nn, spec, m))
        if entry == "bld":
            for nn in range(0, n + 3):
                cases.append("wsb %d %s %s" % (nn, spec, m))
    # ---- readers against the faulting io::Read
    for item in reader_inputs(rng, tier):
        entry, data = item
        lim = entry.split(":")[0] in ("authl", "rawextl", "fragl", "x4l", "x6l")
        n = len(data)
        for k in range(0, n + 1):
            for (chunk, err) in ((1 << 20, 0), (1, 1)) + (((3, 0),) if big else ()):
                if not lim:
                    cases.append("r %s %d %d %d %s" % (entry, k, chunk, err, hx(data)))
        if lim:
            # every budget x every end position (thinned for long inputs in the quick tier)
            step = 1 if (big or n <= 24) else 3
            for mx in range(0, n + 2):
                for k in range(0, n + 1, step):
                    cases.append("r %s %d %d %d %s %d %d" % (entry, k, rng.choice([1, 2, 1 << 20]), rng.below(2), hx(data),
                                                            mx, rng.choice([0, 40, 1000])))
    # ---- LimitedReader: explicit call sequences
    for _ in range(3000 if not big else 60000):
        n = rng.range(0, 24)
        data = rng.bytes(n)
        k = rng.range(0, n)
        mx = rng.choice([0, 1, n, n + 1, rng.range(0, n + 3), 1 << 40])
        ops = []
        for _ in range(rng.range(1, 8)):
            if rng.chance(1, 4):
                ops.append("s%d" % rng.choice([3, 5, 7, 8]))
            else:
                ops.append("r%d" % rng.choice([0, 1, 2, 3, 5, 8, rng.range(0, 30)]))
        cases.append("lr %d %d %d %d %d %s %s" % (mx, rng.choice([0, 14, 40]), k, rng.choice([1, 3, 1 << 20]), rng.below(2),
                                                 hx(data), ",".join(ops)))
    return cases


# ----------------------------------------------------------------------------
def _kv(s):
    d = {}
    for t in s.split():
        if "=" in t:
            a, b = t.split("=", 1)
            d[a] = b
    return d


def _unhex(h):
    return b"" if h in ("-", "") else bytes.fromhex(h)


def compare(ctx, cases, impl, model_lines):
    corr, orc = [], []
    hist = {}
    seen = set()
    nontriv = 0
    groups = {}      # (profile, entry, spec, chunk, zero) -> list of (k, got bytes, index)
    rgroups = {}     # readers: (profile, entry, data, chunk/err or budget/offset) -> list of (k, answer, index)

    def bump(k):
        hist[k] = hist.get(k, 0) + 1

    for i, c in enumerate(cases):
        a = c.split()
        tag = a[0]
        key = tag + (":" + a[1].split(":")[0] if tag in ("w", "wt", "ws", "r") else "")
        bump(key)
        m = s = None
        if model_lines is not None:
            ml = model_lines[i]
            if " | " in ml:
                m, s = ml.split(" | ", 1)
            else:
                m, s = ml, None
            if ml.startswith("MODEL-FAIL") or any(x in m for x in ("PANIC", "FUEL", "UNDERFLOW", "BAD")):
                corr.append((i, "model: %s" % ml[:200]))
        # distribution / non-triviality
        if c not in seen:
            seen.add(c)
            nt = False
            if tag == "w" and a[1] in MULTI and s is not None and s.startswith("io") and int(a[2]) > 0:
                nt = True
            elif tag in ("ws", "wsb") and m is not None and (m.startswith("err") or m.startswith("space")):
                nt = True
            elif tag == "r" and m is not None and (m.startswith("io") or m.startswith("len")) and int(a[2]) > 0:
                nt = True
            elif tag == "lr" and m is not None and ("len:" in m or "io:" in m):
                nt = True
            nontriv += nt
        if tag in ("w", "wt", "wsb", "ws") and len(a) > 3:
            wfp = (wf_problem(a[1] if tag != "wsb" else "bld", a[-1]) if not a[-1].startswith("UNDECODABLE")
                   else "reference pass failed (%s)" % a[-1][12:])
            if wfp:
                orc.append((i, "declared length is not the encoded length: %s" % wfp, None))
        for prof, lines in impl.items():
            il = lines[i]
            base, _, extra = il.partition(" # ")
            if m is not None and base != m:
                corr.append((i, "%s: impl '%s' model '%s'" % (prof, base[:300], m[:300])))
            if il.startswith("PANIC") or il.startswith("CRASH") or il.startswith("NOT-RUN"):
                orc.append((i, "%s: %s" % (prof, il[:200]), None))
                continue
            ex = _kv(extra)
            if tag == "wt":
                bump("wt.result." + base.split()[0].split(":")[0])
                if ex.get("calls", "0") != "0":
                    orc.append((i, "%s: device failed at byte %s and the writer kept writing: %s more write call(s), bytes %s "
                                "arrived after the failure - what the device holds is not a prefix of the encoding"
                                % (prof, a[2], ex.get("calls"), ex.get("after")), None))
                if s is not None and s != "-" and (s.startswith("io") != base.startswith("io:")):
                    orc.append((i, "%s: device failing once at byte %s: result '%s' but the device reported the failure: %s"
                                % (prof, a[2], base.split()[0], s.split()[0]), None))
            if tag == "w":
                bump("w.result." + base.split()[0].split(":")[0])
                got = _unhex(_kv(base).get("got", "-"))
                groups.setdefault((prof, a[1], a[5], a[3], a[4]), []).append((int(a[2]), got, i))
                if s is not None and s != "-":
                    want_io = s.startswith("io")
                    is_io = base.startswith("io:")
                    if want_io != is_io:
                        orc.append((i, "%s: sink failing at byte %s: result '%s' but the complete encoding has %s bytes"
                                    % (prof, a[2], base.split()[0], "more" if want_io else "no more"), None))
                    elif _kv(s).get("got") != _kv(base).get("got"):
                        orc.append((i, "%s: bytes received %s are not the first %s bytes of the encoding (%s)"
                                    % (prof, _kv(base).get("got"), a[2], _kv(s).get("got")), None))
            elif tag in ("ws", "wsb"):
                bump(tag + ".result." + base.split()[0].split(":")[0])
                if ex.get("canary") != "ok":
                    orc.append((i, "%s: bytes outside the output slice (canaries in front of / behind it) were modified" % prof, None))
                if s is not None and s != "-":
                    sb = s.split(" buf=")
                    bb = base.split(" buf=")
                    n = int(a[2] if tag == "ws" else a[1])
                    if tag == "ws":
                        want = sb[0]                               # ok | err req= len=
                        have = bb[0]
                        if want == "ok":
                            good = have.startswith("ok rest=")
                        else:
                            good = have.startswith(want + " ")
                        if not good:
                            orc.append((i, "%s: slice of %d bytes: result '%s', required by the encoding: '%s'" % (prof, n, have, want), None))
                    else:
                        if bb[0] != sb[0]:
                            orc.append((i, "%s: slice of %d bytes: result '%s', the true size demands '%s'" % (prof, n, bb[0], sb[0]), None))
                        if ex.get("size") is not None and sb[0].split()[1] != ex["size"]:
                            orc.append((i, "%s: size() = %s but the complete encoding has %s bytes" % (prof, ex["size"], sb[0].split()[1]), None))
                    if len(bb) > 1 and len(sb) > 1 and bb[1] != sb[1]:
                        orc.append((i, "%s: buffer contents differ from encoding ++ untouched rest" % prof, None))
            elif tag == "r":
                bump("r.result." + base.split()[0].split(":")[0])
                kv = _kv(base)
                k = int(a[2])
                rgroups.setdefault((prof, a[1], a[5]) + (("L", a[6], a[7]) if len(a) > 6 else ("P", a[3], a[4])), []
                                   ).append((k, base, i))
                if base.startswith("len "):
                    f = base.split()
                    if int(f[1]) <= int(f[2]):
                        orc.append((i, "%s: Len error although required_len %s <= len %s" % (prof, f[1], f[2]), None))
                if int(kv.get("pulled", "0")) > k:
                    orc.append((i, "%s: pulled %s bytes from a reader that ends at %d" % (prof, kv.get("pulled"), k), None))
                # the source was asked for bytes it does not have (its fault was hit): the read must
                # return that I/O error - not success and not some other verdict built on missing bytes
                if ex.get("hit") == "1" and not base.startswith("io:"):
                    orc.append((i, "%s: the reader failed at byte %d but the result is '%s', not the I/O error" % (prof, k, base[:120]), None))
                if len(a) > 6:
                    if int(kv.get("pulled", "0")) > int(a[6]):
                        orc.append((i, "%s: LimitedReader(max_len %s) pulled %s bytes" % (prof, a[6], kv.get("pulled")), None))
                    if "max" in kv and int(kv["read"]) > int(kv["max"]):
                        orc.append((i, "%s: read_len %s > max_len %s" % (prof, kv["read"], kv["max"]), None))
            elif tag == "lr":
                kv = _kv(base)
                for (rq, ln) in re.findall(r"len:(\d+) (\d+) ", base):
                    if int(rq) <= int(ln):
                        orc.append((i, "%s: Len error although required_len %s <= len %s" % (prof, rq, ln), None))
                        break
                if int(kv.get("pulled", "0")) > int(a[1]):
                    orc.append((i, "%s: LimitedReader(max_len %s) pulled %s bytes" % (prof, a[1], kv.get("pulled")), None))
                if "max" in kv and int(kv["read"]) > int(kv["max"]):
                    orc.append((i, "%s: read_len %s > max_len %s" % (prof, kv["read"], kv["max"]), None))
    # prefix property between implementation answers: got(k) is a prefix of got(k_max)
    for key, lst in groups.items():
        kmax, full, _ = max(lst, key=lambda t: t[0])
        for (k, got, i) in lst:
            if full[:len(got)] != got:
                orc.append((i, "%s: bytes received with a fault at %d are not a prefix of what a fault-free write delivers" % (key[0], k), None))
    # C16_read_fault as a relation between implementation answers: take the answer for the longest
    # source of a group as reference, K = bytes it pulled.  A source ending at k < K must give the I/O
    # error having pulled exactly k bytes; a source ending at k >= K must give the reference answer.
    for key, lst in rgroups.items():
        kmax, ref, _ = max(lst, key=lambda t: t[0])
        K = int(_kv(ref).get("pulled", "0"))
        for (k, base, i) in lst:
            pulled = int(_kv(base).get("pulled", "0"))
            if k < K:
                if not base.startswith("io:") or pulled != k:
                    orc.append((i, "%s: the fault-free read consumes %d bytes; the reader ending at %d answered '%s' (must be "
                                   "the I/O error after exactly %d bytes)" % (key[0], K, k, base[:100], k), None))
            elif k < kmax and base != ref:
                orc.append((i, "%s: the read consumes %d bytes, yet ending the reader at %d >= %d changes the answer: '%s' vs '%s'"
                            % (key[0], K, k, K, base[:100], ref[:100]), None))
    mid = len(cases) // 2
    return {"corr_mismatch": corr, "oracle_fail": orc, "hist": dict(sorted(hist.items())), "nontrivial": nontriv,
            "samples": [cases[0][:300], cases[mid][:300], cases[-1][:300]] if cases else [],
            "exhaustive": False}
