"""C03: strict packet slicing matches the wire formats (also the base of C07)."""
import os
import pktgen
import vlib
from vlib import hx

ID = "C03"
EXTRACT = "ExtC03.v"
MLMOD = "m_c03"
RUNNER = "run_c03"
HARNESS_BIN = "c03"
RULE = ("structured layered packets (Ethernet II | SLL | bare ether type | bare IP) x 0..4 VLAN/MACsec tags x "
        "(ARP | IPv4[+AH] | IPv6[+extension chain] | unknown) x (UDP|TCP|ICMPv4|ICMPv6|other), every length field drawn "
        "around its true value, truncation / trailing bytes / byte mutations, every prefix of seed packets, noise; "
        "non-trivial = parsing got beyond the first header (a link extension, net or transport layer present, or an "
        "error located at offset > 0); distinct = distinct (entry, bytes)")
PROJECTION = "C03: Ok rendering (layers, windows, ip numbers, fragmentation, len sources) and reject class (Len+layer / Content+tag)"
ASSUMPTIONS = ["header FIELD VALUES (addresses, ports, flags, identifiers, option bytes, ...) of every layer of an accepted "
               "packet: theorems C03_fields_from_* (Parse/Fields.v: accessor models of Parse/Access.v = RFC field at the "
               "layer's absolute position) and, on every run, the second comparison `fields_compare` (harness c03f = real "
               "slice accessors + to_header()/to_packet() cross-check, runner run_c03f = model | spec); typed "
               "interpretations above the raw fields (ICMP message kinds, TCP option elements, NDP) are C17/C13"]
FULL_ERRORS = False   # C07 sets this


def corpus():
    return [
        "eth 0102030405060708090a0b0c08004500001c0000000040110000010203040506070800010002000800aa",
        "ip 4500001c0000000040110000010203040506070800010002000800aa",
        "eth 0102",
        "sll ffff000100000000000000000000000000",
        # F5 witness: UDP length 8 inside a 12 byte IP payload
        "ip 450000200000000040110000010203040506070800010002000800aa01020304",
        # F6 witness: IPv6 payload length 0, destination options cut short
        "ip 6000000000003c40" + "00" * 32 + "1101",
        # F9 witness: MACsec short length + trailing bytes, VLAN cut short behind it
        "et:35045 000400000001" + "8100" + "0102" + "aabbccdd",
        # lax/iter witness (F2): IPv6 payload len 8, dest opts next=routing
        "ip 6000000000083c40" + "00" * 32 + "2b00000000000000",
    ]


def _seed_packets(rng, n):
    out = []
    while len(out) < n:
        ent, data, tag = pktgen.gen_packet(rng)
        if "|" not in tag and tag != "noise" and 20 < len(data) < 140:
            out.append((ent, data, tag))
    return out


def gen_cases(rng, tier):
    big = tier == "thorough"
    cases = []
    meta = []
    for _ in range(30000 if not big else 1500000):
        ent, data, tag = pktgen.gen_packet(rng)
        cases.append("%s %s" % (ent, hx(data)))
    for ent, data, tag in _seed_packets(rng, 60 if not big else 400):
        for e, d in pktgen.all_prefixes(ent, data):
            cases.append("%s %s" % (e, hx(d)))
    return cases


def _nontrivial(line):
    if line.startswith("ok"):
        return ("exts=[]" not in line) or ("net=none" not in line)
    if line.startswith("err len"):
        return not line.endswith(",0")
    return line.startswith("err content") and ("Tcp" in line or "Auth" in line or "HopByHop" in line or "Macsec" in line)


def _err_fields(line):
    # "err len req,len,src,layer,off"
    return line[len("err len "):].split(",")


def oracle(il, sl, full_errors):
    """implementation line vs specification line -> None | (why, known_class)"""
    if il == sl:
        return None
    if il.startswith("PANIC") or il.startswith("CRASH") or il.startswith("NOT-RUN"):
        return ("abnormal: " + il, None)
    if il.startswith("ok") or sl.startswith("ok") or il.startswith("err content") or sl.startswith("err content"):
        return ("impl '%s' but the wire format prescribes '%s'" % (il, sl), None)
    if il.startswith("err len") and sl.startswith("err len"):
        i, s = _err_fields(il), _err_fields(sl)
        if not full_errors:
            return None if i[3] == s[3] else ("reject layer %s, wire format says %s" % (i[3], s[3]), None)
        if (i[0], i[1], i[3], i[4]) != (s[0], s[1], s[3], s[4]):
            return ("length error %s but the real fault is %s" % (il, sl), None)
        if i[2] == s[2] or i[2] == "slice":
            return None
        if i[3] in ("Arp", "MacsecPacket") and i[2] in ("arplen", "macsecsl"):
            return ("len_source %s names the field that produced required_len, not len (%s)" % (i[2], il), "F7_len_source_names_required")
        return ("len_source %s reported, but the limit of %s bytes comes from %s" % (i[2], i[1], s[2]), None)
    return ("impl '%s' vs spec '%s'" % (il, sl), None)


def fields_compare(ctx, cases):
    """second comparison (C03 only): the decoded header field values of every layer of the strict result.
    harness bin c03f: the REAL slice accessors of every stored slice (plus to_header()/to_packet() equality), one
    canonical `ok layer:field=value;... layer:...` line; runner run_c03f (ExtC03f.v): `model | spec` with
    model = Parse/Fields.v fields_of_packet (accessor models of Parse/Access.v), spec = spec_fields on the view of
    the reference decoder.  implementation != model -> corr_mismatch, implementation != spec -> oracle_fail."""
    ok, out = vlib.ocaml_build("ExtC03f.v", "m_c03f", "run_c03f")
    if not ok:
        return [(0, "c03f: extraction / model runner build failed: " + out[-400:])], [], {}
    ok, out, exe = vlib.harness_build("c03f", "debug")
    if not ok:
        return [(0, "c03f: harness build failed: " + out[-400:])], [], {}
    m = vlib.run_sharded([os.path.join(vlib.OCAML, "bin", "run_c03f")], cases, "C03f_m")
    r = vlib.run_sharded([exe], cases, "C03f_i")
    corr, orc = [], []
    okc = nfields = 0
    lay = {}
    for k, (a, b) in enumerate(zip(m, r)):
        mm, _, ss = a.partition(" | ")
        if b != mm:
            corr.append((k, "field values: impl '%s' model '%s'" % (b[:600], mm[:600])))
        if b != ss:
            orc.append((k, "field values: impl '%s' but the wire format prescribes '%s'" % (b[:600], ss[:600]), None))
        if b.startswith("ok"):
            okc += 1
            for l in b.split()[1:]:
                t = l.split(":")[0]
                lay[t] = lay.get(t, 0) + 1
                nfields += l.count("=")
    return corr, orc, {"field_runs": len(cases), "field_runs_accepted": okc, "field_values_equal": nfields,
                       "field_layers": dict(sorted(lay.items()))}


def compare(ctx, cases, impl, model_lines, full_errors=None):
    if full_errors is None:
        full_errors = FULL_ERRORS
    corr, orc = [], []
    hist = {}
    seen = set()
    nontriv = 0
    for i, c in enumerate(cases):
        ent = c.split()[0].split(":")[0]
        m = s = None
        if model_lines is not None:
            ml = model_lines[i]
            if " | " in ml:
                m, s = ml.split(" | ")
            else:
                m = ml
        ref = m or next(iter(impl.values()))[i]
        key = ent + ":" + ("ok" if ref.startswith("ok") else " ".join(ref.split()[:2]) + ("/" + ref.split(",")[3] if ref.startswith("err len") else "/" + ref.split()[2] if ref.startswith("err content") else ""))
        hist[key] = hist.get(key, 0) + 1
        if c not in seen:
            seen.add(c)
            if _nontrivial(ref):
                nontriv += 1
        for prof, lines in impl.items():
            il = lines[i]
            if m is not None and il != m:
                corr.append((i, "%s: impl '%s' model '%s'" % (prof, il, m)))
            if s is not None:
                o = oracle(il, s, full_errors)
                if o:
                    orc.append((i, "%s: %s" % (prof, o[0]), o[1]))
            elif il.startswith("PANIC") or il.startswith("CRASH"):
                orc.append((i, "%s: %s" % (prof, il), None))
    extra = {}
    if ctx.pid == "C03":
        fc, fo, extra = fields_compare(ctx, cases)
        corr.extend(fc)
        orc.extend(fo)
    return {"corr_mismatch": corr, "oracle_fail": orc, "hist": dict(sorted(hist.items(), key=lambda kv: -kv[1])[:60]),
            "nontrivial": nontriv, "samples": [cases[0], cases[len(cases) // 3], cases[len(cases) // 2], cases[-1]],
            "extra": extra}
