"""C08: every header value survives encode -> decode unchanged."""
from vlib import hx

ID = "C08"
EXTRACT = "ExtC08.v"
MLMOD = "m_c08"
RUNNER = "run_c08"
HARNESS_BIN = "c08"
RULE = ("structured header VALUES (v cases: extremes, all flag combinations, every option/ICV/address length) through all "
        "serialisers and decode(encode ++ trailing bytes); accepted BYTE strings (b cases: random with the length/type "
        "fields biased to be consistent, every value of each bit-packed byte enumerated) through decode -> encode -> decode; "
        "a case is non-trivial when it is a value case or an accepted byte string; distinct = distinct case lines")
ASSUMPTIONS = ["write is modelled as appending to a Vec<u8> (never fails); std::io::Read as a cursor over a byte list"]
PROJECTION = "all printed fields: canonical value, bytes of each serialiser, header_len, decoded value + remainder length"

# types with a Coq model + theorems (everything else: correspondence-only, implementation oracle)
PROVED = ["tcp", "ipv4", "frag"]
ALL_TYPES = ["tcp", "ipv4", "macsec", "auth", "rawext", "frag", "ipv6", "udp", "eth", "vlan", "sll", "arp", "arpeth",
             "icmp4", "icmp6", "igmp", "grec", "prefix", "ext4", "ext6", "iph"]
TYPE_NAMES = {
    "tcp": "TcpHeader(+TcpOptions raw)", "ipv4": "Ipv4Header(+Ipv4Options)", "macsec": "MacsecHeader",
    "auth": "IpAuthHeader", "rawext": "Ipv6RawExtHeader", "frag": "Ipv6FragmentHeader", "ipv6": "Ipv6Header",
    "udp": "UdpHeader", "eth": "Ethernet2Header", "vlan": "SingleVlanHeader", "sll": "LinuxSllHeader",
    "arp": "ArpPacket", "arpeth": "ArpEthIpv4Packet", "icmp4": "Icmpv4Header/Icmpv4Type",
    "icmp6": "Icmpv6Header/Icmpv6Type", "igmp": "IgmpHeader", "grec": "ReportGroupRecordV3Header",
    "prefix": "ndp PrefixInformation", "ext4": "Ipv4Extensions", "ext6": "Ipv6Extensions", "iph": "IpHeaders"}


# --------------------------------------------------------------------------
# reserved / normalised bit positions (independent of the Coq model): keep-mask
# of the consumed bytes
# --------------------------------------------------------------------------
def _ones(n):
    return bytearray(b"\xff" * n)


def mask_tcp(c):
    m = _ones(len(c))
    m[12] = 0xF1
    return m


def mask_ipv4(c):
    m = _ones(len(c))
    m[6] = 0x7F
    return m


def mask_frag(c):
    m = _ones(len(c))
    m[1] = 0
    m[3] = 0xF9
    return m


def mask_auth(c):
    m = _ones(len(c))
    m[2] = 0
    m[3] = 0
    return m


def mask_macsec(c):
    m = _ones(len(c))
    m[1] = 0x3F
    return m


def mask_icmp4(c):
    m = _ones(len(c))
    t, code = c[0], c[1]
    if t == 3 and code <= 15:          # destination unreachable: unused / next-hop MTU
        for i in (4, 5, 6, 7):
            m[i] = 0
        if code == 4:
            m[6] = m[7] = 0xFF
    elif t == 11 and code <= 1:        # time exceeded: unused
        for i in (4, 5, 6, 7):
            m[i] = 0
    elif t == 12 and code <= 2:        # parameter problem: pointer only for code 0
        for i in (5, 6, 7):
            m[i] = 0
        if code != 0:
            m[4] = 0
    return m


def mask_igmp(c):
    m = _ones(len(c))
    if c[0] in (0x12, 0x16, 0x17, 0x22):   # v1/v2 report, leave group, v3 report: byte 1 unused / reserved
        m[1] = 0
    return m


def mask_icmp6(c):
    m = _ones(len(c))
    t, code = c[0], c[1]
    if (t == 1 and code <= 6) or (t == 3 and code <= 1) or (t in (133, 135, 137) and code == 0):
        for i in (4, 5, 6, 7):           # unused / reserved word
            m[i] = 0
    elif t == 134 and code == 0:         # router advertisement: M, O flags, 6 reserved bits
        m[5] = 0xC0
    elif t == 136 and code == 0:         # neighbor advertisement: R, S, O flags, 29 reserved bits
        m[4] = 0xE0
        m[5] = m[6] = m[7] = 0
    return m


def mask_prefix(c):
    m = _ones(len(c))
    m[3] = 0xC0                          # L, A flags, reserved1
    for i in (12, 13, 14, 15):           # reserved2
        m[i] = 0
    return m


MASKS = {"tcp": mask_tcp, "ipv4": mask_ipv4, "frag": mask_frag, "auth": mask_auth, "macsec": mask_macsec,
         "icmp4": mask_icmp4, "igmp": mask_igmp, "icmp6": mask_icmp6, "prefix": mask_prefix}


def corpus():
    return [
        # the stale-buffer / max-length / all-ones corners
        "v tcp 65535 65535 4294967295 4294967295 511 65535 65535 65535 " + "ff" * 40 + " -",
        "v tcp 0 0 0 0 0 0 0 0 - -",
        "v tcp 1 2 3 4 2 5 6 7 010101 0909",
        "v ipv4 63 3 65535 65535 1 1 8191 255 255 65535 ffffffff ffffffff " + "ff" * 40 + " -",
        "v ipv4 0 0 0 0 0 0 0 0 0 0 00000000 00000000 - 00",
        "b ipv4 4606001800033234400600000a0000010a000002010101" + "0009",
        "v frag 255 8191 1 4294967295 -",
        "b frag 06aa000f0000000107",
        "b tcp 0001000200000003000000046e0200050006000701010100" + "09",
        "b tcp " + "ff" * 60,
        "b tcp " + "00" * 12 + "40" + "00" * 7,
    ]


# --------------------------------------------------------------------------
# generators
# --------------------------------------------------------------------------
def _edge(rng, bits):
    k = rng.below(8)
    top = (1 << bits) - 1
    if k == 0:
        return 0
    if k == 1:
        return top
    if k == 2:
        return 1 << (bits - 1)
    if k == 3:
        return top - 1
    if k == 4:
        return 1 << rng.below(bits)
    return rng.next() & top


def _blob(rng, n):
    k = rng.below(6)
    if k == 0:
        return bytes(n)
    if k == 1:
        return b"\xff" * n
    return rng.bytes(n)


def gen_tcp(rng, n_val, n_bytes):
    out = []
    # every flag combination
    for fl in range(512):
        ol = 4 * (fl % 11)
        out.append("v tcp %d %d %d %d %d %d %d %d %s %s" % (
            _edge(rng, 16), _edge(rng, 16), _edge(rng, 32), _edge(rng, 32), fl, _edge(rng, 16), _edge(rng, 16),
            _edge(rng, 16), hx(_blob(rng, ol)), hx(rng.bytes(rng.below(4)))))
    # every options length 0..40 (try_from_slice pads), 41 is rejected by the constructor
    for ol in range(0, 42):
        for _ in range(3):
            out.append("v tcp %d %d %d %d %d %d %d %d %s %s" % (
                _edge(rng, 16), _edge(rng, 16), _edge(rng, 32), _edge(rng, 32), rng.below(512), _edge(rng, 16),
                _edge(rng, 16), _edge(rng, 16), hx(_blob(rng, ol)), hx(rng.bytes(rng.below(6)))))
    for _ in range(n_val):
        ol = rng.below(41)
        out.append("v tcp %d %d %d %d %d %d %d %d %s %s" % (
            _edge(rng, 16), _edge(rng, 16), _edge(rng, 32), _edge(rng, 32), rng.below(512), _edge(rng, 16),
            _edge(rng, 16), _edge(rng, 16), hx(_blob(rng, ol)), hx(rng.bytes(rng.below(6)))))
    # bytes: every value of byte 12 and byte 13
    for b in range(256):
        d = bytearray(rng.bytes(64))
        d[12] = b
        out.append("b tcp " + hx(bytes(d)))
        d = bytearray(rng.bytes(64))
        d[12] = (rng.range(5, 15) << 4) | rng.below(16)
        d[13] = b
        out.append("b tcp " + hx(bytes(d[:rng.range(18, 64)])))
    for _ in range(n_bytes):
        doff = rng.range(5, 15) if rng.chance(9, 10) else rng.below(16)
        n = doff * 4 + rng.choice([0, 0, 1, 5, -1, -4]) if rng.chance(3, 4) else rng.below(70)
        d = bytearray(_blob(rng, max(n, 0)))
        if len(d) > 12:
            d[12] = (doff << 4) | rng.below(16)
        out.append("b tcp " + hx(bytes(d)))
    return out


def _fixed(rng, t, n, fix=None, count=100):
    out = []
    for _ in range(count):
        ln = n + rng.choice([0, 0, 0, 1, 7, -1]) if rng.chance(4, 5) else rng.below(n + 4)
        d = bytearray(_blob(rng, max(ln, 0)))
        if fix:
            fix(rng, d)
        out.append("b %s %s" % (t, hx(bytes(d))))
    return out


def gen_ipv4(rng, count):
    out = []
    # values: every options length (only multiples of 4 are constructible), extremes, out-of-range newtypes
    for ol in list(range(0, 45)) * 2:
        out.append("v ipv4 %d %d %d %d %d %d %d %d %d %d %s %s %s %s" % (
            _edge(rng, 6), _edge(rng, 2), _edge(rng, 16), _edge(rng, 16), rng.below(2), rng.below(2), _edge(rng, 13),
            _edge(rng, 8), _edge(rng, 8), _edge(rng, 16), hx(_blob(rng, 4)), hx(_blob(rng, 4)), hx(_blob(rng, ol)),
            hx(rng.bytes(rng.below(5)))))
    for dscp in (0, 1, 62, 63, 64, 255):
        for ecn in (0, 3, 4):
            for fo in (0, 1, 255, 256, 8191, 8192, 65535):
                out.append("v ipv4 %d %d %d %d %d %d %d %d %d %d %s %s %s -" % (
                    dscp, ecn, _edge(rng, 16), _edge(rng, 16), rng.below(2), rng.below(2), fo, _edge(rng, 8),
                    _edge(rng, 8), _edge(rng, 16), hx(_blob(rng, 4)), hx(_blob(rng, 4)), hx(_blob(rng, 4 * rng.below(11)))))
    for _ in range(count):
        out.append("v ipv4 %d %d %d %d %d %d %d %d %d %d %s %s %s %s" % (
            _edge(rng, 6), _edge(rng, 2), _edge(rng, 16), _edge(rng, 16), rng.below(2), rng.below(2), _edge(rng, 13),
            _edge(rng, 8), _edge(rng, 8), _edge(rng, 16), hx(_blob(rng, 4)), hx(_blob(rng, 4)),
            hx(_blob(rng, 4 * rng.below(11))), hx(rng.bytes(rng.below(5)))))
    for b in range(256):      # every value of bytes 0, 1, 6
        for pos in (0, 1, 6):
            d = bytearray(rng.bytes(64))
            d[0] = 0x40 | rng.range(5, 15)
            d[pos] = b
            out.append("b ipv4 " + hx(bytes(d)))
    for _ in range(count):
        ihl = rng.range(5, 15) if rng.chance(9, 10) else rng.below(16)
        n = ihl * 4 + rng.choice([0, 0, 2, -1, -4]) if rng.chance(3, 4) else rng.below(70)
        d = bytearray(_blob(rng, max(n, 0)))
        if d:
            d[0] = ((4 if rng.chance(15, 16) else rng.below(16)) << 4) | ihl
        out.append("b ipv4 " + hx(bytes(d)))
    return out


def gen_macsec(rng, count):
    out = []
    for b in range(256):
        d = bytearray(rng.bytes(20))
        d[0] = b
        out.append("b macsec " + hx(bytes(d)))
        d = bytearray(rng.bytes(20))
        d[0] &= 0x7F
        d[1] = b
        out.append("b macsec " + hx(bytes(d[:rng.range(5, 20)])))
    for _ in range(count):
        d = bytearray(_blob(rng, rng.range(0, 20)))
        if d and rng.chance(9, 10):
            d[0] &= 0x7F
        out.append("b macsec " + hx(bytes(d)))
    return out


def gen_auth(rng, count):
    out = []
    for pl in list(range(0, 8)) + [0x7F, 0x80, 0xFD, 0xFE, 0xFF]:
        for _ in range(3):
            n = (pl + 2) * 4
            d = bytearray(_blob(rng, n + rng.choice([0, 3, -1])))
            d[1] = pl
            out.append("b auth " + hx(bytes(d)))
    for _ in range(count):
        pl = rng.range(1, 12) if rng.chance(7, 8) else rng.below(256)
        n = (pl + 2) * 4 + rng.choice([0, 0, 1, -1, 8])
        d = bytearray(_blob(rng, max(n, 0)))
        if len(d) > 1:
            d[1] = pl
        out.append("b auth " + hx(bytes(d)))
    return out


def gen_rawext(rng, count):
    out = []
    for hl in list(range(0, 6)) + [0x7F, 0xFE, 0xFF]:
        for _ in range(3):
            n = 8 + 8 * hl
            d = bytearray(_blob(rng, n + rng.choice([0, 3, -1])))
            d[1] = hl
            out.append("b rawext " + hx(bytes(d)))
    for _ in range(count):
        hl = rng.range(0, 6) if rng.chance(7, 8) else rng.below(256)
        n = 8 + 8 * hl + rng.choice([0, 0, 1, -1, 8])
        d = bytearray(_blob(rng, max(n, 0)))
        if len(d) > 1:
            d[1] = hl
        out.append("b rawext " + hx(bytes(d)))
    return out


def gen_bytepos(rng, t, n, positions, fix=None):
    out = []
    for b in range(256):
        for pos in positions:
            d = bytearray(rng.bytes(n + 3))
            if fix:
                fix(rng, d)
            d[pos] = b
            out.append("b %s %s" % (t, hx(bytes(d))))
    return out


def _fix_ipv6(rng, d):
    if d:
        d[0] = (6 << 4) | (d[0] & 15) if rng.chance(15, 16) else d[0]


def _fix_sll(rng, d):
    if len(d) >= 4 and rng.chance(9, 10):
        d[0] = 0
        d[1] = rng.below(8)
        hrd = rng.choice([0, 1, 6, 772, 776, 778, 801, 803, 804, 824, 65534, 65535, rng.below(65536)])
        d[2] = hrd >> 8
        d[3] = hrd & 255


def gen_arp(rng, count):
    out = []
    for _ in range(count):
        hs = rng.choice([0, 1, 6, 6, 6, 8, 20, 255, rng.below(256)])
        ps = rng.choice([0, 1, 4, 4, 4, 16, 255, rng.below(256)])
        n = 8 + 2 * hs + 2 * ps + rng.choice([0, 0, 0, 3, -1])
        d = bytearray(_blob(rng, max(n, 0)))
        if len(d) > 5:
            d[4] = hs
            d[5] = ps
        out.append("b arp " + hx(bytes(d)))
        if rng.chance(1, 2):
            d = bytearray(_blob(rng, 28 + rng.below(3)))
            d[0:6] = bytes([0, 1, 8, 0, 6, 4])
            if rng.chance(1, 8):
                d[rng.below(6)] ^= 1 << rng.below(8)
            out.append("b arpeth " + hx(bytes(d)))
    return out


def gen_icmp(rng, t, count):
    out = []
    known4 = [0, 3, 4, 5, 8, 9, 10, 11, 12, 13, 14, 15, 16, 17, 18, 30, 42, 43]
    known6 = [1, 2, 3, 4, 100, 101, 127, 128, 129, 130, 131, 132, 133, 134, 135, 136, 137, 143, 200, 201, 255]
    known = known4 if t == "icmp4" else known6
    for ty in range(256):
        for code in list(range(0, 18)) + [255]:
            d = bytearray(rng.bytes(24))
            d[0] = ty
            d[1] = code
            out.append("b %s %s" % (t, hx(bytes(d))))
    # every value of the bytes that typed variants normalise (bytes 4..7) for the typed messages
    typed = [(3, 0), (3, 4), (11, 0), (12, 0), (12, 1), (5, 0), (13, 0)] if t == "icmp4" else \
            [(1, 0), (3, 0), (4, 1), (133, 0), (134, 0), (135, 0), (136, 0), (137, 0), (128, 0)]
    for (ty, code) in typed:
        for pos in (4, 5, 6, 7):
            for b in range(256):
                d = bytearray(rng.bytes(24))
                d[0] = ty
                d[1] = code
                d[pos] = b
                out.append("b %s %s" % (t, hx(bytes(d))))
    for _ in range(count):
        n = rng.choice([8, 8, 12, 16, 20, 24, 40, 7, 19, rng.below(48)])
        d = bytearray(_blob(rng, n))
        if len(d) > 1:
            d[0] = rng.choice(known) if rng.chance(7, 8) else rng.below(256)
            d[1] = rng.below(6) if rng.chance(3, 4) else rng.below(256)
        out.append("b %s %s" % (t, hx(bytes(d))))
    return out


def gen_igmp(rng, count):
    out = []
    for ty in range(256):
        for n in (8, 12, 16, 7, 11):
            d = bytearray(rng.bytes(n))
            d[0] = ty
            out.append("b igmp " + hx(bytes(d)))
    for _ in range(count):
        n = rng.choice([8, 12, 12, 16, 20, 7, 11, rng.below(24)])
        d = bytearray(_blob(rng, n))
        if d:
            d[0] = rng.choice([0x11, 0x12, 0x16, 0x17, 0x22, rng.below(256)])
        out.append("b igmp " + hx(bytes(d)))
    out += _fixed(rng, "grec", 8, count=count // 2)
    return out


def gen_prefix(rng, count):
    out = []
    for _ in range(count):
        d = bytearray(_blob(rng, 32 + rng.choice([0, 0, 0, 1, -1])))
        if len(d) > 1 and rng.chance(9, 10):
            d[0] = 3
            d[1] = 4
        out.append("b prefix " + hx(bytes(d)))
    return out


def _ah(rng, nxt):
    pl = rng.range(1, 6)
    d = bytearray(_blob(rng, (pl + 2) * 4))
    d[0] = nxt
    d[1] = pl
    m = _ones(len(d))
    m[2] = m[3] = 0
    return bytes(d), bytes(m)


def _rawx(rng, nxt):
    hl = rng.below(4)
    d = bytearray(_blob(rng, 8 + 8 * hl))
    d[0] = nxt
    d[1] = hl
    return bytes(d), bytes(_ones(len(d)))


def _fragx(rng, nxt):
    d = bytearray(_blob(rng, 8))
    d[0] = nxt
    m = _ones(8)
    m[1] = 0
    m[3] = 0xF9
    return bytes(d), bytes(m)


FINALS = [6, 17, 58, 1, 59, 253, 4, 41]


def _chain6(rng):
    """ipv6 extension chain in the order the struct can hold; returns (first number, bytes, mask)"""
    kinds = []
    if rng.chance(1, 2):
        kinds.append(0)
    if rng.chance(1, 3):
        kinds.append(60)
    if rng.chance(1, 3):
        kinds.append(43)
    if rng.chance(1, 3):
        kinds.append(44)
    if rng.chance(1, 3):
        kinds.append(51)
    if 43 in kinds and rng.chance(1, 3):
        kinds.append(60)
    if rng.chance(1, 10):      # disorder / duplicates: decoder may stop early or reject
        kinds.append(rng.choice([0, 43, 44, 51, 60]))
    final = rng.choice(FINALS)
    data = b""
    mask = b""
    for i, k in enumerate(kinds):
        nxt = kinds[i + 1] if i + 1 < len(kinds) else final
        if k == 44:
            d, m = _fragx(rng, nxt)
        elif k == 51:
            d, m = _ah(rng, nxt)
        else:
            d, m = _rawx(rng, nxt)
        data += d
        mask += m
    first = kinds[0] if kinds else final
    return first, data, mask


def gen_ext(rng, count):
    out = []
    for _ in range(count):
        # ipv4 extensions: AH or nothing
        if rng.chance(2, 3):
            d, m = _ah(rng, rng.choice(FINALS + [51]))
            trail = rng.bytes(rng.below(5))
            out.append("b ext4 %s %s" % (hx(bytes([51]) + d + trail), hx(b"\xff" + m)))
        else:
            out.append("b ext4 %s" % hx(bytes([rng.choice(FINALS)]) + rng.bytes(rng.below(12))))
        first, d, m = _chain6(rng)
        trail = rng.bytes(rng.below(5))
        if rng.chance(1, 12) and d:
            d = d[:rng.below(len(d))]
        out.append("b ext6 %s %s" % (hx(bytes([first]) + d + trail), hx(b"\xff" + m + b"\xff" * 8)))
    return out


def gen_iph(rng, count):
    out = []
    for _ in range(count):
        if rng.chance(1, 2):
            ihl = rng.range(5, 15) if rng.chance(1, 3) else 5
            h = bytearray(_blob(rng, ihl * 4))
            h[0] = 0x40 | ihl
            m = _ones(len(h))
            m[6] = 0x7F
            m[10] = m[11] = 0            # IpHeaders::write recomputes the IPv4 header checksum
            ext = b""
            em = b""
            if rng.chance(1, 2):
                ext, em = _ah(rng, rng.choice(FINALS))
                h[9] = 51
            elif h[9] == 51:
                h[9] = 6
            payload = rng.bytes(rng.below(12))
            tl = len(h) + len(ext) + len(payload)
            if rng.chance(1, 10):
                tl = rng.below(65536)
            h[2] = tl >> 8
            h[3] = tl & 255
            if rng.chance(1, 4):     # fragmented: extensions are not parsed
                h[6] |= 0x20
            if rng.chance(1, 2):     # valid header checksum: then write() must reproduce it
                h[6] &= 0x7F
                h[10] = h[11] = 0
                sm = sum((h[i] << 8) | h[i + 1] for i in range(0, len(h), 2))
                while sm >> 16:
                    sm = (sm & 0xFFFF) + (sm >> 16)
                sm = (~sm) & 0xFFFF
                h[10] = sm >> 8
                h[11] = sm & 255
                m[10] = m[11] = 0xFF
            out.append("b iph %s %s" % (hx(bytes(h) + ext + payload), hx(bytes(m) + em + b"\xff" * 16)))
        else:
            first, d, m = _chain6(rng)
            h = bytearray(_blob(rng, 40))
            h[0] = 0x60 | (h[0] & 15)
            h[6] = first
            payload = rng.bytes(rng.below(12))
            pl = len(d) + len(payload)
            if rng.chance(1, 10):
                pl = rng.below(65536)
            h[4] = pl >> 8
            h[5] = pl & 255
            out.append("b iph %s %s" % (hx(bytes(h) + d + payload), hx(b"\xff" * 40 + m + b"\xff" * 16)))
    return out


def gen_cases(rng, tier):
    big = tier == "thorough"
    k = 8 if big else 1
    cases = []
    cases += gen_tcp(rng, 1500 * k, 3000 * k)
    cases += gen_ipv4(rng, 2000 * k)
    cases += gen_macsec(rng, 1500 * k)
    cases += gen_auth(rng, 500 * k)
    cases += gen_rawext(rng, 500 * k)
    cases += gen_bytepos(rng, "frag", 8, (0, 1, 2, 3)) + _fixed(rng, "frag", 8, count=300 * k)
    for fo in list(range(0, 40)) + [255, 256, 257, 4095, 4096, 8190, 8191, 8192, 65535]:
        for mf in (0, 1):
            cases.append("v frag %d %d %d %d %s" % (_edge(rng, 8), fo, mf, _edge(rng, 32), hx(rng.bytes(rng.below(4)))))
    for _ in range(400 * k):
        cases.append("v frag %d %d %d %d %s" % (_edge(rng, 8), _edge(rng, 13), rng.below(2), _edge(rng, 32),
                                               hx(rng.bytes(rng.below(4)))))
    cases += gen_bytepos(rng, "ipv6", 40, (0, 1), _fix_ipv6) + _fixed(rng, "ipv6", 40, _fix_ipv6, 500 * k)
    cases += _fixed(rng, "udp", 8, count=300 * k)
    cases += _fixed(rng, "eth", 14, count=300 * k)
    cases += gen_bytepos(rng, "vlan", 4, (0, 1)) + _fixed(rng, "vlan", 4, count=200 * k)
    cases += gen_bytepos(rng, "sll", 16, (1, 3), _fix_sll) + _fixed(rng, "sll", 16, _fix_sll, 500 * k)
    cases += gen_arp(rng, 600 * k)
    cases += gen_icmp(rng, "icmp4", 1500 * k)
    cases += gen_icmp(rng, "icmp6", 1500 * k)
    cases += gen_igmp(rng, 800 * k)
    cases += gen_prefix(rng, 300 * k)
    cases += gen_ext(rng, 1200 * k)
    cases += gen_iph(rng, 1500 * k)
    return cases


# --------------------------------------------------------------------------
# comparison
# --------------------------------------------------------------------------
def _kv(line):
    d = {}
    for tok in line.split():
        if "=" in tok:
            a, b = tok.split("=", 1)
            d[a] = b
    return d


def _unhex(h):
    return b"" if h == "-" else bytes.fromhex(h)


def _tcp_canon_from_case(a):
    opt = _unhex(a[8])
    if len(opt) > 40:
        return None
    if len(opt) % 4:
        opt = opt + bytes(4 - len(opt) % 4)
    return ",".join(a[:8]) + "," + hx(opt)


def _ipv4_canon_from_case(a):
    v = [int(x) for x in a[:10]]
    lim = [63, 3, 65535, 65535, 1, 1, 8191, 255, 255, 65535]
    opt = _unhex(a[12])
    if any(x > m for x, m in zip(v, lim)) or len(opt) > 40 or len(opt) % 4 or len(_unhex(a[10])) != 4 \
            or len(_unhex(a[11])) != 4:
        return None
    return ",".join(a[:13])


def _frag_canon_from_case(a):
    v = [int(x) for x in a[:4]]
    if v[0] > 255 or v[1] > 8191 or v[2] > 1 or v[3] > 0xFFFFFFFF:
        return None
    return ",".join(a[:4])


CANON_FROM_CASE = {"tcp": _tcp_canon_from_case, "ipv4": _ipv4_canon_from_case, "frag": _frag_canon_from_case}


def _rfc1071(b):
    sm = sum((b[i] << 8) | b[i + 1] for i in range(0, len(b) - 1, 2))
    while sm >> 16:
        sm = (sm & 0xFFFF) + (sm >> 16)
    return (~sm) & 0xFFFF


def _check_wc(f, enc):
    """IPv4 write(): the to_bytes image with the RFC 1071 header checksum filled in"""
    if "wc" not in f:
        return None
    z = bytearray(enc)
    z[10] = z[11] = 0
    ck = _rfc1071(z)
    z[10] = ck >> 8
    z[11] = ck & 255
    if _unhex(f["wc"]) != bytes(z):
        return "write() gives %s, expected the header with checksum %04x" % (f["wc"], ck)
    return None


def _oracle(parts, il):
    """property relation on the implementation's own answers; returns None or a reason"""
    kind, t = parts[0], parts[1]
    if il.startswith("PANIC") or il.startswith("CRASH") or il.startswith("NOT-RUN"):
        return il[:200]
    if kind == "v":
        want = CANON_FROM_CASE[t](parts[2:])
        if want is None:
            return None if il == "noval" else "constructor accepted an oversized value: " + il[:80]
        f = _kv(il)
        trail = _unhex(parts[-1])
        if f.get("v") != want:
            return "constructed value %s is not the requested %s" % (f.get("v"), want)
        tb = _unhex(f["tb"])
        if f["w"] != f["tb"]:
            return "write != to_bytes"
        if f["ws"] != "-" and f["ws"] != f["tb"]:
            return "write_to_slice != to_bytes"
        if len(tb) != int(f["hl"]):
            return "len(to_bytes)=%d header_len=%s" % (len(tb), f["hl"])
        if f["d"] != "%s/%d" % (want, len(trail)):
            return "decode(encode v ++ rest) = %s, want %s/%d" % (f["d"], want, len(trail))
        if f["eq"] != "1":
            return "decoded value not == original"
        if f["rd"] != "-" and f["rd"] != f["d"]:
            return "read gives %s, from_slice %s" % (f["rd"], f["d"])
        return _check_wc(f, tb)
    # byte string
    data = _unhex(parts[2])
    if il.startswith("err"):
        return None
    f = _kv(il)
    used = int(f["used"])
    re = _unhex(f["re"])
    if used > len(data):
        return "consumed %d of %d bytes" % (used, len(data))
    if f["w"] != f["re"]:
        return "write != to_bytes on the decoded value"
    if f["ws"] != "-" and f["ws"] != f["re"]:
        return "write_to_slice != to_bytes on the decoded value"
    if len(re) != int(f["hl"]) or used != len(re):
        return "consumed %d, re-encoded %d, header_len %s" % (used, len(re), f["hl"])
    cons = data[:used]
    if len(parts) > 3:
        keep = _unhex(parts[3])[:used]
        keep = keep + b"\xff" * (used - len(keep))
    elif t in MASKS:
        keep = MASKS[t](cons)
    else:
        keep = _ones(used)
    for i in range(used):
        if (re[i] ^ cons[i]) & keep[i]:
            return "re-encoded byte %d is %02x, was %02x (keep mask %02x)" % (i, re[i], cons[i], keep[i])
    if f["d2"] != "%s/%d" % (f["v"], len(data) - used):
        return "decode(encode(decode bs) ++ rest) = %s, first decode %s/%d" % (f["d2"], f["v"], len(data) - used)
    if f["rd"] != "-" and f["rd"] != "%s/%d" % (f["v"], len(data) - used):
        return "read gives %s, from_slice %s/%d" % (f["rd"], f["v"], len(data) - used)
    return _check_wc(f, re)


def compare(ctx, cases, impl, model_lines):
    corr, orc = [], []
    hist = {}
    seen = set()
    nontriv = 0
    per_type = {t: {"cases": 0, "accepted": 0, "values": 0} for t in ALL_TYPES}
    spec_checked = 0
    for i, c in enumerate(cases):
        parts = c.split()
        kind, t = parts[0], parts[1]
        pt = per_type.setdefault(t, {"cases": 0, "accepted": 0, "values": 0})
        pt["cases"] += 1
        first = True
        m = s = None
        if model_lines is not None:
            ml = model_lines[i]
            if " | " in ml:
                m, s = ml.split(" | ")
            else:
                m, s = ml, None
        for prof, lines in impl.items():
            il = lines[i]
            if first:
                first = False
                if kind == "v":
                    pt["values"] += 1
                elif il.startswith("ok"):
                    pt["accepted"] += 1
                elif il.startswith("err rd=ok"):
                    hist["read_accepts_where_from_slice_rejects"] = hist.get("read_accepts_where_from_slice_rejects", 0) + 1
                if c not in seen:
                    seen.add(c)
                    if kind == "v" or il.startswith("ok"):
                        nontriv += 1
            if m is not None and m != "NOMODEL" and il != m:
                corr.append((i, "%s: impl '%s' model '%s'" % (prof, il[:300], m[:300])))
            elif m == "NOMODEL" and t in PROVED:
                corr.append((i, "model runner has no model for proved type " + t))
            why = _oracle(parts, il)
            if why is not None:
                orc.append((i, "%s %s: %s" % (prof, t, why), None))
            elif s is not None and s != "-" and m != "NOMODEL":
                # Spec column: value cases -> RFC layout bytes; byte cases -> the model's keep mask
                f = _kv(il)
                if kind == "v" and "tb" in f:
                    spec_checked += 1
                    if f["tb"] != s:
                        orc.append((i, "%s %s: to_bytes %s differs from the RFC layout %s" % (prof, t, f["tb"], s), None))
                elif kind == "b" and il.startswith("ok") and t in MASKS:
                    spec_checked += 1
                    if hx(bytes(MASKS[t](_unhex(parts[2])[:int(f["used"])]))) != s:
                        corr.append((i, "%s %s: model keep-mask %s differs from the checker's mask" % (prof, t, s)))
    for t, d in per_type.items():
        hist[t + ":cases"] = d["cases"]
        hist[t + ":values"] = d["values"]
        hist[t + ":accepted_bytes"] = d["accepted"]
    extra = {
        "types_proved": [TYPE_NAMES[t] for t in PROVED],
        "types_correspondence_only": [TYPE_NAMES[t] for t in ALL_TYPES if t not in PROVED],
        "spec_layout_or_mask_checked": spec_checked,
    }
    return {"corr_mismatch": corr, "oracle_fail": orc, "hist": hist, "nontrivial": nontriv,
            "samples": [cases[0], cases[len(cases) // 2], cases[-1]], "extra": extra}


# ---- link/net types (extend-c08a) ----
# Types that now have a Coq model + theorems; value ("v") cases with a canonical
# value string; EXPECT_REJECT: constructible values that the decoder must reject
# (excluded by the wf predicate of the theorem, see C08_Macsec_excluded_rejected).
EXPECT_REJECT = {}


def _num(x, top):
    return x != "-" and x.isdigit() and int(x) <= top


def _macsec_canon_from_case(a):
    p, et, es, scb, an, sl, pn, sci = a[:8]
    if p not in ("0", "1", "2", "3") or es not in "01" or scb not in "01":
        return None
    if (p == "0") != (et != "-") or (p == "0" and not _num(et, 65535)):
        return None
    if not _num(an, 3) or not _num(sl, 63) or not _num(pn, 0xFFFFFFFF) or (sci != "-" and not _num(sci, (1 << 64) - 1)):
        return None
    return ",".join(a[:8])


CANON_FROM_CASE["macsec"] = _macsec_canon_from_case
EXPECT_REJECT["macsec"] = lambda a: a[0] == "0" and a[5] == "1"
PROVED += ["macsec"]


def gen_macsec_values(rng, count):
    out = []
    for p in range(4):
        for has_sci in (0, 1):
            for an in range(4):
                for fl in range(4):
                    for sl in range(64):
                        out.append("v macsec %d %s %d %d %d %d %d %s %s" % (
                            p, str(_edge(rng, 16)) if p == 0 else "-", fl & 1, fl >> 1, an, sl, _edge(rng, 32),
                            str(_edge(rng, 64)) if has_sci else "-", hx(rng.bytes(rng.below(4)))))
    for _ in range(count):
        p = rng.below(4)
        out.append("v macsec %d %s %d %d %d %d %d %s %s" % (
            p, str(_edge(rng, 16)) if p == 0 else "-", rng.below(2), rng.below(2), rng.below(4), rng.below(64),
            _edge(rng, 32), str(_edge(rng, 64)) if rng.chance(1, 2) else "-", hx(rng.bytes(rng.below(20)))))
    # out of range for the newtypes: must not be constructible
    out += ["v macsec 0 65536 0 0 0 0 0 - -", "v macsec 1 - 0 0 4 0 0 - -", "v macsec 2 - 0 0 0 64 0 - -",
            "v macsec 3 - 0 0 0 0 4294967296 - -", "v macsec 3 - 0 0 0 0 0 18446744073709551616 -"]
    return out


def _auth_canon_from_case(a):
    nh, spi, sq, icv, stale = a[:5]
    if not _num(nh, 255) or not _num(spi, 0xFFFFFFFF) or not _num(sq, 0xFFFFFFFF):
        return None
    for x in (icv,) if stale == "-" else (icv, stale):
        n = len(_unhex(x))
        if n > 1016 or n % 4:
            return None
    return "%s,%s,%s,%s" % (nh, spi, sq, icv)


def _rawext_canon_from_case(a):
    nh, pl, stale = a[:3]
    if not _num(nh, 255):
        return None
    for x in (pl,) if stale == "-" else (pl, stale):
        n = len(_unhex(x))
        if n < 6 or n > 2046 or (n + 2) % 8:
            return None
    return "%s,%s" % (nh, pl)


def _ipv6_canon_from_case(a):
    tc, fl, pl, nh, hop, src, dst = a[:7]
    if not (_num(tc, 255) and _num(fl, 0xFFFFF) and _num(pl, 65535) and _num(nh, 255) and _num(hop, 255)):
        return None
    if len(_unhex(src)) != 16 or len(_unhex(dst)) != 16:
        return None
    return ",".join(a[:7])


CANON_FROM_CASE["auth"] = _auth_canon_from_case
CANON_FROM_CASE["rawext"] = _rawext_canon_from_case
CANON_FROM_CASE["ipv6"] = _ipv6_canon_from_case
PROVED += ["auth", "rawext", "ipv6"]


def gen_auth_values(rng, count):
    out = []
    # every ICV length 0, 4, .., 1016; every second one with stale bytes behind the ICV (set_raw_icv)
    for k in range(0, 255):
        stale = "-"
        if k % 2 and k < 254:
            stale = hx(_blob(rng, 4 * rng.range(k + 1, 254)) or b"")
        out.append("v auth %d %d %d %s %s %s" % (_edge(rng, 8), _edge(rng, 32), _edge(rng, 32), hx(_blob(rng, 4 * k)),
                                                 stale, hx(rng.bytes(rng.below(5)))))
    for n in (1, 2, 3, 5, 1015, 1017, 1018, 1019, 1020, 2000):      # unaligned / too big
        out.append("v auth 6 1 2 %s - -" % hx(rng.bytes(n)))
    out += ["v auth 256 0 0 - - -", "v auth 0 4294967296 0 - - -", "v auth 0 0 4294967296 - - -",
            "v auth 6 1 2 01020304 0102030405 -"]
    for _ in range(count):
        k = rng.below(12) if rng.chance(3, 4) else rng.below(255)
        stale = hx(rng.bytes(4 * rng.below(255))) if rng.chance(1, 3) else "-"
        out.append("v auth %d %d %d %s %s %s" % (_edge(rng, 8), _edge(rng, 32), _edge(rng, 32), hx(_blob(rng, 4 * k)),
                                                 stale, hx(rng.bytes(rng.below(9)))))
    return out


def gen_rawext_values(rng, count):
    out = []
    for k in range(0, 256):                  # every payload length 6, 14, .., 2046
        stale = "-"
        if k % 2 and k < 255:
            stale = hx(_blob(rng, 6 + 8 * rng.range(k + 1, 255)))
        out.append("v rawext %d %s %s %s" % (_edge(rng, 8), hx(_blob(rng, 6 + 8 * k)), stale,
                                             hx(rng.bytes(rng.below(5)))))
    for n in (0, 1, 5, 7, 8, 13, 15, 2045, 2047, 2054, 3000):        # too small / unaligned / too big
        out.append("v rawext 0 %s - -" % hx(rng.bytes(n)))
    out += ["v rawext 256 010203040506 - -", "v rawext 0 010203040506 0102030405 -"]
    for _ in range(count):
        k = rng.below(6) if rng.chance(3, 4) else rng.below(256)
        stale = hx(rng.bytes(6 + 8 * rng.below(256))) if rng.chance(1, 3) else "-"
        out.append("v rawext %d %s %s %s" % (_edge(rng, 8), hx(_blob(rng, 6 + 8 * k)), stale,
                                             hx(rng.bytes(rng.below(9)))))
    return out


def gen_ipv6_values(rng, count):
    out = []
    for tc in range(256):                    # every traffic class, flow label edges (nibble shared with byte 1)
        for fl in (0, 0xFFFFF, 0xF0000, 0x0FFFF, _edge(rng, 20)):
            out.append("v ipv6 %d %d %d %d %d %s %s %s" % (tc, fl, _edge(rng, 16), _edge(rng, 8), _edge(rng, 8),
                                                           hx(_blob(rng, 16)), hx(_blob(rng, 16)),
                                                           hx(rng.bytes(rng.below(4)))))
    out += ["v ipv6 256 0 0 0 0 %s %s -" % ("00" * 16, "00" * 16), "v ipv6 0 1048576 0 0 0 %s %s -" % ("00" * 16, "00" * 16),
            "v ipv6 0 0 65536 0 0 %s %s -" % ("00" * 16, "00" * 16), "v ipv6 0 0 0 0 0 %s %s -" % ("00" * 15, "00" * 16),
            "v ipv6 0 0 0 0 0 %s %s -" % ("00" * 16, "00" * 17)]
    for _ in range(count):
        out.append("v ipv6 %d %d %d %d %d %s %s %s" % (_edge(rng, 8), _edge(rng, 20), _edge(rng, 16), _edge(rng, 8),
                                                       _edge(rng, 8), hx(_blob(rng, 16)), hx(_blob(rng, 16)),
                                                       hx(rng.bytes(rng.below(9)))))
    return out


def _eth_canon_from_case(a):
    dst, src, et = a[:3]
    if len(_unhex(dst)) != 6 or len(_unhex(src)) != 6 or not _num(et, 65535):
        return None
    return "%s,%s,%s" % (dst, src, et)


def _vlan_canon_from_case(a):
    pcp, dei, vid, et = a[:4]
    if not (_num(pcp, 7) and dei in ("0", "1") and _num(vid, 4095) and _num(et, 65535)):
        return None
    return ",".join(a[:4])


NONSTD = set(list(range(1, 10)) + [12, 13, 14, 16, 17] + list(range(0x15, 0x1D)) + list(range(0xF5, 0xFB)))
SLL_HRD = {824: ("nl",), 778: ("gre",), 803: ("ign",), 770: ("ign",), 1: ("et", "ns")}


def _sll_canon_from_case(a):
    pt, hrd, savl, addr, kind, v = a[:6]
    if not (_num(pt, 7) and _num(hrd, 65535) and _num(savl, 65535) and _num(v, 65535)) or len(_unhex(addr)) != 8:
        return None
    if kind not in ("ign", "nl", "gre", "et", "ns") or (kind == "ns" and int(v) not in NONSTD):
        return None
    return ",".join(a[:6])


def _sll_inconsistent(a):
    hrd, kind, v = int(a[1]), a[4], int(a[5])
    if hrd not in SLL_HRD or kind not in SLL_HRD[hrd]:
        return True
    return kind == "et" and v in NONSTD


def _arp_canon_from_case(a):
    hat, pat, op, sh, sp, th, tp, pre = a[:8]
    if not (_num(hat, 65535) and _num(pat, 65535) and _num(op, 65535)):
        return None
    l = [len(_unhex(x)) for x in (sh, sp, th, tp)]
    if l[0] != l[2] or l[1] != l[3] or l[0] > 255 or l[1] > 255:
        return None
    if pre != "-" and any(int(x) > 255 for x in pre.split(",")):
        return None
    return "%s,%s,%d,%d,%s,%s,%s,%s,%s" % (hat, pat, l[0], l[1], op, sh, sp, th, tp)


def _arpeth_canon_from_case(a):
    op, sm, si, tm, ti = a[:5]
    if not _num(op, 65535) or [len(_unhex(x)) for x in (sm, si, tm, ti)] != [6, 4, 6, 4]:
        return None
    return ",".join(a[:5])


CANON_FROM_CASE["eth"] = _eth_canon_from_case
CANON_FROM_CASE["vlan"] = _vlan_canon_from_case
CANON_FROM_CASE["sll"] = _sll_canon_from_case
CANON_FROM_CASE["arp"] = _arp_canon_from_case
CANON_FROM_CASE["arpeth"] = _arpeth_canon_from_case
# constructible LinuxSllHeader values whose protocol type variant does not belong to the ARP
# hardware id: must NOT come back equal (C08_Sll_inconsistent_not_roundtrip)
EXPECT_NOT_ROUNDTRIP = {"sll": _sll_inconsistent}
PROVED += ["eth", "vlan", "sll", "arp", "arpeth"]


def gen_eth_values(rng, count):
    out = []
    for _ in range(count):
        out.append("v eth %s %s %d %s" % (hx(_blob(rng, 6)), hx(_blob(rng, 6)), _edge(rng, 16), hx(rng.bytes(rng.below(5)))))
    out += ["v eth 0102030405 010203040506 1 -", "v eth 010203040506 01020304050607 1 -", "v eth 010203040506 010203040506 65536 -"]
    return out


def gen_vlan_values(rng, count):
    out = []
    for pcp in range(8):                      # every pcp, dei and high nibble of the id (one byte)
        for dei in (0, 1):
            for hi in range(16):
                vid = (hi << 8) | rng.below(256)
                out.append("v vlan %d %d %d %d %s" % (pcp, dei, vid, _edge(rng, 16), hx(rng.bytes(rng.below(4)))))
    for _ in range(count):
        out.append("v vlan %d %d %d %d %s" % (rng.below(8), rng.below(2), _edge(rng, 12), _edge(rng, 16),
                                              hx(rng.bytes(rng.below(4)))))
    out += ["v vlan 8 0 0 0 -", "v vlan 0 0 4096 0 -", "v vlan 0 0 0 65536 -"]
    return out


def gen_sll_values(rng, count, big):
    out = []
    hrds = [824, 778, 803, 770, 1]
    kinds = ["ign", "nl", "gre", "et", "ns"]
    # every packet type incl. the first invalid ones, every hardware id x kind (consistent and not)
    for pt in range(0, 10):
        for hrd in hrds + [0, 2, 6, 769, 771, 777, 779, 802, 804, 823, 825, 65535]:
            for kind in kinds:
                v = rng.choice(sorted(NONSTD)) if kind == "ns" or rng.chance(1, 4) else _edge(rng, 16)
                out.append("v sll %d %d %d %s %s %d %s" % (pt, hrd, _edge(rng, 16), hx(_blob(rng, 8)), kind, v,
                                                           hx(rng.bytes(rng.below(3)))))
    # ethernet: every protocol value in the LinuxNonstandardEtherType range and around it (all u16 in thorough)
    top = 65536 if big else 0x120
    for v in range(top):
        for kind in ("et", "ns"):
            out.append("v sll %d 1 %d %s %s %d -" % (rng.below(8), _edge(rng, 16), hx(_blob(rng, 8)), kind, v))
    for _ in range(count):
        hrd = rng.choice(hrds)
        kind = rng.choice(SLL_HRD[hrd]) if rng.chance(7, 8) else rng.choice(kinds)
        v = rng.choice(sorted(NONSTD)) if kind == "ns" else _edge(rng, 16)
        out.append("v sll %d %d %d %s %s %d %s" % (rng.below(8), hrd, _edge(rng, 16), hx(_blob(rng, 8)), kind, v,
                                                   hx(rng.bytes(rng.below(5)))))
    return out


def gen_sll_bytes(rng, big):
    out = []
    top = 65536 if big else 0x120
    for v in range(top):                      # protocol field values for ARPHRD_ETHER
        d = bytearray(rng.bytes(16 + rng.below(3)))
        d[0:4] = bytes([0, rng.below(8), 0, 1])
        d[14] = v >> 8
        d[15] = v & 255
        out.append("b sll " + hx(bytes(d)))
    for hrd in range(1024 if not big else 65536):   # hardware ids
        d = bytearray(rng.bytes(16))
        d[0:4] = bytes([0, rng.below(8), hrd >> 8, hrd & 255])
        out.append("b sll " + hx(bytes(d)))
    return out


def gen_arp_values(rng, count):
    out = []
    for hs in list(range(0, 9)) + [20, 127, 128, 254, 255]:
        for ps in list(range(0, 6)) + [16, 128, 255]:
            pre = "-" if rng.chance(1, 2) else "%d,%d" % (rng.below(256), rng.below(256))
            out.append("v arp %d %d %d %s %s %s %s %s %s" % (
                _edge(rng, 16), _edge(rng, 16), _edge(rng, 16), hx(_blob(rng, hs)), hx(_blob(rng, ps)),
                hx(_blob(rng, hs)), hx(_blob(rng, ps)), pre, hx(rng.bytes(rng.below(4)))))
    out += ["v arp 1 2048 1 010203 01 0102 01 - -", "v arp 1 2048 1 01 0102 01 01 - -",
            "v arp 1 2048 1 %s 01 %s 01 - -" % ("00" * 256, "00" * 256), "v arp 65536 0 0 - - - - - -",
            "v arp 1 2048 1 01 02 03 04 256,1 -"]
    for _ in range(count):
        hs = rng.choice([6, 6, 0, 1, 8, rng.below(256)])
        ps = rng.choice([4, 4, 0, 16, rng.below(256)])
        pre = "-" if rng.chance(2, 3) else "%d,%d" % (rng.below(256), rng.below(256))
        out.append("v arp %d %d %d %s %s %s %s %s %s" % (
            _edge(rng, 16), _edge(rng, 16), _edge(rng, 16), hx(_blob(rng, hs)), hx(_blob(rng, ps)),
            hx(_blob(rng, hs)), hx(_blob(rng, ps)), pre, hx(rng.bytes(rng.below(6)))))
        out.append("v arpeth %d %s %s %s %s %s" % (_edge(rng, 16), hx(_blob(rng, 6)), hx(_blob(rng, 4)),
                                                   hx(_blob(rng, 6)), hx(_blob(rng, 4)), hx(rng.bytes(rng.below(4)))))
    out += ["v arpeth 1 0102030405 01020304 010203040506 01020304 -", "v arpeth 65536 010203040506 01020304 010203040506 01020304 -"]
    return out


def _ext4_canon_from_case(a):
    start, auth = a[:2]
    if not _num(start, 255):
        return None
    if auth == "-":
        return "%s,%s,-" % (start, start)
    f = auth.split(":")
    n = len(_unhex(f[3]))
    if len(f) != 4 or not (_num(f[0], 255) and _num(f[1], 0xFFFFFFFF) and _num(f[2], 0xFFFFFFFF)) or n > 1016 or n % 4:
        return None
    return "%s,%s,%s" % (start, f[0], auth)


CANON_FROM_CASE["ext4"] = _ext4_canon_from_case
# authentication header present but not announced by the start number (write refuses), or announced but absent
EXPECT_NOT_ROUNDTRIP["ext4"] = lambda a: (a[1] != "-") != (a[0] == "51")
PROVED += ["ext4"]


def gen_ext4_values(rng, count):
    out = []
    for k in list(range(0, 12)) + [127, 253, 254]:
        out.append("v ext4 51 %d:%d:%d:%s %s" % (_edge(rng, 8), _edge(rng, 32), _edge(rng, 32), hx(_blob(rng, 4 * k)),
                                                 hx(rng.bytes(rng.below(5)))))
    for start in list(range(0, 256)):
        out.append("v ext4 %d - %s" % (start, hx(rng.bytes(rng.below(20)))))      # 51 without a header: not a round trip
    for _ in range(count):
        start = 51 if rng.chance(7, 8) else rng.below(256)
        nh = rng.choice(FINALS + [51, _edge(rng, 8)])
        out.append("v ext4 %d %d:%d:%d:%s %s" % (start, nh, _edge(rng, 32), _edge(rng, 32), hx(_blob(rng, 4 * rng.below(8))),
                                                 hx(rng.bytes(rng.below(5)))))
    out += ["v ext4 256 - -", "v ext4 51 6:1:2:010203 -", "v ext4 51 256:1:2:01020304 -"]
    return out


def gen_linknet(rng, tier):
    k = 8 if tier == "thorough" else 1
    cases = []
    cases += gen_ext4_values(rng, 300 * k)
    cases += gen_macsec_values(rng, 500 * k)
    cases += gen_eth_values(rng, 300 * k)
    cases += gen_vlan_values(rng, 300 * k)
    cases += gen_sll_values(rng, 500 * k, tier == "thorough")
    cases += gen_sll_bytes(rng, tier == "thorough")
    cases += gen_arp_values(rng, 400 * k)
    cases += gen_auth_values(rng, 300 * k)
    cases += gen_rawext_values(rng, 300 * k)
    cases += gen_ipv6_values(rng, 500 * k)
    return cases


_corpus_base_c08a = corpus


def corpus():
    return _corpus_base_c08a() + [
        "v macsec 0 65535 1 1 3 63 4294967295 18446744073709551615 -",
        "v macsec 2 - 0 0 0 1 1 - 0102",
        "v macsec 0 2048 0 0 0 1 7 - -",                 # excluded value: Unmodified + short_len 1
        "b macsec 2cc5000000090102030405060708aa",       # reserved bits of the short length octet set
        "b macsec 000100000007" + "0800",                # InvalidUnmodifiedShortLen
        "v auth 255 4294967295 4294967295 " + "ff" * 1016 + " - -",
        "v auth 6 1 2 01020304 " + "aa" * 16 + " 09",    # stale bytes behind the ICV
        "b auth 0602abcd000000010000000201020304" + "09",  # reserved bytes 2-3 set
        "v rawext 255 " + "ff" * 2046 + " - -",
        "v rawext 43 010203040506 " + "aa" * 14 + " 09",
        "v ipv6 255 1048575 65535 255 255 " + "ff" * 16 + " " + "ff" * 16 + " -",
        "v ipv6 165 74565 8 17 64 " + "01" * 16 + " " + "02" * 16 + " 09",
        "v eth ffffffffffff 010203040506 2048 09",
        "v vlan 7 1 4095 65535 -",
        "v sll 4 1 6 0102030405060000 et 2048 09",
        "v sll 7 1 65535 ffffffffffffffff ns 250 -",
        "v sll 0 1 0 0000000000000000 ign 5 -",          # inconsistent: decodes to LinuxNonstandardEtherType(5)
        "v sll 0 6 0 0000000000000000 et 2048 -",        # unsupported hardware id: rejected
        "v arp 65535 65535 65535 07 - 08 - 3,1 0909",    # stale initialised bytes behind the addresses
        "v arp 1 2048 1 " + "11" * 255 + " " + "22" * 255 + " " + "33" * 255 + " " + "44" * 255 + " - -",
        "v arpeth 1 010203040506 0a000001 000000000000 0a000002 09",
    ]


_gen_cases_base_c08a = gen_cases


def gen_cases(rng, tier):
    return _gen_cases_base_c08a(rng, tier) + gen_linknet(rng, tier)


_oracle_base_c08a = _oracle


def _oracle(parts, il):
    kind, t = parts[0], parts[1]
    if kind == "v" and t in EXPECT_REJECT and CANON_FROM_CASE[t](parts[2:]) is not None and EXPECT_REJECT[t](parts[2:]):
        if il.startswith("PANIC") or il.startswith("CRASH") or il.startswith("NOT-RUN"):
            return il[:200]
        f = _kv(il)
        want = CANON_FROM_CASE[t](parts[2:])
        if f.get("v") != want:
            return "constructed value %s is not the requested %s" % (f.get("v"), want)
        if f["w"] != f["tb"] or len(_unhex(f["tb"])) != int(f["hl"]):
            return "serialisers disagree on an excluded value"
        if f["d"] != "err" or f["rd"] not in ("err", "-"):
            return "excluded value (wf predicate false) was accepted by a decoder: d=%s rd=%s" % (f["d"], f["rd"])
        return None
    if kind == "v" and t in EXPECT_NOT_ROUNDTRIP and CANON_FROM_CASE[t](parts[2:]) is not None \
            and EXPECT_NOT_ROUNDTRIP[t](parts[2:]):
        if il.startswith("PANIC") or il.startswith("CRASH") or il.startswith("NOT-RUN"):
            return il[:200]
        f = _kv(il)
        want = CANON_FROM_CASE[t](parts[2:])
        if f.get("v") != want:
            return "constructed value %s is not the requested %s" % (f.get("v"), want)
        refused = f["tb"].endswith("dead")       # the serialiser itself refuses the value (write -> Err)
        if f["w"] != f["tb"] or (f["ws"] != "-" and f["ws"] != f["tb"]) or \
                (len(_unhex(f["tb"])) != int(f["hl"]) and not refused):
            return "serialisers disagree on an inconsistent value"
        if f["eq"] == "1" or f["d"].split("/")[0] == want or f.get("fb") == want:
            return "inconsistent value (wf predicate false) came back unchanged: d=%s" % f["d"]
        return None
    why = _oracle_base_c08a(parts, il)
    if why is None and kind == "v" and not il.startswith("noval"):
        f = _kv(il)
        if "fb" in f and f["fb"] != f.get("v"):
            return "from_bytes(to_bytes v) = %s, not v" % f["fb"]
    return why


# Ipv6Extensions: theorems C08_Exts6_* are stated on the model of property C12 (ExtChain/Model.v), which
# C12's own run ties to the crate; in this run the type keeps the implementation-only oracle
_compare_base_c08a = compare


def compare(ctx, cases, impl, model_lines):
    res = _compare_base_c08a(ctx, cases, impl, model_lines)
    ex = res.setdefault("extra", {})
    name = TYPE_NAMES["ext6"]
    ex["types_proved_on_C12_model"] = [name + " (from_slice/write; read not modelled)"]
    if "types_correspondence_only" in ex:
        ex["types_correspondence_only"] = [x for x in ex["types_correspondence_only"] if x != name]
    return res
# ---- end extend-c08a ----


# ---- transport/control types (extend-c08b) ----
# udp, icmp4, (icmp6, igmp, grec, prefix) now have a Coq model + theorems
# (Roundtrip/PropsTransport.v).  Their byte-string cases are compared byte-exactly with
# the model (re-encoded bytes, verdicts of from_slice/read, consumed length); the Rust
# harness prints `=` for an equal value (crate PartialEq), the model runner likewise.
PROVED_C08B = ["udp", "icmp4", "icmp6", "igmp", "grec", "prefix"]
PROVED += PROVED_C08B
MASKS["udp"] = lambda c: _ones(len(c))            # no reserved bits in a UDP header
MASKS["grec"] = lambda c: _ones(len(c))           # no reserved bits in a group record header


def gen_transport(rng, tier):
    k = 8 if tier == "thorough" else 1
    out = []
    # udp: extremes of each field, every length around 8
    for n in range(0, 12):
        for fill in (b"\x00", b"\xff"):
            out.append("b udp " + hx(fill * n))
    for pos in range(8):
        for b in (0, 1, 0x7F, 0x80, 0xFE, 0xFF):
            d = bytearray(rng.bytes(8 + rng.below(3)))
            d[pos] = b
            out.append("b udp " + hx(bytes(d)))
    # icmp4 timestamp / timestamp reply: from_slice wants exactly 20 bytes, read takes 20 of more
    for ty in (13, 14):
        for code in (0, 0, 0, 1):
            for n in (8, 19, 20, 20, 20, 21, 24):
                for _ in range(4 * k):
                    d = bytearray(_blob(rng, n))
                    d[0] = ty
                    d[1] = code
                    out.append("b icmp4 " + hx(bytes(d)))
    # icmp4: every (type, code) of the typed variants and their neighbours with all-ones / all-zero rest
    for ty in (0, 3, 4, 5, 8, 11, 12, 13, 14, 15):
        for code in range(0, 18):
            for fill in (b"\x00", b"\xff"):
                d = bytearray(fill * 10)
                d[0] = ty
                d[1] = code
                out.append("b icmp4 " + hx(bytes(d)))
    # every typed (type, code) pair of ICMPv4 / ICMPv6 with several rest-of-header words (first
    # mutant round: a wrong variant for (11, 1) / a byte-swapped MTU for (2, 0) were hit by < 20 cases)
    typed4 = [(0, 0), (8, 0)] + [(3, c) for c in range(16)] + [(5, c) for c in range(4)] + [(11, 0), (11, 1),
             (12, 0), (12, 1), (12, 2)]
    typed6 = [(1, c) for c in range(7)] + [(2, 0), (3, 0), (3, 1)] + [(4, c) for c in range(11)] + \
             [(128, 0), (129, 0), (133, 0), (134, 0), (135, 0), (136, 0), (137, 0)]
    for tag, typed in (("icmp4", typed4), ("icmp6", typed6)):
        for (ty, code) in typed:
            for j in range(12 * k):
                d = bytearray(_blob(rng, 8 + rng.choice([0, 0, 1, 4, 16])))
                d[0] = ty
                d[1] = code
                if j == 0:
                    d[4:8] = b"\x01\x02\x03\x04"
                out.append("b %s %s" % (tag, hx(bytes(d))))
    # ndp prefix information: every value of the flag byte 3 and of the reserved2 bytes
    for b in range(256):
        d = bytearray(rng.bytes(32))
        d[0], d[1] = 3, 4
        d[3] = b
        out.append("b prefix " + hx(bytes(d)))
        d = bytearray(rng.bytes(32))
        d[0], d[1] = 3, 4
        d[12 + (b & 3)] = b
        out.append("b prefix " + hx(bytes(d) + rng.bytes(b & 1)))
    for t0 in (2, 3, 4):
        for l0 in (3, 4, 5):
            out.append("b prefix " + hx(bytes([t0, l0]) + rng.bytes(30)))
    # igmp: every kind at the lengths that decide the query version; group records
    for ty in (0x11, 0x12, 0x16, 0x17, 0x22, 0x10, 0x23, 0x00, 0xff):
        for n in range(7, 18):
            for fill in (None, b"\x00", b"\xff"):
                d = bytearray(rng.bytes(n) if fill is None else fill * n)
                d[0] = ty
                out.append("b igmp " + hx(bytes(d)))
    for n in range(6, 12):
        for fill in (b"\x00", b"\xff", b"\x80", b"\x01"):
            out.append("b grec " + hx(fill * n))
    return out


_corpus_base_c08b = corpus


def corpus():
    return _corpus_base_c08b() + [
        "b udp 0102003500080000" + "09",
        "b udp " + "ff" * 8,
        "b icmp4 0304ffffaabb05dc09",                    # fragmentation needed: unused bytes 4-5 are dropped
        "b icmp4 0d00" + "ab" * 18,                      # timestamp, exactly 20 bytes
        "b icmp4 0d00" + "ab" * 19,                      # timestamp + 1 byte: from_slice rejects, read accepts
        "b icmp4 0c01ffff11223344",                      # parameter problem code 1: pointer byte dropped
        "b icmp4 0310000001020304",                      # type 3 code 16: raw
    ]


_gen_cases_base_c08b = gen_cases


def gen_cases(rng, tier):
    return _gen_cases_base_c08b(rng, tier) + gen_transport(rng, tier)
# ---- end extend-c08b ----


# ---- IpHeaders (extend-c08c) ----
# IpHeaders now has a Coq model (Roundtrip/IpHeaders.v, composed of the Ipv4Header / Ipv6Header /
# Ipv4Extensions models of this property and the Ipv6Extensions model of C12) + theorems
# (Props/C08.v block extend-c08c).  The `iph` cases get their own line format (see the block
# extend-c08c of harness/src/bin/c08.rs): the three slice decoders, read over a Cursor, write,
# header_len, next_header, and for structured values also set_next_headers / set_payload_len.
# Correspondence: impl line == model line (byte exact).  Oracle: below, on the implementation's own
# answers and an independent byte-level reading of the case (chain walk, RFC 1071 checksum, masks).
PROVED += ["iph"]
EXT6 = (0, 43, 44, 51, 60)


def _iph_toks(il):
    """key=value tokens of an iph line (canon strings contain no blanks)"""
    d = {}
    for tok in il.split():
        if "=" in tok:
            a, b = tok.split("=", 1)
            if a not in d:
                d[a] = b
    return d


def _iph_sres(s):
    """ok:<canon>:<n>,<fr>,<ls>,<off>+<len> -> (canon, n, fr, ls, off, len) | None"""
    if not s.startswith("ok:"):
        return None
    body = s[3:]
    canon, tail = body.rsplit(":", 1)
    n, fr, ls, pos = tail.split(",")
    o, l = pos.split("+")
    return canon, int(n), int(fr), int(ls), int(o), int(l)


def _iph_rres(s):
    if not s.startswith("ok:"):
        return None
    canon, tail = s[3:].rsplit(":", 1)
    n, pos = tail.split(",")
    return canon, int(n), int(pos)


def _iph_ck_of(hdr):
    z = bytearray(hdr)
    z[10] = z[11] = 0
    return _rfc1071(z)


def _iph_canon_ck(canon, ck):
    """IPv4 canon with the header checksum field replaced"""
    p = canon.split("|")
    f = p[1].split(",")
    f[9] = str(ck)
    return "|".join([p[0], ",".join(f)] + p[2:])


def _iph_chain_mask(first, data):
    """independent walk over an IPv6 extension chain as the slice decoder places headers: returns
    (keep mask of the consumed bytes, final number) or None when the chain is cut / malformed"""
    seen = set()
    nxt = first
    pos = 0
    mask = bytearray()
    start = True
    while True:
        if nxt not in EXT6:
            break
        if nxt == 0 and not start:
            return None
        if nxt == 60:
            slot = "fdst" if "rt" in seen else "dst"
        else:
            slot = {0: "hop", 43: "rt", 44: "frag", 51: "auth"}[nxt]
        if slot in seen:
            break
        if len(data) - pos < 8 and nxt != 51:
            return None
        if nxt == 44:
            n = 8
            m = _ones(8)
            m[1] = 0
            m[3] = 0xF9
        elif nxt == 51:
            if len(data) - pos < 12:
                return None
            if data[pos + 1] == 0:
                return None
            n = (data[pos + 1] + 2) * 4
            m = _ones(n)
            m[2] = m[3] = 0
        else:
            n = (data[pos + 1] + 1) * 8
            m = _ones(n)
        if len(data) - pos < n:
            return None
        seen.add(slot)
        nxt = data[pos]
        mask += m
        pos += n
        start = False
    return bytes(mask), nxt


def _iph_oracle_bytes(parts, il):
    data = _unhex(parts[2])
    f = _iph_toks(il)
    for k in ("v", "fs", "f4", "f6", "rd"):
        if k not in f:
            return "malformed line: " + il[:120]
    ver = data[0] >> 4 if data else None
    # dispatch = specific (also C06's business; cheap to check here)
    if ver == 4 and (f["f4"] != f["fs"] or (f["f6"] not in ("err:content", "err:len"))):
        return "from_ipv4_slice %s / from_ipv6_slice %s vs from_slice %s" % (f["f4"][:60], f["f6"][:60], f["fs"][:60])
    if ver == 6 and (f["f6"] != f["fs"] or (f["f4"] not in ("err:content", "err:len"))):
        return "from_ipv6_slice %s / from_ipv4_slice %s vs from_slice %s" % (f["f6"][:60], f["f4"][:60], f["fs"][:60])
    fs = _iph_sres(f["fs"])
    if fs is None:
        if f["v"] != "-" or "w" in f:
            return "rejected input but a value is printed"
        if f["rd"].startswith("ok:"):
            # read may only succeed where from_slice fails when the slice does not hold the announced packet
            ann = (data[2] << 8 | data[3]) if ver == 4 else 40 + (data[4] << 8 | data[5])
            if ann <= len(data):
                return "read accepts (%s) what from_slice rejects (%s) although the slice holds the announced %d bytes" % (
                    f["rd"][:80], f["fs"], ann)
        return None
    canon, n, fr, ls, off, plen = fs
    if canon != "=":
        return "from_slice canon is not the reference"
    hl = int(f["hl"])
    if off != hl:
        return "payload starts at %d, header_len is %d" % (off, hl)
    if off + plen > len(data):
        return "payload %d+%d outside the %d byte input" % (off, plen, len(data))
    if not f["w"].startswith("ok:"):
        return "write refuses a decoded value: " + f["w"][:60]
    w = _unhex(f["w"][3:])
    if len(w) != hl:
        return "write emitted %d bytes, header_len %d" % (len(w), hl)
    if f["nh"] != "ok:%d" % n:
        return "next_header() = %s, from_slice says %d" % (f["nh"], n)
    cons = data[:hl]
    # keep mask from an independent reading of the bytes
    if ver == 4:
        ihl = (data[0] & 15) * 4
        m = bytearray(_ones(ihl))
        m[6] = 0x7F
        m[10] = m[11] = 0
        if hl > ihl:
            a = _ones(hl - ihl)
            a[2] = a[3] = 0
            m += a
        ck = _iph_ck_of(w[:ihl])
        if (w[10] << 8 | w[11]) != ck:
            return "written header checksum %02x%02x is not the RFC 1071 checksum %04x" % (w[10], w[11], ck)
        want_fr = 1 if (data[6] & 0x20) or ((data[6] & 0x1F) << 8 | data[7]) else 0
        want_ls = 4
        want_plen = (data[2] << 8 | data[3]) - hl
        canon2 = _iph_canon_ck(f["v"], ck)
        if (hl > ihl) != (data[9] == 51):
            return "authentication header present = %s but protocol is %d" % (hl > ihl, data[9])
    else:
        pl = data[4] << 8 | data[5]
        ext_area = data[40:] if (pl == 0 and len(data) > 40) else data[40:40 + pl]
        cm = _iph_chain_mask(data[6], ext_area)
        if cm is None:
            return "from_slice accepts an extension chain the reference walk rejects"
        m = bytearray(_ones(40)) + bytearray(cm[0])
        if len(m) != hl:
            return "reference walk consumes %d bytes, header_len is %d" % (len(m), hl)
        if cm[1] != n:
            return "reference walk ends on %d, from_slice on %d" % (cm[1], n)
        want_ls = 0 if (pl == 0 and len(data) > 40) else 6
        want_plen = len(ext_area) - (hl - 40)
        want_fr = None
        canon2 = f["v"]
    for i in range(hl):
        if (w[i] ^ cons[i]) & m[i]:
            return "re-encoded byte %d is %02x, was %02x (keep mask %02x)" % (i, w[i], cons[i], m[i])
    if ls != want_ls or plen != want_plen or (want_fr is not None and fr != want_fr):
        return "payload description %s, expected fr=%s ls=%d len=%d" % (f["fs"][-30:], want_fr, want_ls, want_plen)
    # decode(encode(decode bs) ++ rest)
    d2 = _iph_sres(f["d2"])
    if d2 is None:
        return "decode(write(decode bs) ++ rest) fails: " + f["d2"]
    c2 = f["v"] if d2[0] == "=" else d2[0]
    if c2 != canon2 or d2[1:] != fs[1:]:
        return "decode(write(decode bs) ++ rest) = %s, first decode %s" % (f["d2"][:200], f["fs"][:80])
    # read over a Cursor
    rd = _iph_rres(f["rd"])
    if rd is None:
        f15 = ver == 6 and (data[4] << 8 | data[5]) == 0 and data[6] in EXT6
        if not f15:
            return "read rejects (%s) what from_slice accepts" % f["rd"]
    elif rd != ("=", n, hl):
        return "read gives %s, from_slice %s" % (f["rd"][:120], f["fs"][:80])
    return None


def _iph_v4_fields(a):
    """(canon ipv4, options bytes) or None when the value is not constructible"""
    v = a[:10]
    lim = [63, 3, 65535, 65535, 1, 1, 8191, 255, 255, 65535]
    if not all(_num(x, m) for x, m in zip(v, lim)):
        return None
    opt = _unhex(a[12])
    if len(opt) > 40 or len(opt) % 4 or len(_unhex(a[10])) != 4 or len(_unhex(a[11])) != 4:
        return None
    return ",".join(a[:13]), opt


def _iph_auth_tok(t, stale="-"):
    """(nh, token, header length) | None (absent) | False (not constructible)"""
    if t == "-":
        return None
    f = t.split(":")
    if len(f) != 4 or not (_num(f[0], 255) and _num(f[1], 0xFFFFFFFF) and _num(f[2], 0xFFFFFFFF)):
        return False
    for x in (f[3],) if stale == "-" else (f[3], stale):
        n = len(_unhex(x))
        if n > 1016 or n % 4:
            return False
    return [int(f[0]), f, 12 + len(_unhex(f[3]))]


def _iph_raw_tok(t):
    if t == "-":
        return None
    f = t.split(":")
    n = len(_unhex(f[1]))
    if len(f) != 2 or not _num(f[0], 255) or n < 6 or n > 2046 or (n - 6) % 8:
        return False
    return [int(f[0]), f, 2 + n]


def _iph_frag_tok(t):
    if t == "-":
        return None
    f = t.split(":")
    if len(f) != 4 or not (_num(f[0], 255) and _num(f[1], 8191) and f[2] in ("0", "1") and _num(f[3], 0xFFFFFFFF)):
        return False
    return [int(f[0]), f, 8]


def _iph_tok_s(x):
    return "-" if x is None else ":".join(x[1])


def _iph_value_parse(a):
    """returns None (not constructible) or a dict describing the value independent of the model"""
    if a[0] == "4":
        f = a[1:]
        if len(f) != 18:
            return None
        base = _iph_v4_fields(f)
        auth = _iph_auth_tok(f[13], f[14])
        if base is None or auth is False or not _num(f[17], 255):
            return None
        return {"ver": 4, "hdr": f[:13], "optlen": len(base[1]), "auth": auth, "payload": _unhex(f[15]),
                "trail": _unhex(f[16]), "last": int(f[17])}
    f = a[1:]
    if len(f) != 16:
        return None
    if _ipv6_canon_from_case(f[:7]) is None or not _num(f[15], 255):
        return None
    slots = [_iph_raw_tok(f[7]), _iph_raw_tok(f[8]), _iph_raw_tok(f[9]), _iph_raw_tok(f[10]), _iph_frag_tok(f[11]),
             _iph_auth_tok(f[12])]
    if any(s is False for s in slots) or (slots[2] is None and slots[3] is not None):
        return None
    return {"ver": 6, "hdr": f[:7], "slots": slots, "payload": _unhex(f[13]), "trail": _unhex(f[14]),
            "last": int(f[15])}


def _iph_value_canon(v):
    if v["ver"] == 4:
        return "4|%s|%s" % (",".join(v["hdr"]), _iph_tok_s(v["auth"]))
    s = v["slots"]
    return "6|%s|[%s]" % (",".join(v["hdr"]), ";".join(_iph_tok_s(x) for x in s))


def _iph_relink(v):
    """what set_next_headers(last) + set_payload_len(len payload) must produce (RFC 8200 order:
    hop-by-hop, destination options, routing, fragment, authentication, final destination options);
    returns (value, ether type, set_payload_len ok?)"""
    import copy
    b = copy.deepcopy(v)
    last = v["last"]
    if v["ver"] == 4:
        hdr = b["hdr"]
        exts_len = 0
        if b["auth"] is not None:
            b["auth"][0] = last
            b["auth"][1][0] = str(last)
            hdr[8] = "51"
            exts_len = b["auth"][2]
        else:
            hdr[8] = str(last)
        total = 20 + v["optlen"] + exts_len + len(v["payload"])
        ok = exts_len + len(v["payload"]) <= 65535 - 20 - v["optlen"]
        if ok:
            hdr[2] = str(total)
        return b, 2048, ok
    s = b["slots"]
    order = [(0, 0), (1, 60), (2, 43), (4, 44), (5, 51), (3, 60)]   # (slot index, IANA number) in RFC order
    nxt = last
    for idx, num in reversed(order):
        if s[idx] is not None:
            s[idx][0] = nxt
            s[idx][1][0] = str(nxt)
            nxt = num
    b["hdr"][3] = str(nxt)
    exts_len = sum(x[2] for x in s if x is not None)
    ok = exts_len + len(v["payload"]) <= 65535
    if ok:
        b["hdr"][2] = str(exts_len + len(v["payload"]))
    return b, 34525, ok


def _iph_expect_decode(v, w, status_ok, nh, prefix, f, what):
    """the round-trip demand for a well-formed value: decoders on write(v) ++ payload ++ trail"""
    payload, trail = v["payload"], v["trail"]
    inp_len = len(w) + len(payload) + len(trail)
    hl = len(w)
    canon = _iph_value_canon(v)
    if v["ver"] == 4:
        ihl = 20 + v["optlen"]
        ck = _iph_ck_of(w[:ihl])
        if (w[10] << 8 | w[11]) != ck:
            return "%s: written header checksum is not the RFC 1071 checksum %04x" % (what, ck)
        want_canon = _iph_canon_ck(canon, ck)
        ann = int(v["hdr"][2])
        fr = 1 if (v["hdr"][5] == "1" or int(v["hdr"][6]) != 0) else 0
        ls, plen = 4, ann - hl
        ok_slice = ann <= inp_len
    else:
        want_canon = canon
        pl = int(v["hdr"][2])
        fs_ = v["slots"][4]
        fr = 1 if fs_ is not None and (fs_[1][2] == "1" or int(fs_[1][1]) != 0) else 0
        if pl == 0 and inp_len > 40:
            ls, plen, ok_slice = 0, inp_len - hl, True
        else:
            ls, plen, ok_slice = 6, 40 + pl - hl, 40 + pl <= inp_len
    want_c = "=" if want_canon == canon else want_canon
    want_fs = "ok:%s:%d,%d,%d,%d+%d" % (want_c, nh, fr, ls, hl, plen) if ok_slice else "err:len"
    want_rd = "ok:%s:%d,%d" % (want_c, nh, hl)
    spec = "f4" if v["ver"] == 4 else "f6"
    other = "f6" if v["ver"] == 4 else "f4"
    if f[prefix + "fs"] != want_fs:
        return "%s: from_slice(write v ++ payload ++ trail) = %s, want %s" % (what, f[prefix + "fs"][:160], want_fs[:160])
    if f[prefix + "rd"] != want_rd:
        return "%s: read(write v ++ ..) = %s, want %s" % (what, f[prefix + "rd"][:160], want_rd[:160])
    if prefix == "":
        if f[spec] != want_fs:
            return "%s: version-specific decoder %s, from_slice %s" % (what, f[spec][:100], want_fs[:100])
        if f[other] not in ("err:content", "err:len"):
            return "%s: the other version's decoder answers %s" % (what, f[other][:60])
    return None


def _iph_oracle_value(parts, il):
    v = _iph_value_parse(parts[2:])
    if v is None:
        return None if il == "noval" else "constructor accepted an out-of-range value: " + il[:80]
    if il == "noval":
        return "value is constructible but the harness refused it"
    f = _iph_toks(il)
    for k in ("v", "w", "hl", "nh", "fr", "fs", "f4", "f6", "rd", "b", "et", "spl", "bw", "bfs", "brd"):
        if k not in f:
            return "malformed line: " + il[:120]
    canon = _iph_value_canon(v)
    if f["v"] != canon:
        return "constructed value %s is not the requested %s" % (f["v"][:150], canon[:150])
    # header_len = sum of the parts
    if v["ver"] == 4:
        want_hl = 20 + v["optlen"] + (v["auth"][2] if v["auth"] is not None else 0)
    else:
        want_hl = 40 + sum(x[2] for x in v["slots"] if x is not None)
    if int(f["hl"]) != want_hl:
        return "header_len %s, the parts add up to %d" % (f["hl"], want_hl)
    # write succeeds iff the chain walks, with the same error; bytes = header_len
    wst, whex = f["w"].rsplit(":", 1)
    w = _unhex(whex)
    if f["nh"].startswith("ok:"):
        if wst != "ok":
            return "next_header() = %s but write = %s" % (f["nh"], wst)
        if len(w) != want_hl:
            return "write emitted %d bytes, header_len %d" % (len(w), want_hl)
        nh = int(f["nh"][3:])
    else:
        if wst != f["nh"]:
            return "next_header() = %s but write = %s" % (f["nh"], wst)
        nh = None
        # the IP header has gone out before the walk fails
        want_part = 20 + v["optlen"] if v["ver"] == 4 else 40
        if len(w) < want_part:
            return "failed write left %d bytes, the IP header alone has %d" % (len(w), want_part)
    # well-formed (independent reading of the case): linked to a non-extension number, lengths cover the headers
    if v["ver"] == 4:
        # x4_linked: the authentication header is present exactly when the protocol field announces it
        wf = nh is not None and want_hl <= int(v["hdr"][2]) and ((v["auth"] is None) == (v["hdr"][8] != "51"))
    else:
        wf = nh is not None and nh not in EXT6 and want_hl - 40 <= int(v["hdr"][2])
    if wf:
        why = _iph_expect_decode(v, w, True, nh, "", f, "value")
        if why:
            return why
    # built value
    b, et, spl_ok = _iph_relink(v)
    if f["et"] != str(et):
        return "set_next_headers returned ether type %s" % f["et"]
    if (f["spl"] == "ok") != spl_ok:
        return "set_payload_len = %s, expected ok=%s" % (f["spl"], spl_ok)
    if not spl_ok:
        return None
    bc = _iph_value_canon(b)
    if f["b"] != bc:
        return "after set_next_headers/set_payload_len: %s, expected %s" % (f["b"][:150], bc[:150])
    if (v["ver"] == 6 and v["last"] in EXT6) or (v["ver"] == 4 and v["last"] == 51 and v["auth"] is None):
        return None               # a chain ending on an extension number need not decode (C12_ex_needs_non_ext)
    bwst, bwhex = f["bw"].rsplit(":", 1)
    bw = _unhex(bwhex)
    if bwst != "ok" or len(bw) != want_hl:
        return "write of the built value: %s, %d bytes (header_len %d)" % (bwst, len(bw), want_hl)
    return _iph_expect_decode(b, bw, True, v["last"], "b", f, "built value")


_oracle_base_c08c = _oracle


def _oracle(parts, il):
    if parts[1] != "iph":
        return _oracle_base_c08c(parts, il)
    if il.startswith("PANIC") or il.startswith("CRASH") or il.startswith("NOT-RUN"):
        return il[:200]
    if parts[0] == "v":
        return _iph_oracle_value(parts, il)
    return _iph_oracle_bytes(parts, il)


def _iph_ck_fix(h):
    h[10] = h[11] = 0
    ck = _rfc1071(h)
    h[10] = ck >> 8
    h[11] = ck & 255


def _iph_ext_header(rng, kind, nxt):
    if kind == 44:
        return _fragx(rng, nxt)[0]
    if kind == 51:
        return _ah(rng, nxt)[0]
    return _rawx(rng, nxt)[0]


def gen_iph_bytes(rng, tier):
    k = 6 if tier == "thorough" else 1
    out = []
    # IPv6: every sequence of <= 3 header kinds (repeats in every position), lengths exact / 0 (up to the
    # slice end; with extensions = F15 for read) / cut at and one byte before every header boundary / beyond
    # the slice / trailing bytes
    kinds = (0, 60, 43, 44, 51)
    seqs = [[]] + [[a] for a in kinds] + [[a, b] for a in kinds for b in kinds] + \
           [[a, b, c] for a in kinds for b in kinds for c in kinds]
    for rep in range(k):
        for seq in seqs:
            final = rng.choice(FINALS)
            hs = []
            for i, kd in enumerate(seq):
                hs.append(_iph_ext_header(rng, kd, seq[i + 1] if i + 1 < len(seq) else final))
            chain = b"".join(hs)
            payload = rng.bytes(rng.below(6))
            h = bytearray(_blob(rng, 40))
            h[0] = 0x60 | (h[0] & 15)
            h[6] = seq[0] if seq else final
            bounds = [0]
            for x in hs:
                bounds.append(bounds[-1] + len(x))
            lens = {len(chain) + len(payload), 0, len(chain)}
            for bd in bounds:
                lens.add(bd)
                if bd:
                    lens.add(bd - 1)
                lens.add(bd + 1)
            lens.add(len(chain) + len(payload) + 3)
            for pl in sorted(lens):
                h[4] = pl >> 8
                h[5] = pl & 255
                body = chain + payload
                out.append("b iph " + hx(bytes(h) + body + rng.bytes(rng.below(3))))
                if rng.chance(1, 4) and len(body) > 1:
                    out.append("b iph " + hx(bytes(h) + body[:rng.below(len(body))]))
    # IPv4: every IHL, with / without AH, total_len exact / below the header / inside the AH / beyond the slice,
    # AH payload length 0, fragmentation bits, valid and invalid header checksum
    for rep in range(4 * k):
        for ihl in range(0, 16):
            for with_ah in (0, 1):
                n = max(ihl, 5) * 4
                h = bytearray(_blob(rng, n))
                h[0] = 0x40 | ihl
                ah = _ah(rng, rng.choice(FINALS + [51]))[0] if with_ah else b""
                h[9] = 51 if (with_ah and rng.chance(9, 10)) else rng.choice([6, 17, 51, 0, 255])
                payload = rng.bytes(rng.below(8))
                exact = n + len(ah) + len(payload)
                for tl in {exact, n, n - 1, n + len(ah), n + max(len(ah) - 1, 0), n + 11, n + 12, exact + 1, 0,
                           rng.below(65536)}:
                    tl = max(tl, 0)
                    h[2] = tl >> 8
                    h[3] = tl & 255
                    h[6] = rng.choice([0, 0, 0x20, 0x40, 0x80, 0x1F, rng.below(256)])
                    if rng.chance(1, 2):
                        _iph_ck_fix(h)
                    a2 = bytearray(ah)
                    if a2 and rng.chance(1, 12):
                        a2[1] = rng.choice([0, 255, a2[1] + 1])
                    out.append("b iph " + hx(bytes(h) + bytes(a2) + payload + rng.bytes(rng.below(3))))
    # malformed: every version nibble x short / long inputs
    for ver in range(16):
        for n in (0, 1, 2, 19, 20, 21, 39, 40, 41, 60, 61):
            d = bytearray(_blob(rng, n))
            if d:
                d[0] = (ver << 4) | (d[0] & 15)
            out.append("b iph " + hx(bytes(d)))
    return out


def _iph_v4_value(rng):
    ol = 4 * rng.below(11) if rng.chance(1, 2) else 0
    opt = _blob(rng, ol)
    auth = "-"
    stale = "-"
    ahl = 0
    if rng.chance(1, 2):
        kk = rng.below(7) if rng.chance(7, 8) else rng.below(255)
        auth = "%d:%d:%d:%s" % (rng.choice(FINALS + [51, _edge(rng, 8)]), _edge(rng, 32), _edge(rng, 32), hx(_blob(rng, 4 * kk)))
        ahl = 12 + 4 * kk
        if rng.chance(1, 4) and kk < 254:
            stale = hx(_blob(rng, 4 * rng.range(kk + 1, 254)))
    pr = (51 if auth != "-" else rng.choice(FINALS)) if rng.chance(9, 10) else rng.choice([51, 6, 17, 0, 255])
    payload = rng.bytes(rng.below(12))
    exact = 20 + ol + ahl + len(payload)
    tl = exact if rng.chance(3, 4) else rng.choice([0, 20 + ol, 20 + ol + ahl, max(20 + ol + ahl - 1, 0), exact + 1,
                                                   exact - 1 if exact else 0, 65535, rng.below(65536)])
    tl = min(max(tl, 0), 65535)
    fields = [_edge(rng, 6), _edge(rng, 2), tl, _edge(rng, 16), rng.below(2), rng.below(2),
              rng.choice([0, 0, _edge(rng, 13)]), _edge(rng, 8), pr, _edge(rng, 16)]
    src, dst = _blob(rng, 4), _blob(rng, 4)
    if rng.chance(1, 2):          # consistent header checksum
        h = bytearray(20 + ol)
        h[0] = 0x40 | (5 + ol // 4)
        h[1] = (fields[0] << 2) | fields[1]
        h[2], h[3] = tl >> 8, tl & 255
        h[4], h[5] = fields[3] >> 8, fields[3] & 255
        h[6] = (0x40 if fields[4] else 0) | (0x20 if fields[5] else 0) | (fields[6] >> 8)
        h[7] = fields[6] & 255
        h[8], h[9] = fields[7], pr
        h[12:16] = src
        h[16:20] = dst
        h[20:] = opt
        fields[9] = _rfc1071(h)
    last = rng.choice(FINALS + [51, 0, 60, 255])
    return "v iph 4 %s %s %s %s %s %s %s %s %d" % (" ".join(str(x) for x in fields), hx(src), hx(dst), hx(opt), auth,
                                                 stale, hx(payload), hx(rng.bytes(rng.below(4))), last)


def _iph_v6_value(rng):
    present = [rng.chance(1, 3), rng.chance(1, 3), rng.chance(1, 3), False, rng.chance(1, 3), rng.chance(1, 3)]
    present[3] = present[2] and rng.chance(1, 2)
    nums = [0, 60, 43, 60, 44, 51]
    order = [0, 1, 2, 4, 5, 3]
    final = rng.choice(FINALS)
    nh = {}
    nxt = final
    for idx in reversed(order):
        if present[idx]:
            nh[idx] = nxt
            nxt = nums[idx]
    first = nxt
    broken = rng.chance(1, 8)
    toks = []
    exts_len = 0
    for idx in range(6):
        if not present[idx]:
            toks.append("-")
            continue
        n = nh[idx] if not (broken and rng.chance(1, 2)) else rng.choice([0, 43, 44, 51, 60, 17, _edge(rng, 8)])
        if idx == 4:
            toks.append("%d:%d:%d:%d" % (n, rng.choice([0, 0, _edge(rng, 13)]), rng.below(2), _edge(rng, 32)))
            exts_len += 8
        elif idx == 5:
            kk = rng.below(6)
            toks.append("%d:%d:%d:%s" % (n, _edge(rng, 32), _edge(rng, 32), hx(_blob(rng, 4 * kk))))
            exts_len += 12 + 4 * kk
        else:
            kk = rng.below(3) if rng.chance(15, 16) else rng.below(256)
            toks.append("%d:%s" % (n, hx(_blob(rng, 6 + 8 * kk))))
            exts_len += 8 + 8 * kk
    if broken and rng.chance(1, 2):
        first = rng.choice([0, 43, 44, 51, 60, 17])
    payload = rng.bytes(rng.below(12))
    exact = exts_len + len(payload)
    pl = exact if rng.chance(3, 4) else rng.choice([0, exts_len, max(exts_len - 1, 0), exact + 1, 65535, rng.below(65536)])
    pl = min(pl, 65535)
    last = rng.choice(FINALS + [51, 0, 60, 255])
    return "v iph 6 %d %d %d %d %d %s %s %s %s %s %d" % (
        _edge(rng, 8), _edge(rng, 20), pl, first, _edge(rng, 8), hx(_blob(rng, 16)), hx(_blob(rng, 16)),
        " ".join(toks), hx(payload), hx(rng.bytes(rng.below(4))), last)


def gen_iph_values(rng, tier):
    k = 8 if tier == "thorough" else 1
    out = []
    for _ in range(2500 * k):
        out.append(_iph_v4_value(rng))
        out.append(_iph_v6_value(rng))
    # not constructible
    z16 = "00" * 16
    out += ["v iph 4 64 0 20 0 0 0 0 0 6 0 00000000 00000000 - - - - - 6",
            "v iph 4 0 0 20 0 0 0 8192 0 6 0 00000000 00000000 - - - - - 6",
            "v iph 4 0 0 20 0 0 0 0 0 6 0 00000000 00000000 010203 - - - - 6",
            "v iph 4 0 0 20 0 0 0 0 0 51 0 00000000 00000000 - 6:1:2:010203 - - - 6",
            "v iph 6 0 1048576 0 6 0 %s %s - - - - - - - - 6" % (z16, z16),
            "v iph 6 0 0 0 6 0 %s %s - - - 6:010203040506 - - - - 6" % (z16, z16),
            "v iph 6 0 0 0 6 0 %s %s 6:0102030405 - - - - - - - 6" % (z16, z16)]
    return out


_corpus_base_c08c = corpus


def corpus():
    a1 = "01" * 16
    a2 = "02" * 16
    return _corpus_base_c08c() + [
        # IPv4 + AH, total_len 40, 4 payload bytes, one trailing byte
        "b iph 4500002800010000403300000a0000010a000002" + "11020000000000010000000201020304" + "09090909" + "07",
        # IPv6: hop-by-hop, fragment (reserved bits set), UDP; payload_length 18 + 2 trailing bytes
        "b iph 6000000000120040" + a1 + a2 + "2c00010203040506" + "11aa000f00000001" + "0909" + "0707",
        # F15's input: payload_length 0 with an extension header: from_slice accepts, read refuses
        "b iph 60000000" + "0000" + "3c40" + a1 + a2 + "1100000000000000" + "0909",
        # announced packet missing: IPv4 header announcing 28 bytes, 20 present: read accepts
        "b iph 4500001c00000000401100000a0000010a000002",
        "v iph 4 0 0 40 1 0 0 0 64 51 0 0a000001 0a000002 - 17:1:2:01020304 - 09090909 07 6",
        "v iph 4 63 3 65535 65535 1 1 8191 255 51 65535 ffffffff ffffffff " + "ff" * 40 + " 255:4294967295:4294967295:"
        + "ff" * 1016 + " - - - 255",
        "v iph 6 0 0 18 0 64 " + a1 + " " + a2 + " 44:010203040506 - - - 17:1:1:1 - 0909 0707 17",
        # chain that does not walk: routing header present, nothing announces it
        "v iph 6 0 0 16 17 64 " + a1 + " " + a2 + " - - 17:010203040506 - - - 0909 - 6",
        # authentication header the protocol field does not announce
        "v iph 4 0 0 36 1 0 0 0 64 6 0 0a000001 0a000002 - 17:1:2:01020304 - - - 6",
    ]


_gen_cases_base_c08c = gen_cases


def gen_cases(rng, tier):
    return _gen_cases_base_c08c(rng, tier) + gen_iph_bytes(rng, tier) + gen_iph_values(rng, tier)


_compare_base_c08c = compare


def compare(ctx, cases, impl, model_lines):
    res = _compare_base_c08c(ctx, cases, impl, model_lines)
    hist = res["hist"]
    first_prof = next(iter(impl.values()))
    acc = vals = wfv = f15 = rdonly = 0
    seen = set()
    extra_nontriv = 0
    for i, c in enumerate(cases):
        if not c.startswith("b iph ") and not c.startswith("v iph "):
            continue
        il = first_prof[i]
        if c.startswith("v iph "):
            vals += 1
            if model_lines is not None and " | wf=1" in model_lines[i]:
                wfv += 1
            continue
        if " fs=ok" in il:
            acc += 1
            if " rd=err" in il:
                f15 += 1
            if c not in seen:
                seen.add(c)
                extra_nontriv += 1
        elif " rd=ok" in il:
            rdonly += 1
    hist["iph:accepted_bytes"] = acc
    hist["iph:values"] = vals
    hist["iph:values_wellformed(model iph_wf)"] = wfv
    hist["iph:from_slice_ok_read_err(F15 class)"] = f15
    hist["iph:read_ok_from_slice_err(announced packet missing)"] = rdonly
    res["nontrivial"] = res.get("nontrivial", 0) + extra_nontriv
    ex = res.setdefault("extra", {})
    ex["iph_model"] = "Roundtrip/IpHeaders.v (composed: Ipv4Header, Ipv6Header, Ipv4Extensions of C08; Ipv6Extensions + read_limited of C12)"
    return res
# ---- end extend-c08c ----
