#!/usr/bin/env python3
"""Regenerates seeded/SUMMARY.md from seeded/*/meta.json."""
import glob
import json
import os

ROOT = os.path.dirname(os.path.dirname(os.path.abspath(__file__)))
rows = []
for mp in sorted(glob.glob(os.path.join(ROOT, "seeded", "*", "meta.json"))):
    m = json.load(open(mp))
    v = m.get("orchestrator_verification", {})
    tag = os.path.basename(os.path.dirname(mp))
    caught = []
    missed = []
    for cid, r in sorted(v.get("checks", {}).items()):
        if r.get("violation"):
            kind = "failing input" if "no-failing-input-found" not in r["violation"] else "no-failing-input-found"
            caught.append("%s (%s)" % (cid, kind))
        else:
            missed.append(cid)
    rows.append((tag, "yes" if m.get("confirmed") else "NO", (m.get("summary") or "")[:150].replace("|", "/"),
                 (m.get("needs") or "")[:150].replace("|", "/"), ", ".join(caught) or "-", ", ".join(missed) or "-"))
with open(os.path.join(ROOT, "seeded", "SUMMARY.md"), "w") as f:
    f.write("# Seeded changes (independent sub-agents) and which checks catch them\n\n")
    f.write("confirmed = patch applies, the crate's full suite passes with it, the demonstration fails with it and passes without (tools/seed_verify.py).\n\n")
    f.write("| change | confirmed | what it does | needs | caught by | run but not caught by |\n|---|---|---|---|---|---|\n")
    for r in rows:
        f.write("| %s | %s | %s | %s | %s | %s |\n" % r)
print(len(rows), "seeded changes")
