#!/usr/bin/env python3
"""Shared machinery of the /verif checks.

A check run for one property does, in order:
  1. regenerate coq/theories/Gen/Consts.v from /repo (tools/gen_consts.py)
  2. build the property's Coq theorems (full .vo build through coq_makefile),
     re-compile the Props/<id>.v file to capture `Print Assumptions`,
     scan the development for forbidden constructs
  3. extract the executable model to OCaml and build the runner
  4. build the Rust harness against /repo's working tree
  5. generate cases, run implementation and model(+spec), compare
  6. decide (see DESIGN.md section 3) and write evidence/<id>.json
"""
import fcntl
import hashlib
import json
import os
import random
import re
import subprocess
import sys
import time
from concurrent.futures import ThreadPoolExecutor

ROOT = os.path.dirname(os.path.dirname(os.path.abspath(__file__)))
COQ = os.path.join(ROOT, "coq")
OCAML = os.path.join(ROOT, "ocaml")
HARNESS = os.path.join(ROOT, "harness")
RUN = os.path.join(ROOT, "run")          # scratch for case files / outputs (gitignored)
EVID = os.path.join(ROOT, "evidence")
REPO = os.environ.get("VERIF_REPO", "/repo")
NCPU = min(16, os.cpu_count() or 4)
GUARD_CFG = "etherparse_verif"

FORBIDDEN = re.compile(
    r"\b(Admitted|admit|Axiom|Axioms|Parameter|Parameters|Conjecture|Conjectures|"
    r"Hypothesis|Hypotheses|Variable|Variables|Abort All|"
    r"Unset\s+Guard\s+Checking|Unset\s+Positivity\s+Checking|Unset\s+Universe\s+Checking|"
    r"bypass_check|type-in-type|impredicative-set|native_compute|Admit\s+Obligations)\b")

TRUSTED_BASE = [
    "Coq 8.16.1 kernel (coqc), incl. its VM (vm_compute used for finite reflection lemmas and Examples); no native_compute",
    "axioms: none (every property theorem is 'Closed under the global context' per Print Assumptions, parsed on every run)",
    "hand-written Gallina model of the Rust functions (coq/theories/*/Model*.v); tied to /repo only by the correspondence run of this check",
    "extraction: ExtrOcamlBasic only (its Extract Inductive for bool, option, unit, list, prod, sumbool, sumor, sig), no Extract Constant; N/positive/nat/Z stay extracted inductives",
    "OCaml 4.13.1 + zarith (number printing/parsing in ocaml/run_*.ml), ocaml/conv.ml",
    "Rust harness /verif/harness (case parsing, canonical printing), rustc/cargo of the sandbox",
    "tools/gen_consts.py, tools/gen_consts_all.py (regex translators for `pub const` items), tools/gen_accessors.py (expression translator for the field accessors, when present) and tools/*.py (generators, diffing, verdict)",
    "target assumptions: 64-bit usize, little-endian host for the correspondence runs",
]


class Ctx:
    def __init__(self, pid, tier, seed):
        self.pid = pid
        self.tier = tier
        self.seed = seed
        self.t0 = time.time()
        self.log = []

    def say(self, *a):
        msg = " ".join(str(x) for x in a)
        print(msg, flush=True)
        self.log.append(msg)


def sh(cmd, cwd=None, timeout=1800, env=None, inp=None):
    e = dict(os.environ)
    e.setdefault("CARGO_NET_OFFLINE", "true")
    if env:
        e.update(env)
    try:
        p = subprocess.run(cmd, cwd=cwd, shell=isinstance(cmd, str), timeout=timeout, env=e,
                           input=inp, stdout=subprocess.PIPE, stderr=subprocess.STDOUT, text=True)
        return p.returncode, p.stdout
    except subprocess.TimeoutExpired as ex:
        out = ex.stdout or ""
        if isinstance(out, bytes):
            out = out.decode("utf-8", "replace")
        return 124, out + "\n[timeout after %ss]" % timeout


class Lock:
    """serialise builds between concurrently running checks"""

    def __init__(self, name):
        os.makedirs(RUN, exist_ok=True)
        self.path = os.path.join(RUN, name + ".lock")

    def __enter__(self):
        self.f = open(self.path, "w")
        fcntl.flock(self.f, fcntl.LOCK_EX)
        return self

    def __exit__(self, *a):
        fcntl.flock(self.f, fcntl.LOCK_UN)
        self.f.close()


# ---------------------------------------------------------------------------
# Coq
# ---------------------------------------------------------------------------

GENERATORS = ["gen_consts.py", "gen_consts_all.py", "gen_accessors.py"]


def gen_consts():
    """the translators: regenerate coq/theories/Gen/*.v from the crate's working tree"""
    allok, outs = True, []
    for g in GENERATORS:
        gc = os.path.join(ROOT, "tools", g)
        if os.path.exists(gc):
            rc, out = sh([sys.executable, gc], cwd=ROOT, timeout=300)
            allok = allok and rc == 0
            outs.append(out)
    return allok, "\n".join(outs)


def coq_files():
    out = []
    for base in (os.path.join(COQ, "theories"), os.path.join(COQ, "extract")):
        for d, _, fs in os.walk(base):
            for f in fs:
                if f.endswith(".v"):
                    out.append(os.path.join(d, f))
    return sorted(out)


def strip_comments(src):
    # remove (possibly nested) Coq comments and string literals
    out = []
    depth = 0
    i = 0
    n = len(src)
    instr = False
    while i < n:
        if instr:
            if src[i] == '"':
                instr = False
            i += 1
            continue
        if src.startswith("(*", i):
            depth += 1
            i += 2
            continue
        if depth and src.startswith("*)", i):
            depth -= 1
            i += 2
            continue
        if depth == 0:
            if src[i] == '"':
                instr = True
                i += 1
                continue
            out.append(src[i])
        i += 1
    return "".join(out)


def scan_forbidden():
    bad = []
    for f in coq_files():
        src = strip_comments(open(f).read())
        # Section-local Variable/Hypothesis are allowed inside Section ... End
        depth = 0
        for ln, line in enumerate(src.split("\n"), 1):
            if re.match(r"\s*Section\s+\w+", line):
                depth += 1
            if re.match(r"\s*End\s+\w+", line) and depth > 0:
                depth -= 1
                continue
            for m in FORBIDDEN.finditer(line):
                w = m.group(1)
                if w.split()[0] in ("Variable", "Variables", "Hypothesis", "Hypotheses") and depth > 0:
                    continue
                bad.append("%s:%d: %s" % (os.path.relpath(f, ROOT), ln, w))
    return bad


class _NoLock:
    def __enter__(self):
        return self

    def __exit__(self, *a):
        return False


def coq_build(target_vo, timeout=3000, take_lock=True):
    """full .vo build of one target (relative to coq/), e.g. theories/Props/C09.vo"""
    with (Lock("coq") if take_lock else _NoLock()):
        mk = os.path.join(COQ, "Makefile")
        cp = os.path.join(COQ, "_CoqProject")
        vs = []
        for d, _, fs in os.walk(os.path.join(COQ, "theories")):
            for f in fs:
                if f.endswith(".v") and not f.startswith("."):
                    vs.append(os.path.relpath(os.path.join(d, f), COQ))
        want = "-Q theories EP\n" + "\n".join(sorted(vs)) + "\n"
        if not os.path.exists(cp) or open(cp).read() != want:
            with open(cp, "w") as f:
                f.write(want)
        if (not os.path.exists(mk)) or os.path.getmtime(mk) < os.path.getmtime(cp):
            rc, out = sh("coq_makefile -f _CoqProject -o Makefile", cwd=COQ, timeout=120)
            if rc != 0:
                return False, out
        rc, out = sh("timeout %d make -j%d %s" % (timeout, NCPU, target_vo), cwd=COQ, timeout=timeout + 30)
        return rc == 0, out


def coq_props(ctx, props_rel):
    """Re-compile the Props file alone to capture its Print Assumptions output.
    returns (ok, {theorem: 'closed' | [axioms]}, raw)"""
    os.makedirs(RUN, exist_ok=True)
    od = os.path.join(RUN, "props_%s" % ctx.pid)
    os.makedirs(od, exist_ok=True)
    outvo = os.path.join(od, os.path.basename(props_rel) + "o")
    rc, out = sh(["timeout", "900", "coqc", "-Q", "theories", "EP", "-o", outvo, props_rel], cwd=COQ, timeout=930)
    res = {}
    if rc != 0:
        return False, res, out
    src = strip_comments(open(os.path.join(COQ, props_rel)).read())
    names = re.findall(r"Print\s+Assumptions\s+([\w.']+)\s*\.", src)
    # output: for each Print Assumptions either "Closed under the global context" or "Axioms:\n..."
    chunks = re.split(r"(?m)^(?=Closed under the global context|Axioms:)", out)
    chunks = [c for c in chunks if c.startswith("Closed under") or c.startswith("Axioms:")]
    ok = len(chunks) == len(names)
    for nm, ch in zip(names, chunks):
        if ch.startswith("Closed under"):
            res[nm] = "closed"
        else:
            res[nm] = [l.strip() for l in ch.split("\n")[1:] if l.strip()]
            ok = False
    return ok, res, out


def coq_chk(pid, timeout=3000):
    """independent re-check of the compiled property file and everything it depends on
    (thorough tier): coqchk -o prints the axioms / unsafe features the .vo files rely on"""
    rc, out = sh(["timeout", str(timeout), "coqchk", "-o", "-silent", "-Q", "theories", "EP", "EP.Props.%s" % pid],
                 cwd=COQ, timeout=timeout + 30)
    res = {"exit": rc}
    for key, label in (("axioms", "Axioms"), ("type_in_type", "Constants/Inductives relying on type-in-type"),
                       ("unsafe_fix", "Constants/Inductives relying on unsafe (co)fixpoints"),
                       ("positivity", "Inductives whose positivity is assumed")):
        m = re.search(r"\* " + re.escape(label) + r":\s*(.*?)\n\s*\n", out, re.S)
        res[key] = m.group(1).strip() if m else "?"
    ok = rc == 0 and all(res[k] == "<none>" for k in ("axioms", "type_in_type", "unsafe_fix", "positivity"))
    return ok, res, out


def theorem_names(props_rel):
    src = strip_comments(open(os.path.join(COQ, props_rel)).read())
    return re.findall(r"(?m)^\s*(?:Theorem|Corollary)\s+([\w']+)", src)


# ---------------------------------------------------------------------------
# OCaml model runner
# ---------------------------------------------------------------------------

def ocaml_build(ext_v, mlmod, runner):
    """extract coq/extract/<ext_v> into ocaml/gen/<mlmod>.ml and build ocaml/bin/<runner>"""
    with Lock("ocaml"):
        gen = os.path.join(OCAML, "gen")
        binp = os.path.join(OCAML, "bin")
        os.makedirs(gen, exist_ok=True)
        os.makedirs(binp, exist_ok=True)
        ml = os.path.join(gen, mlmod + ".ml")
        exe = os.path.join(binp, runner)
        ext = os.path.join(COQ, "extract", ext_v)
        srcs = [ext, os.path.join(OCAML, runner + ".ml"), os.path.join(OCAML, "conv.ml")]
        srcs += [os.path.join(OCAML, f) for f in os.listdir(OCAML) if f.endswith(".ml.in")]
        newest = max(os.path.getmtime(s) for s in srcs)
        vo_newest = 0
        for d, _, fs in os.walk(os.path.join(COQ, "theories")):
            for f in fs:
                if f.endswith(".vo"):
                    vo_newest = max(vo_newest, os.path.getmtime(os.path.join(d, f)))
        if os.path.exists(exe) and os.path.exists(ml) and os.path.getmtime(exe) >= max(newest, vo_newest):
            return True, "cached"
        rc, out = sh(["timeout", "600", "coqc", "-Q", os.path.join(COQ, "theories"), "EP", ext], cwd=gen, timeout=630)
        if rc != 0:
            return False, out
        bdir = os.path.join(OCAML, "_build", runner)
        os.makedirs(bdir, exist_ok=True)
        for s in (os.path.join(OCAML, "conv.ml"), ml, ml + "i"):
            sh(["cp", s, bdir])
        # (*INCLUDE file*) lines are replaced by the file's text
        rsrc = open(os.path.join(OCAML, runner + ".ml")).read()
        def _inc(m):
            return open(os.path.join(OCAML, m.group(1))).read()
        rsrc = re.sub(r"\(\*INCLUDE ([\w.]+)\*\)", _inc, rsrc)
        with open(os.path.join(bdir, runner + ".ml"), "w") as f:
            f.write(rsrc)
        rc, out2 = sh("ocamlfind ocamlopt -w -a -package zarith -linkpkg -o %s conv.ml %s.mli %s.ml %s.ml"
                      % (exe, mlmod, mlmod, runner), cwd=bdir, timeout=900)
        return rc == 0, out + out2


# ---------------------------------------------------------------------------
# Rust harness
# ---------------------------------------------------------------------------

def harness_build(binname, profile="debug", hooks=False):
    """build harness/src/bin/<binname>.rs against REPO; returns (ok, log, exe).
    The Cargo manifest is generated into build/h_<key>/ so that the same sources
    can be built against /repo or a scratch worktree (env VERIF_REPO)."""
    key = hashlib.sha1(REPO.encode()).hexdigest()[:10]
    bdir = os.path.join(ROOT, "build", "h_" + key)
    with Lock("cargo_" + key):
        os.makedirs(bdir, exist_ok=True)
        src = os.path.join(HARNESS, "src")
        bins = sorted(f[:-3] for f in os.listdir(os.path.join(src, "bin")) if f.endswith(".rs"))
        binsec = "\n".join('[[bin]]\nname = "%s"\npath = "%s/bin/%s.rs"\n' % (b, src, b) for b in bins)
        toml = open(os.path.join(HARNESS, "Cargo.toml.in")).read()
        toml = toml.replace("@REPO@", REPO).replace("@SRC@", src).replace("@BINS@", binsec)
        tp = os.path.join(bdir, "Cargo.toml")
        if not os.path.exists(tp) or open(tp).read() != toml:
            with open(tp, "w") as f:
                f.write(toml)
        lock_dst = os.path.join(bdir, "Cargo.lock")
        lock_src = os.path.join(REPO, "Cargo.lock")
        if not os.path.exists(lock_dst) and os.path.exists(lock_src):
            sh(["cp", lock_src, lock_dst])
        env = {"CARGO_NET_OFFLINE": "true"}
        tdir = "target_hooks" if hooks else "target"
        if hooks:
            env["RUSTFLAGS"] = "--cfg %s" % GUARD_CFG
        env["CARGO_TARGET_DIR"] = os.path.join(bdir, tdir)
        cmd = ["cargo", "build", "--offline", "-q", "--bin", binname]
        if profile == "release":
            cmd.append("--release")
        rc, out = sh(cmd, cwd=bdir, timeout=1800, env=env)
        exe = os.path.join(bdir, tdir, profile, binname)
        return rc == 0 and os.path.exists(exe), out, exe


def repo_state():
    rc, head = sh("git -C %s rev-parse HEAD" % REPO, timeout=30)
    rc2, diff = sh("git -C %s status --porcelain -- . ':!target'" % REPO, timeout=60)
    return head.strip(), hashlib.sha1(diff.encode()).hexdigest()[:12] if diff.strip() else "clean"


# ---------------------------------------------------------------------------
# source fingerprints of the anchored files (comments / whitespace stripped)
# ---------------------------------------------------------------------------

def _strip_rust(src):
    src = re.sub(r"/\*.*?\*/", "", src, flags=re.S)
    src = re.sub(r"//[^\n]*", "", src)
    return re.sub(r"\s+", "", src)


def anchored_files(pid):
    try:
        for line in open(os.path.join(ROOT, "properties.jsonl")):
            p = json.loads(line)
            if p["id"] == pid:
                return list(p["anchors"]["files"])
    except Exception:
        pass
    return []


def fingerprints(pid):
    out = {}
    for rel in anchored_files(pid):
        path = os.path.join(REPO, rel)
        try:
            src = open(path).read()
            # only the non-test part of a file is modelled
            cut = src.find("#[cfg(test)]")
            if cut > 0:
                src = src[:cut]
            out[rel] = hashlib.sha1(_strip_rust(src).encode()).hexdigest()[:16]
        except OSError:
            out[rel] = "missing"
    return out


def changed_files(pid, fps):
    """anchored files whose fingerprint differs from the committed baseline
    (tools/fingerprints.json, written by `tools/vlib.py --baseline` on the unchanged tree)"""
    try:
        base = json.load(open(os.path.join(ROOT, "tools", "fingerprints.json"))).get(pid, {})
    except Exception:
        return []
    return sorted(f for f, h in fps.items() if base.get(f) not in (None, h))


# ---------------------------------------------------------------------------
# running cases
# ---------------------------------------------------------------------------

SHARD_OUT_CAP = 256 * 1024 * 1024      # bytes of output per shard; more than that is a runaway case


def _run_shard(args):
    """run one shard with its output streamed to a file (never into memory): a case that makes
    the program print without end, or hang, is cut off by the size cap / the timeout and shows
    up as `CRASH rc=..` on the case at which the output stopped"""
    exe_cmd, path, timeout = args
    outp = path + ".out"
    t0 = time.time()
    rc = None
    with open(outp, "wb") as fo:
        p = subprocess.Popen(exe_cmd + [path], stdout=fo, stderr=subprocess.STDOUT)
        while True:
            try:
                rc = p.wait(timeout=0.5)
                break
            except subprocess.TimeoutExpired:
                pass
            too_big = os.path.getsize(outp) > SHARD_OUT_CAP
            if too_big or time.time() - t0 > timeout:
                p.kill()
                p.wait()
                rc = "killed:%s" % ("output>%dMB" % (SHARD_OUT_CAP >> 20) if too_big else "timeout>%ds" % timeout)
                break
    with open(outp, "rb") as fi:
        out = fi.read(SHARD_OUT_CAP + 1).decode("utf-8", "replace")
    try:
        os.unlink(outp)
    except OSError:
        pass
    if rc != 0 and not out.endswith("\n"):
        out = out[:out.rfind("\n") + 1]      # drop the partial last line of a killed program
    return rc, out


def run_sharded(cmd_prefix, cases, tag, timeout=2400, nshards=None):
    """run `cmd_prefix <casefile>` over the cases split into shards; returns list of
    output lines aligned with cases (a crashed shard yields 'CRASH rc=..' for the
    case at which the output stopped and 'NOT-RUN' afterwards)"""
    os.makedirs(RUN, exist_ok=True)
    n = len(cases)
    if n == 0:
        return []
    ns = nshards or max(1, min(NCPU, n // 200 + 1))
    bounds = [(i * n) // ns for i in range(ns + 1)]
    jobs = []
    for i in range(ns):
        path = os.path.join(RUN, "%s_%d_%d.cases" % (tag, os.getpid(), i))
        with open(path, "w") as f:
            for c in cases[bounds[i]:bounds[i + 1]]:
                f.write(c + "\n")
        jobs.append((cmd_prefix, path, timeout))
    with ThreadPoolExecutor(max_workers=ns) as ex:
        results = list(ex.map(_run_shard, jobs))
    lines = []
    for i, (rc, out) in enumerate(results):
        want = bounds[i + 1] - bounds[i]
        got = out.split("\n")
        if got and got[-1] == "":
            got.pop()
        if rc != 0 or len(got) != want:
            got = got[:want]
            k = len(got)
            if k < want:
                got.append("CRASH rc=%s" % rc)
                got.extend(["NOT-RUN"] * (want - len(got)))
        lines.extend(got)
        try:
            os.unlink(jobs[i][1])
        except OSError:
            pass
    return lines


# ---------------------------------------------------------------------------
# known findings
# ---------------------------------------------------------------------------

def load_known(pid):
    path = os.path.join(ROOT, "known_findings.txt")
    known, fixed = [], []
    if os.path.exists(path):
        for line in open(path):
            line = line.strip()
            if not line or line.startswith("#"):
                continue
            m = re.match(r"(known|fixed):\s+property=(\w+)\s+(.*)", line)
            if not m or m.group(2) != pid:
                continue
            if m.group(1) == "known":
                mm = re.match(r"class=(\S+)\s+(.*)", m.group(3))
                if mm:
                    known.append((mm.group(1), mm.group(2)))
            else:
                fixed.append(m.group(3))
    return known, fixed


# ---------------------------------------------------------------------------
# evidence
# ---------------------------------------------------------------------------

def write_evidence(ctx, coverage, violations, assumptions=None):
    os.makedirs(EVID, exist_ok=True)
    ev = {
        "property_id": ctx.pid,
        "tier": ctx.tier,
        "seed": ctx.seed,
        "level": "proof",
        "coverage": coverage,
        "assumptions": assumptions or [],
        "wall_s": round(time.time() - ctx.t0, 2),
        "violations": violations,
    }
    # evidence/ describes /repo itself: a run against a scratch worktree (VERIF_REPO) writes elsewhere
    evdir = EVID if os.path.realpath(os.environ.get("VERIF_REPO", "/repo")) == os.path.realpath("/repo") else os.path.join(RUN, "evidence_scratch")
    os.makedirs(evdir, exist_ok=True)
    path = os.path.join(evdir, "%s.json" % ctx.pid)
    tmp = path + ".tmp"
    with open(tmp, "w") as f:
        json.dump(ev, f, indent=1, sort_keys=True)
        f.write("\n")
    os.replace(tmp, path)
    return path


def write_replay(ctx, name, obj):
    d = os.path.join(ROOT, "replays")
    os.makedirs(d, exist_ok=True)
    path = os.path.join(d, "%s_%s.json" % (ctx.pid, name))
    with open(path, "w") as f:
        json.dump(obj, f, indent=1)
        f.write("\n")
    return path


# ---------------------------------------------------------------------------
# the generic check
# ---------------------------------------------------------------------------

class Rng:
    """SplitMix64: every random choice of a run derives from VERIF_SEED"""

    def __init__(self, seed):
        self.s = seed & 0xFFFFFFFFFFFFFFFF

    def next(self):
        self.s = (self.s + 0x9E3779B97F4A7C15) & 0xFFFFFFFFFFFFFFFF
        z = self.s
        z = ((z ^ (z >> 30)) * 0xBF58476D1CE4E5B9) & 0xFFFFFFFFFFFFFFFF
        z = ((z ^ (z >> 27)) * 0x94D049BB133111EB) & 0xFFFFFFFFFFFFFFFF
        return z ^ (z >> 31)

    def below(self, n):
        return self.next() % n if n > 0 else 0

    def range(self, a, b):
        return a + self.below(b - a + 1)

    def chance(self, num, den):
        return self.below(den) < num

    def choice(self, xs):
        return xs[self.below(len(xs))]

    def bytes(self, n):
        out = bytearray()
        while len(out) < n:
            out += self.next().to_bytes(8, "little")
        return bytes(out[:n])

    def fork(self):
        return Rng(self.next())


def hx(b):
    return b.hex() if len(b) else "-"


def run_check(P, argv):
    """P: property module (see tools/props/*.py)."""
    import argparse
    ap = argparse.ArgumentParser()
    ap.add_argument("--tier", default=os.environ.get("VERIF_TIER", "quick"))
    ap.add_argument("--replay", default=None)
    ap.add_argument("--seed", default=os.environ.get("VERIF_SEED", "20260923"))
    a = ap.parse_args(argv)
    tier = a.tier if a.tier in ("quick", "thorough") else "quick"
    try:
        seed = int(a.seed)
    except ValueError:
        seed = int(hashlib.sha1(a.seed.encode()).hexdigest()[:12], 16)
    ctx = Ctx(P.ID, tier, seed)
    os.makedirs(RUN, exist_ok=True)

    problems = []        # things that make the proof/correspondence "no longer shown"
    # 1+2: Coq --------------------------------------------------------------
    props_rel = "theories/Props/%s.v" % P.ID
    bad = scan_forbidden()
    if bad:
        problems.append(("forbidden", "forbidden construct in the development", "\n".join(bad)))
    thms = theorem_names(props_rel)
    assum = {}
    # one critical section: the generated constants (they depend on VERIF_REPO) and the
    # build that consumes them must not interleave with another run's
    with Lock("coq"):
        ok, out = gen_consts()
        if not ok:
            problems.append(("translator", "gen_consts failed", out[-2000:]))
        ok, out = coq_build(props_rel + "o", take_lock=False)
        if not ok:
            m = re.search(r'File "([^"]+)", line (\d+).*?\n(Error:.*?)(?:\n\n|\Z)', out, re.S)
            what = "%s:%s %s" % (m.group(1), m.group(2), m.group(3)[:400]) if m else out[-1500:]
            problems.append(("proof", "Coq build of %s failed" % props_rel, what))
        else:
            ok2, assum, raw = coq_props(ctx, props_rel)
            if not ok2:
                problems.append(("assumptions", "Print Assumptions not closed / not parsed", json.dumps(assum) + raw[-1500:]))
            elif tier == "thorough" and not a.replay:
                ok3, chk, raw3 = coq_chk(P.ID)
                ctx.chk = chk
                if not ok3:
                    problems.append(("coqchk", "coqchk -o does not report a clean, axiom-free development", json.dumps(chk) + raw3[-1200:]))
    discharged = len([t for t in thms if assum.get(t) == "closed"])
    ctx.say("[%s] coq: %d theorems, %d closed under the global context%s" % (
        P.ID, len(thms), discharged, "" if not problems else "  PROBLEMS: " + "; ".join(p[1] for p in problems)))

    # 3: model runner --------------------------------------------------------
    model_ok = True
    if getattr(P, "RUNNER", None) is None:
        model_ok = False      # no executable model side for this check (stated in its evidence)
    else:
        ok, out = ocaml_build(P.EXTRACT, P.MLMOD, P.RUNNER)
        if not ok:
            model_ok = False
            problems.append(("extraction", "model extraction / runner build failed", out[-2000:]))
    # 4: harness -------------------------------------------------------------
    profiles = ["debug"] + (["release"] if (tier == "thorough" or getattr(P, "RELEASE_ALWAYS", False)) else [])
    exes = {}
    for prof in profiles:
        ok, out, exe = harness_build(P.HARNESS_BIN, prof, hooks=getattr(P, "HOOKS", False))
        if not ok:
            ctx.say("[%s] harness build (%s) FAILED:\n%s" % (P.ID, prof, out[-3000:]))
            problems.append(("harness", "harness does not build against /repo (%s)" % prof, out[-2000:]))
        else:
            exes[prof] = exe

    # 5: cases ---------------------------------------------------------------
    rng = Rng(seed)
    fps = fingerprints(P.ID)
    changed = changed_files(P.ID, fps)
    if a.replay:
        rp = json.load(open(a.replay))
        cases = rp.get("cases") or ([rp["case"]] if "case" in rp else [])
    else:
        cases = list(P.corpus()) + list(P.gen_cases(rng, tier))
        # the code this property is anchored in changed since the baseline: not an alarm,
        # but the quick tier then draws three more rounds of cases (fresh forks of the PRNG)
        if changed and tier == "quick":
            seen = set(cases)
            for _ in range(3):
                for c in P.gen_cases(rng.fork(), tier):
                    if c not in seen:
                        seen.add(c)
                        cases.append(c)
    ctx.say("[%s] %d cases (%s, seed %d)%s" % (P.ID, len(cases), tier, seed,
            "  [anchored source changed: %s -> escalated]" % ", ".join(changed[:4]) if changed else ""))

    model_lines = run_sharded([os.path.join(OCAML, "bin", P.RUNNER)], cases, P.ID + "_m") if model_ok else None
    impl = {}
    for prof, exe in exes.items():
        impl[prof] = run_sharded([exe], cases, P.ID + "_i_" + prof)

    # 6: compare -------------------------------------------------------------
    res = P.compare(ctx, cases, impl, model_lines)
    # res: dict(corr_mismatch=[(idx, why)], oracle_fail=[(idx, why, class)], hist={}, nontrivial=int, samples=[..])
    known, _fixed = load_known(P.ID)
    known_classes = {k for k, _ in known}
    seen_known = {}
    real = []
    for (i, why, cls) in res["oracle_fail"]:
        if cls is not None and cls in known_classes:
            seen_known.setdefault(cls, (i, why))
        else:
            real.append((i, why, cls))
    for cls, (i, why) in seen_known.items():
        text = dict(known)[cls]
        ctx.say("KNOWN-FINDING: property=%s %s [class=%s; e.g. %s]" % (P.ID, text, cls, cases[i][:200]))

    violation = None
    if real:
        i, why, cls = real[0]
        case = cases[i]
        if hasattr(P, "shrink"):
            try:
                case, why = P.shrink(ctx, case, why, exes, model_ok)
            except Exception as ex:   # shrinking is best effort
                ctx.say("[%s] shrink failed: %r" % (P.ID, ex))
        path = write_replay(ctx, "violation", {
            "property": P.ID, "kind": "failing-input", "case": case, "why": why,
            "impl": {p: impl[p][i] for p in impl}, "model": model_lines[i] if model_lines else None,
            "reproduce": "cd /verif && ./check %s --replay %s" % (P.ID, "replays/%s_violation.json" % P.ID),
            "others": len(real) - 1})
        violation = (path, "")
    elif problems or res["corr_mismatch"]:
        # proof or correspondence broken, no failing input among the cases: search harder
        found = None
        if hasattr(P, "search") and exes and not a.replay:
            found = P.search(ctx, rng.fork(), exes, model_ok, res)
        if found:
            case, why, lines = found
            path = write_replay(ctx, "violation", {
                "property": P.ID, "kind": "failing-input", "case": case, "why": why, "impl": lines,
                "reproduce": "cd /verif && ./check %s --replay replays/%s_violation.json" % (P.ID, P.ID)})
            violation = (path, "")
        else:
            first = None
            if res["corr_mismatch"]:
                i, why = res["corr_mismatch"][0]
                first = {"case": cases[i], "why": why, "impl": {p: impl[p][i] for p in impl},
                         "model": model_lines[i] if model_lines else None}
            path = write_replay(ctx, "violation", {
                "property": P.ID, "kind": "no-failing-input-found",
                "broken": [{"what": k, "summary": s, "detail": d} for (k, s, d) in problems]
                + ([{"what": "correspondence", "summary": "model and implementation disagree on %d case(s)" % len(res["corr_mismatch"]),
                     "projection": getattr(P, "PROJECTION", P.ID), "first": first}] if res["corr_mismatch"] else []),
                "theorems": thms,
                "cases": [cases[i] for i, _ in res["corr_mismatch"][:20]]})
            violation = (path, " no-failing-input-found")

    nviol = 0 if violation is None else 1
    cov = {
        "obligations": len(thms),
        "discharged": discharged,
        "checker_cmd": "cd /verif/coq && coq_makefile -f _CoqProject -o Makefile && make -j16 %so && coqc -Q theories EP %s  (Print Assumptions parsed)" % (props_rel, props_rel),
        "trusted_base": TRUSTED_BASE + list(getattr(P, "TRUSTED_EXTRA", [])),
        "theorems": {t: assum.get(t, "not-checked") for t in thms},
        "evaluations": len(cases) * max(1, len(impl)),
        "distinct_nontrivial": res.get("nontrivial", 0),
        "rule": P.RULE,
        "samples": res.get("samples", cases[:5]),
        "traces_validated_against_impl": len(cases) - len(res["corr_mismatch"]) if (impl and model_lines) else 0,
        "correspondence_mismatches": len(res["corr_mismatch"]),
        "oracle_failures_known": sum(1 for (_, _, c) in res["oracle_fail"] if c in known_classes),
        "oracle_failures_unlisted": len(real),
        "input_distribution": res.get("hist", {}),
        "profiles": list(impl.keys()),
        "repo_state": list(repo_state()),
        "coqchk": getattr(ctx, "chk", "thorough tier only"),
        "source_fingerprints": fps,
        "source_changed_since_baseline": changed,
        "exhaustive": bool(res.get("exhaustive", False)),
        "problems": [p[1] for p in problems],
    }
    cov.update(res.get("extra", {}))
    write_evidence(ctx, cov, nviol, assumptions=list(getattr(P, "ASSUMPTIONS", [])))
    if violation:
        print("VIOLATION property=%s replay=%s%s" % (P.ID, violation[0], violation[1]), flush=True)
        return 1
    try:
        os.unlink(os.path.join(ROOT, "replays", "%s_violation.json" % P.ID))   # stale replay of an earlier run
    except OSError:
        pass
    ctx.say("[%s] OK: %d theorems closed, %d cases impl=model=spec, %.1fs" % (
        P.ID, discharged, len(cases), time.time() - ctx.t0))
    return 0


if __name__ == "__main__" and len(sys.argv) > 1 and sys.argv[1] == "--baseline":
    base = {}
    for line in open(os.path.join(ROOT, "properties.jsonl")):
        pid = json.loads(line)["id"]
        base[pid] = fingerprints(pid)
    with open(os.path.join(ROOT, "tools", "fingerprints.json"), "w") as f:
        json.dump(base, f, indent=1, sort_keys=True)
    print("baseline fingerprints written for", len(base), "properties")
