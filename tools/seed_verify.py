#!/usr/bin/env python3
"""tools/seed_verify.py <seed_out_dir> <PROPERTY> [check ids ...]

Confirms a seeded change delivered by an independent sub-agent and records it
under /verif/seeded/<PROPERTY>_<n>/:
  1. the patch applies to a fresh scratch worktree of /repo HEAD and the crate compiles,
  2. the crate's complete test suite passes with the patch (demo not included),
  3. the demonstration fails with the patch and passes without it,
  4. which of our checks (VERIF_REPO=<worktree> ./check <id>) report a VIOLATION.
Scratch worktrees and their build output are removed afterwards."""
import hashlib
import json
import os
import shutil
import subprocess
import sys
import time

ROOT = os.path.dirname(os.path.dirname(os.path.abspath(__file__)))


def sh(cmd, cwd=None, timeout=3600, env=None):
    e = dict(os.environ)
    e["CARGO_NET_OFFLINE"] = "true"
    if env:
        e.update(env)
    p = subprocess.run(cmd, cwd=cwd, shell=True, timeout=timeout, env=e,
                       stdout=subprocess.PIPE, stderr=subprocess.STDOUT, text=True)
    return p.returncode, p.stdout


def main():
    src, prop = sys.argv[1], sys.argv[2]
    checks = sys.argv[3:] or [prop]
    results = []
    for n in sorted(os.listdir(src)):
        d = os.path.join(src, n)
        if not os.path.isfile(os.path.join(d, "patch.diff")):
            continue
        rnd = os.environ.get("SEED_ROUND")
        tag = "%s_%s_%s" % (prop, rnd, n) if rnd else "%s_%s" % (prop, n)
        wt = "/tmp/sv_%s" % tag
        sh("git -C /repo worktree remove --force %s" % wt)
        rc, out = sh("git -C /repo worktree add --detach %s" % wt)
        rec = {"property": prop, "n": n, "ran": []}
        try:
            demo_src = os.path.join(d, "demo.rs")
            demo_dst = os.path.join(wt, "etherparse", "tests", "seed_demo.rs")
            # pristine: demo passes
            shutil.copy(demo_src, demo_dst)
            rc, out = sh("cargo test --offline -p etherparse --test seed_demo 2>&1 | tail -15", cwd=wt)
            rec["demo_passes_without"] = ("test result: ok" in out) and ("FAILED" not in out)
            rec["ran"].append("pristine: cargo test --offline -p etherparse --test seed_demo")
            os.unlink(demo_dst)
            # patched
            rc, out = sh("git apply %s" % os.path.join(d, "patch.diff"), cwd=wt)
            rec["patch_applies"] = rc == 0
            rc, out = sh("cargo test --workspace --offline --no-fail-fast 2>&1 | grep -E '^test result|FAILED|failed|^error' ", cwd=wt, timeout=3000)
            oks = out.count("test result: ok")
            rec["suite_passes"] = oks >= 4 and "FAILED" not in out and "error" not in out
            rec["suite_summary"] = out.strip().split("\n")[:8]
            rec["ran"].append("patched: cargo test --workspace --offline --no-fail-fast")
            shutil.copy(demo_src, demo_dst)
            rc, out = sh("cargo test --offline -p etherparse --test seed_demo 2>&1 | tail -25", cwd=wt)
            rec["demo_fails_with_patch"] = ("FAILED" in out) or ("panicked" in out)
            rec["ran"].append("patched: cargo test --offline -p etherparse --test seed_demo")
            os.unlink(demo_dst)
            # our checks
            rec["checks"] = {}
            for cid in checks:
                t = time.time()
                rc, out = sh("./check %s" % cid, cwd=ROOT, env={"VERIF_REPO": wt}, timeout=3000)
                viol = [l for l in out.split("\n") if l.startswith("VIOLATION")]
                why = ""
                rp = os.path.join(ROOT, "replays", "%s_violation.json" % cid)
                if viol and os.path.exists(rp):
                    try:
                        j = json.load(open(rp))
                        why = (j.get("kind", "") + ": " + str(j.get("case", ""))[:160] + " -- " + str(j.get("why", ""))[:300])
                    except Exception:
                        pass
                rec["checks"][cid] = {"exit": rc, "violation": viol[0] if viol else None, "replay": why,
                                      "seconds": round(time.time() - t, 1)}
                rec["ran"].append("VERIF_REPO=%s ./check %s" % (wt, cid))
        finally:
            sh("git -C /repo worktree remove --force %s" % wt)
            key = hashlib.sha1(wt.encode()).hexdigest()[:10]
            shutil.rmtree(os.path.join(ROOT, "build", "h_" + key), ignore_errors=True)
        # keep it
        dst = os.path.join(ROOT, "seeded", tag)
        os.makedirs(dst, exist_ok=True)
        shutil.copy(os.path.join(d, "patch.diff"), dst)
        shutil.copy(os.path.join(d, "demo.rs"), dst)
        meta = {}
        try:
            meta = json.load(open(os.path.join(d, "meta.json")))
        except Exception:
            pass
        meta["orchestrator_verification"] = rec
        meta["confirmed"] = bool(rec.get("patch_applies") and rec.get("suite_passes")
                                 and rec.get("demo_fails_with_patch") and rec.get("demo_passes_without"))
        json.dump(meta, open(os.path.join(dst, "meta.json"), "w"), indent=1)
        results.append((tag, meta["confirmed"], {k: bool(v["violation"]) for k, v in rec.get("checks", {}).items()}))
        print(tag, "confirmed" if meta["confirmed"] else "NOT-CONFIRMED", results[-1][2], flush=True)
    # restore generated constants for /repo
    sh("python3 -c \"import sys; sys.path.insert(0,'tools'); import vlib\nwith vlib.Lock('coq'): vlib.gen_consts()\"", cwd=ROOT)


if __name__ == "__main__":
    main()
