#!/usr/bin/env python3
"""Rewrites the 'Round 3' block of DESIGN.md section 9 from seeded/*_r3_*/meta.json."""
import glob
import json
import os
import re

ROOT = os.path.dirname(os.path.dirname(os.path.abspath(__file__)))
rows = []
for mp in sorted(glob.glob(os.path.join(ROOT, "seeded", "*_r3_*", "meta.json"))):
    m = json.load(open(mp))
    v = m.get("orchestrator_verification", {})
    tag = os.path.basename(os.path.dirname(mp))
    prop = tag.split("_")[0]
    caught, missed = [], []
    for cid, r in sorted(v.get("checks", {}).items()):
        if r.get("violation"):
            caught.append("%s (%s)" % (cid, "no-failing-input-found" if "no-failing-input-found" in r["violation"] else "failing input"))
        else:
            missed.append(cid)
    own = v.get("checks", {}).get(prop, {})
    rows.append((tag, bool(m.get("confirmed")), (m.get("summary") or "").replace("|", "/").replace("\n", " ")[:170],
                 ", ".join(caught) or "-", ", ".join(missed) or "-", bool(own.get("violation"))))
conf = [r for r in rows if r[1]]
own_caught = [r for r in conf if r[5]]
txt = ["<!-- round3 begin -->",
       "### Round 3 (this session): %d further changes, two per property" % len(rows),
       "",
       "Fresh sub-agents, same brief (property text + own worktree only), asked for changes in the code paths the crate's",
       "tests exercise least (`_lax` copies, reader doors, one of several near-duplicate functions, reserved bits, values",
       ">= 2^16, cooperating sites).  %d of %d are confirmed (suite green with the patch, demonstration fails with it and" % (len(conf), len(rows)),
       "passes without); %d of the confirmed ones are reported by the check of the property they were written against." % len(own_caught),
       "Records: `seeded/<id>_r3_<n>/`; a change not listed here was delivered but not verified before the session ended.",
       "",
       "| change | what it does | caught by | run, not caught by |", "|---|---|---|---|"]
for r in rows:
    txt.append("| %s%s | %s | %s | %s |" % (r[0], "" if r[1] else " (NOT confirmed)", r[2], r[3], r[4]))
txt += ["",
        "First missed, then caught after strengthening (nothing special-cased to the seeded input): **C02_r3_1** - a refactor of",
        "`NdpOptionsIterator` that returns the same error forever for an option with length 0 or a stray trailing byte (an",
        "unbounded loop for any caller that drains the iterator).  The C01/C02 harness did not reach the NDP iterator at all and",
        "the C17 harness bounded it at 100 000 items per case, which made the run buffer 31 GB instead of reporting.  See the",
        "'machinery fault corrected' entry in section 8: 50 further decoder doors in the C01/C02 harness, iteration bounds",
        "proportional to the area, output cap in the shard runner; re-run: C02 and C17 both report it with a failing input",
        "(`no 07`: `ERR Size 7 2 1 ; ERR Size 7 2 1 ; ... LOOP` against `ERR Size 7 2 1 ; end rest=0`).",
        "<!-- round3 end -->"]
block = "\n".join(txt)
p = os.path.join(ROOT, "DESIGN.md")
d = open(p).read()
if "<!-- round3 begin -->" in d:
    d = re.sub(r"<!-- round3 begin -->.*?<!-- round3 end -->", lambda _: block, d, flags=re.S)
else:
    d = d.rstrip("\n") + "\n\n" + block + "\n"
open(p, "w").write(d)
print(len(rows), "round-3 changes,", len(conf), "confirmed,", len(own_caught), "caught by own check")
