#!/usr/bin/env python3
"""Translator for the field ACCESSORS of the crate's slice types.

Parses the `impl<'a> XSlice<'a> { .. }` blocks of the files in FILES out of the CURRENT working
tree of the crate ($VERIF_REPO, default /repo) and writes coq/theories/Gen/Accessors.v: one
Gallina definition per accessor whose body lies inside the grammar below, over the primitives of
the hand model (Parse/Types.v, Parse/Access.v: rdU rd16 rd32 rd_arr be16 be32 bitset N.land N.lor
N.shiftr N.shiftl).  Parse/GenAccessOk.v proves every generated definition equal to the hand
model's accessor, so a changed mask / shift / index / byte order / precedence in an accessor breaks
a proof obligation at the next run.  A function outside the grammar is never guessed:
  * if GenAccessOk.v has a lemma for it (table HAND below) it is emitted as an ALIAS of the hand
    model (`(* FALLBACK: not translatable: <reason> *)`, a line `gen_accessors: FALLBACK T::f (..)`
    on stdout): an out-of-grammar rewrite degrades that accessor to the differential run instead of
    raising an alarm.  Functions that parse are never aliased.
  * otherwise it is SKIPPED and listed (header comment of the generated file, stdout).
Both lists and the translated names are also written to coq/theories/Gen/accessors_report.json.
Exit status is always 0.

Grammar (after peeling `unsafe { }`, blocks, `let x = e;` bindings and parentheses):
  byte read      [*]self.slice.get_unchecked(K) | *self.slice.as_ptr()[.add(K)]           : u8
  word read      get_unchecked_be_u16/_u32(self.slice.as_ptr()[.add(K)])                   : u16/u32
  array read     get_unchecked_{4,6,8,16}_byte_array(self.slice.as_ptr()[.add(K)])         : [u8; n]
  be compose     u16::from_be_bytes([e, e]) | u32::from_be_bytes([e, e, e, e])            : u16/u32
  array          [e, .., e] of u8 as the whole result                                       : [u8; n]
  literals       dec / hex / bin / oct, `_` separators, optional uN suffix
  constants      T::NAME where `impl T { pub const NAME: uN|usize = <literal>; }` is in the crate
  operators      e >> n, e << n (n literal < width; `<<` wraps at the width of the left operand),
                 e & e, e | e, e == e, e != e (integers), !b, b || b, b && b (evaluated eagerly)
  conversions    e as uN (explicit mod 2^N when narrowing), usize/u16/u32/u64::from(e) (widening)
  wrappers       T::new_unchecked(e) / T::from_u8_unchecked(e) whose body in the crate is
                 [debug_assert!(..);] T(v) | Self(v) | core::mem::transmute::<uN, T>(v);
                 T(e) where `pub struct T(pub uN)`; T::from(e) with `impl From<uN> for T` = T(v);
                 Ipv4Addr::from / Ipv6Addr::from on a byte array; e.value() / e.0 on such a T
  calls          self.f() where f is a translated accessor of the same impl
Operator precedence is Rust's: unary > as > * / % > + - > << >> > & > ^ > | > == != < > <= >= > && > ||.
Part of the trusted base (see notes/gen_accessors.md)."""
import os
import re
import sys

REPO = os.environ.get("VERIF_REPO", "/repo")
SRC = os.path.join(REPO, "etherparse", "src")
OUT = os.path.join(os.path.dirname(os.path.dirname(os.path.abspath(__file__))),
                   "coq", "theories", "Gen", "Accessors.v")

FILES = [
    "link/ethernet2_slice.rs", "link/ethernet2_header_slice.rs", "link/single_vlan_slice.rs",
    "link/single_vlan_header_slice.rs", "link/linux_sll_header_slice.rs",
    "link/macsec_header_slice.rs", "net/ipv4_header_slice.rs", "net/ipv6_header_slice.rs",
    "net/ipv6_fragment_header_slice.rs", "net/ip_auth_header_slice.rs",
    "net/ipv6_raw_ext_header_slice.rs", "net/arp_packet_slice.rs",
    "transport/udp_header_slice.rs", "transport/udp_slice.rs", "transport/tcp_header_slice.rs",
    "transport/tcp_slice.rs", "transport/icmpv4_slice.rs", "transport/icmpv6_slice.rs",
]

INT_W = {"u8": 8, "u16": 16, "u32": 32, "u64": 64, "usize": 64}
ARRAY_READERS = {"get_unchecked_4_byte_array": 4, "get_unchecked_6_byte_array": 6,
                 "get_unchecked_8_byte_array": 8, "get_unchecked_16_byte_array": 16}
STD_ADDR = {("Ipv4Addr", 4), ("Ipv6Addr", 16)}
# names the generated module must not shadow / Coq keywords
RESERVED = {"at", "in", "if", "then", "else", "let", "fun", "forall", "exists", "match", "with",
            "end", "as", "return", "fix", "cofix", "Type", "Prop", "Set", "using", "where", "for",
            "mod", "slice", "res", "bytes", "rdU", "rd16", "rd32", "rd_arr", "be16", "be32",
            "bitset", "Ok", "Err", "Bug", "bind", "negb", "orb", "andb", "N", "bool", "nat"}


def _hand(mod, fns, arg="s"):
    return {f: "%s.%s %s" % (mod, f, arg) for f in fns.split()}


_TCP = ("source_port destination_port sequence_number acknowledgment_number data_offset ns fin syn "
        "rst psh ack urg ece cwr window_size checksum urgent_pointer")
_VLAN = "priority_code_point drop_eligible_indicator vlan_identifier ether_type"
_UDP = "source_port destination_port length checksum"
_ICMP = "type_u8 code_u8 checksum bytes5to8"
# Rust type -> { accessor -> hand-model term over `s` (Parse/Access.v, Parse/AccessExtra.v, Parse/Slices.v) }.
# These are the accessors Parse/GenAccessOk.v has a lemma for.  One of them that can no longer be
# translated (left the grammar, disappeared) is emitted as an ALIAS of this term (FALLBACK), so that
# an out-of-grammar rewrite degrades the accessor to the differential run instead of raising an alarm.
HAND = {
    "ArpPacketSlice": _hand("ArpPacketA", "hw_addr_type proto_addr_type hw_addr_size proto_addr_size operation"),
    "Ethernet2HeaderSlice": _hand("Ethernet2A", "destination source ether_type", "(mkEth2 0 s)"),
    "Ethernet2Slice": dict(_hand("Ethernet2A", "destination source ether_type", "(mkEth2 0 s)"),
                           header_len="Ok Ethernet2Slice.header_len"),
    "SingleVlanHeaderSlice": _hand("SingleVlanA", _VLAN),
    "SingleVlanSlice": dict(_hand("SingleVlanA", _VLAN), header_len="Ok SingleVlanSlice.header_len"),
    "LinuxSllHeaderSlice": _hand("LinuxSllHeaderA", "arp_hardware_type sender_address_valid_length sender_address_full"),
    "MacsecHeaderSlice": _hand("MacsecHeaderA", "tci_an_raw endstation_id tci_scb encrypted userdata_changed "
                               "is_unmodified an short_len packet_nr sci_present"),
    "Ipv4HeaderSlice": dict(_hand("Ipv4HeaderA", "version ihl dcp ecn total_len identification dont_fragment "
                                  "more_fragments fragments_offset ttl protocol header_checksum source "
                                  "destination is_fragmenting_payload"),
                            **_hand("Ipv4HeaderX", "source_addr destination_addr")),
    "Ipv6HeaderSlice": dict(_hand("Ipv6HeaderA", "version traffic_class ecn dscp flow_label payload_length "
                                  "next_header hop_limit source destination"),
                            **_hand("Ipv6HeaderX", "source_addr destination_addr header_len")),
    "Ipv6FragmentHeaderSlice": _hand("Ipv6FragmentHeaderA", "next_header fragment_offset more_fragments "
                                     "identification is_fragmenting_payload"),
    "IpAuthHeaderSlice": _hand("IpAuthHeaderA", "next_header spi sequence_number"),
    "Ipv6RawExtHeaderSlice": _hand("Ipv6RawExtHeaderA", "next_header"),
    "UdpHeaderSlice": _hand("UdpA", _UDP),
    "UdpSlice": dict(_hand("UdpA", _UDP), **_hand("UdpX", "header_len header_len_u16")),
    "TcpHeaderSlice": _hand("TcpFieldsA", _TCP),
    "TcpSlice": _hand("TcpFieldsA", _TCP),
    "Icmpv4Slice": _hand("Icmpv4A", _ICMP),
    "Icmpv6Slice": dict(_hand("Icmpv6A", _ICMP), **_hand("Icmpv6X", "header_len")),
}
REPORT = os.path.join(os.path.dirname(OUT), "accessors_report.json")


class Skip(Exception):
    pass


# --------------------------------------------------------------------------- lexical level
def strip_comments(t):
    """remove // and /* */ comments (nested), keep string / char literals intact"""
    out, i, n = [], 0, len(t)
    while i < n:
        c = t[i]
        if t.startswith("//", i):
            j = t.find("\n", i)
            i = n if j < 0 else j
        elif t.startswith("/*", i):
            d, i = 1, i + 2
            while i < n and d:
                if t.startswith("/*", i):
                    d, i = d + 1, i + 2
                elif t.startswith("*/", i):
                    d, i = d - 1, i + 2
                else:
                    i += 1
            out.append(" ")
        elif c == '"':
            j = i + 1
            while j < n and t[j] != '"':
                j += 2 if t[j] == "\\" else 1
            out.append(t[i:j + 1])
            i = j + 1
        elif c == "'":
            m = re.match(r"'(\\.[^']*|[^\\'])'", t[i:])
            if m:                       # char literal: replaced by a harmless token
                out.append("'?'")
                i += m.end()
            else:                       # lifetime
                out.append(c)
                i += 1
        else:
            out.append(c)
            i += 1
    return "".join(out)


def match_close(t, i, op="{", cl="}"):
    """t[i] == op; index of the matching closer (strings skipped)"""
    d, n = 0, len(t)
    while i < n:
        c = t[i]
        if c == '"':
            i += 1
            while i < n and t[i] != '"':
                i += 2 if t[i] == "\\" else 1
        elif c == op:
            d += 1
        elif c == cl:
            d -= 1
            if d == 0:
                return i
        i += 1
    raise Skip("unbalanced %s%s" % (op, cl))


def strip_attrs(t):
    """remove #[..] / #![..] attributes; a #[cfg(test)] also removes the item that follows"""
    out, i, n = [], 0, len(t)
    while i < n:
        if t[i] == "#" and re.match(r"#!?\[", t[i:]):
            j = t.index("[", i)
            k = match_close(t, j, "[", "]")
            attr = re.sub(r"\s+", "", t[j:k + 1])
            i = k + 1
            if attr == "[cfg(test)]":
                m = re.match(r"\s*(pub\s+)?mod\s+\w+\s*\{", t[i:])
                if m:
                    i = match_close(t, i + m.end() - 1) + 1
        elif t[i] == '"':
            j = i + 1
            while j < n and t[j] != '"':
                j += 2 if t[j] == "\\" else 1
            out.append(t[i:j + 1])
            i = j + 1
        else:
            out.append(t[i])
            i += 1
    return "".join(out)


def clean(text):
    return strip_attrs(strip_comments(text))


def find_impls(t, want=None):
    """inherent impl blocks: [(type name, body text)]"""
    res = []
    for m in re.finditer(r"\bimpl\s*(<[^>{]*>)?\s*([A-Za-z_]\w*)\s*(<[^>{]*>)?\s*\{", t):
        name = m.group(2)
        if want is not None and name != want:
            continue
        o = m.end() - 1
        res.append((name, t[o + 1:match_close(t, o)]))
    return res


def split_fns(body):
    """fn items at depth 0 of an impl body: [dict(name, params, ret, body, quals)]"""
    res, i, n, depth = [], 0, len(body), 0
    while i < n:
        c = body[i]
        if c == '"':
            i += 1
            while i < n and body[i] != '"':
                i += 2 if body[i] == "\\" else 1
        elif c == "{":
            depth += 1
        elif c == "}":
            depth -= 1
        elif depth == 0 and body.startswith("fn", i) and (i == 0 or not (body[i - 1].isalnum() or body[i - 1] == "_")):
            m = re.match(r"fn\s+([A-Za-z_]\w*)\s*(<[^>(]*>)?\s*\(", body[i:])
            if m:
                # qualifiers in front (pub, pub(crate), const, unsafe)
                j = i
                pre = body[:i]
                q = re.search(r"((?:\b(?:pub(?:\s*\([^)]*\))?|const|unsafe|async|extern)\s+)*)$", pre)
                quals = q.group(1).split() if q else []
                po = i + m.end() - 1
                pc = match_close(body, po, "(", ")")
                bo = body.index("{", pc)
                bc = match_close(body, bo)
                ret = body[pc + 1:bo].strip()
                ret = ret[2:].strip() if ret.startswith("->") else ""
                if " where " in " " + ret + " ":
                    ret = ret.split("where")[0].strip()
                res.append({"name": m.group(1), "params": re.sub(r"\s+", " ", body[po + 1:pc].strip()),
                            "ret": re.sub(r"\s+", " ", ret), "body": body[bo:bc + 1],
                            "quals": quals, "generics": m.group(2) or ""})
                i = bc
        i += 1
    return res


TOK = re.compile(r"""
    (?P<ws>\s+)
  | (?P<num>0[xX][0-9a-fA-F_]+(?:[iu](?:8|16|32|64|128|size))?
          |0[bB][01_]+(?:[iu](?:8|16|32|64|128|size))?
          |0[oO][0-7_]+(?:[iu](?:8|16|32|64|128|size))?
          |[0-9][0-9_]*(?:[iu](?:8|16|32|64|128|size))?)
  | (?P<id>[A-Za-z_][A-Za-z0-9_]*)
  | (?P<life>'[A-Za-z_][A-Za-z0-9_]*)
  | (?P<str>"(?:\\.|[^"\\])*"|'\?')
  | (?P<p>::|->|=>|<<=|>>=|\.\.=|\.\.|<<|>>|==|!=|<=|>=|&&|\|\||\+=|-=|\*=|/=|&=|\|=|\^=|[-+*/%&|^!<>=.,;:(){}\[\]?@#$~])
""", re.X)


NUMLIT = re.compile(r"(?:0[xX][0-9a-fA-F_]+|0[bB][01_]+|0[oO][0-7_]+|[0-9][0-9_]*)(?:u8|u16|u32|u64|usize)?")


def tokenize(s):
    toks, i = [], 0
    while i < len(s):
        m = TOK.match(s, i)
        if not m:
            raise Skip("cannot tokenize %r" % s[i:i + 12])
        i = m.end()
        k = m.lastgroup
        if k != "ws":
            toks.append((k, m.group(k)))
    return toks


def parse_int(txt):
    m = re.match(r"^(.*?)((?:[iu](?:8|16|32|64|128|size))?)$", txt)
    body, suf = m.group(1), m.group(2)
    b = body.replace("_", "")
    if b[:2] in ("0x", "0X"):
        v = int(b[2:], 16)
    elif b[:2] in ("0b", "0B"):
        v = int(b[2:], 2)
    elif b[:2] in ("0o", "0O"):
        v = int(b[2:], 8)
    else:
        v = int(b, 10)
    return v, (suf or None)


# --------------------------------------------------------------------------- expression parser
BINPREC = {"*": 10, "/": 10, "%": 10, "+": 9, "-": 9, "<<": 8, ">>": 8, "&": 7, "^": 6, "|": 5,
           "==": 4, "!=": 4, "<": 4, ">": 4, "<=": 4, ">=": 4, "&&": 3, "||": 2}
CONTROL = {"if", "match", "return", "loop", "while", "for", "break", "continue", "move", "async"}


class Parser:
    def __init__(self, toks):
        self.t, self.i = toks, 0

    def peek(self, k=0):
        return self.t[self.i + k] if self.i + k < len(self.t) else ("eof", "")

    def next(self):
        tok = self.peek()
        self.i += 1
        return tok

    def accept(self, v):
        if self.peek()[1] == v and self.peek()[0] in ("p", "id"):
            self.i += 1
            return True
        return False

    def expect(self, v):
        if not self.accept(v):
            raise Skip("syntax: expected %r, found %r" % (v, self.peek()[1]))

    # block := '{' ( 'let' IDENT (':' type)? '=' expr ';' )* expr '}'
    def block(self):
        self.expect("{")
        lets = []
        while True:
            k, v = self.peek()
            if k == "id" and v == "let":
                self.next()
                k2, name = self.next()
                if k2 != "id" or name in ("mut", "ref") or self.peek()[1] not in (":", "="):
                    raise Skip("let with a pattern")
                ty = None
                if self.accept(":"):
                    ty = self.type_until({"="})
                self.expect("=")
                e = self.expr()
                self.expect(";")
                lets.append((name, ty, e))
                continue
            if k == "id" and v in ("use", "fn", "struct", "const", "static", "impl"):
                raise Skip("item inside the body (%s)" % v)
            break
        e = self.expr()
        if self.accept(";"):
            raise Skip("statements (expression followed by `;`)")
        self.expect("}")
        return ("block", lets, e)

    def type_until(self, stops):
        d, parts = 0, []
        while True:
            k, v = self.peek()
            if k == "eof":
                raise Skip("syntax: type")
            if d == 0 and v in stops and k == "p":
                break
            if v in ("<", "(", "["):
                d += 1
            elif v in (">", ")", "]"):
                d -= 1
            elif v == ">>":
                d -= 2
            parts.append(v)
            self.next()
        return " ".join(parts)

    def expr(self, minprec=1):
        lhs = self.unary()
        while True:
            k, v = self.peek()
            if k == "p" and v in BINPREC and BINPREC[v] >= minprec:
                p = BINPREC[v]
                self.next()
                rhs = self.expr(p + 1)
                if p == 4 and self.peek()[1] in ("==", "!=", "<", ">", "<=", ">=") and self.peek()[0] == "p":
                    raise Skip("chained comparison")
                lhs = ("bin", v, lhs, rhs)
            else:
                return lhs

    def unary(self):
        # `as` binds weaker than the prefix operators: *p as u16 = (*p) as u16
        e = self.prefix()
        while self.peek() == ("id", "as"):
            self.next()
            ty = self.path_type()
            e = ("cast", e, ty)
        return e

    def prefix(self):
        k, v = self.peek()
        if k == "p" and v in ("*", "!", "-"):
            self.next()
            return ("un", v, self.prefix())
        if k == "p" and v in ("&", "&&"):
            self.next()
            self.accept("mut")
            return ("un", "&", self.prefix())
        return self.postfix()

    def path_type(self):
        k, v = self.next()
        if k != "id":
            raise Skip("cast to a non-path type")
        while self.peek()[1] == "::" and self.peek(1)[0] == "id":
            self.next()
            v = self.next()[1]
        return v

    def args(self, close):
        res = []
        while not self.accept(close):
            res.append(self.expr())
            if not self.accept(","):
                self.expect(close)
                break
        return res

    def postfix(self):
        e = self.primary()
        while True:
            k, v = self.peek()
            if v == "." and k == "p":
                self.next()
                k2, name = self.next()
                if k2 == "num":
                    e = ("field", e, name)
                elif k2 == "id":
                    if self.peek()[1] == "::":          # turbofish on a method
                        raise Skip("turbofish method call")
                    if self.accept("("):
                        e = ("mcall", e, name, self.args(")"))
                    else:
                        e = ("field", e, name)
                else:
                    raise Skip("syntax after `.`")
            elif v == "(" and k == "p":
                self.next()
                e = ("call", e, self.args(")"))
            elif v == "[" and k == "p":
                raise Skip("indexing / sub-slicing")
            elif v == "?" and k == "p":
                raise Skip("`?` operator")
            else:
                return e

    def primary(self):
        k, v = self.next()
        if k == "num":
            val, suf = parse_int(v)
            return ("lit", val, suf)
        if k == "str":
            raise Skip("string / char literal")
        if k == "p" and v == "(":
            if self.accept(")"):
                raise Skip("unit value")
            e = self.expr()
            if self.accept(","):
                raise Skip("tuple")
            self.expect(")")
            return ("paren", e)
        if k == "p" and v == "[":
            elems = []
            while not self.accept("]"):
                elems.append(self.expr())
                if self.accept(";"):
                    raise Skip("repeat array [x; n]")
                if not self.accept(","):
                    self.expect("]")
                    break
            return ("array", elems)
        if k == "p" and v == "{":
            self.i -= 1
            return self.block()
        if k == "p" and v == "|" or (k == "p" and v == "||"):
            raise Skip("closure")
        if k == "id":
            if v == "unsafe":
                return self.block()
            if v in CONTROL:
                raise Skip("control flow (`%s`)" % v)
            if v in ("true", "false"):
                return ("bool", v == "true")
            segs = [v]
            while self.peek() == ("p", "::"):
                self.next()
                if self.accept("<"):            # turbofish / generic args: T::<A, B>
                    g = self.type_until({">"})
                    self.expect(">")
                    segs.append("<" + g + ">")
                    continue
                k2, v2 = self.next()
                if k2 != "id":
                    raise Skip("syntax: path")
                segs.append(v2)
            if self.peek() == ("p", "!"):
                if self.peek(1)[1] in ("(", "[", "{"):
                    raise Skip("macro call (%s!)" % segs[-1])
            if self.peek() == ("p", "{") and segs[-1][:1].isupper():
                raise Skip("struct literal (%s { .. })" % "::".join(segs))
            return ("path", segs)
        raise Skip("syntax: unexpected %r" % v)


def parse_body(text):
    p = Parser(tokenize(text))
    b = p.block()
    if p.peek()[0] != "eof":
        raise Skip("syntax: trailing tokens")
    return b


# --------------------------------------------------------------------------- crate index (wrappers / constants)
class Crate:
    def __init__(self, src):
        self.src = src
        self.texts = None

    def all(self):
        if self.texts is None:
            self.texts = []
            for root, _dirs, files in sorted(os.walk(self.src)):
                for f in sorted(files):
                    if f.endswith(".rs"):
                        try:
                            self.texts.append(clean(open(os.path.join(root, f)).read()))
                        except Exception:
                            pass
        return self.texts

    def newtype_inner(self, T):
        """`pub struct T(pub uN);` -> uN with a public field, else None"""
        for t in self.all():
            m = re.search(r"\bstruct\s+%s\s*\(\s*pub\s+(u8|u16|u32|u64)\s*\)\s*;" % re.escape(T), t)
            if m:
                return m.group(1)
        return None

    def methods(self, T, name):
        res = []
        for t in self.all():
            if not re.search(r"\bimpl\b[^{;]*\b%s\b" % re.escape(T), t):
                continue
            for _n, body in find_impls(t, T):
                res += [f for f in split_fns(body) if f["name"] == name]
        return res

    def wrapper(self, T, name):
        """T::name(v: uN) -> T whose body is the identity on the representation -> uN"""
        fs = self.methods(T, name)
        if len(fs) != 1:
            raise Skip("cannot resolve %s::%s in the crate" % (T, name))
        f = fs[0]
        m = re.fullmatch(r"(\w+)\s*:\s*(u8|u16|u32|u64)", f["params"])
        if not m:
            raise Skip("%s::%s: unexpected parameters" % (T, name))
        p, ty = m.group(1), m.group(2)
        body = re.sub(r"\s+", "", f["body"])[1:-1]
        body = re.sub(r"^(debug_assert!\((?:[^()]|\([^()]*\))*\);)*", "", body)
        ok = {"%s(%s)" % (T, p), "Self(%s)" % p,
              "core::mem::transmute::<%s,%s>(%s)" % (ty, T, p)}
        if body not in ok or f["ret"] not in (T, "Self"):
            raise Skip("%s::%s is not a plain wrapper" % (T, name))
        return ty

    def from_impl(self, T):
        """impl From<uN> for T { fn from(v: uN) -> Self { T(v) } } -> uN"""
        for t in self.all():
            for m in re.finditer(r"\bimpl\s+From\s*<\s*(u8|u16|u32|u64)\s*>\s+for\s+%s\s*\{" % re.escape(T), t):
                o = m.end() - 1
                fs = [f for f in split_fns(t[o + 1:match_close(t, o)]) if f["name"] == "from"]
                if len(fs) == 1:
                    pm = re.fullmatch(r"(\w+)\s*:\s*(u8|u16|u32|u64)", fs[0]["params"])
                    body = re.sub(r"\s+", "", fs[0]["body"])[1:-1]
                    if pm and body in ("%s(%s)" % (T, pm.group(1)), "Self(%s)" % pm.group(1)):
                        return m.group(1)
        raise Skip("no plain `impl From<uN> for %s`" % T)

    def unwrapper(self, T, name):
        """fn name(self) -> uN { self.0 }"""
        fs = self.methods(T, name)
        if len(fs) != 1:
            raise Skip("cannot resolve %s::%s in the crate" % (T, name))
        f = fs[0]
        if re.sub(r"\s+", "", f["params"]) not in ("self", "&self") or re.sub(r"\s+", "", f["body"]) != "{self.0}":
            raise Skip("%s::%s is not `self.0`" % (T, name))
        return f["ret"]

    def const(self, T, name):
        for t in self.all():
            if not re.search(r"\bimpl\b[^{;]*\b%s\b" % re.escape(T), t):
                continue
            for _n, body in find_impls(t, T):
                m = re.search(r"\bconst\s+%s\s*:\s*(u8|u16|u32|u64|usize)\s*=\s*([^;]+);" % re.escape(name), body)
                if m:
                    txt = m.group(2).strip()
                    if not NUMLIT.fullmatch(txt):
                        raise Skip("constant %s::%s is not a literal" % (T, name))
                    v, suf = parse_int(txt)
                    if suf and suf != m.group(1):
                        raise Skip("constant %s::%s: suffix mismatch" % (T, name))
                    return v, m.group(1)
        raise Skip("cannot resolve constant %s::%s" % (T, name))


# --------------------------------------------------------------------------- translation to the IR
def ty_name(t):
    if isinstance(t, tuple):
        return "[u8; %d]" % t[1] if t[0] == "arr" else t[1]
    return t


def int_inner(t):
    """integer type under a newtype wrapper"""
    return t[2] if isinstance(t, tuple) and t[0] == "nt" else t


class FnTr:
    def __init__(self, owner, fn):
        self.o, self.fn = owner, fn
        self.binds = []          # (var, kind, args)
        self.nb = self.nw = self.na = self.nt = 0

    def fresh(self, kind):
        if kind == "rdU":
            v = "b%d" % self.nb
            self.nb += 1
        elif kind in ("rd16", "rd32"):
            v = "w%d" % self.nw
            self.nw += 1
        elif kind == "rd_arr":
            v = "a%d" % self.na
            self.na += 1
        else:
            v = "t%d" % self.nt
            self.nt += 1
        return v

    def bind(self, kind, *args):
        v = self.fresh(kind)
        self.binds.append((v, kind, args))
        return ("var", v)

    # -- recognisers for the pointer / read forms
    @staticmethod
    def is_self_slice(e):
        return e == ("field", ("path", ["self"]), "slice")

    def const_index(self, e):
        ir, ty = self.tr(e, {})
        if ir[0] != "lit" or ty not in ("lit", "usize"):
            raise Skip("read index is not a constant")
        return ir[1]

    def ptr_offset(self, e):
        """self.slice.as_ptr() -> 0 ; self.slice.as_ptr().add(K) -> K ; else None"""
        if e[0] == "mcall" and e[2] == "as_ptr" and e[3] == [] and self.is_self_slice(e[1]):
            return 0
        if e[0] == "mcall" and e[2] == "add" and len(e[3]) == 1:
            base = e[1]
            if base[0] == "mcall" and base[2] == "as_ptr" and base[3] == [] and self.is_self_slice(base[1]):
                return self.const_index(e[3][0])
        return None

    def byte_place(self, e):
        """the place expressions that denote one byte of self.slice -> index or None"""
        if e[0] == "mcall" and e[2] == "get_unchecked" and len(e[3]) == 1 and self.is_self_slice(e[1]):
            return self.const_index(e[3][0])
        return None

    def unify(self, a, ta, b, tb):
        """types of the two operands of & | == != ; literals take the other side's type"""
        ia, ib = int_inner(ta), int_inner(tb)
        if isinstance(ta, tuple) and ta[0] == "nt" or isinstance(tb, tuple) and tb[0] == "nt":
            raise Skip("operator on a wrapped value")
        if ia == "lit" and ib == "lit":
            raise Skip("operator on two untyped literals")
        if ia == "lit":
            self.fits(a, ib)
            return ib
        if ib == "lit":
            self.fits(b, ia)
            return ia
        if ia != ib or ia not in INT_W:
            raise Skip("operand types %s / %s" % (ty_name(ta), ty_name(tb)))
        return ia

    @staticmethod
    def fits(ir, ty):
        if ty not in INT_W:
            raise Skip("literal used at type %s" % ty_name(ty))
        if ir[0] != "lit" or ir[1] >= 2 ** INT_W[ty]:
            raise Skip("literal does not fit %s" % ty)

    def coerce(self, ir, ty, want):
        if ty == "lit":
            self.fits(ir, want)
            return want
        if ty != want:
            raise Skip("argument of type %s where %s is expected" % (ty_name(ty), want))
        return ty

    def tr(self, e, env):
        k = e[0]
        if k == "lit":
            if e[2] is not None and e[2] not in INT_W:
                raise Skip("literal suffix %s" % e[2])
            if e[2]:
                self.fits(("lit", e[1]), e[2])
            return ("lit", e[1]), (e[2] or "lit")
        if k == "bool":
            return ("bool", e[1]), "bool"
        if k == "paren":
            return self.tr(e[1], env)
        if k == "block":
            env = dict(env)
            for name, ty, rhs in e[1]:
                ir, t = self.tr(rhs, env)
                if ty is not None:
                    if ty in INT_W or ty == "bool":
                        t = self.coerce(ir, t, ty)
                    else:
                        raise Skip("let with type annotation %s" % ty)
                env[name] = (ir, t)
            return self.tr(e[2], env)
        if k == "un":
            op, a = e[1], e[2]
            if op == "*":
                i = self.byte_place(a)
                if i is None:
                    i = self.ptr_offset(a)
                if i is None:
                    raise Skip("dereference of something that is not a byte of self.slice")
                return self.bind("rdU", i), "u8"
            if op == "!":
                ir, t = self.tr(a, env)
                if t != "bool":
                    raise Skip("`!` on a non-bool")
                return ("negb", ir), "bool"
            if op == "&":
                raise Skip("borrow / sub-slicing")
            raise Skip("unary %s" % op)
        if k == "array":
            elems = []
            for x in e[1]:
                ir, t = self.tr(x, env)
                self.coerce(ir, t, "u8")
                elems.append(ir)
            return ("list", elems), ("arr", len(elems))
        if k == "cast":
            ir, t = self.tr(e[1], env)
            to = e[2]
            if to not in INT_W:
                raise Skip("cast to %s" % to)
            if t == "lit":
                self.fits(ir, to)
                return ir, to
            if t not in INT_W:
                raise Skip("cast from %s" % ty_name(t))
            if INT_W[to] < INT_W[t]:
                return ("mod", ir, 2 ** INT_W[to]), to
            return ir, to
        if k == "path":
            segs = e[1]
            if len(segs) == 1:
                if segs[0] in env:
                    return env[segs[0]]
                raise Skip("unknown name %s" % segs[0])
            if len(segs) == 2 and re.fullmatch(r"[A-Z][A-Z0-9_]*", segs[1]):
                v, ty = self.o.crate.const(segs[0], segs[1])
                return ("lit", v), ty
            raise Skip("path %s" % "::".join(segs))
        if k == "field":
            if self.is_self_slice(e):
                raise Skip("uses the stored slice itself (no decoding)")
            if e[1] == ("path", ["self"]):
                raise Skip("uses the stored field self.%s" % e[2])
            ir, t = self.tr(e[1], env)
            if e[2] == "0" and isinstance(t, tuple) and t[0] == "nt":
                return ir, t[2]
            raise Skip("field access .%s" % e[2])
        if k == "bin":
            return self.tr_bin(e, env)
        if k == "call":
            return self.tr_call(e, env)
        if k == "mcall":
            return self.tr_mcall(e, env)
        raise Skip("expression form %s" % k)

    def tr_bin(self, e, env):
        op = e[1]
        if op in ("<<", ">>"):
            a, ta = self.tr(e[2], env)
            n, tn = self.tr(e[3], env)
            if n[0] != "lit":
                raise Skip("shift by a non-literal")
            if ta == "lit" and a[0] == "lit":      # constant folding; the type is fixed by the context
                if n[1] >= 64:
                    raise Skip("shift amount >= width")
                return ("lit", a[1] >> n[1] if op == ">>" else a[1] << n[1]), "lit"
            if ta not in INT_W:
                raise Skip("shift of %s" % ty_name(ta))
            if n[1] >= INT_W[ta]:
                raise Skip("shift amount >= width")
            if op == ">>":
                return ("shr", a, n[1]), ta
            return ("shl", a, n[1], INT_W[ta]), ta
        if op in ("&", "|"):
            a, ta = self.tr(e[2], env)
            b, tb = self.tr(e[3], env)
            if ta == "bool" or tb == "bool":
                raise Skip("`%s` on bool" % op)
            if ta == "lit" and tb == "lit" and a[0] == "lit" and b[0] == "lit":
                return ("lit", a[1] & b[1] if op == "&" else a[1] | b[1]), "lit"
            t = self.unify(a, ta, b, tb)
            return ({"&": "land", "|": "lor"}[op], a, b), t
        if op in ("==", "!="):
            a, ta = self.tr(e[2], env)
            b, tb = self.tr(e[3], env)
            if ta == "bool" or tb == "bool":
                raise Skip("comparison of bools")
            self.unify(a, ta, b, tb)
            if a[0] == "lit" and b[0] != "lit":
                a, b = b, a                      # literal on the right (== / != are symmetric)
            if op == "==":
                return ("eqb", a, b), "bool"
            if b == ("lit", 0) and a[0] == "land" and a[2][0] == "lit":
                return ("bitset", a[1], a[2]), "bool"
            if b == ("lit", 0) and a[0] == "land" and a[1][0] == "lit":
                return ("bitset", a[2], a[1]), "bool"
            return ("negb", ("eqb", a, b)), "bool"
        if op in ("||", "&&"):
            a, ta = self.tr(e[2], env)
            b, tb = self.tr(e[3], env)
            if ta != "bool" or tb != "bool":
                raise Skip("`%s` on non-bools" % op)
            return ({"||": "orb", "&&": "andb"}[op], a, b), "bool"
        raise Skip("operator `%s` (arithmetic / ordering is out of the grammar)" % op)

    def tr_call(self, e, env):
        f, args = e[1], e[2]
        if f[0] != "path":
            raise Skip("call of a non-path")
        segs = f[1]
        name = segs[-1]
        if len(segs) == 1 and name in ("get_unchecked_be_u16", "get_unchecked_be_u32") and len(args) == 1:
            off = self.ptr_offset(args[0])
            if off is None:
                raise Skip("%s on something that is not self.slice.as_ptr()[.add(K)]" % name)
            return (self.bind("rd16", off), "u16") if name.endswith("16") else (self.bind("rd32", off), "u32")
        if len(segs) == 1 and name in ARRAY_READERS and len(args) == 1:
            off = self.ptr_offset(args[0])
            if off is None:
                raise Skip("%s on something that is not self.slice.as_ptr()[.add(K)]" % name)
            return self.bind("rd_arr", off, ARRAY_READERS[name]), ("arr", ARRAY_READERS[name])
        if len(segs) == 2 and segs[1] == "from_be_bytes" and segs[0] in ("u16", "u32") and len(args) == 1:
            ir, t = self.tr(args[0], env)
            n = {"u16": 2, "u32": 4}[segs[0]]
            if ir[0] != "list" or t != ("arr", n):
                raise Skip("%s::from_be_bytes of something that is not a %d-element array literal" % (segs[0], n))
            return (("be16",) + tuple(ir[1]), "u16") if n == 2 else (("be32",) + tuple(ir[1]), "u32")
        if len(segs) == 2 and segs[1] == "from" and segs[0] in INT_W and len(args) == 1:
            ir, t = self.tr(args[0], env)
            if t not in INT_W or INT_W[t] > INT_W[segs[0]]:
                raise Skip("%s::from(%s)" % (segs[0], ty_name(t)))
            return ir, segs[0]
        if len(args) == 1 and len(segs) >= 2 and segs[-1] == "from":
            T = segs[-2]
            ir, t = self.tr(args[0], env)
            if isinstance(t, tuple) and t[0] == "arr" and (T, t[1]) in STD_ADDR:
                return ir, t
            if len(segs) == 2:
                inner = self.o.crate.from_impl(T)
                self.coerce(ir, t, inner)
                return ir, ("nt", T, inner)
            raise Skip("%s" % "::".join(segs))
        if len(segs) == 2 and segs[1] in ("new_unchecked", "from_u8_unchecked") and len(args) == 1:
            inner = self.o.crate.wrapper(segs[0], segs[1])
            ir, t = self.tr(args[0], env)
            self.coerce(ir, t, inner)
            return ir, ("nt", segs[0], inner)
        if len(segs) == 1 and name[:1].isupper() and len(args) == 1 and name not in ("Some", "Ok", "Err", "Self"):
            inner = self.o.crate.newtype_inner(name)
            if inner is None:
                raise Skip("%s(..) is not a `pub struct %s(pub uN)` of the crate" % (name, name))
            ir, t = self.tr(args[0], env)
            self.coerce(ir, t, inner)
            return ir, ("nt", name, inner)
        raise Skip("call of %s" % "::".join(segs))

    def tr_mcall(self, e, env):
        recv, name, args = e[1], e[2], e[3]
        if name == "get_unchecked":
            i = self.byte_place(e)
            if i is None:
                raise Skip("get_unchecked on something that is not self.slice")
            return self.bind("rdU", i), "u8"      # `&u8` operand of an operator (auto-deref)
        if recv == ("path", ["self"]):
            if args:
                raise Skip("self.%s(..) with arguments" % name)
            ty = self.o.result_type(name, self.fn["name"])
            return self.bind("call", name), ty
        if not args and name != "into":
            ir, t = self.tr(recv, env)
            if isinstance(t, tuple) and t[0] == "nt":
                ret = self.o.crate.unwrapper(t[1], name)
                if ret != t[2]:
                    raise Skip("%s::%s returns %s" % (t[1], name, ret))
                return ir, t[2]
        raise Skip("method call .%s(..)" % name)


def parse_ret(ret):
    ret = ret.strip()
    if ret in INT_W or ret == "bool":
        return ret
    m = re.fullmatch(r"\[\s*u8\s*;\s*(\d+)\s*\]", ret)
    if m:
        return ("arr", int(m.group(1)))
    if re.fullmatch(r"(?:\w+::)*[A-Z]\w*", ret):
        return ("named", ret.split("::")[-1])
    return None


class Impl:
    """one `impl<'a> X<'a>` block"""
    def __init__(self, crate, name, fns, relfile):
        self.crate, self.name, self.relfile = crate, name, relfile
        self.fns = {}
        self.order = []
        for f in fns:
            self.fns[f["name"]] = f
            self.order.append(f["name"])
        self.done = {}            # name -> ("ok", binds, ir, ty) | ("skip", reason)
        self.active = []

    def result_type(self, callee, caller):
        if callee not in self.fns:
            raise Skip("self.%s() is not a method of this impl" % callee)
        r = self.translate(callee)
        if r[0] != "ok":
            raise Skip("calls self.%s(), which is skipped" % callee)
        return r[3]

    def translate(self, name):
        if name in self.done:
            return self.done[name]
        if name in self.active:
            raise Skip("recursive call")
        self.active.append(name)
        try:
            self.done[name] = self.translate1(self.fns[name])
        except Skip as s:
            self.done[name] = ("skip", str(s))
        except RecursionError:
            self.done[name] = ("skip", "expression too deep")
        self.active.pop()
        return self.done[name]

    def translate1(self, f):
        if re.sub(r"\s+", "", f["params"]) != "&self":
            raise Skip("not a `(&self)` method")
        if f["generics"]:
            raise Skip("generic method")
        if f["name"] in RESERVED:
            raise Skip("name clashes with a Coq / model identifier")
        want = parse_ret(f["ret"])
        if want is None:
            raise Skip("return type %s" % (f["ret"] or "()"))
        ast = parse_body(f["body"])
        t = FnTr(self, f)
        ir, ty = t.tr(ast, {})
        if ty == "lit":
            if want not in INT_W:
                raise Skip("literal body with return type %s" % ty_name(want))
            t.fits(ir, want)
            ty = want
        if isinstance(want, tuple) and want[0] == "named":
            if isinstance(ty, tuple) and ty[0] == "nt" and ty[1] != want[1]:
                raise Skip("returns %s where %s is declared" % (ty[1], want[1]))
            if ty == "bool":
                raise Skip("bool where %s is declared" % want[1])
            if not (isinstance(ty, tuple)):
                raise Skip("%s where %s is declared" % (ty_name(ty), want[1]))
        elif want != ty:
            raise Skip("body has type %s, declared %s" % (ty_name(ty), ty_name(want)))
        return ("ok", t.binds, ir, ty)


# --------------------------------------------------------------------------- Coq output
def coq(ir, top=False):
    k = ir[0]
    def par(s):
        return s if top else "(" + s + ")"
    if k == "var":
        return ir[1]
    if k == "lit":
        return str(ir[1])
    if k == "bool":
        return "true" if ir[1] else "false"
    if k == "shr":
        return par("N.shiftr %s %d" % (coq(ir[1]), ir[2]))
    if k == "shl":
        return par("(N.shiftl %s %d) mod %d" % (coq(ir[1]), ir[2], 2 ** ir[3]))
    if k == "mod":
        return par("%s mod %d" % (coq(ir[1]), ir[2]))
    if k in ("land", "lor"):
        return par("N.%s %s %s" % (k, coq(ir[1]), coq(ir[2])))
    if k == "be16":
        return par("be16 %s %s" % (coq(ir[1]), coq(ir[2])))
    if k == "be32":
        return par("be32 %s" % " ".join(coq(x) for x in ir[1:]))
    if k == "eqb":
        return par("%s =? %s" % (coq(ir[1]), coq(ir[2])))
    if k == "negb":
        return par("negb %s" % coq(ir[1]))
    if k == "bitset":
        return par("bitset %s %s" % (coq(ir[1]), coq(ir[2])))
    if k == "orb":
        return par("%s || %s" % (coq(ir[1]), coq(ir[2])))
    if k == "andb":
        return par("%s && %s" % (coq(ir[1]), coq(ir[2])))
    if k == "list":
        return "[" + "; ".join(coq(x, True) for x in ir[1]) + "]"
    raise ValueError(k)


def coq_read(kind, args):
    if kind == "rdU":
        return "rdU s %d" % args[0]
    if kind == "rd16":
        return "rd16 s %d" % args[0]
    if kind == "rd32":
        return "rd32 s %d" % args[0]
    if kind == "rd_arr":
        return "rd_arr s %d %d%%nat" % (args[0], args[1])
    if kind == "call":
        return "%s s" % args[0]
    raise ValueError(kind)


def coq_ty(ty):
    if ty == "bool":
        return "bool"
    if isinstance(ty, tuple) and ty[0] == "arr":
        return "bytes"
    return "N"


def coq_def(name, binds, ir, ty):
    head = "  Definition %s (s : slice) : res %s :=" % (name, coq_ty(ty))
    if len(binds) == 1 and ir == ("var", binds[0][0]):
        return head + " " + coq_read(binds[0][1], binds[0][2]) + "."
    if not binds:
        return head + " Ok %s." % coq(ir)
    lines = [head]
    for v, kind, args in binds:
        lines.append("    let* %s := %s in" % (v, coq_read(kind, args)))
    lines.append("    Ok %s." % coq(ir))
    return "\n".join(lines)


def comment_safe(s):
    return s.replace('"', "'").replace("(*", "( *").replace("*)", "* )")


def coq_fallback(name, term, why):
    return ("  (* FALLBACK: not translatable: %s *)\n  Definition %s (s : slice) := %s."
            % (comment_safe(why), name, term))


def generate():
    crate = Crate(SRC)
    mods, skipped, translated, fallback = {}, [], [], []
    seen = set()
    for rel in FILES:
        path = os.path.join(SRC, rel)
        if not os.path.exists(path):
            skipped.append((rel, "", "file not found"))
            continue
        try:
            text = clean(open(path).read())
            impls = find_impls(text)
        except Skip as s:
            skipped.append((rel, "", "file does not parse: %s" % s))
            continue
        for tname, body in impls:
            try:
                fns = split_fns(body)
            except Skip as s:
                skipped.append((rel, tname, "impl does not parse: %s" % s))
                continue
            if tname in mods:
                skipped.append((rel, tname, "second impl block of the same type ignored"))
                continue
            im = Impl(crate, tname, fns, rel)
            defs, emitted = [], set()
            hand = HAND.get(tname, {})

            def emit(n, im=im, defs=defs, emitted=emitted, hand=hand, tname=tname):
                if n in emitted:
                    return
                r = im.translate(n)
                if r[0] != "ok":
                    if n in hand:
                        emitted.add(n)
                        defs.append(coq_fallback(n, hand[n], r[1]))
                        fallback.append(("%s::%s" % (tname, n), r[1]))
                    return
                for _v, kind, args in r[1]:
                    if kind == "call":
                        emit(args[0])
                emitted.add(n)
                defs.append(coq_def(n, r[1], r[2], r[3]))
                translated.append("%s::%s" % (tname, n))
            for n in im.order:
                emit(n)
            for n in im.order:
                r = im.translate(n)
                if r[0] == "skip" and n not in hand:
                    skipped.append((rel, "%s::%s" % (tname, n), r[1]))
            for n in hand:                    # accessor with a lemma that is no longer in the impl
                if n not in emitted:
                    emitted.add(n)
                    defs.append(coq_fallback(n, hand[n], "no such method in the impl block"))
                    fallback.append(("%s::%s" % (tname, n), "no such method in the impl block"))
            mods[tname] = (rel, defs)
    for tname in sorted(HAND):                # impl block / file gone
        if tname not in mods:
            why = "impl block not found"
            mods[tname] = ("(not found)", [coq_fallback(n, HAND[tname][n], why) for n in HAND[tname]])
            fallback += [("%s::%s" % (tname, n), why) for n in HAND[tname]]
    mods = {k: v for k, v in mods.items() if v[1]}
    lines = ["(* GENERATED by tools/gen_accessors.py from the crate's working tree -- do not edit, not committed.",
             "   One definition per accessor of the slice types whose body lies inside the translator's",
             "   grammar; Parse/GenAccessOk.v proves each equal to the hand model (Parse/Access.v).",
             "   translated: %d accessors; fallback aliases: %d; skipped: %d"
             % (len(translated), len(fallback), len(skipped)),
             "   FALLBACK (has a lemma, no longer translatable, defined as an alias of the hand model):"]
    for what, why in sorted(fallback):
        lines.append("     %s: %s" % (what, comment_safe(why)))
    lines.append("   SKIPPED (outside the grammar, not translated):")
    for rel, what, why in sorted(skipped):
        lines.append("     %s %s: %s" % (rel, what, comment_safe(why)))
    lines += ["*)", "From EP Require Import Base.Bytes Parse.Types Parse.Slices Parse.Access Parse.AccessExtra.", "",
              "Local Open Scope N_scope.", ""]
    for tname in sorted(mods):
        rel, defs = mods[tname]
        lines.append("(* %s *)" % rel)
        lines.append("Module G%s." % tname)
        lines += defs
        lines.append("End G%s." % tname)
        lines.append("")
    return "\n".join(lines), translated, fallback, skipped


def write_if_changed(path, text):
    if not os.path.exists(path) or open(path).read() != text:
        tmp = path + ".tmp.%d" % os.getpid()
        with open(tmp, "w") as f:
            f.write(text)
        os.replace(tmp, path)      # atomic: a concurrent coqc never sees a truncated file


def main():
    global OUT, REPORT
    if "--out" in sys.argv[1:]:          # scratch output (experiments); the check never passes this
        OUT = sys.argv[sys.argv.index("--out") + 1]
        REPORT = os.path.join(os.path.dirname(OUT), "accessors_report.json")
    text, translated, fallback, skipped = generate()
    os.makedirs(os.path.dirname(OUT), exist_ok=True)
    write_if_changed(OUT, text)
    import json
    rep = {"source": SRC, "translated": sorted(translated),
           "fallback": [{"fn": w, "reason": y} for w, y in sorted(fallback)],
           "skipped": [{"file": r, "fn": w, "reason": y} for r, w, y in sorted(skipped)]}
    write_if_changed(REPORT, json.dumps(rep, indent=1, sort_keys=True) + "\n")
    quiet = "-q" in sys.argv[1:]
    print("gen_accessors: %d accessors translated, %d fallback aliases, %d skipped (source: %s)"
          % (len(translated), len(fallback), len(skipped), SRC))
    for what, why in sorted(fallback):
        print("gen_accessors: FALLBACK %s (%s)" % (what, why))
    if not quiet:
        for rel, what, why in sorted(skipped):
            print("  skipped %s %s: %s" % (rel, what, why))
    return 0


if __name__ == "__main__":
    sys.exit(main())
