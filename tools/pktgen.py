"""Structured packet generator shared by the parse-stack checks (C01-C07).

Mostly-valid layered packets whose every length / count / offset field is
independently drawn from {true, true+-1, true+-k, 0, header size +-1, max},
with truncation at layer boundaries +-1 / random points / trailing bytes, plus
a pure-noise stream.  All randomness comes from the vlib.Rng passed in.
Returns (entry, bytes, shape) where entry is one of "eth", "sll", "et:<n>",
"ip" and shape is a short tag string used for the distribution histogram.
"""

ET_IPV4, ET_ARP, ET_VLAN, ET_IPV6, ET_QINQ, ET_MACSEC, ET_VLAN2 = 0x0800, 0x0806, 0x8100, 0x86DD, 0x88A8, 0x88E5, 0x9100
VLAN_TYPES = [ET_VLAN, ET_QINQ, ET_VLAN2]


def be16(v):
    return bytes([(v >> 8) & 255, v & 255])


def be32(v):
    return bytes([(v >> 24) & 255, (v >> 16) & 255, (v >> 8) & 255, v & 255])


def vary(rng, true, hdr=0, maxv=0xFFFF):
    """a length field value around the true one"""
    k = rng.below(20)
    if k < 10:
        v = true
    elif k == 10:
        v = true + 1
    elif k == 11:
        v = true - 1
    elif k == 12:
        v = true + rng.range(2, 40)
    elif k == 13:
        v = true - rng.range(2, 40)
    elif k == 14:
        v = 0
    elif k == 15:
        v = hdr - 1
    elif k == 16:
        v = hdr
    elif k == 17:
        v = hdr + 1
    elif k == 18:
        v = maxv
    else:
        v = rng.below(maxv + 1)
    return max(0, min(maxv, v))


class Pkt:
    def __init__(self):
        self.cuts = []      # interesting offsets (layer boundaries), relative to the innermost-first build
        self.shape = []


def gen_tcp_opts(rng, n):
    """a TCP option area of exactly n bytes: known kinds with right / off-by-some length bytes, the last
    option possibly running into the end of the area"""
    out = b""
    while len(out) < n:
        k = rng.choice([0, 1, 1, 2, 3, 4, 5, 5, 8, rng.below(256)])
        if k in (0, 1):
            out += bytes([k])
            continue
        right = {2: 4, 3: 3, 4: 2, 5: rng.choice([10, 18, 26, 34]), 8: 10}.get(k, rng.range(2, 12))
        ln = right if rng.chance(3, 4) else rng.choice([right + 4, right - 4, right + 1, right - 1, 0, 1, 14, 22, 30, rng.below(256)]) & 255
        out += bytes([k, ln]) + rng.bytes(max(0, ln - 2))
    return out[:n]


def gen_transport(rng, v6):
    """returns (ip_number, bytes, tag)"""
    k = rng.below(12)
    pl = rng.bytes(rng.choice([0, 0, 1, 4, 8, 12, 20, rng.range(0, 64)]))
    if k < 3:   # UDP
        ln = vary(rng, 8 + len(pl), 8)
        return 17, rng.bytes(4) + be16(ln) + rng.bytes(2) + pl, "udp"
    if k < 6:   # TCP
        do = rng.choice([5, 5, 5, 6, 8, 15, rng.below(16)])
        opts = rng.bytes(max(0, do * 4 - 20)) if rng.chance(4, 5) else rng.bytes(rng.below(8))
        if do > 5 and rng.chance(1, 2):
            opts = gen_tcp_opts(rng, do * 4 - 20)
        hdr = bytearray(rng.bytes(20))
        hdr[12] = (do << 4) | (hdr[12] & 0x0F)
        return 6, bytes(hdr) + opts + pl, "tcp"
    if k < 8:   # ICMPv4
        t = rng.choice([0, 3, 8, 11, 12, 13, 14, 13, 14, rng.below(256)])
        c = rng.choice([0, 0, 0, 1, rng.below(256)])
        body = rng.bytes(rng.choice([0, 4, 6, 11, 12, 13, 16, rng.below(40)]))
        if t in (13, 14) and rng.chance(1, 2):
            # timestamp messages are exactly 20 bytes: exact, cut short and oversized ones
            body = rng.bytes(rng.choice([16, 16, 16, 12, 15, 17, 20, 28]))
        return (1 if rng.chance(9, 10) else 58), bytes([t, c]) + rng.bytes(2) + body, "icmp4"
    if k < 10:  # ICMPv6
        t = rng.choice([1, 2, 3, 4, 128, 129, 133, 134, 135, 136, 137, rng.below(256)])
        body = rng.bytes(rng.choice([0, 2, 4, 6, 12, 20, rng.below(40)]))
        return (58 if rng.chance(9, 10) else 1), bytes([t, rng.choice([0, 0, 1, rng.below(256)])]) + rng.bytes(2) + body, "icmp6"
    if k == 10:  # IGMP / other known number
        return rng.choice([2, 47, 50, 89]), rng.bytes(rng.below(24)), "other"
    return rng.below(256), rng.bytes(rng.below(30)), "rand"


EXT_NUMS = [0, 60, 43, 44, 51]


def gen_ah(rng, nxt):
    plen = rng.choice([1, 1, 2, 4, 0, rng.below(8)])
    true = (plen + 2) * 4
    body = rng.bytes(max(0, true - 2)) if rng.chance(9, 10) else rng.bytes(rng.below(true + 4))
    return bytes([nxt, plen]) + body


def gen_ext_chain(rng, final_num, final_bytes):
    """IPv6 extension chain in front of the transport; returns (first_next_header, bytes, tag)"""
    n = rng.choice([0, 0, 0, 1, 1, 2, 3, 5])
    kinds = []
    for i in range(n):
        if rng.chance(3, 4):
            # mostly sensible order, sometimes duplicates / late hop-by-hop
            kinds.append(rng.choice([60, 43, 44, 51, 60, 43, 44, 51, 0]))
        else:
            kinds.append(rng.choice(EXT_NUMS))
    if n and rng.chance(1, 3):
        kinds[0] = 0
    out = final_bytes
    nxt = final_num
    for kd in reversed(kinds):
        if kd in (0, 60, 43):
            units = rng.choice([0, 0, 1, 2, rng.below(4)])
            true = (units + 1) * 8
            body = rng.bytes(true - 2) if rng.chance(9, 10) else rng.bytes(rng.below(true + 6))
            hdr = bytes([nxt, units]) + body
        elif kd == 44:
            fo = rng.choice([0, 0, 0, 1, 8191, rng.below(8192)])
            mf = rng.choice([0, 0, 0, 1])
            res = rng.below(4) if rng.chance(1, 4) else 0
            hdr = bytes([nxt, rng.choice([0, 0, rng.below(256)])]) + be16((fo << 3) | (res << 1) | mf) + rng.bytes(4)
        else:
            hdr = gen_ah(rng, nxt)
        out = hdr + out
        nxt = kd
    return nxt, out, "x%d" % n


def gen_ip(rng, want=None):
    """returns (ether_type, bytes, tag)"""
    k = want if want is not None else rng.below(10)
    if k < 4:    # IPv4
        num, tr, ttag = gen_transport(rng, False)
        inner = tr
        tag = "v4"
        proto = num
        if rng.chance(1, 5):
            inner = gen_ah(rng, num) + tr
            proto = 51
            tag = "v4ah"
        ihl = rng.choice([5, 5, 5, 5, 6, 8, 15, rng.below(16)])
        hl = max(20, ihl * 4) if ihl >= 5 else 20
        opts = rng.bytes(hl - 20)
        tl = vary(rng, hl + len(inner), hl)
        if proto == 51 and rng.chance(1, 6):
            # total length ends inside (or exactly behind) the authentication header
            tl = hl + rng.below(len(inner) - len(tr) + 3)
        ver = 4 if rng.chance(19, 20) else rng.below(16)
        flags_fo = rng.choice([0, 0, 0, 0x4000, 0x2000, 1, 0x1FFF, 0x8000, rng.below(65536)])
        hdr = bytes([(ver << 4) | ihl, rng.below(256)]) + be16(tl) + rng.bytes(2) + be16(flags_fo) + bytes([rng.below(256), proto]) + rng.bytes(10)
        et = ET_IPV4 if rng.chance(19, 20) else ET_IPV6
        return et, hdr + opts + inner + (rng.bytes(rng.below(6)) if rng.chance(1, 4) else b""), tag + "/" + ttag
    if k < 8:    # IPv6
        num, tr, ttag = gen_transport(rng, True)
        first, chain, xtag = gen_ext_chain(rng, num, tr)
        plen = vary(rng, len(chain), 0)
        if rng.chance(1, 8):
            plen = 0
        xlen = len(chain) - len(tr)
        if xlen > 0 and rng.chance(1, 6):
            # the announced packet ends inside (or exactly behind) the extension headers
            # while the buffer goes on
            plen = rng.below(xlen + 3)
        ver = 6 if rng.chance(19, 20) else rng.below(16)
        rest = chain + (rng.bytes(rng.below(6)) if rng.chance(1, 4) else b"")
        if first == 0 and len(rest) >= 8 and rng.chance(1, 3):
            # RFC 2675 jumbogram: payload_length 0 and a jumbo payload option (C2 04 <u32>) as first
            # hop-by-hop option, announcing a length around the bytes that really follow the IPv6 header
            d = rng.choice([0, 0, 1, -1, rng.range(2, 40), -rng.range(2, 40), 40, 41, 39, 48, rng.below(1 << 16)])
            j = max(0, len(rest) + d) if rng.chance(9, 10) else rng.choice([0xFFFFFFFF, 0x10000, rng.below(1 << 32)])
            rest = rest[:2] + b"\xc2\x04" + be32(j & 0xFFFFFFFF) + rest[8:]
            if rng.chance(5, 6):
                plen = 0
            xtag += "j"
        hdr = bytes([(ver << 4) | rng.below(16)]) + rng.bytes(3) + be16(plen) + bytes([first, rng.below(256)]) + rng.bytes(32)
        et = ET_IPV6 if rng.chance(19, 20) else ET_IPV4
        return et, hdr + rest, "v6" + xtag + "/" + ttag
    if k == 8:   # ARP
        hs = rng.choice([6, 6, 6, 0, 1, 255, rng.below(256)])
        ps = rng.choice([4, 4, 4, 0, 16, 255, rng.below(256)])
        true = 8 + 2 * hs + 2 * ps
        body = rng.bytes(true - 8) if rng.chance(3, 4) else rng.bytes(rng.below(true))
        return ET_ARP, rng.choice([b"\x00\x01", rng.bytes(2)]) + rng.choice([b"\x08\x00", rng.bytes(2)]) + bytes([hs, ps]) + rng.bytes(2) + body + (rng.bytes(rng.below(8)) if rng.chance(1, 3) else b""), "arp"
    # unknown ether type
    return rng.choice([0x1234, 0x0000, 0x88CC, rng.below(65536)]), rng.bytes(rng.below(40)), "unk"


def wrap_link_exts(rng, et, body):
    """0..4 VLAN / MACsec tags in front of (et, body); returns (outer ether type, bytes, tag)"""
    n = rng.choice([0, 0, 0, 1, 1, 2, 3, 4])
    tag = ""
    for _ in range(n):
        if rng.chance(3, 5):
            body = rng.bytes(2) + be16(et) + body
            et = rng.choice(VLAN_TYPES)
            tag = "V" + tag
        else:
            sci = rng.chance(1, 2)
            mode = rng.choice([0, 0, 0, 1, 2, 3])   # E,C bits
            ver = 1 if rng.chance(1, 25) else 0
            tci = (ver << 7) | (rng.below(2) << 6) | ((1 if sci else 0) << 5) | (rng.below(2) << 4) | (mode << 2) | rng.below(4)
            inner = (be16(et) + body) if mode == 0 else body
            true_sl = len(inner)
            slk = rng.below(10)
            if slk < 4:
                sl = 0
            elif slk < 7:
                sl = true_sl if true_sl < 64 else 0
            elif slk == 7:
                sl = max(0, min(63, true_sl + rng.choice([-1, 1, -2, 2])))
            elif slk == 8:
                sl = rng.choice([1, 2, 3, 63])
            else:
                sl = rng.below(64)
            trailer = rng.bytes(rng.below(6)) if rng.chance(1, 3) else b""
            body = bytes([tci, (rng.below(4) << 6) | sl]) + rng.bytes(4) + (rng.bytes(8) if sci else b"") + inner + trailer
            et = ET_MACSEC
            tag = "M" + tag
    return et, body, tag


BIG_ONE_IN = 250


def big_trail(rng, data):
    """data followed by filler up to a total of m*65536 + r bytes, r small (so that
    (total - header offset) mod 2^16 is small for the usual header offsets)"""
    m = rng.choice([1, 1, 1, 2])
    r = rng.below(len(data) + 64)
    total = m * 65536 + r
    block = rng.bytes(64)
    fill = total - len(data)
    return data + (block * (fill // 64 + 1))[:fill]


def gen_packet(rng):
    k = rng.below(20)
    if k == 0:   # pure noise, biased first bytes
        n = rng.range(0, 80)
        b = bytearray(rng.bytes(n))
        if n and rng.chance(1, 2):
            b[0] = rng.choice([0x45, 0x46, 0x4F, 0x60, 0x6F, 0x00, 0x50])
        ent = rng.choice(["eth", "sll", "ip", "et:%d" % rng.choice([ET_IPV4, ET_IPV6, ET_ARP, ET_VLAN, ET_MACSEC, rng.below(65536)])])
        return ent, bytes(b), "noise"
    et, body, tag = gen_ip(rng)
    start = rng.below(10)
    if start < 2:
        # bare IP
        if et in (ET_IPV4, ET_IPV6) or rng.chance(1, 10):
            ent, data, stag = "ip", body, "ip:" + tag
        else:
            ent, data, stag = "et:%d" % et, body, "et:" + tag
    else:
        et2, body2, ltag = wrap_link_exts(rng, et, body)
        if start < 4:
            ent, data, stag = "et:%d" % et2, body2, "et:" + ltag + ":" + tag
        elif start < 8:
            ent, data, stag = "eth", rng.bytes(12) + be16(et2) + body2, "eth:" + ltag + ":" + tag
        else:
            pt = rng.choice([0, 1, 4, 7, 7, 8, rng.below(65536)]) if rng.chance(1, 4) else rng.below(8)
            hw = rng.choice([1, 1, 1, 1, 824, 778, 803, 770, 2, rng.below(65536)])
            proto = et2 if rng.chance(5, 6) else rng.choice([1, 4, 9, 10, 0x1C, 0xF5, 0xFA, 0xFB, 0])
            ent, data, stag = "sll", be16(pt) + be16(hw) + rng.bytes(10) + be16(proto) + body2, "sll:" + ltag + ":" + tag
    # rarely: the packet sits at the start of a large buffer (capture ring): the bytes
    # behind it push every 'available length' past 2^16 / 2^17, with the value mod 2^16 small
    if len(data) > 0 and rng.below(BIG_ONE_IN) == 0:
        return ent, big_trail(rng, data), stag + "|big"
    # damage
    d = rng.below(10)
    if d < 3 and len(data) > 0:
        cut = rng.below(len(data) + 1)
        data = data[:cut]
        stag += "|cut"
    elif d == 3:
        data = data + rng.bytes(rng.range(1, 12))
        stag += "|trail"
    elif d == 4 and len(data) > 0:
        b = bytearray(data)
        for _ in range(rng.range(1, 3)):
            b[rng.below(len(b))] = rng.below(256)
        data = bytes(b)
        stag += "|mut"
    return ent, data, stag


def all_prefixes(ent, data):
    return [(ent, data[:i]) for i in range(len(data) + 1)]
