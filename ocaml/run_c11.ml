(* model + spec side of the C11 correspondence: same case file as the Rust
   harness, one line per case: "<model trace> | <spec trace>" *)
open M_c11

let rec pos_of_int (i : int) : positive =
  if i = 1 then XH
  else if i land 1 = 1 then XI (pos_of_int (i lsr 1))
  else XO (pos_of_int (i lsr 1))
let n_of_int i = if i = 0 then N0 else Npos (pos_of_int i)
let rec int_of_pos = function
  | XH -> 1
  | XO p -> 2 * int_of_pos p
  | XI p -> 2 * int_of_pos p + 1
let int_of_n = function N0 -> 0 | Npos p -> int_of_pos p
let s_of_n n = string_of_int (int_of_n n)
let bytes_of_hex h = List.map n_of_int (Conv.unhex h)
let pattern len seed = List.init len (fun i -> n_of_int ((i * 7 + seed) land 255))

(* data string: hex with ".." for None when short, else a checksum *)
let datastr (l : n option list) : string =
  let n = List.length l in
  if n = 0 then "-"
  else if n <= 48 then
    String.concat "" (List.map (function None -> ".." | Some b -> Printf.sprintf "%02x" (int_of_n b)) l)
  else begin
    let a = ref 1 and b = ref 0 in
    List.iter (fun x ->
        let v = match x with None -> 256 | Some y -> int_of_n y in
        a := (!a + v) mod 65521;
        b := (!b + !a) mod 65521) l;
    Printf.sprintf "h%d" (!b * 65536 + !a)
  end

let verdict_str = function
  | VOk -> "ok"
  | VTooBig (fo, pl) -> Printf.sprintf "toobig:%s:%s:65535" (s_of_n fo) (s_of_n pl)
  | VUnaligned (fo, pl) -> Printf.sprintf "unaligned:%s:%s" (s_of_n fo) (s_of_n pl)
  | VConflict (p, e) -> Printf.sprintf "conflict:%s:%s" (s_of_n p) (s_of_n e)
  | VPanic -> "panic"

let colon s = String.split_on_char ':' s

let frag_of_op (parts : string list) : frag * string list =
  match parts with
  | "a" :: fo :: mf :: h :: rest ->
    ({ f_fo = n_of_int (int_of_string fo); f_mf = (mf = "1"); f_data = bytes_of_hex h }, rest)
  | "z" :: fo :: mf :: l :: seed :: rest ->
    ({ f_fo = n_of_int (int_of_string fo); f_mf = (mf = "1");
       f_data = pattern (int_of_string l) (int_of_string seed) }, rest)
  | _ -> failwith "frag op"

let frag_end (f : frag) = int_of_n (f_endp f)
let spec_limit = 4096

let sections_str (l : range list) =
  if l = [] then "-"
  else String.concat "," (List.map (fun r -> s_of_n r.r_start ^ "-" ^ s_of_n r.r_end) l)

let run_buf (args : string list) : string =
  match args with
  | ipn :: stale :: nstale :: ops ->
    let stale_d = List.map (fun x -> Some x) (bytes_of_hex stale) in
    let stale_s = List.init (int_of_string nstale) (fun i -> { r_start = n_of_int (i * 16); r_end = n_of_int (i * 16 + 8) }) in
    let frags = List.map (fun o -> fst (frag_of_op (colon o))) ops in
    let with_spec = List.for_all (fun f -> frag_end f <= spec_limit) frags in
    let b = ref (buf_new (n_of_int (int_of_string ipn)) stale_d stale_s) in
    let st = ref spec_new in
    let mout = ref [] and sout = ref [] in
    List.iter (fun f ->
        let (v, b') = model_step !b f in
        b := b';
        let c = is_complete b' in
        mout := Printf.sprintf "%s c=%d e=%s n=%d s=%s d=%s" (verdict_str v) (if c then 1 else 0)
            (match b'.b_end with None -> "-" | Some e -> s_of_n e)
            (List.length b'.b_data) (sections_str b'.b_sections) (datastr b'.b_data) :: !mout;
        if with_spec then begin
          let late = (!st).s_end = None in
          let (sv, st') = spec_add !st f in
          st := st';
          let sc = spec_complete st' in
          (* l=1: the Spec rejects a final fragment that ends below data accepted earlier
             (the regression class of the former finding F8) *)
          let late = late && (match sv with VConflict (_, _) -> true | _ -> false) in
          sout := Printf.sprintf "%s c=%d p=%s l=%d" (verdict_str sv) (if sc then 1 else 0)
              (if sc then datastr (spec_payload st') else "-") (if late then 1 else 0) :: !sout
        end) frags;
    String.concat " ; " (List.rev !mout) ^ " | " ^ (if with_spec then String.concat " ; " (List.rev !sout) else "-")
  | _ -> failwith "buf case"

(* stream definition "4/vl.vl/src/dst/ident/proto/chan" -> id as list of numbers *)
let stream_of (s : string) : (n list * bool * n) =
  match String.split_on_char '/' s with
  | [ver; vl; src; dst; ident; proto; chan] ->
    let vls = if vl = "-" then [] else List.map int_of_string (String.split_on_char '.' vl) in
    let ints = [int_of_string ver; List.length vls] @ vls @ Conv.unhex src @ Conv.unhex dst
               @ [int_of_string ident; int_of_string proto; int_of_string chan] in
    (List.map n_of_int ints, ver = "4", n_of_int (int_of_string proto))
  | _ -> failwith "stream def"

let pres_str = function
  | PNone -> "none"
  | PDone (ipn, v4, pl) -> Printf.sprintf "done:%s:%s:n=%d:d=%s" (s_of_n ipn) (if v4 then "4" else "6") (List.length pl) (datastr pl)
  | PErr v -> "err:" ^ verdict_str v

(* retain predicates on the timestamp: the same table as in harness/src/bin/c11.rs *)
let retain_pred (kind : string) (arg : int) : int -> bool =
  match kind with
  | "ge" -> (fun t -> arg <= t)
  | "lt" -> (fun t -> t < arg)
  | "ne" -> (fun t -> t <> arg)
  | "eq" -> (fun t -> t = arg)
  | "mod" -> (fun t -> t mod 2 = arg land 1)
  | "all" -> (fun _ -> true)
  | "none" -> (fun _ -> false)
  | _ -> failwith "retain predicate"

let stats_str (p : pool) : string =
  let ((a, d), s) = stats p in
  Printf.sprintf "%s,%s,%s" (s_of_n a) (s_of_n d) (s_of_n s)

let run_pool (args : string list) : string =
  match args with
  | ns :: rest ->
    let ns = int_of_string ns in
    let streams = Array.of_list (List.map stream_of (List.filteri (fun i _ -> i < ns) rest)) in
    let ops = List.filteri (fun i _ -> i >= ns) rest in
    let with_spec = List.for_all (fun o ->
        match colon o with
        | ("p" | "q") :: _ :: tl -> (match tl with
            | fo :: _ :: _ :: x :: _ ->
              let l = if String.length o > 0 && o.[0] = 'q' then int_of_string x else (if x = "-" then 0 else String.length x / 2) in
              int_of_string fo * 8 + l <= spec_limit
            | _ -> true)
        | _ -> true) ops in
    let p = ref pool_new and sp = ref [] in
    let held = ref [] and sheld = ref [] in
    let mout = ref [] and sout = ref [] in
    List.iter (fun o ->
        (match colon o with
        | ("p" | "q") as kind :: sid :: fo :: mf :: ts :: tl ->
          let data = if kind = "p" then bytes_of_hex (List.hd tl)
            else pattern (int_of_string (List.hd tl)) (int_of_string (List.nth tl 1)) in
          let (id, v4, ipn) = streams.(int_of_string sid) in
          let k = { k_id = id; k_v4 = v4; k_ipn = ipn;
                    k_frag = { f_fo = n_of_int (int_of_string fo); f_mf = (mf = "1"); f_data = data } } in
          let ts = n_of_int (int_of_string ts) in
          let (r, p') = process !p k ts in
          p := p';
          (match r with PDone (_, _, pl) -> held := pl :: !held | _ -> ());
          mout := pres_str r :: !mout;
          if with_spec then begin
            let late = (match alookup k.k_id !sp with Some (st, _) -> st.s_end = None | None -> true) in
            let (sr, sp') = spec_process !sp k ts in
            sp := sp';
            let late = late && (match sr with PErr (VConflict (_, _)) -> true | _ -> false) in
            sout := (pres_str sr ^ (if late then " late=1" else "")) :: !sout
          end
        | ["r"] ->
          (match !held with
           | pl :: tl -> held := tl; p := return_buf !p pl; mout := "ret1" :: !mout
           | [] -> mout := "ret0" :: !mout);
          if with_spec then sout := "-" :: !sout
        | ["rf"; h] ->
          (* a vector the pool never handed out *)
          p := return_buf !p (List.map (fun x -> Some x) (bytes_of_hex h));
          mout := "retf" :: !mout;
          if with_spec then sout := "-" :: !sout
        | ["t"; cutoff] ->
          (* Model.retain: the cutoff instance (C11_retain_instance) *)
          let c = n_of_int (int_of_string cutoff) in
          p := retain !p c;
          mout := "retain" :: !mout;
          if with_spec then begin sp := spec_retain !sp c; sout := "-" :: !sout end
        | ["t"; kind; arg] ->
          let f = retain_pred kind (int_of_string arg) in
          p := retain_f !p (fun _ t -> f (int_of_n t));
          mout := "retain" :: !mout;
          if with_spec then begin sp := spec_retain_f !sp (fun _ t -> f (int_of_n t)); sout := "-" :: !sout end
        | _ -> failwith ("pool op " ^ o));
        (* the numbers of verif_stats after every operation *)
        (match !mout with
         | x :: tl -> mout := (x ^ " stats=" ^ stats_str !p) :: tl
         | [] -> ());
        if with_spec then
          (match !sout with
           | x :: tl -> sout := (x ^ " act=" ^ string_of_int (List.length !sp)) :: tl
           | [] -> ())) ops;
    ignore sheld;
    String.concat " ; " (List.rev !mout) ^ " | " ^ (if with_spec then String.concat " ; " (List.rev !sout) else "-")
  | _ -> failwith "pool case"

(* ---- third part: histories of FRAMES through slicing model + frag_key_of + pool model (pk_step);
   Spec side: the wire key (wire_frag_of) + spec_process ---- *)
let hexs (l : n list) = if l = [] then "-" else String.concat "" (List.map (fun b -> Printf.sprintf "%02x" (int_of_n b)) l)

let entry_of (s : string) : entry =
  match s with
  | "eth" -> EEthernet
  | "sll" -> ELinuxSll
  | "ip" -> EIp
  | _ when String.length s > 2 && String.sub s 0 2 = "et" ->
    EEtherType (n_of_int (int_of_string (String.sub s 2 (String.length s - 2))))
  | _ -> failwith "entry"

(* canonical rendering of (IpFragId, offset, more_fragments, payload window) *)
let key_str (id : frag_id) (fo : n) (mf : bool) (w : n * n) : string =
  let (ver, src, dst, ident) = match id.fi_ip with
    | IdV4 (s, d, i) -> ("4", s, d, i)
    | IdV6 (s, d, i) -> ("6", s, d, i) in
  Printf.sprintf "%s/%s/%s/%s/%s/%s/%s:%s:%d:%s+%s" ver
    (if id.fi_vlans = [] then "-" else String.concat "." (List.map s_of_n id.fi_vlans))
    (hexs src) (hexs dst) (s_of_n ident) (s_of_n id.fi_ipn) (s_of_n id.fi_chan)
    (s_of_n fo) (if mf then 1 else 0) (s_of_n (fst w)) (s_of_n (snd w))

let run_pk (ops : string list) : string =
  let p = ref pool_new and sp = ref [] in
  let held = ref [] in
  let mout = ref [] and sout = ref [] in
  List.iter (fun o ->
      (match colon o with
       | ["k"; _label; ent; chan; ts; h] ->
         let e = entry_of ent in
         let bs = bytes_of_hex h in
         let chan = n_of_int (int_of_string chan) and ts = n_of_int (int_of_string ts) in
         (* model: the extracted pk_step (slice_with, frag_key_of, process) *)
         let (sl, key) = match slice_with e bs with
           | Ok sp' -> ("sl", (match frag_key_of sp' chan with
               | Ok (Some k) ->
                 let s = k.fk_payload.ipp_slice in
                 key_str k.fk_id k.fk_fo k.fk_mf (fst s, n_of_int (List.length (snd s)))
               | Ok None -> "-"
               | Err _ -> "ERR"
               | Bug b -> "BUG" ^ s_of_n b))
           | Err _ -> ("unsl", "-")
           | Bug b -> ("BUG" ^ s_of_n b, "-") in
         (match pk_step !p (KPacket (e, bs, ts, chan)) with
          | Ok ((_, r), p') ->
            p := p';
            (match r with PDone (_, _, pl) -> held := pl :: !held | _ -> ());
            mout := Printf.sprintf "%s key=%s %s" sl key (pres_str r) :: !mout
          | Err _ -> mout := "MODEL-ERR" :: !mout
          | Bug b -> mout := ("MODEL-BUG" ^ s_of_n b) :: !mout);
         (* Spec: the wire key and the reassembly specification *)
         (match wire_frag_of e bs chan with
          | Some w ->
            let id = w.wf_id in
            let k = { k_id = encode_id id; k_v4 = id_is_v4 id.fi_ip; k_ipn = id.fi_ipn; k_frag = frag_of_wire bs w } in
            let (sr, sp') = spec_process !sp k ts in
            sp := sp';
            sout := Printf.sprintf "key=%s %s" (key_str id w.wf_fo w.wf_mf w.wf_win) (pres_str sr) :: !sout
          | None -> sout := "key=- none" :: !sout)
       | ["r"] ->
         (match !held with
          | pl :: tl -> held := tl; p := return_buf !p pl; mout := "ret1" :: !mout
          | [] -> mout := "ret0" :: !mout);
         sout := "-" :: !sout
       | ["rf"; h] ->
         p := return_buf !p (List.map (fun x -> Some x) (bytes_of_hex h));
         mout := "retf" :: !mout;
         sout := "-" :: !sout
       | _ -> failwith ("pk op " ^ o));
      (match !mout with
       | x :: tl -> mout := (x ^ " stats=" ^ stats_str !p) :: tl
       | [] -> ());
      (match !sout with
       | x :: tl -> sout := (x ^ " act=" ^ string_of_int (List.length !sp)) :: tl
       | [] -> ())) ops;
  String.concat " ; " (List.rev !mout) ^ " | " ^ String.concat " ; " (List.rev !sout)

let run (line : string) : string =
  match Conv.split_ws line with
  | "buf" :: args -> run_buf args
  | "pool" :: args -> run_pool args
  | "pk" :: ops -> run_pk ops
  | _ -> failwith ("bad c11 case: " ^ line)

let () =
  Conv.iter_lines Sys.argv.(1) (fun l ->
      print_endline (try run l with Failure m -> "MODEL-FAIL " ^ m | Not_found -> "MODEL-FAIL notfound"))
