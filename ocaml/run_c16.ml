(* model + spec side of the C16 correspondence: same case file as the Rust
   harness, one line per case: "<model result> | <spec result>" *)
open M_c16

let rec pos_of_z (z : Z.t) : positive =
  if Z.equal z Z.one then XH
  else if Z.testbit z 0 then XI (pos_of_z (Z.shift_right z 1))
  else XO (pos_of_z (Z.shift_right z 1))
let n_of_z z = if Z.sign z = 0 then N0 else Npos (pos_of_z z)
let rec z_of_pos = function
  | XH -> Z.one
  | XO p -> Z.shift_left (z_of_pos p) 1
  | XI p -> Z.succ (Z.shift_left (z_of_pos p) 1)
let z_of_n = function N0 -> Z.zero | Npos p -> z_of_pos p
let n_of_int i = n_of_z (Z.of_int i)
let n_of_s s = n_of_z (Z.of_string s)
let s_of_n n = Z.to_string (z_of_n n)
let int_of_n n = Z.to_int (z_of_n n)
let bytes_of_hex h = List.map n_of_int (Conv.unhex h)
let hex_of_bytes b = Conv.hex (List.map int_of_n b)

let split c s = String.split_on_char c s

(* ---- parsing the model structs *)
let two_of s = match split ',' s with
  | [a; b] -> { tp_fixed = bytes_of_hex a; tp_var = bytes_of_hex b }
  | _ -> failwith "two"
let slot_of s = if s = "-" then None else
    match split ':' s with
    | [nh; l; h] -> Some { e_nh = n_of_s nh; e_len = n_of_s l; e_enc = bytes_of_hex h }
    | _ -> failwith "slot"
let part_of s = match split ':' s with
  | [l; h] -> { p_len = n_of_s l; p_enc = bytes_of_hex h }
  | _ -> failwith "part"
let opart_of s = if s = "-" then None else Some (part_of s)
let x6_of = function
  | [hop; dest; routing; final; frag; auth] ->
    { x6_hop = slot_of hop; x6_dest = slot_of dest;
      x6_routing = (match slot_of routing with
          | Some r -> Some (r, slot_of final)
          | None -> if final <> "-" then failwith "final without routing" else None);
      x6_frag = slot_of frag; x6_auth = slot_of auth }
  | _ -> failwith "x6 slots"
let cerr_of = function
  | "-" -> None
  | "i6in4" -> Some CIcmpv6InIpv4
  | "plen" -> Some CPayloadLen
  | _ -> failwith "cerr"

(* bld: link;vlan;net;pre;mid;transport;payload *)
let bld_of s =
  match split ';' s with
  | [link; vlan; net; pre; mid; tr; payload] ->
    let vl = if vlan = "-" then [] else List.map part_of (split '+' vlan) in
    let net = match split '/' net with
      | ["4"; ip; proto; a] -> BIpv4 (part_of ip, n_of_s proto, slot_of a)
      | "6" :: ip :: nh :: slots -> BIpv6 (part_of ip, n_of_s nh, x6_of slots)
      | ["a"; p] -> BArp (part_of p)
      | _ -> failwith "net" in
    ({ b_link = opart_of link; b_vlan = vl; b_net = net; b_pre = cerr_of pre; b_mid = cerr_of mid;
       b_transport = opart_of tr }, bytes_of_hex payload)
  | _ -> failwith "bld"

let single = ["eth"; "vlan"; "sll"; "link_eth"; "link_sll"; "macsec"; "arp"; "ip6h"; "frag"; "udp";
              "icmp4"; "icmp6"; "tr_udp"; "tr_icmp4"; "tr_icmp6"]

let wprog_of entry m : wprog =
  if List.mem entry single then single_write (bytes_of_hex m) else
    match entry with
    | "ip4h" | "ip4h_raw" -> ipv4_header_write (two_of m)
    | "auth" -> ip_auth_header_write (two_of m)
    | "rawext" -> ipv6_raw_ext_header_write (two_of m)
    | "tcp" | "tr_tcp" -> tcp_header_write (two_of m)
    | "x4" -> (match split ';' m with
        | [start; a] -> x4_write_internal (slot_of a) (n_of_s start)
        | _ -> failwith "x4")
    | "x6" -> (match split ';' m with
        | first :: slots -> x6_write_internal (x6_of slots) (n_of_s first)
        | _ -> failwith "x6")
    | "iph4" -> (match split ';' m with
        | [h; proto; a] -> ip_headers_write_v4 (two_of h) (n_of_s proto) (slot_of a)
        | _ -> failwith "iph4")
    | "iph6" -> (match split ';' m with
        | h :: nh :: slots -> ip_headers_write_v6 (bytes_of_hex h) (n_of_s nh) (x6_of slots)
        | _ -> failwith "iph6")
    | "bld" -> let (c, p) = bld_of m in final_write_with_net c p
    | _ -> failwith ("entry " ^ entry)

(* the same writers in the language with explicit result handling (IoFault/Propagate.v):
   each write_all(..)? spelled out; this is what the `w` cases run *)
let xprog_of entry m : iokind xprog =
  if List.mem entry single then x_single_write (bytes_of_hex m) else
    match entry with
    | "ip4h" | "ip4h_raw" -> x_ipv4_header_write (two_of m)
    | "auth" -> x_ip_auth_header_write (two_of m)
    | "rawext" -> x_ipv6_raw_ext_header_write (two_of m)
    | "tcp" | "tr_tcp" -> x_tcp_header_write (two_of m)
    | "x4" -> (match split ';' m with
        | [start; a] -> x_x4_write_internal (slot_of a) (n_of_s start)
        | _ -> failwith "x4")
    | "x6" -> (match split ';' m with
        | first :: slots -> x_x6_write_internal (x6_of slots) (n_of_s first)
        | _ -> failwith "x6")
    | "iph4" -> (match split ';' m with
        | [h; proto; a] -> x_ip_headers_write_v4 (two_of h) (n_of_s proto) (slot_of a)
        | _ -> failwith "iph4")
    | "iph6" -> (match split ';' m with
        | h :: nh :: slots -> x_ip_headers_write_v6 (bytes_of_hex h) (n_of_s nh) (x6_of slots)
        | _ -> failwith "iph6")
    | "bld" -> let (c, p) = bld_of m in x_final_write_with_net c p
    | _ -> failwith ("entry " ^ entry)

let s_kind = function KOther -> "other" | KWriteZero -> "wz" | KEof -> "eof"
let s_cerr = function
  | CHopNotAtStart -> "hop" | CNotReferenced n -> "notref" ^ s_of_n n | CPayloadLen -> "plen"
  | CIcmpv6InIpv4 -> "i6in4" | CVersion -> "version" | CIhl -> "ihl" | CDataOffset -> "doff"
  | CAuthZeroLen -> "authzero" | CMacsecVersion -> "msver" | CMacsecShortLen -> "msshort"
let s_wres = function
  | ROk -> "ok" | RIo k -> "io:" ^ s_kind k | RContent c -> "content:" ^ s_cerr c
  | RPanic -> "PANIC" | RFuel -> "FUEL"

(* initial content of an output buffer of n bytes (same formula in the harness) *)
let init_buf n = List.init n (fun i -> n_of_int ((i * 7 + 3) land 255))

let s_lenerr e = Printf.sprintf "%s %s %s %s %s" (s_of_n e.le_required) (s_of_n e.le_len)
    (s_of_n e.le_source) (s_of_n e.le_layer) (s_of_n e.le_off)

let s_list l = String.concat "," (List.map s_of_n l)

let rprog_of entry : rprog * bool =
  let k1 = fun nh -> PRet [nh] in
  match split ':' entry with
  | ["eth"] -> (read_fixed (n_of_int 14), false)
  | ["vlan"] -> (read_fixed (n_of_int 4), false)
  | ["sll"] -> (read_fixed (n_of_int 16), false)
  | ["frag8"] | ["udp"] | ["icmp6"] -> (read_fixed (n_of_int 8), false)
  | ["ip4h"] -> (ipv4_header_read, false)
  | ["ip6h"] -> (ipv6_header_read, false)
  | ["tcp"] -> (tcp_header_read, false)
  | ["icmp4"] -> (icmpv4_header_read, false)
  | ["macsec"] -> (macsec_header_read, false)
  | ["arp"] -> (arp_packet_read, false)
  | ["iph"] -> (ip_headers_read, false)
  | ["auth"] -> (ip_auth_read false k1, false)
  | ["rawext"] -> (ipv6_raw_ext_read false k1, false)
  | ["frag"] -> (ipv6_frag_read false k1, false)
  | ["authl"] -> (ip_auth_read true k1, true)
  | ["rawextl"] -> (ipv6_raw_ext_read true k1, true)
  | ["fragl"] -> (ipv6_frag_read true k1, true)
  | ["x4"; s] -> (x4_read false (n_of_s s), false)
  | ["x6"; s] -> (x6_read false (n_of_s s), false)
  | ["x4l"; s] -> (x4_read true (n_of_s s), true)
  | ["x6l"; s] -> (x6_read true (n_of_s s), true)
  | _ -> failwith ("reader " ^ entry)

(* round 3: the same readers in the explicit error-propagation language of
   IoFault/ReadPropagate.v (every Result of read_exact / of a called reader is
   matched by the program); the `r` cases RUN these and assert equality with run_r
   (C16_crate_readers_propagate + C16_agrees_r_run) *)
let yprog_of entry : yprog =
  match split ':' entry with
  | ["eth"] -> y_read_fixed (n_of_int 14)
  | ["vlan"] -> y_read_fixed (n_of_int 4)
  | ["sll"] -> y_read_fixed (n_of_int 16)
  | ["frag8"] | ["udp"] | ["icmp6"] -> y_read_fixed (n_of_int 8)
  | ["ip4h"] -> y_ipv4_header_read
  | ["ip6h"] -> y_ipv6_header_read
  | ["tcp"] -> y_tcp_header_read
  | ["icmp4"] -> y_icmpv4_header_read
  | ["macsec"] -> y_macsec_header_read
  | ["arp"] -> y_arp_packet_read
  | ["iph"] -> y_ip_headers_read
  | ["auth"] -> y_ip_auth_read false
  | ["rawext"] -> y_ipv6_raw_ext_read false
  | ["frag"] -> y_ipv6_frag_read false
  | ["authl"] -> y_ip_auth_read true
  | ["rawextl"] -> y_ipv6_raw_ext_read true
  | ["fragl"] -> y_ipv6_frag_read true
  | ["x4"; s] -> y_x4_read false (n_of_s s)
  | ["x6"; s] -> y_x6_read false (n_of_s s)
  | ["x4l"; s] -> y_x4_read true (n_of_s s)
  | ["x6l"; s] -> y_x6_read true (n_of_s s)
  | _ -> failwith ("reader " ^ entry)

let s_lim = function
  | None -> ""
  | Some r -> Printf.sprintf " max=%s read=%s loff=%s layer=%s" (s_of_n r.lr_max) (s_of_n r.lr_read)
                (s_of_n r.lr_off) (s_of_n r.lr_layer)

let rec take_i n l = if n <= 0 then [] else match l with [] -> [] | x :: r -> x :: take_i (n - 1) r

let run (line : string) : string =
  match Conv.split_ws line with
  | ["w"; entry; k; chunk; z; _spec; m] ->
    let p = wprog_of entry m in
    let sink = { fs_budget = n_of_s k; fs_chunk = n_of_s chunk; fs_zero = (z = "1"); fs_got = [] } in
    let (r, s') = run_x io_write_all (xprog_of entry m) sink in
    let (r0, s0) = run_w io_write_all p sink in
    if (r0, s0) <> (r, s') then failwith "run_x of the explicit program differs from run_w (C16_crate_writers_propagate)";
    let enc = wprog_bytes p in
    let (sok, sgot) = spec_fault_write enc (n_of_s k) in
    Printf.sprintf "%s got=%s | %s got=%s" (s_wres r) (hex_of_bytes s'.fs_got)
      (if sok then "done" else "io") (hex_of_bytes sgot)
  | ["wt"; entry; k; chunk; z; _spec; m] ->
      (* transient fault device: up to the fault it is the fail-stop sink; the writer must stop there *)
    let p = wprog_of entry m in
    let sink = { fs_budget = n_of_s k; fs_chunk = n_of_s chunk; fs_zero = (z = "1"); fs_got = [] } in
    let (r, s') = run_x io_write_all (xprog_of entry m) sink in
    let (r0, s0) = run_w io_write_all p sink in
    if (r0, s0) <> (r, s') then failwith "run_x of the explicit program differs from run_w (C16_crate_writers_propagate)";
    let enc = wprog_bytes p in
    let (sok, sgot) = spec_fault_write enc (n_of_s k) in
    Printf.sprintf "%s got=%s | %s got=%s" (s_wres r) (hex_of_bytes s'.fs_got)
      (if sok then "done" else "io") (hex_of_bytes sgot)
  | ["ws"; entry; n; _spec; m] ->
    let (ln, layer) = match entry with
      | "eth" -> (n_of_int 14, l_ETH) | "sll" -> (n_of_int 16, l_SLL) | _ -> failwith "ws entry" in
    let buf = init_buf (int_of_string n) in
    let enc = bytes_of_hex m in
    let (r, b') = header_write_to_slice ln layer enc buf in
    let (so, sb) = spec_slice_write enc buf in
    let ms = match r with
      | SOk (o, l) -> Printf.sprintf "ok rest=%s+%s" (s_of_n o) (s_of_n l)
      | SErr e -> Printf.sprintf "err req=%s len=%s layer=%s off=%s" (s_of_n e.se_required)
                    (s_of_n e.se_len) (s_of_n e.se_layer) (s_of_n e.se_off)
      | SPanic -> "PANIC" in
    let ss = match so with
      | None -> "ok" | Some e -> Printf.sprintf "err req=%s len=%s" (s_of_n e.sp_required) (s_of_n e.sp_len) in
    Printf.sprintf "%s buf=%s | %s buf=%s" ms (hex_of_bytes b') ss (hex_of_bytes sb)
  | ["wsb"; n; _spec; m] ->
    let (c, payload) = bld_of m in
    let buf = init_buf (int_of_string n) in
    let (r, b') = final_write_to_slice c buf payload in
    let p = final_write_with_net c payload in
    let enc = wprog_bytes p in
    let ms = match r with
      | BOk w -> "ok " ^ s_of_n w | BSpace q -> "space " ^ s_of_n q
      | BContent e -> "content:" ^ s_cerr e | BPanic -> "PANIC" | BFuel -> "FUEL" in
    (* spec: only meaningful when the walk succeeds *)
    let ss = match wprog_verdict p with
      | VOk -> let (so, sb) = spec_slice_write enc buf in
        (match so with None -> Printf.sprintf "ok %s buf=%s" (s_of_n (len enc)) (hex_of_bytes sb)
                     | Some e -> Printf.sprintf "space %s buf=%s" (s_of_n e.sp_required) (hex_of_bytes sb))
      | _ -> "-" in
    Printf.sprintf "%s buf=%s | %s" ms (hex_of_bytes b') ss
  | "r" :: entry :: k :: chunk :: e :: data :: rest ->
    let (p, lim) = rprog_of entry in
    let d = bytes_of_hex data in
    let kk = int_of_string k in
    let src = { src_data = take_i kk d; src_chunk = n_of_s chunk; src_err = (e = "1"); src_pulled = N0 } in
    let l = if lim then (match rest with
        | [mx; off] -> Some (lr_new (n_of_s mx) N0 (n_of_s off) (n_of_int 3))
        | _ -> failwith "limited reader params") else None in
    let (r0, st0) = run_r p { rs_src = src; rs_lim = l } in
    let (r, st') = run_y (yprog_of entry) { rs_src = src; rs_lim = l } in
    if (r0, st0) <> (r, st') then failwith "run_y of the explicit program differs from run_r (C16_crate_readers_propagate)";
    let ms = match r with
      | QOk a -> "ok " ^ s_list a | QIo kd -> "io:" ^ s_kind kd | QLen le -> "len " ^ s_lenerr le
      | QContent c -> "content:" ^ s_cerr c | QUnderflow -> "UNDERFLOW" | QBad -> "BAD" | QFuel -> "FUEL" in
    let pulled = int_of_n st'.rs_src.src_pulled in
    Printf.sprintf "%s pulled=%d%s | pulled<=%d" ms pulled (if lim then s_lim st'.rs_lim else "") kk
  | ["lr"; mx; off; k; chunk; e; data; ops] ->
    let d = bytes_of_hex data in
    let src = ref { src_data = take_i (int_of_string k) d; src_chunk = n_of_s chunk; src_err = (e = "1");
                    src_pulled = N0 } in
    let r = ref (lr_new (n_of_s mx) N0 (n_of_s off) (n_of_int 3)) in
    let out = ref [] in
    let dead = ref false in
    List.iter (fun op ->
        if not !dead then begin
          let arg = n_of_s (String.sub op 1 (String.length op - 1)) in
          if op.[0] = 'r' then begin
            let ((q, r'), s') = lr_read_exact !r !src arg in
            r := r'; src := s';
            out := (match q with
                | QOk bs -> "ok:" ^ hex_of_bytes bs | QIo kd -> "io:" ^ s_kind kd
                | QLen le -> "len:" ^ s_lenerr le | QUnderflow -> (dead := true; "UNDERFLOW")
                | _ -> (dead := true; "BAD")) :: !out
          end else begin
            match lr_start_layer !r arg with
            | Some r' -> r := r'; out := "st" :: !out
            | None -> dead := true; out := "UNDERFLOW" :: !out
          end
        end) (split ',' ops);
    Printf.sprintf "%s%s pulled=%s | pulled<=%s" (String.concat ";" (List.rev !out)) (s_lim (Some !r))
      (s_of_n !src.src_pulled) mx
  | _ -> failwith ("bad c16 case: " ^ line)

let () =
  Conv.iter_lines Sys.argv.(1) (fun l ->
      print_endline (try run l with Failure m -> "MODEL-FAIL " ^ m | Not_found -> "MODEL-FAIL notfound"))
