(* model + spec side of the C15 correspondence: same case file as the Rust
   harness, one line per case: "<model result> | <spec result>".
   Formats are documented in tools/props/c15.py. *)
open M_c15

let rec pos_of_z (z : Z.t) : positive =
  if Z.equal z Z.one then XH
  else if Z.testbit z 0 then XI (pos_of_z (Z.shift_right z 1))
  else XO (pos_of_z (Z.shift_right z 1))
let n_of_z z = if Z.sign z = 0 then N0 else Npos (pos_of_z z)
let rec z_of_pos = function
  | XH -> Z.one
  | XO p -> Z.shift_left (z_of_pos p) 1
  | XI p -> Z.succ (Z.shift_left (z_of_pos p) 1)
let z_of_n = function N0 -> Z.zero | Npos p -> z_of_pos p
let ni i = n_of_z (Z.of_int i)
let nz s = n_of_z (Z.of_string s)
let sn n = Z.to_string (z_of_n n)
let int_of_n n = Z.to_int (z_of_n n)
let rec nat_of_int i = if i = 0 then O else S (nat_of_int (i - 1))
let bytes_of_hex h = List.map ni (Conv.unhex h)
let hexs (l : n list) = Conv.hex (List.map int_of_n l)
let sb b = if b then "1" else "0"
let bn b = if b then ni 1 else N0
let nb n = n <> N0

(* FNV-1a 64 over the records, each followed by '\n' *)
let fnv (recs : string list) : string =
  let h = ref 0xcbf29ce484222325L in
  let add c = h := Int64.mul (Int64.logxor !h (Int64.of_int c)) 0x100000001b3L in
  List.iter (fun r -> String.iter (fun c -> add (Char.code c)) r; add 10) recs;
  Printf.sprintf "%016Lx" !h

let batch (prefix : string) (lo : int) (hi : int) (f : int -> string) : string =
  let p = if prefix = "" then "" else prefix ^ " " in
  if hi - lo = 1 then p ^ f lo
  else begin
    let recs = List.init (hi - lo) (fun i -> f (lo + i)) in
    Printf.sprintf "%sn=%d h=%s" p (hi - lo) (fnv recs)
  end

let rle (lo : int) (hi : int) (f : int -> char) : string =
  let b = Buffer.create 64 in
  let cur = ref ' ' and cnt = ref 0 in
  let flush () =
    if !cnt > 0 then begin
      if Buffer.length b > 0 then Buffer.add_char b ',';
      Buffer.add_string b (Printf.sprintf "%c*%d" !cur !cnt)
    end in
  for v = lo to hi - 1 do
    let c = f v in
    if c = !cur then incr cnt else begin flush (); cur := c; cnt := 1 end
  done;
  flush (); Buffer.contents b

let fail_tag = function
  | OOB -> "OOB" | UBRange -> "UB" | Panic -> "PANIC" | ErrLen -> "err-len"
  | ErrContent -> "err-content" | ErrIo -> "err-io" | Other -> "other"

let show (pr : 'a -> string) (r : 'a res) : string =
  match r with Val a -> pr a | Fail f -> fail_tag f

(* ---- bounded types ---------------------------------------------------- *)
type ty = { tmax : n; w : nat; tn : n -> tried res; tf : n -> tried res }
let pure f v = Val (f v)
let ty_of = function
  | "VlanId" -> { tmax = vlanId_MAX_U16; w = w_VlanId; tn = pure vlanId_try_new; tf = pure vlanId_try_from }
  | "VlanPcp" -> { tmax = vlanPcp_MAX_U8; w = w_VlanPcp; tn = pure vlanPcp_try_new; tf = pure vlanPcp_try_from }
  | "IpDscp" -> { tmax = ipDscp_MAX_U8; w = w_IpDscp; tn = pure ipDscp_try_new; tf = pure ipDscp_try_from }
  | "IpEcn" -> { tmax = ipEcn_MAX_U8; w = w_IpEcn; tn = ipEcn_try_new; tf = ipEcn_try_from }
  | "IpFragOffset" -> { tmax = ipFragOffset_MAX_U16; w = w_IpFragOffset; tn = pure ipFragOffset_try_new; tf = pure ipFragOffset_try_from }
  | "Ipv6FlowLabel" -> { tmax = ipv6FlowLabel_MAX_U32; w = w_Ipv6FlowLabel; tn = pure ipv6FlowLabel_try_new; tf = pure ipv6FlowLabel_try_from }
  | "MacsecAn" -> { tmax = macsecAn_MAX_U8; w = w_MacsecAn; tn = pure macsecAn_try_new; tf = pure macsecAn_try_from }
  | "MacsecShortLen" -> { tmax = macsecShortLen_MAX_U8; w = w_MacsecShortLen; tn = pure macsecShortLen_try_from_u8; tf = pure macsecShortLen_try_from }
  | "Qrv" -> { tmax = qrv_MAX_U8; w = w_Qrv; tn = pure qrv_try_new; tf = pure qrv_try_from }
  | t -> failwith ("type " ^ t)

let try_char (t : ty) (v : int) : char =
  let nv = ni v in
  let cls = function
    | Val (TOk x) -> if x = nv then 'k' else 'X'
    | Val (TErr (a, m)) -> if a = nv && m = t.tmax then 'e' else 'X'
    | Fail _ -> 'U' in
  let a = cls (t.tn nv) and b = cls (t.tf nv) in
  if a = b then a else 'X'

let pow2 (w : nat) : Z.t = let rec go = function O -> Z.one | S k -> Z.mul (Z.of_int 2) (go k) in go w

(* ---- field printing --------------------------------------------------- *)
let vlan_fields (h : singleVlanHeader) =
  String.concat "," [sn h.vlan_pcp; sb h.vlan_dei; sn h.vlan_id; sn h.vlan_ether_type]
let v4_fields (h : ipv4Header) =
  String.concat "," [sn h.v4_dscp; sn h.v4_ecn; sn h.v4_total_len; sn h.v4_identification;
    sb h.v4_dont_fragment; sb h.v4_more_fragments; sn h.v4_fragment_offset; sn h.v4_time_to_live;
    sn h.v4_protocol; sn h.v4_header_checksum; hexs h.v4_source; hexs h.v4_destination; hexs h.v4_options]
let v6_fields_r (h : ipv6Header) =
  String.concat "," [sn h.v6_traffic_class; sn h.v6_flow_label; sn h.v6_payload_length;
    sn h.v6_next_header; sn h.v6_hop_limit; hexs h.v6_source; hexs h.v6_destination]
let v6_fields_s (h : ipv6Header) (d : string) (e : string) =
  String.concat "," [sn h.v6_traffic_class; d; e; sn h.v6_flow_label; sn h.v6_payload_length;
    sn h.v6_next_header; sn h.v6_hop_limit; hexs h.v6_source; hexs h.v6_destination]
let fr_fields (h : ipv6FragmentHeader) =
  String.concat "," [sn h.fr_next_header; sn h.fr_fragment_offset; sb h.fr_more_fragments; sn h.fr_identification]
let pt_str = function
  | Unmodified e -> "u" ^ sn e | Modified -> "m" | Encrypted -> "e" | EncryptedUnmodified -> "eu"
let ms_fields (h : macsecHeader) =
  String.concat "," [pt_str h.ms_ptype; sb h.ms_endstation_id; sb h.ms_scb; sn h.ms_an;
    sn h.ms_short_len; sn h.ms_packet_nr; (match h.ms_sci with Some s -> sn s | None -> "-")]

(* ---- decoders, model and spec ----------------------------------------- *)
let fld bits (r : nat * nat) = field bits (fst r) (snd r)
let sub (bs : n list) off n = List.filteri (fun i _ -> i >= off && i < off + n) bs

let vlan_dec_model (bs : n list) : string =
  let b = match bs with
    | [a; b; c; d] -> show vlan_fields (singleVlanHeader_from_bytes a b c d)
    | _ -> "-" in
  Printf.sprintf "b:%s h:%s s:%s" b (show vlan_fields (singleVlanHeader_from_slice bs))
    (show vlan_fields (singleVlanSlice_decode bs))
let vlan_dec_spec (bs : n list) : string =
  let bits = bits_of bs in
  let s = String.concat "," [sn (fld bits (vlan_range VlanPCP)); sn (fld bits (vlan_range VlanDEI));
                             sn (fld bits (vlan_range VlanVID)); sn (fld bits (vlan_range VlanEtherType))] in
  (match singleVlanHeader_from_slice bs with
   | Val _ -> Printf.sprintf "b:%s h:%s s:%s" (if List.length bs = 4 then s else "-") s s
   | Fail _ -> vlan_dec_model bs)

let v4_dec_model (bs : n list) : string =
  Printf.sprintf "s:%s r:%s" (show v4_fields (ipv4Header_from_slice bs)) (show v4_fields (ipv4Header_read bs))
let v4_dec_spec (bs : n list) : string =
  match ipv4Header_from_slice bs, ipv4Header_read bs with
  | Val _, Val _ ->
    let bits = bits_of bs in
    let g f = sn (fld bits (ipv4_range f)) in
    let ihl = int_of_n (field bits (nat_of_int 4) (nat_of_int 4)) in
    let s = String.concat "," [g V4Dscp; g V4Ecn; g V4TotalLen; g V4Ident; g V4DF; g V4MF; g V4FragOff;
              g V4Ttl; g V4Proto; g V4Checksum; hexs (sub bs 12 4); hexs (sub bs 16 4);
              hexs (sub bs 20 (ihl * 4 - 20))] in
    Printf.sprintf "s:%s r:%s" s s
  | _ -> v4_dec_model bs

let v6_dec_model (bs : n list) : string =
  let s = match ipv6HeaderSlice_from_slice bs with
    | Fail f -> fail_tag f
    | Val hs -> (match ipv6Header_from_slice bs with
        | Val h -> v6_fields_s h (show sn (v6S_dscp hs)) (show sn (v6S_ecn hs))
        | Fail f -> fail_tag f) in
  Printf.sprintf "s:%s r:%s" s (show v6_fields_r (ipv6Header_read bs))
let v6_dec_spec (bs : n list) : string =
  match ipv6Header_from_slice bs, ipv6Header_read bs with
  | Val _, Val _ ->
    let bits = bits_of bs in
    let g f = sn (fld bits (ipv6_range f)) in
    let tc = sn (field bits (nat_of_int 4) (nat_of_int 8)) in
    let tail = [g V6FlowLabel; g V6PayloadLen; g V6NextHeader; g V6HopLimit; hexs (sub bs 8 16); hexs (sub bs 24 16)] in
    Printf.sprintf "s:%s r:%s" (String.concat "," ([tc; g V6Dscp; g V6Ecn] @ tail)) (String.concat "," (tc :: tail))
  | _ -> v6_dec_model bs

let fr_dec_model (bs : n list) : string =
  Printf.sprintf "s:%s r:%s" (show fr_fields (ipv6FragmentHeader_from_slice bs)) (show fr_fields (ipv6FragmentHeader_read bs))
let fr_dec_spec (bs : n list) : string =
  match ipv6FragmentHeader_from_slice bs with
  | Val _ ->
    let bits = bits_of bs in
    let g f = sn (fld bits (frag_range f)) in
    let s = String.concat "," [g FrNextHeader; g FrOffset; g FrMore; g FrIdent] in
    Printf.sprintf "s:%s r:%s" s s
  | _ -> fr_dec_model bs

let ms_dec_model (bs : n list) : string = "s:" ^ show ms_fields (macsecHeader_from_slice bs)
let ms_dec_spec (bs : n list) : string =
  match macsecHeader_from_slice bs with
  | Val _ ->
    let bits = bits_of bs in
    let g f = fld bits (macsec_range f) in
    let e = nb (g MsE) and c = nb (g MsC) and sc = nb (g MsSC) in
    let et off = sn (field bits (nat_of_int (8 * off)) (nat_of_int 16)) in
    let pt = if e then (if c then "e" else "eu") else if c then "m"
      else "u" ^ (if sc then et 14 else et 6) in
    let sci = if sc then sn (field bits (nat_of_int 48) (nat_of_int 64)) else "-" in
    "s:" ^ String.concat "," [pt; sn (g MsES); sn (g MsSCB); sn (g MsAN); sn (g MsSL); sn (g MsPN); sci]
  | _ -> ms_dec_model bs

(* ---- parsing helpers --------------------------------------------------- *)
let pbool s = s = "1"
let ppt s = match s with
  | "m" -> Modified | "e" -> Encrypted | "eu" -> EncryptedUnmodified
  | _ -> Unmodified (nz (String.sub s 1 (String.length s - 1)))

let set_at (bs : n list) (pos : int) (v : int) : n list =
  List.mapi (fun i b -> if i = pos then ni (v lsr 8) else if i = pos + 1 then ni (v land 255) else b) bs

let run (line : string) : string =
  match Conv.split_ws line with
  | ["try"; t; lo; hi] ->
    let ty = ty_of t and lo = int_of_string lo and hi = int_of_string hi in
    let m = Printf.sprintf "max=%s %s" (sn ty.tmax) (rle lo hi (try_char ty)) in
    let lim = pow2 ty.w in
    let s = Printf.sprintf "max=%s %s" (Z.to_string (Z.pred lim))
        (rle lo hi (fun v -> if Z.lt (Z.of_int v) lim then 'k' else 'e')) in
    m ^ " | " ^ s
  | ["fromlen"; lo; hi] ->
    let lo = int_of_string lo and hi = int_of_string hi in
    let l f = String.concat "," (List.init (hi - lo) (fun i -> f (lo + i))) in
    l (fun v -> sn (macsecShortLen_from_len (ni v))) ^ " | " ^ l (fun v -> if v <= 63 then string_of_int v else "0")
  | ["fromlenbig"; v] ->
    sn (macsecShortLen_from_len (nz v)) ^ " | 0"
  | ["setpl"; u; lo; hi] ->
    let lo = int_of_string lo and hi = int_of_string hi in
    let pt = if u = "1" then Unmodified (ni 2048) else Modified in
    let l f = String.concat "," (List.init (hi - lo) (fun i -> f (lo + i))) in
    l (fun v -> show sn (macsecHeader_set_payload_len pt (ni v)))
    ^ " | " ^ l (fun v -> if u = "1" then (if v <= 61 then string_of_int (v + 2) else "0")
                          else (if v <= 63 then string_of_int v else "0"))
  | ["vlan"; f; lo; hi; pcp; dei; vid; et] ->
    let base = { vlan_pcp = nz pcp; vlan_dei = pbool dei; vlan_id = nz vid; vlan_ether_type = nz et } in
    let mk v = let nv = ni v in
      (match f with
       | "pcp" -> { base with vlan_pcp = nv } | "dei" -> { base with vlan_dei = nb nv }
       | "vid" -> { base with vlan_id = nv } | "et" -> { base with vlan_ether_type = nv }
       | "none" -> base | _ -> failwith "vlan field") in
    let lo = int_of_string lo and hi = int_of_string hi in
    let m = batch ("base=" ^ hexs (singleVlanHeader_to_bytes base)) lo hi (fun v ->
        let bs = singleVlanHeader_to_bytes (mk v) in hexs bs ^ " " ^ vlan_dec_model bs) in
    let s = batch ("base=" ^ hexs (layout_bytes (vlan_spec_layout base))) lo hi (fun v ->
        let h = mk v in let e = vlan_fields h in
        Printf.sprintf "%s b:%s h:%s s:%s" (hexs (layout_bytes (vlan_spec_layout h))) e e e) in
    m ^ " | " ^ s
  | ["ipv4"; f; lo; hi; dscp; ecn; tl; id; df; mf; fo; ttl; pr; ck; src; dst; opt] ->
    let base = { v4_dscp = nz dscp; v4_ecn = nz ecn; v4_total_len = nz tl; v4_identification = nz id;
                 v4_dont_fragment = pbool df; v4_more_fragments = pbool mf; v4_fragment_offset = nz fo;
                 v4_time_to_live = nz ttl; v4_protocol = nz pr; v4_header_checksum = nz ck;
                 v4_source = bytes_of_hex src; v4_destination = bytes_of_hex dst; v4_options = bytes_of_hex opt } in
    let mk v = let nv = ni v in
      (match f with
       | "dscp" -> { base with v4_dscp = nv } | "ecn" -> { base with v4_ecn = nv }
       | "tl" -> { base with v4_total_len = nv } | "id" -> { base with v4_identification = nv }
       | "df" -> { base with v4_dont_fragment = nb nv } | "mf" -> { base with v4_more_fragments = nb nv }
       | "fo" -> { base with v4_fragment_offset = nv } | "ttl" -> { base with v4_time_to_live = nv }
       | "pr" -> { base with v4_protocol = nv } | "ck" -> { base with v4_header_checksum = nv }
       | "none" -> base | _ -> failwith "ipv4 field") in
    let lo = int_of_string lo and hi = int_of_string hi in
    let m = batch ("base=" ^ hexs (ipv4Header_to_bytes base)) lo hi (fun v ->
        let h = mk v in let bs = ipv4Header_to_bytes h in
        Printf.sprintf "%s wr=%s %s" (hexs bs) (sb (ipv4Header_write_raw h = bs)) (v4_dec_model bs)) in
    let s = batch ("base=" ^ hexs (layout_bytes (ipv4_spec_layout base))) lo hi (fun v ->
        let h = mk v in let e = v4_fields h in
        Printf.sprintf "%s wr=1 s:%s r:%s" (hexs (layout_bytes (ipv4_spec_layout h))) e e) in
    m ^ " | " ^ s
  | ["ipv6"; f; lo; hi; tc; fl; pl; nh; hl; src; dst] ->
    let base = { v6_traffic_class = nz tc; v6_flow_label = nz fl; v6_payload_length = nz pl;
                 v6_next_header = nz nh; v6_hop_limit = nz hl;
                 v6_source = bytes_of_hex src; v6_destination = bytes_of_hex dst } in
    let btc = int_of_string tc in
    let mk spec v = let nv = ni v in
      (match f with
       | "dscp" -> { base with v6_traffic_class =
                                 if spec then ni (v * 4 + btc mod 4) else ipv6Header_set_dscp base.v6_traffic_class nv }
       | "ecn" -> { base with v6_traffic_class =
                                if spec then ni ((btc / 4) * 4 + v) else ipv6Header_set_ecn base.v6_traffic_class nv }
       | "tc" -> { base with v6_traffic_class = nv } | "fl" -> { base with v6_flow_label = nv }
       | "pl" -> { base with v6_payload_length = nv } | "nh" -> { base with v6_next_header = nv }
       | "hl" -> { base with v6_hop_limit = nv } | "none" -> base | _ -> failwith "ipv6 field") in
    let lo = int_of_string lo and hi = int_of_string hi in
    let m = batch ("base=" ^ hexs (ipv6Header_to_bytes base)) lo hi (fun v ->
        let h = mk false v in let bs = ipv6Header_to_bytes h in
        Printf.sprintf "%s tc=%s g:%s,%s %s" (hexs bs) (sn h.v6_traffic_class)
          (show sn (ipv6Header_dscp h.v6_traffic_class)) (show sn (ipv6Header_ecn h.v6_traffic_class))
          (v6_dec_model bs)) in
    let s = batch ("base=" ^ hexs (layout_bytes (ipv6_spec_layout base))) lo hi (fun v ->
        let h = mk true v in
        let t = int_of_n h.v6_traffic_class in
        let d = string_of_int (t / 4) and e = string_of_int (t mod 4) in
        Printf.sprintf "%s tc=%d g:%s,%s s:%s r:%s" (hexs (layout_bytes (ipv6_spec_layout h))) t d e
          (v6_fields_s h d e) (v6_fields_r h)) in
    m ^ " | " ^ s
  | ["frag"; f; lo; hi; nh; fo; mf; id] ->
    let base = { fr_next_header = nz nh; fr_fragment_offset = nz fo; fr_more_fragments = pbool mf;
                 fr_identification = nz id } in
    let mk v = let nv = ni v in
      (match f with
       | "nh" -> { base with fr_next_header = nv } | "fo" -> { base with fr_fragment_offset = nv }
       | "mf" -> { base with fr_more_fragments = nb nv } | "id" -> { base with fr_identification = nv }
       | "none" -> base | _ -> failwith "frag field") in
    let lo = int_of_string lo and hi = int_of_string hi in
    let m = batch ("base=" ^ hexs (ipv6FragmentHeader_to_bytes base)) lo hi (fun v ->
        let bs = ipv6FragmentHeader_to_bytes (mk v) in hexs bs ^ " " ^ fr_dec_model bs) in
    let s = batch ("base=" ^ hexs (layout_bytes (frag_spec_layout base))) lo hi (fun v ->
        let h = mk v in let e = fr_fields h in
        Printf.sprintf "%s s:%s r:%s" (hexs (layout_bytes (frag_spec_layout h))) e e) in
    m ^ " | " ^ s
  | ["macsec"; f; lo; hi; pt; es; scb; an; sl; pn; sci] ->
    let base = { ms_ptype = ppt pt; ms_endstation_id = pbool es; ms_scb = pbool scb; ms_an = nz an;
                 ms_short_len = nz sl; ms_packet_nr = nz pn;
                 ms_sci = (if sci = "-" then None else Some (nz sci)) } in
    let mk v = let nv = ni v in
      (match f with
       | "es" -> { base with ms_endstation_id = nb nv } | "scb" -> { base with ms_scb = nb nv }
       | "an" -> { base with ms_an = nv } | "sl" -> { base with ms_short_len = nv }
       | "pn" -> { base with ms_packet_nr = nv } | "none" -> base | _ -> failwith "macsec field") in
    let lo = int_of_string lo and hi = int_of_string hi in
    let m = batch ("base=" ^ hexs (macsecHeader_to_bytes base)) lo hi (fun v ->
        let bs = macsecHeader_to_bytes (mk v) in hexs bs ^ " " ^ ms_dec_model bs) in
    let s = batch ("base=" ^ hexs (layout_bytes (macsec_spec_layout base))) lo hi (fun v ->
        let h = mk v in
        let unm = (match h.ms_ptype with Unmodified _ -> true | _ -> false) in
        let d = if unm && h.ms_short_len = ni 1 then "err-content" else ms_fields h in
        Printf.sprintf "%s s:%s" (hexs (layout_bytes (macsec_spec_layout h))) d) in
    m ^ " | " ^ s
  | ["igmp"; raw] ->
    let r = nz raw in let ri = int_of_string raw in
    let hx2 l = String.concat "" (List.map (fun x -> Printf.sprintf "%02x" (int_of_n x)) l) in
    let t = { q_max_response_code = ni 100; q_group_address = List.map ni [224; 0; 0; 1]; q_raw_byte_8 = r;
              q_qqic = ni 125; q_num_of_sources = ni 3 } in
    let enc = igmpQuery_to_bytes t (ni 0xabcd) in
    let dec = (match igmpQuery_from_slice enc with Val (h, _) -> sn h.q_raw_byte_8 | Fail f -> fail_tag f) in
    let m = Printf.sprintf "g=%s,%s,%s q=%s s=%s f=%s enc=%s dec=%s"
        (sn (query_flags r)) (sb (query_s_flag r)) (show sn (query_qrv r))
        (hx2 (List.init 8 (fun q -> query_set_qrv r (ni q))))
        (hx2 [query_set_s_flag r false; query_set_s_flag r true])
        (hx2 (List.init 256 (fun v -> query_set_flags r (ni v))))
        (hexs enc) dec in
    let one resv s q = match layout_bytes (igmp_byte8_layout (ni resv) (ni s) (ni q)) with [b] -> b | _ -> failwith "byte8" in
    let bits = bits_of [r] in
    let gr = int_of_n (field bits (nat_of_int 0) (nat_of_int 4)) and gs = int_of_n (field bits (nat_of_int 4) (nat_of_int 1))
    and gq = int_of_n (field bits (nat_of_int 5) (nat_of_int 3)) in
    let s = Printf.sprintf "g=%d,%d,%d q=%s s=%s f=%s enc=%s dec=%d" gr gs gq
        (hx2 (List.init 8 (fun q -> one gr gs q)))
        (hx2 [one gr 0 gq; one gr 1 gq])
        (hx2 (List.init 256 (fun v -> one (v mod 16) gs gq)))
        (hexs (layout_bytes (igmp_query_layout (ni 100) (ni 0xabcd) (List.map ni [224; 0; 0; 1])
                               (ni gr) (ni gs) (ni gq) (ni 125) (ni 3)))) ri in
    m ^ " | " ^ s
  | ["dec"; hdr; lo; hi; pos; tmpl] ->
    let t = bytes_of_hex tmpl and pos = int_of_string pos in
    let lo = int_of_string lo and hi = int_of_string hi in
    let (fm, fs) = (match hdr with
        | "vlan" -> (vlan_dec_model, vlan_dec_spec) | "ipv4" -> (v4_dec_model, v4_dec_spec)
        | "ipv6" -> (v6_dec_model, v6_dec_spec) | "frag" -> (fr_dec_model, fr_dec_spec)
        | "macsec" -> (ms_dec_model, ms_dec_spec) | _ -> failwith "dec hdr") in
    batch "" lo hi (fun v -> fm (set_at t pos v)) ^ " | " ^ batch "" lo hi (fun v -> fs (set_at t pos v))
  | _ -> failwith ("bad c15 case: " ^ line)

let () =
  Conv.iter_lines Sys.argv.(1) (fun l ->
      print_endline (try run l with Failure m -> "MODEL-FAIL " ^ m))
