(* model + spec side of the C09 correspondence: same case file as the Rust
   harness, one line per case: "<model result> | <spec result>" *)
open M_c09

let rec pos_of_z (z : Z.t) : positive =
  if Z.equal z Z.one then XH
  else if Z.testbit z 0 then XI (pos_of_z (Z.shift_right z 1))
  else XO (pos_of_z (Z.shift_right z 1))
let n_of_z z = if Z.sign z = 0 then N0 else Npos (pos_of_z z)
let rec z_of_pos = function
  | XH -> Z.one
  | XO p -> Z.shift_left (z_of_pos p) 1
  | XI p -> Z.succ (Z.shift_left (z_of_pos p) 1)
let z_of_n = function N0 -> Z.zero | Npos p -> z_of_pos p
let n_of_int i = n_of_z (Z.of_int i)
let s_of_n n = Z.to_string (z_of_n n)
let bytes_of_hex h = List.map n_of_int (Conv.unhex h)

let piece_of (s : string) : piece =
  match String.index_opt s ':' with
  | None -> failwith "piece"
  | Some i ->
    let k = String.sub s 0 i and h = String.sub s (i + 1) (String.length s - i - 1) in
    let b = bytes_of_hex h in
    (match k, b with
     | "2", [a; b] -> P2 (a, b)
     | "4", [a; b; c; d] -> P4 (a, b, c, d)
     | "8", [a; b; c; d; f; g; h; i] -> P8 (a, b, c, d, f, g, h, i)
     | "16", x when List.length x = 16 -> P16 x
     | "s", x -> PSlice x
     | _ -> failwith "piece kind")

let e = LE

let run (line : string) : string =
  match Conv.split_ws line with
  | ["h64"; start; h] ->
    let bs = bytes_of_hex h in
    let s = U64.add_slice e (n_of_z (Z.of_string start)) bs in
    let m = Printf.sprintf "sum=%s oc=%s nz=%s" (s_of_n s)
        (s_of_n (to_be16v e (U64.ones_complement s)))
        (s_of_n (to_be16v e (U64.ones_complement_with_no_zero s))) in
    let spec = if start = "0" then
        let r = rfc1071 bs in
        Printf.sprintf "oc=%s nz=%s" (s_of_n r) (if r = N0 then "65535" else s_of_n r)
      else "-" in
    m ^ " | " ^ spec
  | ["h32"; start; h] ->
    let bs = bytes_of_hex h in
    let s = U32.add_slice e (n_of_z (Z.of_string start)) bs in
    let m = Printf.sprintf "sum=%s oc=%s nz=%s" (s_of_n s)
        (s_of_n (to_be16v e (U32.ones_complement s)))
        (s_of_n (to_be16v e (U32.ones_complement_with_no_zero s))) in
    let spec = if start = "0" then
        let r = rfc1071 bs in
        Printf.sprintf "oc=%s nz=%s" (s_of_n r) (if r = N0 then "65535" else s_of_n r)
      else "-" in
    m ^ " | " ^ spec
  | "seq" :: ps ->
    let ps = List.map piece_of ps in
    let m = Printf.sprintf "oc=%s nz=%s oc32=%s nz32=%s"
        (s_of_n (checksum64 e ps)) (s_of_n (checksum64_no_zero e ps))
        (s_of_n (checksum32 e ps)) (s_of_n (checksum32_no_zero e ps)) in
    let r = rfc1071 (pieces_bytes ps) in
    let nz = if r = N0 then "65535" else s_of_n r in
    let spec = Printf.sprintf "oc=%s nz=%s oc32=%s nz32=%s" (s_of_n r) nz (s_of_n r) nz in
    m ^ " | " ^ spec
  | _ -> failwith ("bad c09 case: " ^ line)

let () =
  Conv.iter_lines Sys.argv.(1) (fun l ->
      print_endline (try run l with Failure m -> "MODEL-FAIL " ^ m))
