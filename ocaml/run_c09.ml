(* model + spec side of the C09 correspondence: same case file as the Rust
   harness, one line per case: "<model result> | <spec result>" *)
open M_c09

let rec pos_of_z (z : Z.t) : positive =
  if Z.equal z Z.one then XH
  else if Z.testbit z 0 then XI (pos_of_z (Z.shift_right z 1))
  else XO (pos_of_z (Z.shift_right z 1))
let n_of_z z = if Z.sign z = 0 then N0 else Npos (pos_of_z z)
let rec z_of_pos = function
  | XH -> Z.one
  | XO p -> Z.shift_left (z_of_pos p) 1
  | XI p -> Z.succ (Z.shift_left (z_of_pos p) 1)
let z_of_n = function N0 -> Z.zero | Npos p -> z_of_pos p
let n_of_int i = n_of_z (Z.of_int i)
let s_of_n n = Z.to_string (z_of_n n)
let bytes_of_hex h = List.map n_of_int (Conv.unhex h)

let piece_of (s : string) : piece =
  match String.index_opt s ':' with
  | None -> failwith "piece"
  | Some i ->
    let k = String.sub s 0 i and h = String.sub s (i + 1) (String.length s - i - 1) in
    let b = bytes_of_hex h in
    (match k, b with
     | "2", [a; b] -> P2 (a, b)
     | "4", [a; b; c; d] -> P4 (a, b, c, d)
     | "8", [a; b; c; d; f; g; h; i] -> P8 (a, b, c, d, f, g, h, i)
     | "16", x when List.length x = 16 -> P16 x
     | "s", x -> PSlice x
     | _ -> failwith "piece kind")

let e = LE

(* ---- protocol level --------------------------------------------------- *)
let num s = n_of_z (Z.of_string s)
let flag s = s <> "0"
let ip4_of h : ip4 =
  match bytes_of_hex h with
  | [a; b; c; d] -> (((a, b), c), d)
  | _ -> failwith "ip4"
let show_cres = function
  | COk v -> "ck=" ^ s_of_n v
  | CErrTooBig (a, m) -> Printf.sprintf "err=%s,%s" (s_of_n a) (s_of_n m)
  | CPanic -> "PANIC"
let show_upd = function
  | UpdOk v -> "ck=" ^ s_of_n v
  | UpdErrPayloadLen (a, m) -> Printf.sprintf "err=%s,%s" (s_of_n a) (s_of_n m)
  | UpdErrIcmpv6InIpv4 -> "err=icmpv6-in-ipv4"
  | UpdPanic -> "PANIC"
let show_with = function
  | UWOk (_, v) -> "ck=" ^ s_of_n v
  | UWErrTooBig (a, m) -> Printf.sprintf "err=%s,%s" (s_of_n a) (s_of_n m)
let len_n l = n_of_int (List.length l)
let n_lt a b = Z.lt (z_of_n a) (z_of_n b)

(* the spec's answer incl. the API's range check (the right-hand sides of the theorems) *)
let guarded limit payload v =
  if n_lt limit (len_n payload) then Printf.sprintf "err=%s,%s" (s_of_n (len_n payload)) (s_of_n limit)
  else "ck=" ^ s_of_n v
let n_sub a b = n_of_z (Z.sub (z_of_n a) (z_of_n b))
let u16max = n_of_int 65535
let u32max = n_of_z (Z.of_string "4294967295")

let udp_of = function
  | sp :: dp :: l :: rest -> ({ u_sport = num sp; u_dport = num dp; u_length = num l }, rest)
  | _ -> failwith "udp args"
let tcp_of = function
  | sp :: dp :: sq :: ak :: fl :: w :: u :: o :: rest ->
    let f = int_of_string fl in
    let b k = f land k <> 0 in
    ({ t_sport = num sp; t_dport = num dp; t_seq = num sq; t_ack_no = num ak;
       t_ns = b 256; t_fin = b 1; t_syn = b 2; t_rst = b 4; t_psh = b 8; t_ack = b 16;
       t_urg = b 32; t_ece = b 64; t_cwr = b 128; t_window = num w; t_urgent = num u;
       t_options = bytes_of_hex o }, rest)
  | _ -> failwith "tcp args"
let b4 h = match bytes_of_hex h with [a; b; c; d] -> (a, b, c, d) | _ -> failwith "b4"
let icmp4_of = function
  | "unk" :: ty :: code :: b :: rest -> let (a, b, c, d) = b4 b in (I4Unknown (num ty, num code, a, b, c, d), rest)
  | "erep" :: id :: seq :: rest -> (I4EchoReply (num id, num seq), rest)
  | "ereq" :: id :: seq :: rest -> (I4EchoRequest (num id, num seq), rest)
  (* DestUnreachableHeader::from_values: code 4 carries the mtu *)
  | "du" :: code :: mtu :: rest -> ((if code = "4" then I4FragNeeded (num mtu) else I4DestUnreach (num code)), rest)
  | "red" :: code :: gw :: rest -> (I4Redirect (num code, ip4_of gw), rest)
  | "te" :: code :: rest -> (I4TimeExceeded (num code), rest)
  (* ParameterProblemHeader::from_values: code 0 carries the pointer *)
  | "pp" :: code :: p :: rest -> ((if code = "0" then I4ParamPointer (num p) else I4ParamOther (num code)), rest)
  | "tsq" :: id :: seq :: o :: r :: t :: rest -> (I4TimestampRequest (num id, num seq, num o, num r, num t), rest)
  | "tsr" :: id :: seq :: o :: r :: t :: rest -> (I4TimestampReply (num id, num seq, num o, num r, num t), rest)
  | _ -> failwith "icmp4 args"
let icmp6_of = function
  | "unk" :: ty :: code :: b :: rest -> let (a, b, c, d) = b4 b in (I6Unknown (num ty, num code, a, b, c, d), rest)
  | "du" :: code :: rest -> (I6DestUnreach (num code), rest)
  | "ptb" :: mtu :: rest -> (I6PacketTooBig (num mtu), rest)
  | "te" :: code :: rest -> (I6TimeExceeded (num code), rest)
  | "pp" :: code :: p :: rest -> (I6ParamProblem (num code, num p), rest)
  | "ereq" :: id :: seq :: rest -> (I6EchoRequest (num id, num seq), rest)
  | "erep" :: id :: seq :: rest -> (I6EchoReply (num id, num seq), rest)
  | "rs" :: rest -> (I6RouterSolicitation, rest)
  | "ra" :: chl :: m :: o :: lt :: rest -> (I6RouterAdvertisement (num chl, flag m, flag o, num lt), rest)
  | "ns" :: rest -> (I6NeighborSolicitation, rest)
  | "na" :: r :: s :: o :: rest -> (I6NeighborAdvertisement (flag r, flag s, flag o), rest)
  | "red" :: rest -> (I6Redirect, rest)
  | _ -> failwith "icmp6 args"
let igmp_of = function
  | "q" :: m :: g :: rest -> (GQuery (num m, ip4_of g), rest)
  | "qs" :: m :: g :: r :: q :: n :: rest -> (GQueryWithSources (num m, ip4_of g, num r, num q, num n), rest)
  | "r1" :: g :: rest -> (GReportV1 (ip4_of g), rest)
  | "r2" :: g :: rest -> (GReportV2 (ip4_of g), rest)
  | "r3" :: f :: n :: rest ->
    (match bytes_of_hex f with [f0; f1] -> (GReportV3 (f0, f1, num n), rest) | _ -> failwith "r3")
  | "lg" :: g :: rest -> (GLeaveGroup (ip4_of g), rest)
  | "unk" :: ty :: r1 :: r :: rest -> (GUnknown (num ty, num r1, ip4_of r), rest)
  | _ -> failwith "igmp args"
let transport_of kind args =
  match kind with
  | "udp" -> let (h, r) = udp_of args in (THUdp h, r)
  | "tcp" -> let (h, r) = tcp_of args in (THTcp h, r)
  | "icmp4" -> let (t, r) = icmp4_of args in (THIcmp4 t, r)
  | "icmp6" -> let (t, r) = icmp6_of args in (THIcmp6 t, r)
  | _ -> failwith "transport kind"

let proto tag args =
  match tag, args with
  | "ip4h", [dscp; ecn; tl; id; df; mf; fo; ttl; pr; s; d; o] ->
    let h = { v4_dscp = num dscp; v4_ecn = num ecn; v4_total_len = num tl; v4_ident = num id;
              v4_df = flag df; v4_mf = flag mf; v4_frag_off = num fo; v4_ttl = num ttl;
              v4_proto = num pr; v4_src = ip4_of s; v4_dst = ip4_of d; v4_options = bytes_of_hex o } in
    "ck=" ^ s_of_n (ipv4_calc_header_checksum e h) ^ " | ck=" ^ s_of_n (ipv4_header_checksum_spec h)
  | "udp4", _ ->
    (match udp_of args with
     | (h, [s; d; p]) ->
       let p = bytes_of_hex p in
       show_cres (udp_calc_checksum_ipv4_raw e h (ip4_of s) (ip4_of d) p) ^ " | " ^
       guarded (n_of_int 65527) p (udp4_spec (ip4_of s) (ip4_of d) h h.u_length p)
     | _ -> failwith "udp4")
  | "udp6", _ ->
    (match udp_of args with
     | (h, [s; d; p]) ->
       let p = bytes_of_hex p and s = bytes_of_hex s and d = bytes_of_hex d in
       show_cres (udp_calc_checksum_ipv6_raw e h s d p) ^ " | " ^
       guarded (n_sub u32max (n_of_int 8)) p (udp6_spec s d h h.u_length p)
     | _ -> failwith "udp6")
  | "udp4w", [sp; dp; s; d; p] ->
    let p = bytes_of_hex p in
    let h = { u_sport = num sp; u_dport = num dp; u_length = N.add (n_of_int 8) (len_n p) } in
    show_with (udp_with_ipv4_checksum e (num sp) (num dp) (ip4_of s) (ip4_of d) p) ^ " | " ^
    guarded (n_of_int 65527) p (udp4_spec (ip4_of s) (ip4_of d) h h.u_length p)
  | "udp6w", [sp; dp; s; d; p] ->
    let p = bytes_of_hex p and s = bytes_of_hex s and d = bytes_of_hex d in
    let h = { u_sport = num sp; u_dport = num dp; u_length = N.add (n_of_int 8) (len_n p) } in
    show_with (udp_with_ipv6_checksum e (num sp) (num dp) s d p) ^ " | " ^
    guarded (n_of_int 65527) p (udp6_spec s d h h.u_length p)
  | "tcp4", _ ->
    (match tcp_of args with
     | (h, [s; d; p]) ->
       let p = bytes_of_hex p in
       show_cres (tcp_calc_checksum_ipv4_raw e h (ip4_of s) (ip4_of d) p) ^ " | " ^
       guarded (n_sub u16max (N.add (n_of_int 20) (len_n h.t_options))) p (tcp4_spec (ip4_of s) (ip4_of d) h p)
     | _ -> failwith "tcp4")
  | "tcp6", _ ->
    (match tcp_of args with
     | (h, [s; d; p]) ->
       let p = bytes_of_hex p and s = bytes_of_hex s and d = bytes_of_hex d in
       show_cres (tcp_calc_checksum_ipv6_raw e h s d p) ^ " | " ^
       guarded (n_sub u32max (N.add (n_of_int 20) (len_n h.t_options))) p (tcp6_spec s d h p)
     | _ -> failwith "tcp6")
  | "tcp4hs", [hb; s; d; p] ->
    (match tcp_header_slice_from_slice (bytes_of_hex hb) with
     | None -> "reject | reject"
     | Some hdr ->
       let p = bytes_of_hex p in
       show_cres (tcp_hslice_calc_checksum_ipv4_raw e hdr (ip4_of s) (ip4_of d) p) ^ " | " ^
       guarded (n_sub u16max (len_n hdr)) p (tcp4_raw_spec (ip4_of s) (ip4_of d) hdr p))
  | "tcp6hs", [hb; s; d; p] ->
    (match tcp_header_slice_from_slice (bytes_of_hex hb) with
     | None -> "reject | reject"
     | Some hdr ->
       let p = bytes_of_hex p and s = bytes_of_hex s and d = bytes_of_hex d in
       show_cres (tcp_hslice_calc_checksum_ipv6_raw e hdr s d p) ^ " | " ^
       guarded (n_sub u32max (len_n hdr)) p (tcp6_raw_spec s d hdr p))
  (* TcpSlice::from_slice performs the same three checks as TcpHeaderSlice::from_slice *)
  | "tcp4s", [b; s; d] ->
    let b = bytes_of_hex b in
    (match tcp_header_slice_from_slice b with
     | None -> "reject | reject"
     | Some hdr ->
       let data = List.filteri (fun i _ -> i >= List.length hdr) b in
       show_cres (tcp_slice_calc_checksum_ipv4 e b (ip4_of s) (ip4_of d)) ^ " | " ^
       (if n_lt u16max (len_n b) then Printf.sprintf "err=%s,65535" (s_of_n (len_n b))
        else "ck=" ^ s_of_n (tcp4_raw_spec (ip4_of s) (ip4_of d) hdr data)))
  | "tcp6s", [b; s; d] ->
    let b = bytes_of_hex b and s = bytes_of_hex s and d = bytes_of_hex d in
    (match tcp_header_slice_from_slice b with
     | None -> "reject | reject"
     | Some hdr ->
       let data = List.filteri (fun i _ -> i >= List.length hdr) b in
       show_cres (tcp_slice_calc_checksum_ipv6 e b s d) ^ " | " ^
       "ck=" ^ s_of_n (tcp6_raw_spec s d hdr data))
  | "icmp4", _ ->
    (match icmp4_of args with
     | (t, [p]) ->
       let p = bytes_of_hex p in
       "ck=" ^ s_of_n (icmp4_calc_checksum e t p) ^ " | ck=" ^ s_of_n (icmp4_spec t p)
     | _ -> failwith "icmp4")
  | "icmp6", _ ->
    (match icmp6_of args with
     | (t, [s; d; p]) ->
       let p = bytes_of_hex p and s = bytes_of_hex s and d = bytes_of_hex d in
       show_cres (icmp6_calc_checksum e t s d p) ^ " | " ^
       guarded (n_sub u32max (n_of_int 8)) p (icmp6_spec s d t p)
     | _ -> failwith "icmp6")
  (* Icmpv6Slice::from_slice: 8 <= len (<= u32::MAX) *)
  | "icmp6v", [b; s; d] ->
    let b = bytes_of_hex b and s = bytes_of_hex s and d = bytes_of_hex d in
    if List.length b < 8 then "reject | reject"
    else
      Printf.sprintf "valid=%d | valid=%d"
        (if icmp6_is_checksum_valid e b s d then 1 else 0)
        (if icmp6_valid_spec s d b then 1 else 0)
  | "igmp", _ ->
    (match igmp_of args with
     | (t, [p]) ->
       let p = bytes_of_hex p in
       "ck=" ^ s_of_n (igmp_calc_checksum e t p) ^ " | ck=" ^ s_of_n (igmp_spec t p)
     | _ -> failwith "igmp")
  | "upd4", kind :: rest ->
    (match transport_of kind rest with
     | (th, [s; d; p]) ->
       let p = bytes_of_hex p in
       show_upd (update_checksum_ipv4 e th (ip4_of s) (ip4_of d) p) ^ " | " ^
       show_upd (update4_spec th (ip4_of s) (ip4_of d) p)
     | _ -> failwith "upd4")
  | "upd6", kind :: rest ->
    (match transport_of kind rest with
     | (th, [s; d; p]) ->
       let p = bytes_of_hex p and s = bytes_of_hex s and d = bytes_of_hex d in
       show_upd (update_checksum_ipv6 e th s d p) ^ " | " ^ show_upd (update6_spec th s d p)
     | _ -> failwith "upd6")
  | _ -> failwith ("bad c09 case: " ^ tag)

let run (line : string) : string =
  match Conv.split_ws line with
  | ["h64"; start; h] ->
    let bs = bytes_of_hex h in
    let s = U64.add_slice e (n_of_z (Z.of_string start)) bs in
    let m = Printf.sprintf "sum=%s oc=%s nz=%s" (s_of_n s)
        (s_of_n (to_be16v e (U64.ones_complement s)))
        (s_of_n (to_be16v e (U64.ones_complement_with_no_zero s))) in
    let spec = if start = "0" then
        let r = rfc1071 bs in
        Printf.sprintf "oc=%s nz=%s" (s_of_n r) (if r = N0 then "65535" else s_of_n r)
      else "-" in
    m ^ " | " ^ spec
  | ["h32"; start; h] ->
    let bs = bytes_of_hex h in
    let s = U32.add_slice e (n_of_z (Z.of_string start)) bs in
    let m = Printf.sprintf "sum=%s oc=%s nz=%s" (s_of_n s)
        (s_of_n (to_be16v e (U32.ones_complement s)))
        (s_of_n (to_be16v e (U32.ones_complement_with_no_zero s))) in
    let spec = if start = "0" then
        let r = rfc1071 bs in
        Printf.sprintf "oc=%s nz=%s" (s_of_n r) (if r = N0 then "65535" else s_of_n r)
      else "-" in
    m ^ " | " ^ spec
  | "seq" :: ps ->
    let ps = List.map piece_of ps in
    let m = Printf.sprintf "oc=%s nz=%s oc32=%s nz32=%s"
        (s_of_n (checksum64 e ps)) (s_of_n (checksum64_no_zero e ps))
        (s_of_n (checksum32 e ps)) (s_of_n (checksum32_no_zero e ps)) in
    let r = rfc1071 (pieces_bytes ps) in
    let nz = if r = N0 then "65535" else s_of_n r in
    let spec = Printf.sprintf "oc=%s nz=%s oc32=%s nz32=%s" (s_of_n r) nz (s_of_n r) nz in
    m ^ " | " ^ spec
  | tag :: args -> proto tag args
  | [] -> failwith ("bad c09 case: " ^ line)

let () =
  Conv.iter_lines Sys.argv.(1) (fun l ->
      print_endline (try run l with Failure m -> "MODEL-FAIL " ^ m))
