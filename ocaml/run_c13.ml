(* model + spec side of the C13 correspondence: same case file as the Rust
   harness, one line per case: "<model result> | <spec result>"

   cases
     raw  <hex>        TcpOptionsIterator::from_slice(area): every item with rest()
                       after it, rest() after the first None, two more next()
     hraw <hex>        TcpOptions::try_from_slice / TcpHeader::set_options_raw, then
                       as_slice / len / data_offset / elements_iter
     els  <el> ...     TcpOptions::try_from_elements / TcpHeader::set_options, ditto
                       el = N | M:<u16> | W:<u8> | P | T:<u32>-<u32>
                          | S:<l>-<r>,<slot>,<slot>,<slot>   slot = <l>-<r> or -      *)
open M_c13

let rec pos_of_z (z : Z.t) : positive =
  if Z.equal z Z.one then XH
  else if Z.testbit z 0 then XI (pos_of_z (Z.shift_right z 1))
  else XO (pos_of_z (Z.shift_right z 1))
let n_of_z z = if Z.sign z = 0 then N0 else Npos (pos_of_z z)
let rec z_of_pos = function
  | XH -> Z.one
  | XO p -> Z.shift_left (z_of_pos p) 1
  | XI p -> Z.succ (Z.shift_left (z_of_pos p) 1)
let z_of_n = function N0 -> Z.zero | Npos p -> z_of_pos p
let n_of_int i = n_of_z (Z.of_int i)
let int_of_n n = Z.to_int (z_of_n n)
let s_of_n n = Z.to_string (z_of_n n)
let n_of_s s = n_of_z (Z.of_string s)
let bytes_of_hex h = List.map n_of_int (Conv.unhex h)
let hex_of_bytes b = Conv.hex (List.map int_of_n b)
let rec nat_of_int i = if i <= 0 then O else S (nat_of_int (i - 1))

(* ---- printing --------------------------------------------------------------- *)
let s_pair (a, b) = s_of_n a ^ "-" ^ s_of_n b
let s_slot = function None -> "-" | Some p -> s_pair p

let s_element = function
  | Noop -> "N"
  | MaximumSegmentSize v -> "M:" ^ s_of_n v
  | WindowScale v -> "W:" ^ s_of_n v
  | SelectiveAcknowledgementPermitted -> "P"
  | SelectiveAcknowledgement (f, ((a, b), c)) ->
    "S:" ^ String.concat "," [s_pair f; s_slot a; s_slot b; s_slot c]
  | Timestamp (a, b) -> "T:" ^ s_pair (a, b)

let s_error = function
  | UnexpectedEndOfSlice (k, e, a) -> Printf.sprintf "E:eos:%s:%s:%s" (s_of_n k) (s_of_n e) (s_of_n a)
  | UnexpectedSize (k, s) -> Printf.sprintf "E:size:%s:%s" (s_of_n k) (s_of_n s)
  | UnknownId k -> Printf.sprintf "E:unk:%s" (s_of_n k)

let s_item = function Ok e -> s_element e | Err e -> s_error e

(* an RFC-level option printed in the vocabulary of the implementation *)
let s_opt = function
  | ONop -> "N"
  | OMss v -> "M:" ^ s_of_n v
  | OWscale v -> "W:" ^ s_of_n v
  | OSackPerm -> "P"
  | OSack bl ->
    let rec slots k l = if k = 0 then [] else
        match l with [] -> "-" :: slots (k - 1) [] | x :: r -> s_pair x :: slots (k - 1) r in
    (match bl with
     | [] -> "S:?"
     | f :: r -> if List.length r > 3 then "S:too-many" else "S:" ^ String.concat "," (s_pair f :: slots 3 r))
  | OTs (a, b) -> "T:" ^ s_pair (a, b)

(* rest() as off+len relative to the iterated area *)
let s_rest total (r : bytes) =
  let l = List.length r in Printf.sprintf "%d+%d" (total - l) l

let s_fault = function
  | OOB -> "FAULT-OOB" | Panic -> "FAULT-PANIC" | OutOfFuel -> "FAULT-FUEL" | Ret _ -> "?"

(* model: iterate the area, then two more calls *)
let model_iter (area : bytes) : string =
  let total = List.length area in
  match iterate area with
  | Ret (tr, fin) ->
    let items = List.map (fun (it, r) -> s_item it ^ "@" ^ s_rest total r) tr in
    let fin_s = "end@" ^ s_rest total fin in
    (match next_n (S (S O)) fin with
     | Ret (its, st) ->
       let more = List.map (fun o -> match o with None -> "x:none" | Some it -> "x:" ^ s_item it) its in
       String.concat " " (items @ [fin_s] @ more @ ["last@" ^ s_rest total st])
     | f -> s_fault f)
  | f -> s_fault f

(* spec: the table-driven reference decoder; after the end nothing is left *)
let spec_iter (area : bytes) : string =
  let total = List.length area in
  let l = spec_decode (nat_of_int (total + 1)) area in
  let items = List.filter_map (fun it ->
      match it with
      | SOk (o, r) -> Some (s_opt o ^ "@" ^ s_rest total r)
      | SErr e -> Some (s_error e ^ "@" ^ s_rest total [])
      | SEnd -> None) l in
  String.concat " " (items @ [Printf.sprintf "end@%d+0" total; "x:none"; "x:none"; Printf.sprintf "last@%d+0" total])

let model_options (r : (tcp_options, write_error) result m) : string =
  match r with
  | Ret (Err required) -> "err nes=" ^ s_of_n required
  | Ret (Ok o) ->
    (match as_slice o with
     | Ret s ->
       Printf.sprintf "ok len=%s do=%s bytes=%s hdr=same %s" (s_of_n (options_len o)) (s_of_n (data_offset o))
         (hex_of_bytes s) (model_iter s)
     | f -> s_fault f)
  | f -> s_fault f

let spec_options (required : n) (content : bytes) : string =
  if Z.gt (z_of_n required) (Z.of_int 40) then "err nes=" ^ s_of_n required
  else begin
    let s = content @ padding required in
    let l = pad4 required in
    Printf.sprintf "ok len=%s do=%d bytes=%s hdr=same %s" (s_of_n l) (5 + int_of_n l / 4) (hex_of_bytes s) (spec_iter s)
  end

(* ---- parsing ------------------------------------------------------------------ *)
let pair_of s =
  match String.split_on_char '-' s with
  | [a; b] -> (n_of_s a, n_of_s b)
  | _ -> failwith ("pair " ^ s)
let slot_of s = if s = "-" then None else Some (pair_of s)

let element_of (s : string) : element =
  let arg () = String.sub s 2 (String.length s - 2) in
  match s.[0] with
  | 'N' -> Noop
  | 'P' -> SelectiveAcknowledgementPermitted
  | 'M' -> MaximumSegmentSize (n_of_s (arg ()))
  | 'W' -> WindowScale (n_of_s (arg ()))
  | 'T' -> let (a, b) = pair_of (arg ()) in Timestamp (a, b)
  | 'S' ->
    (match String.split_on_char ',' (arg ()) with
     | [f; a; b; c] -> SelectiveAcknowledgement (pair_of f, ((slot_of a, slot_of b), slot_of c))
     | _ -> failwith "sack")
  | _ -> failwith ("element " ^ s)

let run (line : string) : string =
  match Conv.split_ws line with
  | ["raw"; h] ->
    let area = bytes_of_hex h in
    model_iter area ^ " | " ^ spec_iter area
  | ["hraw"; h] ->
    let s = bytes_of_hex h in
    model_options (try_from_slice s) ^ " | " ^ spec_options (len s) s
  | "els" :: toks ->
    let els = List.map element_of toks in
    let os = List.map to_opt els in
    let w = wire_list os in
    model_options (try_from_elements els) ^ " | " ^ spec_options (len w) w
  | _ -> failwith ("bad c13 case: " ^ line)

let () =
  Conv.iter_lines Sys.argv.(1) (fun l ->
      print_endline (try run l with Failure m -> "MODEL-FAIL " ^ m))
