(* model + spec side of the C13 correspondence: same case file as the Rust
   harness, one line per case: "<model result> | <spec result>"

   cases
     raw  <hex>        TcpOptionsIterator::from_slice(area): every item with rest()
                       after it, rest() after the first None, two more next()
     hraw <hex>        TcpOptions::try_from_slice / TcpHeader::set_options_raw, then
                       as_slice / len / data_offset / elements_iter
     els  <el> ...     TcpOptions::try_from_elements / TcpHeader::set_options, ditto
                       el = N | M:<u16> | W:<u8> | P | T:<u32>-<u32>
                          | S:<l>-<r>,<slot>,<slot>,<slot>   slot = <l>-<r> or -
     hdr <sp> <dp> <seq> <ack> <flags> <win> <csum> <urg> <payload hex> / op / op ...
                       a TcpHeader (flags: bit0 ns, 1 fin, 2 syn, 3 rst, 4 psh, 5 ack, 6 urg,
                       7 ece, 8 cwr; options empty), then op = raw <hex> (set_options_raw) or
                       els <el> ... (set_options) one after the other; after every op: result,
                       data_offset, header_len, options area, options_iterator, to_bytes, and
                       to_bytes ++ payload through TcpHeaderSlice / TcpSlice / from_slice / read
     wire <hex>        any bytes through TcpHeaderSlice / TcpSlice / TcpHeader::from_slice /
                       read: windows, data offsets, option areas, the option iterators      *)
open M_c13

let rec pos_of_z (z : Z.t) : positive =
  if Z.equal z Z.one then XH
  else if Z.testbit z 0 then XI (pos_of_z (Z.shift_right z 1))
  else XO (pos_of_z (Z.shift_right z 1))
let n_of_z z = if Z.sign z = 0 then N0 else Npos (pos_of_z z)
let rec z_of_pos = function
  | XH -> Z.one
  | XO p -> Z.shift_left (z_of_pos p) 1
  | XI p -> Z.succ (Z.shift_left (z_of_pos p) 1)
let z_of_n = function N0 -> Z.zero | Npos p -> z_of_pos p
let n_of_int i = n_of_z (Z.of_int i)
let int_of_n n = Z.to_int (z_of_n n)
let s_of_n n = Z.to_string (z_of_n n)
let n_of_s s = n_of_z (Z.of_string s)
let bytes_of_hex h = List.map n_of_int (Conv.unhex h)
let hex_of_bytes b = Conv.hex (List.map int_of_n b)
let rec nat_of_int i = if i <= 0 then O else S (nat_of_int (i - 1))

(* ---- printing --------------------------------------------------------------- *)
let s_pair (a, b) = s_of_n a ^ "-" ^ s_of_n b
let s_slot = function None -> "-" | Some p -> s_pair p

let s_element = function
  | Noop -> "N"
  | MaximumSegmentSize v -> "M:" ^ s_of_n v
  | WindowScale v -> "W:" ^ s_of_n v
  | SelectiveAcknowledgementPermitted -> "P"
  | SelectiveAcknowledgement (f, ((a, b), c)) ->
    "S:" ^ String.concat "," [s_pair f; s_slot a; s_slot b; s_slot c]
  | Timestamp (a, b) -> "T:" ^ s_pair (a, b)

let s_error = function
  | UnexpectedEndOfSlice (k, e, a) -> Printf.sprintf "E:eos:%s:%s:%s" (s_of_n k) (s_of_n e) (s_of_n a)
  | UnexpectedSize (k, s) -> Printf.sprintf "E:size:%s:%s" (s_of_n k) (s_of_n s)
  | UnknownId k -> Printf.sprintf "E:unk:%s" (s_of_n k)

let s_item = function Ok e -> s_element e | Err e -> s_error e

(* an RFC-level option printed in the vocabulary of the implementation *)
let s_opt = function
  | ONop -> "N"
  | OMss v -> "M:" ^ s_of_n v
  | OWscale v -> "W:" ^ s_of_n v
  | OSackPerm -> "P"
  | OSack bl ->
    let rec slots k l = if k = 0 then [] else
        match l with [] -> "-" :: slots (k - 1) [] | x :: r -> s_pair x :: slots (k - 1) r in
    (match bl with
     | [] -> "S:?"
     | f :: r -> if List.length r > 3 then "S:too-many" else "S:" ^ String.concat "," (s_pair f :: slots 3 r))
  | OTs (a, b) -> "T:" ^ s_pair (a, b)

(* rest() as off+len relative to the iterated area *)
let s_rest total (r : bytes) =
  let l = List.length r in Printf.sprintf "%d+%d" (total - l) l

let s_fault = function
  | OOB -> "FAULT-OOB" | Panic -> "FAULT-PANIC" | OutOfFuel -> "FAULT-FUEL" | Ret _ -> "?"

(* model: a whole iteration (items, rest() after each), then two more calls *)
let print_iter (total : int) (r : ((item * bytes) list * bytes) m) : string =
  match r with
  | Ret (tr, fin) ->
    let items = List.map (fun (it, r) -> s_item it ^ "@" ^ s_rest total r) tr in
    let fin_s = "end@" ^ s_rest total fin in
    (match next_n (S (S O)) fin with
     | Ret (its, st) ->
       let more = List.map (fun o -> match o with None -> "x:none" | Some it -> "x:" ^ s_item it) its in
       String.concat " " (items @ [fin_s] @ more @ ["last@" ^ s_rest total st])
     | f -> s_fault f)
  | f -> s_fault f

let model_iter (area : bytes) : string = print_iter (List.length area) (iterate area)

(* spec: the table-driven reference decoder; after the end nothing is left *)
let spec_iter (area : bytes) : string =
  let total = List.length area in
  let l = spec_decode (nat_of_int (total + 1)) area in
  let items = List.filter_map (fun it ->
      match it with
      | SOk (o, r) -> Some (s_opt o ^ "@" ^ s_rest total r)
      | SErr e -> Some (s_error e ^ "@" ^ s_rest total [])
      | SEnd -> None) l in
  String.concat " " (items @ [Printf.sprintf "end@%d+0" total; "x:none"; "x:none"; Printf.sprintf "last@%d+0" total])

let model_options (r : (tcp_options, write_error) result m) : string =
  match r with
  | Ret (Err required) -> "err nes=" ^ s_of_n required
  | Ret (Ok o) ->
    (match as_slice o with
     | Ret s ->
       Printf.sprintf "ok len=%s do=%s bytes=%s hdr=same %s" (s_of_n (options_len o)) (s_of_n (data_offset o))
         (hex_of_bytes s) (model_iter s)
     | f -> s_fault f)
  | f -> s_fault f

let spec_options (required : n) (content : bytes) : string =
  if Z.gt (z_of_n required) (Z.of_int 40) then "err nes=" ^ s_of_n required
  else begin
    let s = content @ padding required in
    let l = pad4 required in
    Printf.sprintf "ok len=%s do=%d bytes=%s hdr=same %s" (s_of_n l) (5 + int_of_n l / 4) (hex_of_bytes s) (spec_iter s)
  end

(* ---- parsing ------------------------------------------------------------------ *)
let pair_of s =
  match String.split_on_char '-' s with
  | [a; b] -> (n_of_s a, n_of_s b)
  | _ -> failwith ("pair " ^ s)
let slot_of s = if s = "-" then None else Some (pair_of s)

let element_of (s : string) : element =
  let arg () = String.sub s 2 (String.length s - 2) in
  match s.[0] with
  | 'N' -> Noop
  | 'P' -> SelectiveAcknowledgementPermitted
  | 'M' -> MaximumSegmentSize (n_of_s (arg ()))
  | 'W' -> WindowScale (n_of_s (arg ()))
  | 'T' -> let (a, b) = pair_of (arg ()) in Timestamp (a, b)
  | 'S' ->
    (match String.split_on_char ',' (arg ()) with
     | [f; a; b; c] -> SelectiveAcknowledgement (pair_of f, ((slot_of a, slot_of b), slot_of c))
     | _ -> failwith "sack")
  | _ -> failwith ("element " ^ s)

(* ---- header level (TcpOpt/Header.v on top of Roundtrip/Tcp.v) --------------------
   names of the monolithic extraction: the C08 result type is Ok0 / Err0, the C08
   record for struct TcpOptions has the fields o_len0 / o_buf0, the header field
   `ack` is ack0.
   Windows: a TcpHeaderSlice / header_slice() is a prefix of the buffer (offset 0),
   options() starts at index 20 (the start index of the model's slice_range), the
   rest / payload is a suffix (offset = total - length). *)
let same_or (reference : string) (s : string) : string = if s = reference then "=" else s

let s_derr = function
  | ELen -> "ERR:len"
  | EContent c -> "ERR:doff:" ^ s_of_n c
  | EIo -> "ERR:io"
  | EOOB -> "FAULT-OOB"
  | EPanic -> "FAULT-PANIC"

let views_line (buf : bytes) (ref_area : string) (ref_it : string) (hdr : tcpHeader option) : string =
  let total = List.length buf in
  let out = ref [] in
  let push s = out := s :: !out in
  let area_ref = ref ref_area and it_ref = ref ref_it in
  (* TcpHeaderSlice *)
  (match slice_from_slice buf with
   | Err0 e -> push ("hs=" ^ s_derr e)
   | Ok0 hs ->
     (match hs_data_offset hs, hs_options hs with
      | Ret d, Ret o ->
        let area = hex_of_bytes o in
        let it = print_iter (List.length o) (hs_options_iterate hs) in
        push (Printf.sprintf "hs=0+%d hsdo=%s hsopt=20+%d:%s hsit[ %s ]" (List.length hs) (s_of_n d)
                (List.length o) (same_or !area_ref area) (same_or !it_ref it));
        if !area_ref = "" then area_ref := area;
        if !it_ref = "" then it_ref := it
      | _ -> push "hs=FAULT"));
  (* TcpSlice *)
  (match ts_from_slice buf with
   | Err0 e -> push ("ts=" ^ s_derr e)
   | Ok0 t ->
     (match ts_data_offset t, ts_header_slice t, ts_payload t, ts_options t with
      | Ret d, Ret hsl, Ret pl, Ret o ->
        push (Printf.sprintf "ts=%s tsdo=%s tshs=0+%d tspl=%d+%d tsopt=20+%d:%s tsit[ %s ]"
                (s_of_n (ts_header_len t)) (s_of_n d) (List.length hsl)
                (total - List.length pl) (List.length pl) (List.length o)
                (same_or !area_ref (hex_of_bytes o))
                (same_or !it_ref (print_iter (List.length o) (ts_options_iterate t))))
      | _ -> push "ts=FAULT"));
  (* TcpHeader::from_slice *)
  let decoded = ref None in
  (match from_slice buf with
   | Err0 e -> push ("fs=" ^ s_derr e)
   | Ok0 (h2, rest) ->
     (match hdr_options_area h2 with
      | Ret o ->
        push (Printf.sprintf "fs=%d+%d fshl=%s fsdo=%s fsopt=%s fsit[ %s ]"
                (total - List.length rest) (List.length rest)
                (s_of_n (hdr_header_len h2)) (s_of_n (hdr_data_offset h2))
                (same_or !area_ref (hex_of_bytes o))
                (same_or !it_ref (print_iter (List.length o) (hdr_options_iterate h2))))
      | _ -> push "fs=FAULT");
     (match hdr with
      | Some h -> push ("fseq=" ^ (if tcp_eqb h h2 then "eq" else "ne"))
      | None -> ());
     decoded := Some h2);
  (* TcpHeader::read *)
  (match read buf with
   | Err0 e -> push ("rd=" ^ s_derr e)
   | Ok0 (h3, rest) ->
     (match hdr_options_area h3 with
      | Ret o ->
        push (Printf.sprintf "rd=%d rdopt=%s rdeq=%s" (total - List.length rest)
                (same_or !area_ref (hex_of_bytes o))
                (match !decoded with
                 | Some h2 -> if tcp_eqb h2 h3 then "eq" else "ne"
                 | None -> "none"))
      | _ -> push "rd=FAULT"));
  String.concat " " (List.rev !out)

let state_line (h : tcpHeader) (payload : bytes) : string =
  match hdr_options_area h, to_bytes h with
  | Ret o, Some bs ->
    let area = hex_of_bytes o in
    let it = print_iter (List.length o) (hdr_options_iterate h) in
    Printf.sprintf "do=%s hl=%s area=%s hit[ %s ] bytes=%s %s" (s_of_n (hdr_data_offset h))
      (s_of_n (hdr_header_len h)) area it (hex_of_bytes bs) (views_line (bs @ payload) area it (Some h))
  | Ret _, None -> "FAULT-to_bytes"
  | _, _ -> "FAULT-as_slice"

(* split a token list at the "/" tokens *)
let split_ops (toks : string list) : string list list =
  let rec go cur acc = function
    | [] -> List.rev (List.rev cur :: acc)
    | "/" :: r -> go [] (List.rev cur :: acc) r
    | t :: r -> go (t :: cur) acc r in
  go [] [] toks

let hdr_case (toks : string list) : string =
  match split_ops toks with
  | [sp; dp; seq; ackn; flags; win; csum; urg; pl] :: ops ->
    let fl = int_of_string flags in
    let bit k = fl land (1 lsl k) <> 0 in
    let h0 = { source_port = n_of_s sp; destination_port = n_of_s dp; sequence_number = n_of_s seq;
               acknowledgment_number = n_of_s ackn;
               ns = bit 0; fin = bit 1; syn = bit 2; rst = bit 3; psh = bit 4; ack0 = bit 5;
               urg = bit 6; ece = bit 7; cwr = bit 8;
               window_size = n_of_s win; checksum = n_of_s csum; urgent_pointer = n_of_s urg;
               (* TcpHeader::new: options: Default::default() = { len: 0, buf: [0;40] } *)
               options = { o_len0 = N0; o_buf0 = List.init 40 (fun _ -> N0) } } in
    let payload = bytes_of_hex pl in
    let rec go h acc = function
      | [] -> String.concat " ; " (List.rev acc)
      | op :: rest ->
        let r = match op with
          | ["raw"; hx] -> set_options_raw h (bytes_of_hex hx)
          | "els" :: ts -> set_options h (List.map element_of ts)
          | _ -> failwith "hdr op" in
        (match r with
         | Ret (res, h') ->
           let rs = match res with Ok () -> "ok" | Err required -> "err:nes=" ^ s_of_n required in
           go h' ((rs ^ " " ^ state_line h' payload) :: acc) rest
         | f -> String.concat " ; " (List.rev (s_fault f :: acc))) in
    go h0 [] ops
  | _ -> failwith "hdr fields"

let run (line : string) : string =
  match Conv.split_ws line with
  | ["raw"; h] ->
    let area = bytes_of_hex h in
    model_iter area ^ " | " ^ spec_iter area
  | ["hraw"; h] ->
    let s = bytes_of_hex h in
    model_options (try_from_slice s) ^ " | " ^ spec_options (len s) s
  | "els" :: toks ->
    let els = List.map element_of toks in
    let os = List.map to_opt els in
    let w = wire_list os in
    model_options (try_from_elements els) ^ " | " ^ spec_options (len w) w
  | "hdr" :: toks -> hdr_case toks ^ " | -"
  | ["wire"; h] -> views_line (bytes_of_hex h) "" "" None ^ " | -"
  | _ -> failwith ("bad c13 case: " ^ line)

let () =
  Conv.iter_lines Sys.argv.(1) (fun l ->
      print_endline (try run l with Failure m -> "MODEL-FAIL " ^ m))
