(* model + spec side of the C12 correspondence: same case file as the Rust
   harness (harness/src/bin/c12.rs), one line per case:
   "<model result> | <spec result>" *)
open M_c12

let rec pos_of_z (z : Z.t) : positive =
  if Z.equal z Z.one then XH
  else if Z.testbit z 0 then XI (pos_of_z (Z.shift_right z 1))
  else XO (pos_of_z (Z.shift_right z 1))
let n_of_z z = if Z.sign z = 0 then N0 else Npos (pos_of_z z)
let rec z_of_pos = function
  | XH -> Z.one
  | XO p -> Z.shift_left (z_of_pos p) 1
  | XI p -> Z.succ (Z.shift_left (z_of_pos p) 1)
let z_of_n = function N0 -> Z.zero | Npos p -> z_of_pos p
let n_of_int i = n_of_z (Z.of_int i)
let int_of_n n = Z.to_int (z_of_n n)
let n_of_s s = n_of_z (Z.of_string s)
let sn n = Z.to_string (z_of_n n)
let bytes_of_hex h = List.map n_of_int (Conv.unhex h)
let hexs (bs : n list) = Conv.hex (List.map int_of_n bs)
let slen l = string_of_int (List.length l)

let split c s = String.split_on_char c s

(* ---- parsing of header tokens ---- *)
let raw_of (t : string) : rawExt option =
  if t = "-" then None
  else match split ':' t with
    | [nh; p] ->
      let p = bytes_of_hex p in
      let l = List.length p in
      if l < 6 || (l - 6) mod 8 <> 0 || l > 2046 then failwith "raw payload size";
      Some { r_next_header = n_of_s nh; r_header_length = n_of_int ((l - 6) / 8); r_payload = p }
    | _ -> failwith "raw token"

let frag_of (t : string) : frag option =
  if t = "-" then None
  else match split ':' t with
    | [nh; off; m; id] ->
      Some { f_next_header = n_of_s nh; f_fragment_offset = n_of_s off;
             f_more_fragments = (m = "1"); f_identification = n_of_s id }
    | _ -> failwith "frag token"

let auth_of (t : string) : authH option =
  if t = "-" then None
  else match split ':' t with
    | [nh; spi; seq; icv] ->
      let icv = bytes_of_hex icv in
      let l = List.length icv in
      if l mod 4 <> 0 || l > 1016 then failwith "icv size";
      Some { a_next_header = n_of_s nh; a_spi = n_of_s spi; a_sequence_number = n_of_s seq;
             a_raw_icv_len = n_of_int (l / 4); a_raw_icv = icv }
    | _ -> failwith "auth token"

(* ---- canonical printing ---- *)
let opt f = function None -> "-" | Some x -> f x
let raw_s (h : rawExt) = sn h.r_next_header ^ ":" ^ hexs h.r_payload
let frag_s (h : frag) =
  Printf.sprintf "%s:%s:%s:%s" (sn h.f_next_header) (sn h.f_fragment_offset)
    (if h.f_more_fragments then "1" else "0") (sn h.f_identification)
let auth_s (h : authH) =
  Printf.sprintf "%s:%s:%s:%s" (sn h.a_next_header) (sn h.a_spi) (sn h.a_sequence_number) (hexs h.a_raw_icv)
let exts6_s (e : exts6) =
  Printf.sprintf "[%s;%s;%s;%s;%s;%s]"
    (opt raw_s e.hop_by_hop_options) (opt raw_s e.destination_options)
    (opt (fun r -> raw_s r.rt_routing) e.routing)
    (match e.routing with Some r -> opt raw_s r.rt_final_destination_options | None -> "-")
    (opt frag_s e.fragment) (opt auth_s e.auth)
let exts4_s (e : exts4) = "[" ^ opt auth_s e ^ "]"
let nhs6 (e : exts6) =
  String.concat ","
    [ opt (fun h -> sn h.r_next_header) e.hop_by_hop_options;
      opt (fun h -> sn h.r_next_header) e.destination_options;
      opt (fun r -> sn r.rt_routing.r_next_header) e.routing;
      (match e.routing with
       | Some r -> opt (fun h -> sn h.r_next_header) r.rt_final_destination_options
       | None -> "-");
      opt (fun h -> sn h.f_next_header) e.fragment;
      opt (fun h -> sn h.a_next_header) e.auth ]

let layer_s = function
  | LIpAuthHeader -> "IpAuthHeader" | LIpv6ExtHeader -> "Ipv6ExtHeader"
  | LIpv6HopByHopHeader -> "Ipv6HopByHopHeader" | LIpv6DestOptionsHeader -> "Ipv6DestOptionsHeader"
  | LIpv6RouteHeader -> "Ipv6RouteHeader" | LIpv6FragHeader -> "Ipv6FragHeader"
let len_err_s (e : len_error) =
  (* the extracted module holds two LenError records (C16's lenerr of the LimitedReader comes first):
     the fields of ExtChain.Model.len_error are required_len, le_len0, le_layer0, layer_start_offset *)
  Printf.sprintf "len:%s,%s,%s,%s" (sn e.required_len) (sn e.le_len0) (layer_s e.le_layer0) (sn e.layer_start_offset)
let hse_s = function
  | HLen e -> len_err_s e | HHopByHopNotAtStart -> "hbh" | HIpAuthZeroPayloadLen -> "authzero"
let ase_s = function ALen e -> len_err_s e | AZeroPayloadLen -> "authzero"
let walk_err_s = function HopByHopNotAtStart -> "hbh" | ExtNotReferenced m -> "nr:" ^ sn m

let walk_s (r : (walk_error, n) res) = match r with
  | Ok v -> "ok:" ^ sn v | Err e -> walk_err_s e | Panic -> "PANIC" | OutOfFuel -> "OOF"
let status_s (r : (walk_error, unit) res) = match r with
  | Ok () -> "ok" | Err e -> walk_err_s e | Panic -> "PANIC" | OutOfFuel -> "OOF"
let write_s (bs, r) = status_s r ^ ":" ^ hexs bs

let dec6_s (orig : exts6 option) r = match r with
  | Ok ((e, nh), rest) ->
    Printf.sprintf "ok:%s:%s:%s" (if Some e = orig then "same" else exts6_s e) (sn nh) (slen rest)
  | Err e -> hse_s e | Panic -> "PANIC" | OutOfFuel -> "OOF"
let lax6_s (orig : exts6 option) r = match r with
  | Ok (((e, nh), rest), err) ->
    Printf.sprintf "%s:%s:%s:%s" (if Some e = orig then "same" else exts6_s e) (sn nh) (slen rest)
      (match err with None -> "none" | Some (x, l) -> hse_s x ^ "/" ^ layer_s l)
  | Err () -> "ERR" | Panic -> "PANIC" | OutOfFuel -> "OOF"
let dec4_s (orig : exts4 option) r = match r with
  | Ok ((e, nh), rest) ->
    Printf.sprintf "ok:%s:%s:%s" (if Some e = orig then "same" else exts4_s e) (sn nh) (slen rest)
  | Err e -> ase_s e | Panic -> "PANIC" | OutOfFuel -> "OOF"
let lax4_s (orig : exts4 option) r = match r with
  | Ok (((e, nh), rest), err) ->
    Printf.sprintf "%s:%s:%s:%s" (if Some e = orig then "same" else exts4_s e) (sn nh) (slen rest)
      (match err with None -> "none" | Some x -> ase_s x)
  | Err () -> "ERR" | Panic -> "PANIC" | OutOfFuel -> "OOF"

let ipn_s (r : (ip_walk_error, n) res) = match r with
  | Ok v -> "ok:" ^ sn v
  | Err (Ipv4Exts e) -> "v4:" ^ walk_err_s e
  | Err (Ipv6Exts e) -> "v6:" ^ walk_err_s e
  | Panic -> "PANIC" | OutOfFuel -> "OOF"
let net_s r = match r with
  | Ok v -> "ok:" ^ sn v | Err _ -> "err:arp" | Panic -> "PANIC" | OutOfFuel -> "OOF"

let b01 b = if b then "1" else "0"

(* ---- arbitrary byte chains: rest as offset+length, write-back, readers ---- *)
let restpos bs rest = Printf.sprintf "%d+%d" (List.length bs - List.length rest) (List.length rest)
let dec6x_s bs r = match r with
  | Ok ((e, nh), rest) -> Printf.sprintf "ok:%s:%s:%s" (exts6_s e) (sn nh) (restpos bs rest)
  | Err e -> hse_s e | Panic -> "PANIC" | OutOfFuel -> "OOF"
let lax6x_s bs r = match r with
  | Ok (((e, nh), rest), err) ->
    Printf.sprintf "%s:%s:%s:%s" (exts6_s e) (sn nh) (restpos bs rest)
      (match err with None -> "none" | Some (x, l) -> hse_s x ^ "/" ^ layer_s l)
  | Err () -> "ERR" | Panic -> "PANIC" | OutOfFuel -> "OOF"
let dec4x_s bs r = match r with
  | Ok ((e, nh), rest) -> Printf.sprintf "ok:%s:%s:%s" (exts4_s e) (sn nh) (restpos bs rest)
  | Err e -> ase_s e | Panic -> "PANIC" | OutOfFuel -> "OOF"
let lax4x_s bs r = match r with
  | Ok (((e, nh), rest), err) ->
    Printf.sprintf "%s:%s:%s:%s" (exts4_s e) (sn nh) (restpos bs rest)
      (match err with None -> "none" | Some x -> ase_s x)
  | Err () -> "ERR" | Panic -> "PANIC" | OutOfFuel -> "OOF"
(* decode then write / next_header of the decoded struct *)
let wb6_s first r = match r with
  | Ok ((e, _), _) -> write_s (write e first) ^ "/" ^ walk_s (next_header e first)
  | _ -> "-"
let wb4_s first r = match r with
  | Ok ((e, _), _) -> write_s (write4 e first) ^ "/" ^ walk_s (next_header4 e first)
  | _ -> "-"
let accepted (w : walk) = match w.w_stop with SNonExt | SRefilled -> true | _ -> false
let wbspec6_s (w : walk) =
  if accepted w then "ok:" ^ hexs (normalised w.w_chain) ^ "/ok:" ^ sn w.w_next else "-"
let wbspec4_s (w : walk) =
  if accepted w then "ok:" ^ hexs (normalised w.w_chain) ^ "/ok:" ^ sn w.w_next else "-"
let dref6 r = match r with Ok ((e, _), _) -> Some e | _ -> None
let dref4 r = match r with Ok ((e, _), _) -> Some e | _ -> None
(* readers: std::io::Cursor (one read call delivers what is asked for) *)
let chunk = n_of_int 65536
let lim6 budget off = MLim (lr_new (n_of_int budget) lS_IPV6_PAYLOAD (n_of_int off) l_IPV6H)
let lim4 budget off = MLim (lr_new (n_of_int budget) lS_IPV4_TOTAL (n_of_int off) l_IPV4H)
let lname k = match int_of_n k with
  | 3 -> "Ipv4Header" | 5 -> "IpAuthHeader" | 6 -> "Ipv6Header" | 7 -> "Ipv6ExtHeader" | 8 -> "Ipv6FragHeader"
  | k -> "L" ^ string_of_int k
let srcname k = match int_of_n k with
  | 0 -> "Slice" | 1 -> "Ipv4HeaderTotalLen" | 2 -> "Ipv6HeaderPayloadLen" | k -> "S" ^ string_of_int k
let qerr_s (q : 'a qres) = match q with
  | QOk _ -> "?"
  | QIo KEof -> "io:eof" | QIo _ -> "io:other"
  | QLen l -> Printf.sprintf "len:%s,%s,%s,%s,%s" (sn l.le_required) (sn l.le_len) (lname l.le_layer) (sn l.le_off)
                (srcname l.le_source)
  | QContent CHopNotAtStart -> "hbh" | QContent CAuthZeroLen -> "authzero" | QContent _ -> "CONTENT?"
  | QUnderflow -> "UNDERFLOW" | QBad -> "BAD" | QFuel -> "OOF"
let q6_s dref (q : (exts6 * n) qres) pos = match q with
  | QOk (e, nh) -> Printf.sprintf "ok:%s:%s:%s" (if Some e = dref then "=d" else exts6_s e) (sn nh) pos
  | _ -> qerr_s q
let q4_s dref (q : (exts4 * n) qres) pos = match q with
  | QOk (e, nh) -> Printf.sprintf "ok:%s:%s:%s" (if Some e = dref then "=d" else exts4_s e) (sn nh) pos
  | _ -> qerr_s q
let rd6_s dref (q, (st : rstate)) = q6_s dref q (sn st.rs_src.src_pulled)
let rd4_s dref (q, (st : rstate)) = q4_s dref q (sn st.rs_src.src_pulled)

let run (line : string) : string =
  match Conv.split_ws line with
  | ["e6"; first; last; h; d; r; x; f; a] ->
    let first = n_of_s first and last = n_of_s last in
    let routing = match raw_of r, raw_of x with
      | Some rt, fin -> Some { rt_routing = rt; rt_final_destination_options = fin }
      | None, None -> None
      | None, Some _ -> failwith "final destination options without routing header" in
    let e = { hop_by_hop_options = raw_of h; destination_options = raw_of d; routing;
              fragment = frag_of f; auth = auth_of a } in
    if not (exts6_valid e) then failwith "invalid e6 case";
    let w = write e first in
    let dx = match w with
      | (bs, Ok ()) ->
        Printf.sprintf "d=%s x=%s" (dec6_s (Some e) (from_slice first bs)) (lax6_s (Some e) (from_slice_lax first bs))
      | _ -> "d=- x=-" in
    let (e', first') = set_next_headers e last in
    let w' = write e' first' in
    let sd = match w' with
      | (bs, Ok ()) -> dec6_s (Some e') (from_slice first' bs)
      | _ -> "-" in
    let (iph, et) = ip_set_next_headers (Ipv6 (first, e)) last in
    let (_, net) = net_try_set_next_headers (net_of_ip (Ipv6 (first, e))) last in
    let m = Printf.sprintf
        "n=%s w=%s l=%s fp=%s %s s=%s/%s keep=1 sn=%s sw=%s sd=%s et=%s ipn=%s ipl=%s net=%s"
        (walk_s (next_header e first)) (write_s w) (sn (header_len e)) (b01 (is_fragmenting_payload e)) dx
        (sn first') (nhs6 e') (walk_s (next_header e' first')) (write_s w') sd
        (sn et) (ipn_s (ip_next_header iph)) (sn (ip_header_len iph)) (net_s net) in
    let spec =
      if is_ext_number last then Printf.sprintf "et=%s" (sn eTHER_TYPE_IPV6)
      else Printf.sprintf "sn=ok:%s sw=ok:%s et=%s" (sn last) (hexs (rfc_order_bytes e')) (sn eTHER_TYPE_IPV6) in
    m ^ " | " ^ spec
  | ["e4"; first; last; optlen; a] ->
    let first = n_of_s first and last = n_of_s last and optlen = n_of_s optlen in
    let e : exts4 = auth_of a in
    if not (exts4_valid e) then failwith "invalid e4 case";
    let w = write4 e first in
    let dx = match w with
      | (bs, Ok ()) ->
        Printf.sprintf "d=%s x=%s" (dec4_s (Some e) (from_slice4 first bs)) (lax4_s (Some e) (from_slice_lax4 first bs))
      | _ -> "d=- x=-" in
    let (e', first') = set_next_headers4 e last in
    let w' = write4 e' first' in
    let sd = match w' with
      | (bs, Ok ()) -> dec4_s (Some e') (from_slice4 first' bs)
      | _ -> "-" in
    let (iph, et) = ip_set_next_headers (Ipv4 (first, optlen, e)) last in
    let (_, net) = net_try_set_next_headers (net_of_ip (Ipv4 (first, optlen, e))) last in
    let m = Printf.sprintf
        "n=%s w=%s l=%s %s s=%s/%s keep=1 sn=%s sw=%s sd=%s et=%s ipn=%s ipl=%s net=%s"
        (walk_s (next_header4 e first)) (write_s w) (sn (header_len4 e)) dx
        (sn first') (opt (fun h -> sn h.a_next_header) e') (walk_s (next_header4 e' first')) (write_s w') sd
        (sn et) (ipn_s (ip_next_header iph)) (sn (ip_header_len iph)) (net_s net) in
    let spec = Printf.sprintf "sn=ok:%s sw=ok:%s et=%s" (sn last) (hexs (rfc_order_bytes4 e')) (sn eTHER_TYPE_IPV4) in
    m ^ " | " ^ spec
  | ["d6"; first; hx] ->
    let first = n_of_s first and bs = bytes_of_hex hx in
    let d = from_slice first bs in
    let w = ref_walk first bs in
    let lm = lim6 (List.length bs) 40 in
    Printf.sprintf "d=%s x=%s wb=%s r=%s l=%s | d=%s x=%s wb=%s r=%s l=%s"
      (dec6x_s bs d) (lax6x_s bs (from_slice_lax first bs)) (wb6_s first d)
      (rd6_s (dref6 d) (read6 false first (mk_st bs chunk N0 MPlain)))
      (rd6_s (dref6 d) (read6 true first (mk_st bs chunk N0 lm)))
      (dec6x_s bs (strict_of_walk w)) (lax6x_s bs (lax_of_walk w)) (wbspec6_s w)
      (q6_s (dref6 d) (read_of_walk MPlain w) (slen (consumed w)))
      (q6_s (dref6 d) (read_of_walk lm w) (slen (consumed w)))
  | ["l6"; first; budget; off; hx] ->
    let first = n_of_s first and bs = bytes_of_hex hx in
    let budget = int_of_string budget in
    let lm = lim6 budget (int_of_string off) in
    let spec =
      if budget <= List.length bs then
        let w = ref_walk first (view bs lm) in
        "l=" ^ q6_s None (read_of_walk lm w) (slen (consumed w))
      else "-" in
    Printf.sprintf "l=%s | %s" (rd6_s None (read6 true first (mk_st bs chunk N0 lm))) spec
  | ["d4"; first; hx] ->
    let first = n_of_s first and bs = bytes_of_hex hx in
    let d = from_slice4 first bs in
    let w = ref_walk4 first bs in
    let lm = lim4 (List.length bs) 20 in
    Printf.sprintf "d=%s x=%s wb=%s r=%s l=%s | d=%s x=%s wb=%s r=%s l=%s"
      (dec4x_s bs d) (lax4x_s bs (from_slice_lax4 first bs)) (wb4_s first d)
      (rd4_s (dref4 d) (read4 false first (mk_st bs chunk N0 MPlain)))
      (rd4_s (dref4 d) (read4 true first (mk_st bs chunk N0 lm)))
      (dec4x_s bs (strict4_of_walk w)) (lax4x_s bs (lax4_of_walk w)) (wbspec4_s w)
      (q4_s (dref4 d) (read4_of_walk MPlain w) (slen (consumed w)))
      (q4_s (dref4 d) (read4_of_walk lm w) (slen (consumed w)))
  | ["l4"; first; budget; off; hx] ->
    let first = n_of_s first and bs = bytes_of_hex hx in
    let budget = int_of_string budget in
    let lm = lim4 budget (int_of_string off) in
    let spec =
      if budget <= List.length bs then
        let w = ref_walk4 first (view bs lm) in
        "l=" ^ q4_s None (read4_of_walk lm w) (slen (consumed w))
      else "-" in
    Printf.sprintf "l=%s | %s" (rd4_s None (read4 true first (mk_st bs chunk N0 lm))) spec
  | ["arp"; last] ->
    let (_, net) = net_try_set_next_headers NetArp (n_of_s last) in
    Printf.sprintf "net=%s | net=err:arp" (net_s net)
  | _ -> failwith ("bad c12 case: " ^ line)

let () =
  Conv.iter_lines Sys.argv.(1) (fun l ->
      print_endline (try run l with Failure m -> "MODEL-FAIL " ^ m))
