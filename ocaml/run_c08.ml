(* model + spec side of the C08 correspondence: same case file as the Rust
   harness (harness/src/bin/c08.rs); one line per case:
     "<model result> | <spec bytes or ->"
   Types without a Coq model print "NOMODEL | -" (correspondence-only types are
   checked by the implementation-only oracle in tools/props/c08.py). *)
open M_c08

let rec pos_of_z (z : Z.t) : positive =
  if Z.equal z Z.one then XH
  else if Z.testbit z 0 then XI (pos_of_z (Z.shift_right z 1))
  else XO (pos_of_z (Z.shift_right z 1))
let n_of_z z = if Z.sign z = 0 then N0 else Npos (pos_of_z z)
let rec z_of_pos = function
  | XH -> Z.one
  | XO p -> Z.shift_left (z_of_pos p) 1
  | XI p -> Z.succ (Z.shift_left (z_of_pos p) 1)
let z_of_n = function N0 -> Z.zero | Npos p -> z_of_pos p
let n_of_int i = n_of_z (Z.of_int i)
let n_of_s s = n_of_z (Z.of_string s)
let s_of_n n = Z.to_string (z_of_n n)
let int_of_n n = Z.to_int (z_of_n n)
let bytes_of_hex h = List.map n_of_int (Conv.unhex h)
let hex_of_bytes (b : n list) = Conv.hex (List.map int_of_n b)
let hexo = function Some b -> hex_of_bytes b | None -> "UB"
let b01 b = if b then "1" else "0"
let bit_of (v : int) (k : int) = (v lsr k) land 1 = 1
let ilen l = string_of_int (List.length l)

(* ---------------------------------------------------------------- TCP *)
let tcp_canon (h : tcpHeader) : string =
  let fl = List.fold_left (fun a (b, k) -> if b then a lor (1 lsl k) else a) 0
      [ (h.fin, 0); (h.syn, 1); (h.rst, 2); (h.psh, 3); (h.ack, 4); (h.urg, 5); (h.ece, 6);
        (h.cwr, 7); (h.ns, 8) ] in
  Printf.sprintf "%s,%s,%s,%s,%d,%s,%s,%s,%s" (s_of_n h.source_port) (s_of_n h.destination_port)
    (s_of_n h.sequence_number) (s_of_n h.acknowledgment_number) fl (s_of_n h.window_size)
    (s_of_n h.checksum) (s_of_n h.urgent_pointer) (hexo (opt_as_slice h.options))

let tcp_dec (f : bytes -> (tcpHeader * bytes) res) (bs : bytes) : string * tcpHeader option =
  match f bs with
  | Ok (h, rest) -> (tcp_canon h ^ "/" ^ ilen rest, Some h)
  | Err _ -> ("err", None)

let tcp_value args =
  match args with
  | [sp; dp; sq; ak; fl; win; ck; up; opt; trail] ->
    let fl = int_of_string fl in
    (match opt_try_from_slice (bytes_of_hex opt) with
     | None -> "noval | -"
     | Some o ->
       let h = { source_port = n_of_s sp; destination_port = n_of_s dp; sequence_number = n_of_s sq;
                 acknowledgment_number = n_of_s ak; ns = bit_of fl 8; fin = bit_of fl 0;
                 syn = bit_of fl 1; rst = bit_of fl 2; psh = bit_of fl 3; ack = bit_of fl 4;
                 urg = bit_of fl 5; ece = bit_of fl 6; cwr = bit_of fl 7; window_size = n_of_s win;
                 checksum = n_of_s ck; urgent_pointer = n_of_s up; options = o } in
       let tb = to_bytes h in
       let w = write [] h in
       let enc = match tb with Some b -> b | None -> [] in
       let input = enc @ bytes_of_hex trail in
       let (d, dh) = tcp_dec from_slice input in
       let (r, _) = tcp_dec read input in
       let eq = match dh with Some x -> b01 (tcp_eqb x h) | None -> "-" in
       let spec = tcp_layout h.source_port h.destination_port h.sequence_number
           h.acknowledgment_number h.ns h.cwr h.ece h.urg h.ack h.psh h.rst h.syn h.fin
           h.window_size h.checksum h.urgent_pointer
           (match opt_as_slice o with Some x -> x | None -> []) in
       Printf.sprintf "v=%s tb=%s w=%s ws=- hl=%s d=%s eq=%s rd=%s | %s" (tcp_canon h) (hexo tb) (hexo w)
         (s_of_n (header_len h)) d eq r (hex_of_bytes spec))
  | _ -> failwith "tcp value args"

let tcp_bytes (bs : bytes) =
  match from_slice bs with
  | Err _ ->
    let r = match read bs with Ok _ -> "ok" | Err _ -> "err" in
    Printf.sprintf "err rd=%s | -" r
  | Ok (h, rest) ->
    let used = List.length bs - List.length rest in
    let re = to_bytes h in
    let enc = match re with Some b -> b | None -> [] in
    let (d2, _) = tcp_dec from_slice (enc @ rest) in
    let (r, _) = tcp_dec read bs in
    let keep = keep_mask (header_len h) in
    Printf.sprintf "ok used=%d v=%s re=%s w=%s ws=- hl=%s d2=%s rd=%s | %s" used (tcp_canon h) (hexo re)
      (hexo (write [] h)) (s_of_n (header_len h)) d2 r (hex_of_bytes keep)


(* ---------------------------------------------------------------- IPv4 *)
let ip4_canon (h : ipv4Header) : string =
  Printf.sprintf "%s,%s,%s,%s,%s,%s,%s,%s,%s,%s,%s,%s,%s" (s_of_n h.i4_dscp) (s_of_n h.i4_ecn)
    (s_of_n h.i4_total_len) (s_of_n h.i4_identification) (b01 h.i4_dont_fragment)
    (b01 h.i4_more_fragments) (s_of_n h.i4_fragment_offset) (s_of_n h.i4_time_to_live)
    (s_of_n h.i4_protocol) (s_of_n h.i4_header_checksum) (hex_of_bytes h.i4_source)
    (hex_of_bytes h.i4_destination) (hexo (i4o_as_slice h.i4_options))

let ip4_dec (f : bytes -> (ipv4Header * bytes) res) (bs : bytes) : string * ipv4Header option =
  match f bs with
  | Ok (h, rest) -> (ip4_canon h ^ "/" ^ ilen rest, Some h)
  | Err _ -> ("err", None)

let ip4_spec (h : ipv4Header) =
  ipv4_layout h.i4_dscp h.i4_ecn h.i4_total_len h.i4_identification h.i4_dont_fragment
    h.i4_more_fragments h.i4_fragment_offset h.i4_time_to_live h.i4_protocol h.i4_header_checksum
    h.i4_source h.i4_destination (match i4o_as_slice h.i4_options with Some x -> x | None -> [])

let ip4_value args =
  match args with
  | [dscp; ecn; tl; id; df; mf; fo; ttl; pr; ck; src; dst; opt; trail] ->
    (match i4o_try_from (bytes_of_hex opt) with
     | None -> "noval | -"
     | Some o ->
       let h = { i4_dscp = n_of_s dscp; i4_ecn = n_of_s ecn; i4_total_len = n_of_s tl;
                 i4_identification = n_of_s id; i4_dont_fragment = (df = "1");
                 i4_more_fragments = (mf = "1"); i4_fragment_offset = n_of_s fo;
                 i4_time_to_live = n_of_s ttl; i4_protocol = n_of_s pr; i4_header_checksum = n_of_s ck;
                 i4_source = bytes_of_hex src; i4_destination = bytes_of_hex dst; i4_options = o } in
       if not (wf_ip4 h) then "noval | -" else
       let tb = ip4_to_bytes h in
       let w = ip4_write_raw [] h in
       let enc = match tb with Some b -> b | None -> [] in
       let input = enc @ bytes_of_hex trail in
       let (d, dh) = ip4_dec ip4_from_slice input in
       let (r, _) = ip4_dec ip4_read input in
       let eq = match dh with Some x -> b01 (ip4_eqb x h) | None -> "-" in
       Printf.sprintf "v=%s tb=%s w=%s ws=- hl=%s d=%s eq=%s rd=%s wc=%s | %s" (ip4_canon h) (hexo tb) (hexo w)
         (s_of_n (ip4_header_len h)) d eq r (hexo (ip4_write LE [] h)) (hex_of_bytes (ip4_spec h)))
  | _ -> failwith "ipv4 value args"

let ip4_bytes (bs : bytes) =
  match ip4_from_slice bs with
  | Err _ ->
    let r = match ip4_read bs with Ok _ -> "ok" | Err _ -> "err" in
    Printf.sprintf "err rd=%s | -" r
  | Ok (h, rest) ->
    let used = List.length bs - List.length rest in
    let re = ip4_to_bytes h in
    let enc = match re with Some b -> b | None -> [] in
    let (d2, _) = ip4_dec ip4_from_slice (enc @ rest) in
    let (r, _) = ip4_dec ip4_read bs in
    let keep = ip4_keep_mask (ip4_header_len h) in
    Printf.sprintf "ok used=%d v=%s re=%s w=%s ws=- hl=%s d2=%s rd=%s wc=%s | %s" used (ip4_canon h) (hexo re)
      (hexo (ip4_write_raw [] h)) (s_of_n (ip4_header_len h)) d2 r (hexo (ip4_write LE [] h)) (hex_of_bytes keep)


(* ---------------------------------------------------------------- IPv6 fragment header *)
let frag_canon (h : ipv6FragmentHeader) : string =
  Printf.sprintf "%s,%s,%s,%s" (s_of_n h.fr_next_header) (s_of_n h.fr_fragment_offset)
    (b01 h.fr_more_fragments) (s_of_n h.fr_identification)
let frag_dec (f : bytes -> (ipv6FragmentHeader * bytes) res) (bs : bytes) : string =
  match f bs with
  | Ok (h, rest) -> frag_canon h ^ "/" ^ ilen rest
  | Err _ -> "err"
let frag_value args =
  match args with
  | [nh; fo; mf; id; trail] ->
    let h = { fr_next_header = n_of_s nh; fr_fragment_offset = n_of_s fo; fr_more_fragments = (mf = "1");
              fr_identification = n_of_s id } in
    if not (wf_frag h) then "noval | -" else
    let tb = frag_to_bytes h in
    let input = tb @ bytes_of_hex trail in
    let d = frag_dec frag_from_slice input in
    Printf.sprintf "v=%s tb=%s w=%s ws=- hl=%s d=%s eq=%s rd=%s | %s" (frag_canon h) (hex_of_bytes tb)
      (hex_of_bytes (frag_write [] h)) (s_of_n (frag_header_len h)) d
      (if d = frag_canon h ^ "/" ^ ilen (bytes_of_hex trail) then "1" else "0")
      (frag_dec frag_read input)
      (hex_of_bytes (frag_layout h.fr_next_header h.fr_fragment_offset h.fr_more_fragments h.fr_identification))
  | _ -> failwith "frag value args"
let frag_bytes (bs : bytes) =
  match frag_from_slice bs with
  | Err _ -> Printf.sprintf "err rd=%s | -" (match frag_read bs with Ok _ -> "ok" | Err _ -> "err")
  | Ok (h, rest) ->
    let used = List.length bs - List.length rest in
    let re = frag_to_bytes h in
    Printf.sprintf "ok used=%d v=%s re=%s w=%s ws=- hl=%s d2=%s rd=%s | %s" used (frag_canon h) (hex_of_bytes re)
      (hex_of_bytes (frag_write [] h)) (s_of_n (frag_header_len h)) (frag_dec frag_from_slice (re @ rest))
      (frag_dec frag_read bs) (hex_of_bytes frag_keep_mask)

let run (line : string) : string =
  match Conv.split_ws line with
  | "v" :: "tcp" :: args -> tcp_value args
  | ["b"; "tcp"; h] -> tcp_bytes (bytes_of_hex h)
  | "v" :: "ipv4" :: args -> ip4_value args
  | ["b"; "ipv4"; h] -> ip4_bytes (bytes_of_hex h)
  | "v" :: "frag" :: args -> frag_value args
  | ["b"; "frag"; h] -> frag_bytes (bytes_of_hex h)
  | ("v" | "b") :: _ :: _ -> "NOMODEL | -"
  | _ -> failwith ("bad c08 case: " ^ line)

let () =
  Conv.iter_lines Sys.argv.(1) (fun l ->
      print_endline (try run l with Failure m -> "MODEL-FAIL " ^ m))
