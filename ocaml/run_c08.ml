(* model + spec side of the C08 correspondence: same case file as the Rust
   harness (harness/src/bin/c08.rs); one line per case:
     "<model result> | <spec bytes or ->"
   Types without a Coq model print "NOMODEL | -" (correspondence-only types are
   checked by the implementation-only oracle in tools/props/c08.py). *)
open M_c08

let rec pos_of_z (z : Z.t) : positive =
  if Z.equal z Z.one then XH
  else if Z.testbit z 0 then XI (pos_of_z (Z.shift_right z 1))
  else XO (pos_of_z (Z.shift_right z 1))
let n_of_z z = if Z.sign z = 0 then N0 else Npos (pos_of_z z)
let rec z_of_pos = function
  | XH -> Z.one
  | XO p -> Z.shift_left (z_of_pos p) 1
  | XI p -> Z.succ (Z.shift_left (z_of_pos p) 1)
let z_of_n = function N0 -> Z.zero | Npos p -> z_of_pos p
let n_of_int i = n_of_z (Z.of_int i)
let n_of_s s = n_of_z (Z.of_string s)
let s_of_n n = Z.to_string (z_of_n n)
let int_of_n n = Z.to_int (z_of_n n)
let bytes_of_hex h = List.map n_of_int (Conv.unhex h)
let hex_of_bytes (b : n list) = Conv.hex (List.map int_of_n b)
let hexo = function Some b -> hex_of_bytes b | None -> "UB"
let b01 b = if b then "1" else "0"
let bit_of (v : int) (k : int) = (v lsr k) land 1 = 1
let ilen l = string_of_int (List.length l)

(* ---------------------------------------------------------------- TCP *)
let tcp_canon (h : tcpHeader) : string =
  let fl = List.fold_left (fun a (b, k) -> if b then a lor (1 lsl k) else a) 0
      [ (h.fin, 0); (h.syn, 1); (h.rst, 2); (h.psh, 3); (h.ack, 4); (h.urg, 5); (h.ece, 6);
        (h.cwr, 7); (h.ns, 8) ] in
  Printf.sprintf "%s,%s,%s,%s,%d,%s,%s,%s,%s" (s_of_n h.source_port) (s_of_n h.destination_port)
    (s_of_n h.sequence_number) (s_of_n h.acknowledgment_number) fl (s_of_n h.window_size)
    (s_of_n h.checksum) (s_of_n h.urgent_pointer) (hexo (opt_as_slice h.options))

let tcp_dec (f : bytes -> (tcpHeader * bytes) res) (bs : bytes) : string * tcpHeader option =
  match f bs with
  | Ok (h, rest) -> (tcp_canon h ^ "/" ^ ilen rest, Some h)
  | Err _ -> ("err", None)

let tcp_value args =
  match args with
  | [sp; dp; sq; ak; fl; win; ck; up; opt; trail] ->
    let fl = int_of_string fl in
    (match opt_try_from_slice (bytes_of_hex opt) with
     | None -> "noval | -"
     | Some o ->
       let h = { source_port = n_of_s sp; destination_port = n_of_s dp; sequence_number = n_of_s sq;
                 acknowledgment_number = n_of_s ak; ns = bit_of fl 8; fin = bit_of fl 0;
                 syn = bit_of fl 1; rst = bit_of fl 2; psh = bit_of fl 3; ack = bit_of fl 4;
                 urg = bit_of fl 5; ece = bit_of fl 6; cwr = bit_of fl 7; window_size = n_of_s win;
                 checksum = n_of_s ck; urgent_pointer = n_of_s up; options = o } in
       let tb = to_bytes h in
       let w = write [] h in
       let enc = match tb with Some b -> b | None -> [] in
       let input = enc @ bytes_of_hex trail in
       let (d, dh) = tcp_dec from_slice input in
       let (r, _) = tcp_dec read input in
       let eq = match dh with Some x -> b01 (tcp_eqb x h) | None -> "-" in
       let spec = tcp_layout h.source_port h.destination_port h.sequence_number
           h.acknowledgment_number h.ns h.cwr h.ece h.urg h.ack h.psh h.rst h.syn h.fin
           h.window_size h.checksum h.urgent_pointer
           (match opt_as_slice o with Some x -> x | None -> []) in
       Printf.sprintf "v=%s tb=%s w=%s ws=- hl=%s d=%s eq=%s rd=%s | %s" (tcp_canon h) (hexo tb) (hexo w)
         (s_of_n (header_len h)) d eq r (hex_of_bytes spec))
  | _ -> failwith "tcp value args"

let tcp_bytes (bs : bytes) =
  match from_slice bs with
  | Err _ ->
    let r = match read bs with Ok _ -> "ok" | Err _ -> "err" in
    Printf.sprintf "err rd=%s | -" r
  | Ok (h, rest) ->
    let used = List.length bs - List.length rest in
    let re = to_bytes h in
    let enc = match re with Some b -> b | None -> [] in
    let (d2, _) = tcp_dec from_slice (enc @ rest) in
    let (r, _) = tcp_dec read bs in
    let keep = keep_mask (header_len h) in
    Printf.sprintf "ok used=%d v=%s re=%s w=%s ws=- hl=%s d2=%s rd=%s | %s" used (tcp_canon h) (hexo re)
      (hexo (write [] h)) (s_of_n (header_len h)) d2 r (hex_of_bytes keep)


(* ---------------------------------------------------------------- IPv4 *)
let ip4_canon (h : ipv4Header) : string =
  Printf.sprintf "%s,%s,%s,%s,%s,%s,%s,%s,%s,%s,%s,%s,%s" (s_of_n h.i4_dscp) (s_of_n h.i4_ecn)
    (s_of_n h.i4_total_len) (s_of_n h.i4_identification) (b01 h.i4_dont_fragment)
    (b01 h.i4_more_fragments) (s_of_n h.i4_fragment_offset) (s_of_n h.i4_time_to_live)
    (s_of_n h.i4_protocol) (s_of_n h.i4_header_checksum) (hex_of_bytes h.i4_source)
    (hex_of_bytes h.i4_destination) (hexo (i4o_as_slice h.i4_options))

let ip4_dec (f : bytes -> (ipv4Header * bytes) res) (bs : bytes) : string * ipv4Header option =
  match f bs with
  | Ok (h, rest) -> (ip4_canon h ^ "/" ^ ilen rest, Some h)
  | Err _ -> ("err", None)

let ip4_spec (h : ipv4Header) =
  ipv4_layout h.i4_dscp h.i4_ecn h.i4_total_len h.i4_identification h.i4_dont_fragment
    h.i4_more_fragments h.i4_fragment_offset h.i4_time_to_live h.i4_protocol h.i4_header_checksum
    h.i4_source h.i4_destination (match i4o_as_slice h.i4_options with Some x -> x | None -> [])

let ip4_value args =
  match args with
  | [dscp; ecn; tl; id; df; mf; fo; ttl; pr; ck; src; dst; opt; trail] ->
    (match i4o_try_from (bytes_of_hex opt) with
     | None -> "noval | -"
     | Some o ->
       let h = { i4_dscp = n_of_s dscp; i4_ecn = n_of_s ecn; i4_total_len = n_of_s tl;
                 i4_identification = n_of_s id; i4_dont_fragment = (df = "1");
                 i4_more_fragments = (mf = "1"); i4_fragment_offset = n_of_s fo;
                 i4_time_to_live = n_of_s ttl; i4_protocol = n_of_s pr; i4_header_checksum = n_of_s ck;
                 i4_source = bytes_of_hex src; i4_destination = bytes_of_hex dst; i4_options = o } in
       if not (wf_ip4 h) then "noval | -" else
       let tb = ip4_to_bytes h in
       let w = ip4_write_raw [] h in
       let enc = match tb with Some b -> b | None -> [] in
       let input = enc @ bytes_of_hex trail in
       let (d, dh) = ip4_dec ip4_from_slice input in
       let (r, _) = ip4_dec ip4_read input in
       let eq = match dh with Some x -> b01 (ip4_eqb x h) | None -> "-" in
       Printf.sprintf "v=%s tb=%s w=%s ws=- hl=%s d=%s eq=%s rd=%s wc=%s | %s" (ip4_canon h) (hexo tb) (hexo w)
         (s_of_n (ip4_header_len h)) d eq r (hexo (ip4_write LE [] h)) (hex_of_bytes (ip4_spec h)))
  | _ -> failwith "ipv4 value args"

let ip4_bytes (bs : bytes) =
  match ip4_from_slice bs with
  | Err _ ->
    let r = match ip4_read bs with Ok _ -> "ok" | Err _ -> "err" in
    Printf.sprintf "err rd=%s | -" r
  | Ok (h, rest) ->
    let used = List.length bs - List.length rest in
    let re = ip4_to_bytes h in
    let enc = match re with Some b -> b | None -> [] in
    let (d2, _) = ip4_dec ip4_from_slice (enc @ rest) in
    let (r, _) = ip4_dec ip4_read bs in
    let keep = ip4_keep_mask (ip4_header_len h) in
    Printf.sprintf "ok used=%d v=%s re=%s w=%s ws=- hl=%s d2=%s rd=%s wc=%s | %s" used (ip4_canon h) (hexo re)
      (hexo (ip4_write_raw [] h)) (s_of_n (ip4_header_len h)) d2 r (hexo (ip4_write LE [] h)) (hex_of_bytes keep)


(* ---------------------------------------------------------------- IPv6 fragment header *)
let frag_canon (h : ipv6FragmentHeader) : string =
  Printf.sprintf "%s,%s,%s,%s" (s_of_n h.fr_next_header) (s_of_n h.fr_fragment_offset)
    (b01 h.fr_more_fragments) (s_of_n h.fr_identification)
let frag_dec (f : bytes -> (ipv6FragmentHeader * bytes) res) (bs : bytes) : string =
  match f bs with
  | Ok (h, rest) -> frag_canon h ^ "/" ^ ilen rest
  | Err _ -> "err"
let frag_value args =
  match args with
  | [nh; fo; mf; id; trail] ->
    let h = { fr_next_header = n_of_s nh; fr_fragment_offset = n_of_s fo; fr_more_fragments = (mf = "1");
              fr_identification = n_of_s id } in
    if not (wf_frag h) then "noval | -" else
    let tb = frag_to_bytes h in
    let input = tb @ bytes_of_hex trail in
    let d = frag_dec frag_from_slice input in
    Printf.sprintf "v=%s tb=%s w=%s ws=- hl=%s d=%s eq=%s rd=%s | %s" (frag_canon h) (hex_of_bytes tb)
      (hex_of_bytes (frag_write [] h)) (s_of_n (frag_header_len h)) d
      (if d = frag_canon h ^ "/" ^ ilen (bytes_of_hex trail) then "1" else "0")
      (frag_dec frag_read input)
      (hex_of_bytes (frag_layout h.fr_next_header h.fr_fragment_offset h.fr_more_fragments h.fr_identification))
  | _ -> failwith "frag value args"
let frag_bytes (bs : bytes) =
  match frag_from_slice bs with
  | Err _ -> Printf.sprintf "err rd=%s | -" (match frag_read bs with Ok _ -> "ok" | Err _ -> "err")
  | Ok (h, rest) ->
    let used = List.length bs - List.length rest in
    let re = frag_to_bytes h in
    Printf.sprintf "ok used=%d v=%s re=%s w=%s ws=- hl=%s d2=%s rd=%s | %s" used (frag_canon h) (hex_of_bytes re)
      (hex_of_bytes (frag_write [] h)) (s_of_n (frag_header_len h)) (frag_dec frag_from_slice (re @ rest))
      (frag_dec frag_read bs) (hex_of_bytes frag_keep_mask)

(* ---- link/net types (extend-c08a) ---- *)
let opt_n_str = function Some v -> s_of_n v | None -> "-"
let rest_after (bs : bytes) (hl : n) : string =
  string_of_int (List.length bs - int_of_n hl)

(* MacsecHeader: canon = ptype(0..3),ether_type|-,es,scb,an,short_len,packet_nr,sci|- *)
let mac_canon (h : macsecHeader) : string =
  let (p, et) = match h.mac_ptype with
    | MacUnmodified e -> (0, s_of_n e) | MacModified -> (1, "-") | MacEncrypted -> (2, "-")
    | MacEncryptedUnmodified -> (3, "-") in
  Printf.sprintf "%d,%s,%s,%s,%s,%s,%s,%s" p et (b01 h.mac_endstation_id) (b01 h.mac_scb) (s_of_n h.mac_an)
    (s_of_n h.mac_short_len) (s_of_n h.mac_packet_nr) (opt_n_str h.mac_sci)
let mac_dec_fs (bs : bytes) : string =
  match mac_from_slice bs with
  | Ok h -> mac_canon h ^ "/" ^ rest_after bs (mac_header_len h)
  | Err _ -> "err"
let mac_dec_rd (bs : bytes) : string =
  match mac_read bs with
  | Ok (h, rest) -> mac_canon h ^ "/" ^ ilen rest
  | Err _ -> "err"
let mac_spec (h : macsecHeader) : bytes =
  macsec_layout h.mac_endstation_id (mac_sci_some h.mac_sci) h.mac_scb (mac_encrypted h.mac_ptype)
    (mac_userdata_changed h.mac_ptype) h.mac_an h.mac_short_len h.mac_packet_nr h.mac_sci
    (match h.mac_ptype with MacUnmodified e -> Some e | _ -> None)
let mac_value args =
  match args with
  | [p; et; es; scb; an; sl; pn; sci; trail] ->
    let ptype = match p with
      | "0" -> MacUnmodified (n_of_s et) | "1" -> MacModified | "2" -> MacEncrypted
      | _ -> MacEncryptedUnmodified in
    let h = { mac_ptype = ptype; mac_endstation_id = (es = "1"); mac_scb = (scb = "1"); mac_an = n_of_s an;
              mac_short_len = n_of_s sl; mac_packet_nr = n_of_s pn;
              mac_sci = (if sci = "-" then None else Some (n_of_s sci)) } in
    if not (mac_in_range h) then "noval | -" else
    let tb = mac_to_bytes h in
    let enc = match tb with Some b -> b | None -> [] in
    let input = enc @ bytes_of_hex trail in
    let d = mac_dec_fs input in
    Printf.sprintf "v=%s tb=%s w=%s ws=- hl=%s d=%s eq=%s rd=%s | %s" (mac_canon h) (hexo tb)
      (hexo (mac_write [] h)) (s_of_n (mac_header_len h)) d
      (if d = "err" then "-" else if d = mac_canon h ^ "/" ^ ilen (bytes_of_hex trail) then "1" else "0")
      (mac_dec_rd input) (hex_of_bytes (mac_spec h))
  | _ -> failwith "macsec value args"
let mac_bytes (bs : bytes) =
  match mac_from_slice bs with
  | Err _ -> Printf.sprintf "err rd=%s | -" (match mac_read bs with Ok _ -> "ok" | Err _ -> "err")
  | Ok h ->
    let used = int_of_n (mac_header_len h) in
    let re = mac_to_bytes h in
    let enc = match re with Some b -> b | None -> [] in
    let rest = List.filteri (fun i _ -> i >= used) bs in
    Printf.sprintf "ok used=%d v=%s re=%s w=%s ws=- hl=%s d2=%s rd=%s | %s" used (mac_canon h) (hexo re)
      (hexo (mac_write [] h)) (s_of_n (mac_header_len h)) (mac_dec_fs (enc @ rest)) (mac_dec_rd bs)
      (hex_of_bytes (mac_keep_mask (mac_header_len h)))

(* generic value / byte cases for decoders returning (value, rest) *)
let dec_pair (canon : 'a -> string) (f : bytes -> ('a * bytes) res) (bs : bytes) : string * 'a option =
  match f bs with
  | Ok (h, rest) -> (canon h ^ "/" ^ ilen rest, Some h)
  | Err _ -> ("err", None)
let gen_value canon (tb : bytes option) (w : bytes option) (hl : n) fs rd (eqf : 'a -> bool) (spec : bytes)
    (vcanon : string) (trail : bytes) : string =
  let enc = match tb with Some b -> b | None -> [] in
  let input = enc @ trail in
  let (d, dh) = dec_pair canon fs input in
  let (r, _) = dec_pair canon rd input in
  let eq = match dh with Some x -> b01 (eqf x) | None -> "-" in
  Printf.sprintf "v=%s tb=%s w=%s ws=- hl=%s d=%s eq=%s rd=%s | %s" vcanon (hexo tb) (hexo w) (s_of_n hl) d eq r
    (hex_of_bytes spec)
let gen_bytes canon fs rd (tbf : 'a -> bytes option) (wf : 'a -> bytes option) (hlf : 'a -> n)
    (keep : 'a -> bytes) (bs : bytes) : string =
  match fs bs with
  | Err _ -> Printf.sprintf "err rd=%s | -" (match rd bs with Ok _ -> "ok" | Err _ -> "err")
  | Ok (h, rest) ->
    let used = List.length bs - List.length rest in
    let re = tbf h in
    let enc = match re with Some b -> b | None -> [] in
    let (d2, _) = dec_pair canon fs (enc @ rest) in
    let (r, _) = dec_pair canon rd bs in
    Printf.sprintf "ok used=%d v=%s re=%s w=%s ws=- hl=%s d2=%s rd=%s | %s" used (canon h) (hexo re) (hexo (wf h))
      (s_of_n (hlf h)) d2 r (hex_of_bytes (keep h))

(* IpAuthHeader: canon = next_header,spi,sequence_number,raw_icv hex *)
let ah_canon (h : ipAuthHeader) : string =
  Printf.sprintf "%s,%s,%s,%s" (s_of_n h.ah_next_header) (s_of_n h.ah_spi) (s_of_n h.ah_sequence_number)
    (hexo (ah_raw_icv h))
let ah_value args =
  match args with
  | [nh; spi; sq; icv; stale; trail] ->
    (* new(.., stale) then set_raw_icv(icv): bytes of `stale` stay behind the ICV *)
    let first = if stale = "-" then bytes_of_hex icv else bytes_of_hex stale in
    let h0 = ah_new (n_of_s nh) (n_of_s spi) (n_of_s sq) first in
    let h1 = match h0 with
      | None -> None
      | Some h -> if stale = "-" then Some h else ah_set_raw_icv h (bytes_of_hex icv) in
    (match h1 with
     | None -> "noval | -"
     | Some h ->
       if not (wf_ah h) then "noval | -" else
       gen_value ah_canon (ah_to_bytes h) (ah_write [] h) (ah_header_len h) ah_from_slice ah_read
         (fun x -> ah_eqb x h)
         (ah_layout h.ah_next_header h.ah_spi h.ah_sequence_number
            (match ah_raw_icv h with Some x -> x | None -> []))
         (ah_canon h) (bytes_of_hex trail))
  | _ -> failwith "auth value args"
let ah_bytes = gen_bytes ah_canon ah_from_slice ah_read ah_to_bytes (ah_write []) ah_header_len
    (fun h -> ah_keep_mask (ah_header_len h))

(* Ipv6RawExtHeader: canon = next_header,payload hex *)
let rx_canon (h : ipv6RawExtHeader) : string =
  Printf.sprintf "%s,%s" (s_of_n h.rx_next_header) (hexo (rx_payload h))
let rx_value args =
  match args with
  | [nh; pl; stale; trail] ->
    let first = if stale = "-" then bytes_of_hex pl else bytes_of_hex stale in
    let h0 = rx_new_raw (n_of_s nh) first in
    let h1 = match h0 with
      | None -> None
      | Some h -> if stale = "-" then Some h else rx_set_payload h (bytes_of_hex pl) in
    (match h1 with
     | None -> "noval | -"
     | Some h ->
       if not (wf_rx h) then "noval | -" else
       gen_value rx_canon (rx_to_bytes h) (rx_write [] h) (rx_header_len h) rx_from_slice rx_read
         (fun x -> rx_eqb x h)
         (rawext_layout h.rx_next_header (match rx_payload h with Some x -> x | None -> []))
         (rx_canon h) (bytes_of_hex trail))
  | _ -> failwith "rawext value args"
let rx_bytes = gen_bytes rx_canon rx_from_slice rx_read rx_to_bytes (rx_write []) rx_header_len
    (fun h -> ones (rx_header_len h))

(* Ipv6Header: canon = traffic_class,flow_label,payload_length,next_header,hop_limit,src hex,dst hex *)
let ip6_canon (h : ipv6Header) : string =
  Printf.sprintf "%s,%s,%s,%s,%s,%s,%s" (s_of_n h.i6_traffic_class) (s_of_n h.i6_flow_label)
    (s_of_n h.i6_payload_length) (s_of_n h.i6_next_header) (s_of_n h.i6_hop_limit)
    (hex_of_bytes h.i6_source) (hex_of_bytes h.i6_destination)
let ip6_value args =
  match args with
  | [tc; fl; pl; nh; hop; src; dst; trail] ->
    let h = { i6_traffic_class = n_of_s tc; i6_flow_label = n_of_s fl; i6_payload_length = n_of_s pl;
              i6_next_header = n_of_s nh; i6_hop_limit = n_of_s hop; i6_source = bytes_of_hex src;
              i6_destination = bytes_of_hex dst } in
    if not (wf_ip6 h) then "noval | -" else
    gen_value ip6_canon (Some (ip6_to_bytes h)) (Some (ip6_write [] h)) (ip6_header_len h) ip6_from_slice ip6_read
      (fun x -> x = h)
      (ipv6_layout h.i6_traffic_class h.i6_flow_label h.i6_payload_length h.i6_next_header h.i6_hop_limit
         h.i6_source h.i6_destination)
      (ip6_canon h) (bytes_of_hex trail)
  | _ -> failwith "ipv6 value args"
let ip6_bytes = gen_bytes ip6_canon ip6_from_slice ip6_read (fun h -> Some (ip6_to_bytes h))
    (fun h -> Some (ip6_write [] h)) ip6_header_len (fun h -> ones (ip6_header_len h))

(* write_to_slice into a slice of hl + 3 bytes 0xa5: print the written part (as the harness's wts! macro) *)
let wts_str (r : (bytes * bytes) res) : string =
  match r with
  | Ok (after, rest) ->
    let n = List.length after - List.length rest in
    hex_of_bytes (List.filteri (fun i _ -> i < n) after)
  | Err _ -> "dead"
let a5 (n : int) : bytes = List.init n (fun _ -> n_of_int 0xa5)
(* variants of gen_value / gen_bytes with a write_to_slice column and an extra decoder (from_bytes) *)
let gen_value_ws canon (tb : bytes) (w : bytes) (ws : string) (hl : n) fs rd (eqf : 'a -> bool) (spec : bytes)
    (vcanon : string) (trail : bytes) (fb : string) : string =
  let input = tb @ trail in
  let (d, dh) = dec_pair canon fs input in
  let (r, _) = dec_pair canon rd input in
  let eq = match dh with Some x -> b01 (eqf x) | None -> "-" in
  Printf.sprintf "v=%s tb=%s w=%s ws=%s hl=%s d=%s eq=%s rd=%s fb=%s | %s" vcanon (hex_of_bytes tb) (hex_of_bytes w) ws
    (s_of_n hl) d eq r fb (hex_of_bytes spec)
let gen_bytes_ws canon fs rd (tbf : 'a -> bytes) (wf : 'a -> bytes) (wsf : 'a -> string) (hlf : 'a -> n)
    (bs : bytes) : string =
  match fs bs with
  | Err _ -> Printf.sprintf "err rd=%s | -" (match rd bs with Ok _ -> "ok" | Err _ -> "err")
  | Ok (h, rest) ->
    let used = List.length bs - List.length rest in
    let re = tbf h in
    let (d2, _) = dec_pair canon fs (re @ rest) in
    let (r, _) = dec_pair canon rd bs in
    Printf.sprintf "ok used=%d v=%s re=%s w=%s ws=%s hl=%s d2=%s rd=%s | %s" used (canon h) (hex_of_bytes re)
      (hex_of_bytes (wf h)) (wsf h) (s_of_n (hlf h)) d2 r (hex_of_bytes (ones (hlf h)))

(* Ethernet2Header: canon = destination hex,source hex,ether_type *)
let eth_canon (h : ethernet2Header) : string =
  Printf.sprintf "%s,%s,%s" (hex_of_bytes h.eth_destination) (hex_of_bytes h.eth_source) (s_of_n h.eth_ether_type)
let eth_ws h = wts_str (eth_write_to_slice (a5 17) h)
let eth_value args =
  match args with
  | [dst; src; et; trail] ->
    let h = { eth_source = bytes_of_hex src; eth_destination = bytes_of_hex dst; eth_ether_type = n_of_s et } in
    if not (wf_eth h) then "noval | -" else
    let fb = match eth_from_bytes (eth_to_bytes h) with Ok x -> eth_canon x | Err _ -> "err" in
    gen_value_ws eth_canon (eth_to_bytes h) (eth_write [] h) (eth_ws h) (eth_header_len h) eth_from_slice eth_read
      (fun x -> x = h) (eth_layout h.eth_destination h.eth_source h.eth_ether_type)
      (eth_canon h) (bytes_of_hex trail) fb
  | _ -> failwith "eth value args"
let eth_bytes = gen_bytes_ws eth_canon eth_from_slice eth_read eth_to_bytes (eth_write []) eth_ws eth_header_len

(* SingleVlanHeader: canon = pcp,dei,vlan_id,ether_type *)
let vl_canon (h : singleVlanHeader) : string =
  Printf.sprintf "%s,%s,%s,%s" (s_of_n h.vl_pcp) (b01 h.vl_drop_eligible_indicator) (s_of_n h.vl_vlan_id)
    (s_of_n h.vl_ether_type)
let vl_value args =
  match args with
  | [pcp; dei; vid; et; trail] ->
    let h = { vl_pcp = n_of_s pcp; vl_drop_eligible_indicator = (dei = "1"); vl_vlan_id = n_of_s vid;
              vl_ether_type = n_of_s et } in
    if not (wf_vl h) then "noval | -" else
    let fb = match vl_from_bytes (vl_to_bytes h) with Ok x -> vl_canon x | Err _ -> "err" in
    gen_value_ws vl_canon (vl_to_bytes h) (vl_write [] h) "-" (vl_header_len h) vl_from_slice vl_read
      (fun x -> x = h) (vlan_layout h.vl_pcp h.vl_drop_eligible_indicator h.vl_vlan_id h.vl_ether_type)
      (vl_canon h) (bytes_of_hex trail) fb
  | _ -> failwith "vlan value args"
let vl_bytes = gen_bytes_ws vl_canon vl_from_slice vl_read vl_to_bytes (vl_write []) (fun _ -> "-") vl_header_len

(* LinuxSllHeader: canon = packet_type,arp_hrd_type,sender_address_valid_length,address hex,kind,value *)
let sll_kind = function
  | SllIgnored v -> ("ign", v) | SllNetlink v -> ("nl", v) | SllGre v -> ("gre", v)
  | SllEtherType v -> ("et", v) | SllNonstd v -> ("ns", v)
let sll_canon (h : linuxSllHeader) : string =
  let (k, v) = sll_kind h.sll_protocol_type in
  Printf.sprintf "%s,%s,%s,%s,%s,%s" (s_of_n h.sll_packet_type) (s_of_n h.sll_arp_hrd_type)
    (s_of_n h.sll_sender_address_valid_length) (hex_of_bytes h.sll_sender_address) k (s_of_n v)
let sll_ws h = wts_str (sll_write_to_slice (a5 19) h)
let sll_value args =
  match args with
  | [pt; hrd; savl; addr; kind; v; trail] ->
    let v = n_of_s v in
    let p = match kind with
      | "ign" -> Some (SllIgnored v) | "nl" -> Some (SllNetlink v) | "gre" -> Some (SllGre v)
      | "et" -> Some (SllEtherType v)
      | _ -> (match sll_nonstd_try_from v with Some x -> Some (SllNonstd x) | None -> None) in
    (match p with
     | None -> "noval | -"
     | Some p ->
       let h = { sll_packet_type = n_of_s pt; sll_arp_hrd_type = n_of_s hrd;
                 sll_sender_address_valid_length = n_of_s savl; sll_sender_address = bytes_of_hex addr;
                 sll_protocol_type = p } in
       if not (sll_in_range h) then "noval | -" else
       let fb = match sll_from_bytes (sll_to_bytes h) with Ok x -> sll_canon x | Err _ -> "err" in
       gen_value_ws sll_canon (sll_to_bytes h) (sll_write [] h) (sll_ws h) (sll_header_len h) sll_from_slice sll_read
         (fun x -> x = h)
         (sll_layout h.sll_packet_type h.sll_arp_hrd_type h.sll_sender_address_valid_length h.sll_sender_address
            (sll_protocol_u16 h.sll_protocol_type))
         (sll_canon h) (bytes_of_hex trail) fb)
  | _ -> failwith "sll value args"
let sll_bytes = gen_bytes_ws sll_canon sll_from_slice sll_read sll_to_bytes (sll_write []) sll_ws sll_header_len

(* ArpPacket: canon = hw type,proto type,hw size,proto size,operation,4 address slices hex *)
let arp_canon (h : arpPacket) : string =
  Printf.sprintf "%s,%s,%s,%s,%s,%s,%s,%s,%s" (s_of_n h.arp_hw_addr_type) (s_of_n h.arp_proto_addr_type)
    (s_of_n h.arp_hw_addr_size) (s_of_n h.arp_proto_addr_size) (s_of_n h.arp_operation)
    (hexo (arp_sender_hw_addr h)) (hexo (arp_sender_protocol_addr h)) (hexo (arp_target_hw_addr h))
    (hexo (arp_target_protocol_addr h))
let arp_dec_fs (bs : bytes) : string * arpPacket option =
  match arp_from_slice bs with
  | Ok h -> (arp_canon h ^ "/" ^ rest_after bs (arp_packet_len h), Some h)
  | Err _ -> ("err", None)
let arp_value args =
  match args with
  | [hat; pat; op; sh; sp; th; tp; pre; trail] ->
    (* pre = "-" : new(..); pre = "a,b": new(.., a/b bytes of 0xaa) then set_hw_addrs, set_protocol_addrs *)
    let mk n = List.init n (fun _ -> n_of_int 0xaa) in
    let (sh, sp, th, tp) = (bytes_of_hex sh, bytes_of_hex sp, bytes_of_hex th, bytes_of_hex tp) in
    let h = if pre = "-" then arp_new (n_of_s hat) (n_of_s pat) (n_of_s op) sh sp th tp
      else (match String.split_on_char ',' pre with
          | [a; b] ->
            (match arp_new (n_of_s hat) (n_of_s pat) (n_of_s op) (mk (int_of_string a)) (mk (int_of_string b))
                     (mk (int_of_string a)) (mk (int_of_string b)) with
             | None -> None
             | Some h0 -> (match arp_set_hw_addrs h0 sh th with
                 | None -> None
                 | Some h1 -> arp_set_protocol_addrs h1 sp tp))
          | _ -> failwith "arp pre") in
    (match h with
     | None -> "noval | -"
     | Some h ->
       if not (wf_arp h) then "noval | -" else
       let tb = arp_to_bytes h in
       let enc = match tb with Some b -> b | None -> [] in
       let input = enc @ bytes_of_hex trail in
       let (d, dh) = arp_dec_fs input in
       let (r, _) = dec_pair arp_canon arp_read input in
       let eq = match dh with Some x -> b01 (arp_eqb x h) | None -> "-" in
       let get = function Some x -> x | None -> [] in
       Printf.sprintf "v=%s tb=%s w=%s ws=- hl=%s d=%s eq=%s rd=%s | %s" (arp_canon h) (hexo tb)
         (hexo (arp_write [] h)) (s_of_n (arp_packet_len h)) d eq r
         (hex_of_bytes (arp_layout h.arp_hw_addr_type h.arp_proto_addr_type h.arp_operation
                          (get (arp_sender_hw_addr h)) (get (arp_sender_protocol_addr h))
                          (get (arp_target_hw_addr h)) (get (arp_target_protocol_addr h)))))
  | _ -> failwith "arp value args"
let arp_bytes (bs : bytes) =
  match arp_from_slice bs with
  | Err _ -> Printf.sprintf "err rd=%s | -" (match arp_read bs with Ok _ -> "ok" | Err _ -> "err")
  | Ok h ->
    let used = int_of_n (arp_packet_len h) in
    let re = arp_to_bytes h in
    let enc = match re with Some b -> b | None -> [] in
    let rest = List.filteri (fun i _ -> i >= used) bs in
    let (d2, _) = arp_dec_fs (enc @ rest) in
    let (r, _) = dec_pair arp_canon arp_read bs in
    Printf.sprintf "ok used=%d v=%s re=%s w=%s ws=- hl=%s d2=%s rd=%s | %s" used (arp_canon h) (hexo re)
      (hexo (arp_write [] h)) (s_of_n (arp_packet_len h)) d2 r (hex_of_bytes (ones (arp_packet_len h)))

(* ArpEthIpv4Packet: canon = operation,sender mac,sender ip,target mac,target ip *)
let ae_canon (v : arpEthIpv4Packet) : string =
  Printf.sprintf "%s,%s,%s,%s,%s" (s_of_n v.ae_operation) (hex_of_bytes v.ae_sender_mac)
    (hex_of_bytes v.ae_sender_ipv4) (hex_of_bytes v.ae_target_mac) (hex_of_bytes v.ae_target_ipv4)
let ae_dec (bs : bytes) : string * arpEthIpv4Packet option =
  match arp_from_slice bs with
  | Err _ -> ("err", None)
  | Ok p ->
    (match arp_try_eth_ipv4 p with
     | Ok v -> (ae_canon v ^ "/" ^ rest_after bs (arp_packet_len p), Some v)
     | Err _ -> ("err", None))
let ae_w (v : arpEthIpv4Packet) : string =
  match ae_to_arp_packet v with Some p -> hexo (arp_to_bytes p) | None -> "UB"
let ae_value args =
  match args with
  | [op; sm; si; tm; ti; trail] ->
    let v = { ae_operation = n_of_s op; ae_sender_mac = bytes_of_hex sm; ae_sender_ipv4 = bytes_of_hex si;
              ae_target_mac = bytes_of_hex tm; ae_target_ipv4 = bytes_of_hex ti } in
    if not (wf_ae v) then "noval | -" else
    let tb = ae_to_bytes v in
    let (d, dh) = ae_dec (tb @ bytes_of_hex trail) in
    let eq = match dh with Some x -> b01 (x = v) | None -> "-" in
    Printf.sprintf "v=%s tb=%s w=%s ws=- hl=28 d=%s eq=%s rd=- | %s" (ae_canon v) (hex_of_bytes tb) (ae_w v) d eq
      (hex_of_bytes (arp_layout (n_of_int 1) (n_of_int 2048) v.ae_operation v.ae_sender_mac v.ae_sender_ipv4
                       v.ae_target_mac v.ae_target_ipv4))
  | _ -> failwith "arpeth value args"
let ae_bytes (bs : bytes) =
  match ae_dec bs with
  | (_, None) -> "err rd=- | -"
  | (_, Some v) ->
    let re = ae_to_bytes v in
    let rest = List.filteri (fun i _ -> i >= 28) bs in
    let (d2, _) = ae_dec (re @ rest) in
    Printf.sprintf "ok used=28 v=%s re=%s w=%s ws=- hl=28 d2=%s rd=- | %s" (ae_canon v) (hex_of_bytes re) (ae_w v) d2
      (hex_of_bytes (ones (n_of_int 28)))

(* Ipv4Extensions: the value is (start number, extensions, final number); encode = [start] ++ write(start);
   canon = start,final,nh:spi:seq:icv | - *)
let x4_canon ((start, e, n) : n * ipv4Extensions * n) : string =
  Printf.sprintf "%s,%s,%s" (s_of_n start) (s_of_n n)
    (match x4_auth e with
     | Some h -> Printf.sprintf "%s:%s:%s:%s" (s_of_n h.ah_next_header) (s_of_n h.ah_spi) (s_of_n h.ah_sequence_number)
                   (hexo (ah_raw_icv h))
     | None -> "-")
let x4_enc (start : n) (e : ipv4Extensions) : bytes =
  start :: (match x4_write [] e start with Ok b -> b | Err _ -> [n_of_int 0xde; n_of_int 0xad])
let x4_dec (f : bytes -> n -> ((ipv4Extensions * n) * bytes) res) (bs : bytes) : string * (n * ipv4Extensions * n) option =
  match bs with
  | [] -> ("err", None)
  | start :: tl ->
    (match f tl start with
     | Ok ((e, n), rest) -> (x4_canon (start, e, n) ^ "/" ^ ilen rest, Some (start, e, n))
     | Err _ -> ("err", None))
let x4_fs tl start = x4_from_slice start tl
let x4_value args =
  match args with
  | [start; auth; trail] ->
    let start = n_of_s start in
    if int_of_n start > 255 then "noval | -" else
    let a = if auth = "-" then Some None else
        (match String.split_on_char ':' auth with
         | [nh; spi; sq; icv] ->
           (match ah_new (n_of_s nh) (n_of_s spi) (n_of_s sq) (bytes_of_hex icv) with
            | Some h -> if wf_ah h then Some (Some h) else None
            | None -> None)
         | _ -> failwith "ext4 auth") in
    (match a with
     | None -> "noval | -"
     | Some a ->
       let e : ipv4Extensions = a in   (* single-field record: extracted as its field *)
       let fin = x4_final start e in
       let tb = x4_enc start e in
       let input = tb @ bytes_of_hex trail in
       let (d, dh) = x4_dec x4_fs input in
       let (r, _) = x4_dec x4_read input in
       let eq = match dh with Some (s2, e2, n2) -> b01 (s2 = start && x4_eqb e2 e && n2 = fin) | None -> "-" in
       Printf.sprintf "v=%s tb=%s w=%s ws=- hl=%s d=%s eq=%s rd=%s | -" (x4_canon (start, e, fin)) (hex_of_bytes tb)
         (hex_of_bytes tb) (string_of_int (1 + int_of_n (x4_header_len e))) d eq r)
  | _ -> failwith "ext4 value args"
let x4_bytes (bs : bytes) =
  match x4_dec x4_fs bs with
  | (_, None) -> Printf.sprintf "err rd=%s | -" (match x4_dec x4_read bs with (_, Some _) -> "ok" | _ -> "err")
  | (_, Some (start, e, n)) ->
    let hl = 1 + int_of_n (x4_header_len e) in
    let rest = List.filteri (fun i _ -> i >= hl) bs in
    let used = List.length bs - List.length rest in
    let re = x4_enc start e in
    let (d2, _) = x4_dec x4_fs (re @ rest) in
    let (r, _) = x4_dec x4_read bs in
    Printf.sprintf "ok used=%d v=%s re=%s w=%s ws=- hl=%d d2=%s rd=%s | %s" used (x4_canon (start, e, n))
      (hex_of_bytes re) (hex_of_bytes re) hl d2 r (hex_of_bytes (n_of_int 255 :: x4_keep_mask e))

let run_linknet (line : string) : string option =
  match Conv.split_ws line with
  | "v" :: "macsec" :: args -> Some (mac_value args)
  | ["b"; "macsec"; h] -> Some (mac_bytes (bytes_of_hex h))
  | "v" :: "auth" :: args -> Some (ah_value args)
  | ["b"; "auth"; h] -> Some (ah_bytes (bytes_of_hex h))
  | "v" :: "rawext" :: args -> Some (rx_value args)
  | ["b"; "rawext"; h] -> Some (rx_bytes (bytes_of_hex h))
  | "v" :: "ipv6" :: args -> Some (ip6_value args)
  | ["b"; "ipv6"; h] -> Some (ip6_bytes (bytes_of_hex h))
  | "v" :: "eth" :: args -> Some (eth_value args)
  | ["b"; "eth"; h] -> Some (eth_bytes (bytes_of_hex h))
  | "v" :: "vlan" :: args -> Some (vl_value args)
  | ["b"; "vlan"; h] -> Some (vl_bytes (bytes_of_hex h))
  | "v" :: "sll" :: args -> Some (sll_value args)
  | ["b"; "sll"; h] -> Some (sll_bytes (bytes_of_hex h))
  | "v" :: "arp" :: args -> Some (arp_value args)
  | ["b"; "arp"; h] -> Some (arp_bytes (bytes_of_hex h))
  | "v" :: "arpeth" :: args -> Some (ae_value args)
  | ["b"; "arpeth"; h] -> Some (ae_bytes (bytes_of_hex h))
  | "v" :: "ext4" :: args -> Some (x4_value args)
  | "b" :: "ext4" :: h :: _ -> Some (x4_bytes (bytes_of_hex h))
  | _ -> None
(* ---- end extend-c08a ---- *)

(* ---- transport/control types (extend-c08b): ocaml/run_c08_transport.ml.in ---- *)
(*INCLUDE run_c08_transport.ml.in*)

(* ---- IpHeaders (extend-c08c): ocaml/run_c08_iph.ml.in ---- *)
(*INCLUDE run_c08_iph.ml.in*)

let run (line : string) : string =
  match run_linknet line with Some r -> r | None ->   (* extend-c08a hook *)
  match run_transport line with Some r -> r | None -> (* extend-c08b hook *)
  match run_iph line with Some r -> r | None ->       (* extend-c08c hook *)
  match Conv.split_ws line with
  | "v" :: "tcp" :: args -> tcp_value args
  | ["b"; "tcp"; h] -> tcp_bytes (bytes_of_hex h)
  | "v" :: "ipv4" :: args -> ip4_value args
  | ["b"; "ipv4"; h] -> ip4_bytes (bytes_of_hex h)
  | "v" :: "frag" :: args -> frag_value args
  | ["b"; "frag"; h] -> frag_bytes (bytes_of_hex h)
  | ("v" | "b") :: _ :: _ -> "NOMODEL | -"
  | _ -> failwith ("bad c08 case: " ^ line)

let () =
  Conv.iter_lines Sys.argv.(1) (fun l ->
      print_endline (try run l with Failure m -> "MODEL-FAIL " ^ m))
