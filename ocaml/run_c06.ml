(* C06: model side of the entry-point pairs (same field names as harness/src/bin/c06.rs) *)
open M_c06
(*INCLUDE pfmt.ml.in*)

let join = String.concat " ;; "
let res_str (okf : 'a -> string) (r : 'a res) : string =
  match r with Ok a -> okf a | Err e -> "err " ^ slice_err e | Bug s -> "BUG " ^ sn s

(* ---- group 1 ---- *)
let eth bs =
  let a = vres (vres_of (SlicedPacket.from_ethernet bs)) in
  match rd bs (n_of_int 12), rd bs (n_of_int 13) with
  | Some x, Some y ->
    let b = shift_vres (n_of_int 14)
        (vres_of (SlicedPacket.from_ether_type (be16 x y) (drop (n_of_int 14) bs))) in
    join ["S.a=" ^ a; "S.b=" ^ vres b]
  | _ -> join ["S.a=" ^ a; "S.b=-"]

let ett et bs =
  join ["S.a=" ^ vres (vres_of (SlicedPacket.from_ether_type (n_of_int et) bs));
        "S.b=" ^ vres (vres_of (SlicedPacket.from_ip bs))]

(* ---- group 2 ---- *)
let olen_s = function Some s -> sn (s_len s) | None -> "0"
let lax_pl p =
  Printf.sprintf "pl(%s,%s,%s,%s,%s)" (b01 p.lipp_incomplete) (sn p.lipp_number) (b01 p.lipp_fragmented)
    (src_tag p.lipp_src) (win (win_of p.lipp_slice))
let rec_v4 v = Printf.sprintf "ok 4 h=%s x=%s %s" (win (win_of v.v4_header)) (olen_s v.v4_auth) (vip (view_ipp v.v4_payload))
let rec_v6 v = Printf.sprintf "ok 6 h=%s x=%s %s" (win (win_of v.v6_header)) (sn (s_len v.v6_exts.x6_slice)) (vip (view_ipp v.v6_payload))
let rec_lv4 v stop = Printf.sprintf "ok 4 h=%s x=%s %s stop=%s" (win (win_of v.lv4_header)) (olen_s v.lv4_auth) (lax_pl v.lv4_payload) stop
let rec_lv6 v stop = Printf.sprintf "ok 6 h=%s x=%s %s stop=%s" (win (win_of v.lv6_header)) (sn (s_len v.lv6_exts.x6_slice)) (lax_pl v.lv6_payload) stop
let stop_exts = function None -> "none" | Some (e, l) -> "(" ^ slice_err e ^ ")@" ^ layer_tag l
let stop_auth = function None -> "none" | Some e -> "(" ^ slice_err e ^ ")@IpAuthHeader"
let rec_h (h, p) =
  match h with
  | IhV4 (hd, a) -> Printf.sprintf "ok 4 h=%s x=%s %s" (win (win_of hd)) (olen_s a) (vip (view_ipp p))
  | IhV6 (hd, x) -> Printf.sprintf "ok 6 h=%s x=%s %s" (win (win_of hd)) (sn (exts6_len x)) (vip (view_ipp p))

let ipb bs =
  let s = mk_slice bs in
  join [
    "IpSlice=" ^ res_str (function IpV4 v -> rec_v4 v | IpV6 v -> rec_v6 v) (IpSlice.from_slice s);
    "Ipv4Slice=" ^ res_str rec_v4 (Ipv4Slice.from_slice s);
    "Ipv6Slice=" ^ res_str rec_v6 (Ipv6Slice.from_slice s);
    "LaxIpSlice=" ^ res_str (function (LIpV4 v, st) -> rec_lv4 v (stop_exts st) | (LIpV6 v, st) -> rec_lv6 v (stop_exts st))
      (LaxIpSlice.from_slice s);
    "LaxIpv4Slice=" ^ res_str (fun (v, st) -> rec_lv4 v (stop_auth st)) (LaxIpv4Slice.from_slice s);
    "LaxIpv6Slice=" ^ res_str (fun (v, st) -> rec_lv6 v (stop_exts st)) (LaxIpv6Slice.from_slice s);
    "IpHeaders=" ^ res_str rec_h (IpHeaders.from_slice s);
    "IpHeaders4=" ^ res_str rec_h (IpHeaders.from_ipv4_slice s);
    "IpHeaders6=" ^ res_str rec_h (IpHeaders.from_ipv6_slice s);
  ]

(* ---- group 3 ---- *)
let cerr_tag = function
  | CHopNotAtStart -> "HopNotAtStart" | CNotReferenced _ -> "NotReferenced" | CPayloadLen -> "PayloadLen"
  | CIcmpv6InIpv4 -> "Icmpv6InIpv4" | CVersion -> "Version" | CIhl -> "Ihl" | CDataOffset -> "DataOffset"
  | CAuthZeroLen -> "AuthZeroLen" | CMacsecVersion -> "MacsecVersion" | CMacsecShortLen -> "MacsecShortLen"
let outcome = function
  | OOk n -> "ok " ^ sn n
  | OEof -> "eof"
  | OContent (KC c) -> "content " ^ cerr_tag c
  | OContent (KSllPacketType v) -> "content LinuxSllPacketType " ^ sn v
  | OContent (KSllArpHardwareId v) -> "content LinuxSllArpHardwareId " ^ sn v
  | OLen (r, l, s, ly, o) -> Printf.sprintf "len %s,%s,%s,%s,%s" (sn r) (sn l) (sn s) (sn ly) (sn o)
  | OBad s -> "BAD " ^ sn s

let hdr_type name arg =
  match name with
  | "Ethernet2Header" -> HEthernet2 | "SingleVlanHeader" -> HSingleVlan | "LinuxSllHeader" -> HLinuxSll
  | "MacsecHeader" -> HMacsec | "Ipv4Header" -> HIpv4 | "Ipv6Header" -> HIpv6 | "IpAuthHeader" -> HIpAuth
  | "Ipv6RawExtHeader" -> HIpv6RawExt | "Ipv6FragmentHeader" -> HIpv6Frag | "ArpPacket" -> HArp
  | "TcpHeader" -> HTcp | "UdpHeader" -> HUdp | "Icmpv4Header" -> HIcmpv4 | "Icmpv6Header" -> HIcmpv6
  | "Ipv4Extensions" -> HIpv4Exts (n_of_int arg) | "Ipv6Extensions" -> HIpv6Exts (n_of_int arg)
  | "IpHeaders" -> HIpHeaders
  | _ -> failwith ("header type " ^ name)

let rdcase t bs =
  let name, arg =
    match String.split_on_char ':' t with
    | [n] -> (n, 0) | [n; a] -> (n, int_of_string a) | _ -> failwith "rd tag" in
  let ty = hdr_type name arg in
  join ["r=" ^ outcome (read_outcome ty bs); "s=" ^ outcome (slice_outcome ty bs)]

let run (line : string) : string =
  match Conv.split_ws line with
  | [entry; h] ->
    let bs = bytes_of_hex h in
    if entry = "eth" then eth bs
    else if entry = "et4" then ett 2048 bs
    else if entry = "et6" then ett 34525 bs
    else if entry = "ipb" then ipb bs
    else if String.length entry > 3 && String.sub entry 0 3 = "rd:" then
      rdcase (String.sub entry 3 (String.length entry - 3)) bs
    else failwith "entry"
  | _ -> failwith ("bad c06 case: " ^ line)

let () =
  Conv.iter_lines Sys.argv.(1) (fun l ->
      print_endline (try run l with Failure m -> "MODEL-FAIL " ^ m))
