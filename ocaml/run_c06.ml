(* C06: model side of the entry-point pairs (same field names as harness/src/bin/c06.rs) *)
open M_c06
(*INCLUDE pfmt.ml.in*)

let join = String.concat " ;; "
let res_str (okf : 'a -> string) (r : 'a res) : string =
  match r with Ok a -> okf a | Err e -> "err " ^ slice_err e | Bug s -> "BUG " ^ sn s

(* ---- LaxPacketHeaders (format of harness/src/c06fmt.rs lax_headers) ---- *)
let lax_pl p =
  Printf.sprintf "pl(%s,%s,%s,%s,%s)" (b01 p.lipp_incomplete) (sn p.lipp_number) (b01 p.lipp_fragmented)
    (src_tag p.lipp_src) (win (win_of p.lipp_slice))
let sll_ptype = function
  | SllIgnored v -> "ign:" ^ sn v | SllNetlink v -> "netlink:" ^ sn v | SllGre v -> "gre:" ^ sn v
  | SllEtherType v -> "et:" ^ sn v | SllNonstandard v -> "nonstd:" ^ sn v
let lh_payload_str = function
  | LHpEmpty -> "empty"
  | LHpEther e ->
    Printf.sprintf "ether(%s,%s,%s,%s)" (b01 e.lep_incomplete) (sn e.lep_ether_type) (src_tag e.lep_src)
      (win (win_of e.lep_slice))
  | LHpMacsecMod (i, s) -> Printf.sprintf "macsecmod(%s,%s)" (b01 i) (win (win_of s))
  | LHpIp p -> lax_pl p
  | LHpUdp (i, s) -> Printf.sprintf "udp(%s,%s)" (b01 i) (win (win_of s))
  | LHpTcp (i, s) -> Printf.sprintf "tcp(%s,%s)" (b01 i) (win (win_of s))
  | LHpIcmpv4 (i, s) -> Printf.sprintf "icmp4(%s,%s)" (b01 i) (win (win_of s))
  | LHpIcmpv6 (i, s) -> Printf.sprintf "icmp6(%s,%s)" (b01 i) (win (win_of s))
  | LHpLinuxSll (pt, s) -> Printf.sprintf "sll(%s,%s)" (sll_ptype pt) (win (win_of s))
let stop_str = function None -> "none" | Some (e, l) -> "(" ^ slice_err e ^ ")@" ^ layer_tag l
let some01 = function Some _ -> "1" | None -> "0"
let lhp (p : lhpacket) =
  Printf.sprintf "ok layers=%s%d%s%s pay=%s stop=%s" (some01 p.lh_link) (List.length p.lh_exts)
    (some01 p.lh_net) (some01 p.lh_transport) (lh_payload_str p.lh_payload) (stop_str p.lh_stop)

(* ---- group 1 ---- *)
let eth bs =
  let a = vres (vres_of (SlicedPacket.from_ethernet bs)) in
  let qa = res_str lhp (LaxPacketHeaders.from_ethernet bs) in
  match rd bs (n_of_int 12), rd bs (n_of_int 13) with
  | Some x, Some y ->
    let k = n_of_int 14 in
    let b = shift_vres k (vres_of (SlicedPacket.from_ether_type (be16 x y) (drop k bs))) in
    (* what C06_laxheaders_ethernet_eq_ethertype says from_ethernet is, computed from from_ether_type *)
    let qb = lh_behind k (HlEthernet2 (n_of_int 0, take k bs))
        (LaxPacketHeaders.from_ether_type (be16 x y) (drop k bs)) in
    join ["S.a=" ^ a; "S.b=" ^ vres b; "Q.a=" ^ qa; "Q.b=" ^ res_str lhp qb]
  | _ -> join ["S.a=" ^ a; "S.b=-"; "Q.a=" ^ qa]

let sll bs =
  let a = vres (vres_of (SlicedPacket.from_linux_sll bs)) in
  let qa = res_str lhp (LaxPacketHeaders.from_linux_sll bs) in
  match sll_head bs with
  | SllEther et ->
    let k = n_of_int 16 in
    let b = shift_vres k (vres_of (SlicedPacket.from_ether_type et (drop k bs))) in
    let qb = lh_behind k (HlLinuxSll (n_of_int 0, take k bs)) (LaxPacketHeaders.from_ether_type et (drop k bs)) in
    join ["S.a=" ^ a; "S.b=" ^ vres b; "Q.a=" ^ qa; "Q.b=" ^ res_str lhp qb; "cls=ether:" ^ sn et]
  | c ->
    join ["S.a=" ^ a; "S.b=-"; "Q.a=" ^ qa; "Q.b=-";
          "cls=" ^ (match c with SllShort -> "short" | SllReject _ -> "reject" | _ -> "other")]

let ett et bs =
  join ["S.a=" ^ vres (vres_of (SlicedPacket.from_ether_type (n_of_int et) bs));
        "S.b=" ^ vres (vres_of (SlicedPacket.from_ip bs));
        "Q.a=" ^ res_str lhp (LaxPacketHeaders.from_ether_type (n_of_int et) bs);
        "Q.b=" ^ res_str lhp (LaxPacketHeaders.from_ip bs)]

(* ---- group 2 ---- *)
let olen_s = function Some s -> sn (s_len s) | None -> "0"
let rec_v4 v = Printf.sprintf "ok 4 h=%s x=%s %s" (win (win_of v.v4_header)) (olen_s v.v4_auth) (vip (view_ipp v.v4_payload))
let rec_v6 v = Printf.sprintf "ok 6 h=%s x=%s %s" (win (win_of v.v6_header)) (sn (s_len v.v6_exts.x6_slice)) (vip (view_ipp v.v6_payload))
let rec_lv4 v stop = Printf.sprintf "ok 4 h=%s x=%s %s stop=%s" (win (win_of v.lv4_header)) (olen_s v.lv4_auth) (lax_pl v.lv4_payload) stop
let rec_lv6 v stop = Printf.sprintf "ok 6 h=%s x=%s %s stop=%s" (win (win_of v.lv6_header)) (sn (s_len v.lv6_exts.x6_slice)) (lax_pl v.lv6_payload) stop
let stop_exts = function None -> "none" | Some (e, l) -> "(" ^ slice_err e ^ ")@" ^ layer_tag l
let stop_auth = function None -> "none" | Some e -> "(" ^ slice_err e ^ ")@IpAuthHeader"
let rec_h (h, p) =
  match h with
  | IhV4 (hd, a) -> Printf.sprintf "ok 4 h=%s x=%s %s" (win (win_of hd)) (olen_s a) (vip (view_ipp p))
  | IhV6 (hd, x) -> Printf.sprintf "ok 6 h=%s x=%s %s" (win (win_of hd)) (sn (exts6_len x)) (vip (view_ipp p))
let rec_hl stopf ((h, p), st) =
  match h with
  | IhV4 (hd, a) -> Printf.sprintf "ok 4 h=%s x=%s %s stop=%s" (win (win_of hd)) (olen_s a) (lax_pl p) (stopf st)
  | IhV6 (hd, x) -> Printf.sprintf "ok 6 h=%s x=%s %s stop=%s" (win (win_of hd)) (sn (exts6_len x)) (lax_pl p) (stopf st)

let ipb bs =
  let s = mk_slice bs in
  join [
    "IpSlice=" ^ res_str (function IpV4 v -> rec_v4 v | IpV6 v -> rec_v6 v) (IpSlice.from_slice s);
    "Ipv4Slice=" ^ res_str rec_v4 (Ipv4Slice.from_slice s);
    "Ipv6Slice=" ^ res_str rec_v6 (Ipv6Slice.from_slice s);
    "LaxIpSlice=" ^ res_str (function (LIpV4 v, st) -> rec_lv4 v (stop_exts st) | (LIpV6 v, st) -> rec_lv6 v (stop_exts st))
      (LaxIpSlice.from_slice s);
    "LaxIpv4Slice=" ^ res_str (fun (v, st) -> rec_lv4 v (stop_auth st)) (LaxIpv4Slice.from_slice s);
    "LaxIpv6Slice=" ^ res_str (fun (v, st) -> rec_lv6 v (stop_exts st)) (LaxIpv6Slice.from_slice s);
    "IpHeaders=" ^ res_str rec_h (IpHeaders.from_slice s);
    "IpHeaders4=" ^ res_str rec_h (IpHeaders.from_ipv4_slice s);
    "IpHeaders6=" ^ res_str rec_h (IpHeaders.from_ipv6_slice s);
    "IpHeadersLax=" ^ res_str (rec_hl stop_exts) (LaxIpHeaders.from_slice_lax s);
    "IpHeaders4Lax=" ^ res_str (rec_hl stop_auth) (LaxIpHeadersSpecific.from_ipv4_slice_lax s);
    "IpHeaders6Lax=" ^ res_str (rec_hl stop_exts) (LaxIpHeadersSpecific.from_ipv6_slice_lax s);
    (* round 3 (v6lax): the 13th copy, model Parse/Ipv6SliceLax.v *)
    "Ipv6SliceLax=" ^ res_str rec_v6 (Ipv6SliceLax.from_slice_lax s);
  ]

(* ---- group 3 ---- *)
let cerr_tag = function
  | CHopNotAtStart -> "HopNotAtStart" | CNotReferenced _ -> "NotReferenced" | CPayloadLen -> "PayloadLen"
  | CIcmpv6InIpv4 -> "Icmpv6InIpv4" | CVersion -> "Version" | CIhl -> "Ihl" | CDataOffset -> "DataOffset"
  | CAuthZeroLen -> "AuthZeroLen" | CMacsecVersion -> "MacsecVersion" | CMacsecShortLen -> "MacsecShortLen"
let outcome = function
  | OOk n -> "ok " ^ sn n
  | OEof -> "eof"
  | OContent (KC c) -> "content " ^ cerr_tag c
  | OContent (KSllPacketType v) -> "content LinuxSllPacketType " ^ sn v
  | OContent (KSllArpHardwareId v) -> "content LinuxSllArpHardwareId " ^ sn v
  | OLen (r, l, s, ly, o) -> Printf.sprintf "len %s,%s,%s,%s,%s" (sn r) (sn l) (sn s) (sn ly) (sn o)
  | OBad s -> "BAD " ^ sn s

let hdr_type name arg =
  match name with
  | "Ethernet2Header" -> HEthernet2 | "SingleVlanHeader" -> HSingleVlan | "LinuxSllHeader" -> HLinuxSll
  | "MacsecHeader" -> HMacsec | "Ipv4Header" -> HIpv4 | "Ipv6Header" -> HIpv6 | "IpAuthHeader" -> HIpAuth
  | "Ipv6RawExtHeader" -> HIpv6RawExt | "Ipv6FragmentHeader" -> HIpv6Frag | "ArpPacket" -> HArp
  | "TcpHeader" -> HTcp | "UdpHeader" -> HUdp | "Icmpv4Header" -> HIcmpv4 | "Icmpv6Header" -> HIcmpv6
  | "Ipv4Extensions" -> HIpv4Exts (n_of_int arg) | "Ipv6Extensions" -> HIpv6Exts (n_of_int arg)
  | "IpHeaders" -> HIpHeaders
  | _ -> failwith ("header type " ^ name)

let rdcase t bs =
  let name, arg =
    match String.split_on_char ':' t with
    | [n] -> (n, 0) | [n; a] -> (n, int_of_string a) | _ -> failwith "rd tag" in
  let ty = hdr_type name arg in
  join ["r=" ^ outcome (read_outcome ty bs); "s=" ^ outcome (slice_outcome ty bs)]

let run (line : string) : string =
  match Conv.split_ws line with
  | [entry; h] ->
    let bs = bytes_of_hex h in
    if entry = "eth" then eth bs
    else if entry = "sll" then sll bs
    else if entry = "et4" then ett 2048 bs
    else if entry = "et6" then ett 34525 bs
    else if entry = "ipb" then ipb bs
    else if String.length entry > 3 && String.sub entry 0 3 = "rd:" then
      rdcase (String.sub entry 3 (String.length entry - 3)) bs
    else failwith "entry"
  | _ -> failwith ("bad c06 case: " ^ line)

let () =
  Conv.iter_lines Sys.argv.(1) (fun l ->
      print_endline (try run l with Failure m -> "MODEL-FAIL " ^ m))
