(* C03 field values: model | spec for the strict whole-packet slicers.
   model = Parse/Fields.v fields_of_packet ++ Parse/Fields2.v fields2_of_packet (accessor models
           of Parse/Access.v on the slices of the model's strict result)
   spec  = Parse/Fields.v spec_fields ++ Parse/Fields2.v spec_fields2 on the view produced by the
           reference decoder (Parse/WireSpec.v) -- does not touch the model
   Line: `ok <layer>:<field>=<value>;... <layer>:...` | `err` | `BUG <site>`;
   numbers decimal, flags 0/1, octet runs lowercase hex (`-` = empty). *)
open M_c03f

let rec pos_of_z (z : Z.t) : positive =
  if Z.equal z Z.one then XH
  else if Z.testbit z 0 then XI (pos_of_z (Z.shift_right z 1))
  else XO (pos_of_z (Z.shift_right z 1))
let n_of_z z = if Z.sign z = 0 then N0 else Npos (pos_of_z z)
let rec z_of_pos = function
  | XH -> Z.one
  | XO p -> Z.shift_left (z_of_pos p) 1
  | XI p -> Z.succ (Z.shift_left (z_of_pos p) 1)
let z_of_n = function N0 -> Z.zero | Npos p -> z_of_pos p
let n_of_int i = n_of_z (Z.of_int i)
let sn n = Z.to_string (z_of_n n)
let bytes_of_hex h = List.map n_of_int (Conv.unhex h)

let ltag = function
  | LEth -> "eth" | LSll -> "sll" | LVlan -> "vlan" | LMacsec -> "macsec" | LArp -> "arp"
  | LIpv4 -> "ipv4" | LAuth -> "auth" | LIpv6 -> "ipv6" | LHopByHop -> "hopbyhop"
  | LRouting -> "routing" | LDestOpts -> "destopts" | LFragment -> "fragment" | LUdp -> "udp"
  | LTcp -> "tcp" | LIcmp4 -> "icmp4" | LIcmp6 -> "icmp6"
let ftag = function
  | Fdst -> "dst" | Fsrc -> "src" | Fether_type -> "ether_type"
  | Fpacket_type -> "packet_type" | Fhw_type -> "hw_type" | Faddr_len -> "addr_len" | Faddr -> "addr"
  | Fprotocol -> "protocol" | Fpcp -> "pcp" | Fdei -> "dei" | Fvid -> "vid"
  | Fv -> "v" | Fes -> "es" | Fsc -> "sc" | Fscb -> "scb" | Fe -> "e" | Fc -> "c" | Fan -> "an"
  | Fsl -> "sl" | Fpn -> "pn" | Fsci -> "sci"
  | Fproto_type -> "proto_type" | Fhw_size -> "hw_size" | Fproto_size -> "proto_size"
  | Foperation -> "operation" | Fsender_hw -> "sender_hw" | Fsender_proto -> "sender_proto"
  | Ftarget_hw -> "target_hw" | Ftarget_proto -> "target_proto"
  | Fversion -> "version" | Fihl -> "ihl" | Fdscp -> "dscp" | Fecn -> "ecn" | Ftotal_len -> "total_len"
  | Fident -> "ident" | Fdf -> "df" | Fmf -> "mf" | Ffrag_off -> "frag_off" | Fttl -> "ttl"
  | Fchecksum -> "checksum" | Foptions -> "options"
  | Fnext_header -> "next_header" | Fpayload_len -> "payload_len" | Fspi -> "spi" | Fseq -> "seq"
  | Ficv -> "icv" | Ftraffic_class -> "traffic_class" | Fflow_label -> "flow_label"
  | Fhop_limit -> "hop_limit" | Flen_byte -> "len_byte" | Fpayload -> "payload"
  | Fsrc_port -> "src_port" | Fdst_port -> "dst_port" | Flength -> "length"
  | Fack_nr -> "ack_nr" | Fdata_offset -> "data_offset" | Fns -> "ns" | Fcwr -> "cwr" | Fece -> "ece"
  | Furg -> "urg" | Fack -> "ack" | Fpsh -> "psh" | Frst -> "rst" | Fsyn -> "syn" | Ffin -> "fin"
  | Fwindow -> "window" | Furgent -> "urgent" | Ftype -> "type" | Fcode -> "code"
  | Fbytes4to8 -> "bytes4to8"
let fval = function
  | FvN n -> sn n
  | FvB b -> if b then "1" else "0"
  | FvBytes l -> Conv.hex (List.map (fun n -> Z.to_int (z_of_n n)) l)
let layer (t, fs) =
  ltag t ^ ":" ^ String.concat ";" (List.map (fun (f, v) -> ftag f ^ "=" ^ fval v) fs)
(* -- begin audit follow-up: derived / typed accessor values (Parse/Fields2.v); the layers are
   appended to the same line as `<layer>.d:<field>=<value>;...`; windows `off+len`, optional
   values `none`, length sources as in harness parsefmt::src_tag -- *)
let dtag = function
  | Dfcs -> "fcs" | Dheader -> "header" | Dpayload -> "payload" | Dsender_address -> "sender_address"
  | Dis_unmodified -> "is_unmodified" | Dptype -> "ptype" | Dptype_ether_type -> "ptype_ether_type"
  | Dnext_ether_type -> "next_ether_type" | Dheader_len -> "header_len"
  | Dexpected_payload_len -> "expected_payload_len"
  | Dsender_hw -> "sender_hw" | Dsender_proto -> "sender_proto" | Dtarget_hw -> "target_hw"
  | Dtarget_proto -> "target_proto" | Dpayload_len -> "payload_len"
  | Dis_fragmenting_payload -> "is_fragmenting_payload" | Dpl_ip_number -> "pl_ip_number"
  | Dpl_fragmented -> "pl_fragmented" | Dpl_len_source -> "pl_len_source" | Dpl_window -> "pl_window"
  | Ddscp -> "dscp" | Decn -> "ecn" | Dpayload_len_source -> "payload_len_source"
let src_tag = function
  | LsSlice -> "slice" | LsMacsecShortLength -> "macsecsl" | LsIpv4HeaderTotalLen -> "ip4tl"
  | LsIpv6HeaderPayloadLen -> "ip6pl" | LsUdpHeaderLen -> "udplen" | LsTcpHeaderLen -> "tcphl"
  | LsArpAddrLengths -> "arplen"
let dval = function
  | DvN n -> sn n
  | DvB b -> if b then "1" else "0"
  | DvWin (o, l) -> sn o ^ "+" ^ sn l
  | DvOptN None -> "none"
  | DvOptN (Some n) -> sn n
  | DvOptBytes None -> "none"
  | DvOptBytes (Some l) -> Conv.hex (List.map (fun n -> Z.to_int (z_of_n n)) l)
  | DvSrc s -> src_tag s
let dlayer (t, fs) =
  ltag t ^ ".d:" ^ String.concat ";" (List.map (fun (f, v) -> dtag f ^ "=" ^ dval v) fs)
let layers2 ls ds =
  if ls = [] && ds = [] then "ok -" else "ok " ^ String.concat " " (List.map layer ls @ List.map dlayer ds)
(* -- end audit follow-up -- *)

let run (line : string) : string =
  match Conv.split_ws line with
  | [entry; h] ->
    let bs = bytes_of_hex h in
    let m, s =
      if entry = "eth" then (SlicedPacket.from_ethernet bs, wire_ethernet bs)
      else if entry = "sll" then (SlicedPacket.from_linux_sll bs, wire_linux_sll bs)
      else if entry = "ip" then (SlicedPacket.from_ip bs, wire_from_ip bs)
      else if String.length entry > 3 && String.sub entry 0 3 = "et:" then begin
        let et = n_of_z (Z.of_string (String.sub entry 3 (String.length entry - 3))) in
        (SlicedPacket.from_ether_type et bs, wire_ether_type bs et)
      end else failwith "entry"
    in
    let ms = match m with
      | Err _ -> "err"
      | Bug b -> "BUG slicer " ^ sn b
      | Ok p -> (match fields_of_packet p, fields2_of_packet p with
          | Ok ls, Ok ds -> layers2 ls ds
          | Err _, _ | _, Err _ -> "ERR accessor"
          | Bug b, _ | _, Bug b -> "BUG accessor " ^ sn b) in
    let ss = match s with
      | VOk v -> layers2 (spec_fields bs v) (spec_fields2 bs v)
      | VErr _ -> "err"
      | VBug b -> "BUG spec " ^ sn b in
    ms ^ " | " ^ ss
  | _ -> failwith ("bad c03f case: " ^ line)

let () =
  Conv.iter_lines Sys.argv.(1) (fun l ->
      print_endline (try run l with Failure m -> "MODEL-FAIL " ^ m))
