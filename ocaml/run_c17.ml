(* model + spec side of the C17 correspondence: same case file as the Rust
   harness (harness/src/bin/c17.rs), one line per case:
   "<model result> | <spec result>".  The same printers are applied to the
   value computed by the model (CtlMsg/Model.v) and by the specification
   (CtlMsg/Spec.v). *)
open M_c17

let rec pos_of_int (i : int) : positive =
  if i = 1 then XH else if i land 1 = 1 then XI (pos_of_int (i lsr 1)) else XO (pos_of_int (i lsr 1))
let n_of_int i = if i = 0 then N0 else Npos (pos_of_int i)
let rec z_of_pos = function
  | XH -> Z.one
  | XO p -> Z.shift_left (z_of_pos p) 1
  | XI p -> Z.succ (Z.shift_left (z_of_pos p) 1)
let z_of_n = function N0 -> Z.zero | Npos p -> z_of_pos p
let s_of_n n = Z.to_string (z_of_n n)
let int_of_n n = Z.to_int (z_of_n n)
let bytes_of_hex h = List.map n_of_int (Conv.unhex h)
let hex_of_bytes (b : n list) = Conv.hex (List.map int_of_n b)
let rec nat_of_int i = if i = 0 then O else S (nat_of_int (i - 1))
let b01 b = if b then "1" else "0"
let llen l = List.length l

(* range of a suffix `sub` of a slice of total length `total` that starts at `base` *)
let suffix_range base total sub = Printf.sprintf "%d+%d" (base + total - llen sub) (llen sub)

let s_layer = function
  | LIcmpv4 -> "I4" | LIcmpv4Timestamp -> "I4T" | LIcmpv4TimestampReply -> "I4TR"
  | LIcmpv6 -> "I6" | LIgmp -> "IG" | LArp -> "ARP"
let s_src = function LsSlice -> "S" | LsArpAddrLengths -> "A"
let s_err (e : len_error) =
  Printf.sprintf "E:%s,%s,%s,%s,%s" (s_of_n e.required_len) (s_of_n e.elen) (s_src e.len_src)
    (s_layer e.elayer) (s_of_n e.layer_start_offset)

let s_res (f : 'a -> string) (r : 'a res) : string =
  match r with Ok v -> f v | ErrLen e -> s_err e | UB n -> "UB" ^ s_of_n n

let s_du = function
  | DuNetwork -> "Network" | DuHost -> "Host" | DuProtocol -> "Protocol" | DuPort -> "Port"
  | DuFragmentationNeeded m -> "FragmentationNeeded " ^ s_of_n m
  | DuSourceRouteFailed -> "SourceRouteFailed" | DuNetworkUnknown -> "NetworkUnknown"
  | DuHostUnknown -> "HostUnknown" | DuIsolated -> "Isolated"
  | DuNetworkProhibited -> "NetworkProhibited" | DuHostProhibited -> "HostProhibited"
  | DuTosNetwork -> "TosNetwork" | DuTosHost -> "TosHost" | DuFilterProhibited -> "FilterProhibited"
  | DuHostPrecedenceViolation -> "HostPrecedenceViolation" | DuPrecedenceCutoff -> "PrecedenceCutoff"
let s_redirect = function
  | RedirectForNetwork -> "Network" | RedirectForHost -> "Host"
  | RedirectForTypeOfServiceAndNetwork -> "TosNetwork" | RedirectForTypeOfServiceAndHost -> "TosHost"
let s_ts (m : timestampMessage) =
  Printf.sprintf "%s %s %s %s %s" (s_of_n m.ts_id) (s_of_n m.ts_seq) (s_of_n m.ts_originate)
    (s_of_n m.ts_receive) (s_of_n m.ts_transmit)
let s_v4 = function
  | V4Unknown (t, c, a, b, c', d) ->
    Printf.sprintf "Unk %s %s %s %s %s %s" (s_of_n t) (s_of_n c) (s_of_n a) (s_of_n b) (s_of_n c') (s_of_n d)
  | V4EchoReply (i, s) -> Printf.sprintf "EchoReply %s %s" (s_of_n i) (s_of_n s)
  | V4DestinationUnreachable h -> "DU " ^ s_du h
  | V4Redirect (c, a, b, c', d) ->
    Printf.sprintf "Redirect %s %s.%s.%s.%s" (s_redirect c) (s_of_n a) (s_of_n b) (s_of_n c') (s_of_n d)
  | V4EchoRequest (i, s) -> Printf.sprintf "EchoRequest %s %s" (s_of_n i) (s_of_n s)
  | V4TimeExceeded TtlExceededInTransit -> "TE Ttl"
  | V4TimeExceeded FragmentReassemblyTimeExceeded4 -> "TE Frag"
  | V4ParameterProblem (PointerIndicatesError p) -> "PP Pointer " ^ s_of_n p
  | V4ParameterProblem MissingRequiredOption -> "PP Missing"
  | V4ParameterProblem BadLength -> "PP BadLength"
  | V4TimestampRequest m -> "TsReq " ^ s_ts m
  | V4TimestampReply m -> "TsRep " ^ s_ts m

let s_du6 = function
  | NoRoute -> "NoRoute" | Prohibited -> "Prohibited" | BeyondScope -> "BeyondScope"
  | Address6 -> "Address" | Port6 -> "Port" | SourceAddressFailedPolicy -> "SourceAddressFailedPolicy"
  | RejectRoute -> "RejectRoute"
let s_pp6 = function
  | ErroneousHeaderField -> "ErroneousHeaderField" | UnrecognizedNextHeader -> "UnrecognizedNextHeader"
  | UnrecognizedIpv6Option -> "UnrecognizedIpv6Option"
  | Ipv6FirstFragmentIncompleteHeaderChain -> "Ipv6FirstFragmentIncompleteHeaderChain"
  | SrUpperLayerHeaderError -> "SrUpperLayerHeaderError"
  | UnrecognizedNextHeaderByIntermediateNode -> "UnrecognizedNextHeaderByIntermediateNode"
  | ExtensionHeaderTooBig -> "ExtensionHeaderTooBig" | ExtensionHeaderChainTooLong -> "ExtensionHeaderChainTooLong"
  | TooManyExtensionHeaders -> "TooManyExtensionHeaders"
  | TooManyOptionsInExtensionHeader -> "TooManyOptionsInExtensionHeader" | OptionTooBig -> "OptionTooBig"
let s_v6 = function
  | V6Unknown (t, c, a, b, c', d) ->
    Printf.sprintf "Unk %s %s %s %s %s %s" (s_of_n t) (s_of_n c) (s_of_n a) (s_of_n b) (s_of_n c') (s_of_n d)
  | V6DestinationUnreachable c -> "DU " ^ s_du6 c
  | V6PacketTooBig m -> "PTB " ^ s_of_n m
  | V6TimeExceeded HopLimitExceeded -> "TE HopLimit"
  | V6TimeExceeded FragmentReassemblyTimeExceeded6 -> "TE Frag"
  | V6ParameterProblem (c, p) -> Printf.sprintf "PP %s %s" (s_pp6 c) (s_of_n p)
  | V6EchoRequest (i, s) -> Printf.sprintf "EchoRequest %s %s" (s_of_n i) (s_of_n s)
  | V6EchoReply (i, s) -> Printf.sprintf "EchoReply %s %s" (s_of_n i) (s_of_n s)
  | V6RouterSolicitation -> "RS"
  | V6RouterAdvertisement (h, m, o, l) -> Printf.sprintf "RA %s %s %s %s" (s_of_n h) (b01 m) (b01 o) (s_of_n l)
  | V6NeighborSolicitation -> "NS"
  | V6NeighborAdvertisement (r, s, o) -> Printf.sprintf "NA %s %s %s" (b01 r) (b01 s) (b01 o)
  | V6Redirect -> "Redirect"

let s_pk = function
  | PkDestinationUnreachable -> "DU" | PkPacketTooBig -> "PTB" | PkTimeExceeded -> "TE"
  | PkParameterProblem -> "PP" | PkEchoRequest -> "EchoRequest" | PkEchoReply -> "EchoReply"
  | PkRouterSolicitation -> "RS" | PkRouterAdvertisement -> "RA" | PkNeighborSolicitation -> "NS"
  | PkNeighborAdvertisement -> "NA" | PkRedirect -> "Redirect" | PkRaw -> "Raw"
(* total: length of the whole ICMPv6 message; every sub-slice is a suffix of it *)
let s_pview total = function
  | PvWhole (k, p) -> Printf.sprintf "%s all=%s" (s_pk k) (suffix_range 0 total p)
  | PvRouterSolicitation o -> Printf.sprintf "RS opts=%s" (suffix_range 0 total o)
  | PvRouterAdvertisement (r, t, o) ->
    Printf.sprintf "RA %s %s opts=%s" (s_of_n r) (s_of_n t) (suffix_range 0 total o)
  | PvNeighborSolicitation (a, o) -> Printf.sprintf "NS %s opts=%s" (hex_of_bytes a) (suffix_range 0 total o)
  | PvNeighborAdvertisement (a, o) -> Printf.sprintf "NA %s opts=%s" (hex_of_bytes a) (suffix_range 0 total o)
  | PvRedirect (a, d, o) ->
    Printf.sprintf "Redirect %s %s opts=%s" (hex_of_bytes a) (hex_of_bytes d) (suffix_range 0 total o)

let s_kind = function
  | KSrcLL -> "SrcLL" | KTgtLL -> "TgtLL" | KPrefix -> "Prefix" | KRedir -> "Redir" | KMtu -> "Mtu"
  | KUnknownOpt -> "Unknown"
let s_nerr = function
  | UnexpectedEndOfSlice (i, e, a) -> Printf.sprintf "ERR EOS %s %s %s" (s_of_n i) (s_of_n e) (s_of_n a)
  | ZeroLength i -> "ERR Zero " ^ s_of_n i
  | UnexpectedSize (i, e, a) -> Printf.sprintf "ERR Size %s %s %s" (s_of_n i) (s_of_n e) (s_of_n a)
  | UnexpectedHeader (a, b, c, d) ->
    Printf.sprintf "ERR Hdr %s %s %s %s" (s_of_n a) (s_of_n b) (s_of_n c) (s_of_n d)
(* off: offset of the option in the area *)
let s_oview off optlen = function
  | OvLinkLayer (_, a) -> "ll=" ^ suffix_range off optlen a
  | OvPrefix (pl, l, a, v, p, pre) ->
    Printf.sprintf "pl=%s L=%s A=%s v=%s p=%s pre=%s" (s_of_n pl) (b01 l) (b01 a) (s_of_n v) (s_of_n p)
      (hex_of_bytes pre)
  | OvRedirected p -> "pkt=" ^ suffix_range off optlen p
  | OvMtu m -> "mtu=" ^ s_of_n m
  | OvUnknown (t, d) -> Printf.sprintf "ty=%s data=%s" (s_of_n t) (suffix_range off optlen d)
let s_item off (view : ndp_kind -> bytes -> oview res) = function
  | IOk (k, s) ->
    Printf.sprintf "%s %d+%d %s" (s_kind k) off (llen s) (s_res (s_oview off (llen s)) (view k s))
  | IErr e -> s_nerr e
  | IUB n -> "UB" ^ s_of_n n

(* the model iterator driven step by step like the harness drives `.next()` *)
let ndp_model (area : bytes) : string =
  let total = llen area in
  let buf = Buffer.create 64 in
  let rec go state steps =
    if steps > 100000 then Buffer.add_string buf "LOOP"
    else match Ndp.next state with
      | None -> Buffer.add_string buf (Printf.sprintf "end rest=%d" (llen state))
      | Some (it, state') ->
        let off = total - llen state in
        Buffer.add_string buf (s_item off Ndp.opt_accessors it);
        Buffer.add_string buf " ; ";
        go state' (steps + 1)
  in
  go area 0;
  (* the fuelled run used in the theorems must agree *)
  (match Ndp.collect (nat_of_int (total + 1)) area with
   | None -> Buffer.add_string buf " OUT-OF-FUEL"
   | Some _ -> ());
  Buffer.contents buf
let ndp_spec (area : bytes) : string =
  let items = parse_opts (nat_of_int (llen area)) area in
  let buf = Buffer.create 64 in
  let off = ref 0 in
  List.iter (fun it ->
      Buffer.add_string buf (s_item !off (fun k s -> Ok (opt_view k s)) it);
      Buffer.add_string buf " ; ";
      (match it with IOk (_, s) -> off := !off + llen s | _ -> ())) items;
  Buffer.add_string buf "end rest=0";
  Buffer.contents buf

let s_ga a b c d = Printf.sprintf "%s.%s.%s.%s" (s_of_n a) (s_of_n b) (s_of_n c) (s_of_n d)
let s_igmp_ty t10 fl sf qrv = function
  | IgMembershipQuery (m, a, b, c, d) -> Printf.sprintf "Query %s %s" (s_of_n m) (s_ga a b c d)
  | IgMembershipQueryWithSources (m, a, b, c, d, raw, qqic, n) ->
    Printf.sprintf "QueryV3 %s %s %s %s %s t10=%s fl=%s s=%s qrv=%s" (s_of_n m) (s_ga a b c d) (s_of_n raw)
      (s_of_n qqic) (s_of_n n) (s_of_n (t10 m)) (s_of_n (fl raw)) (b01 (sf raw)) (s_of_n (qrv raw))
  | IgMembershipReportV1 (a, b, c, d) -> "ReportV1 " ^ s_ga a b c d
  | IgMembershipReportV2 (a, b, c, d) -> "ReportV2 " ^ s_ga a b c d
  | IgMembershipReportV3 (f0, f1, n) -> Printf.sprintf "ReportV3 %s %s %s" (s_of_n f0) (s_of_n f1) (s_of_n n)
  | IgLeaveGroup (a, b, c, d) -> "Leave " ^ s_ga a b c d
  | IgUnknown (t, r, a, b, c, d) ->
    Printf.sprintf "Unk %s %s %s %s %s %s" (s_of_n t) (s_of_n r) (s_of_n a) (s_of_n b) (s_of_n c) (s_of_n d)
let s_igmp total t10 fl sf qrv (((ty, ck), hl), rest) =
  Printf.sprintf "%s ck=%s hl=%s rest=%s" (s_igmp_ty t10 fl sf qrv ty) (s_of_n ck) (s_of_n hl)
    (suffix_range 0 total rest)
let s_gr total ((g : groupRecord), rest) =
  Printf.sprintf "GR %s %s %s %s rest=%s" (s_of_n g.record_type) (s_of_n g.aux_data_len)
    (s_of_n g.gr_num_of_sources) (s_ga g.m0 g.m1 g.m2 g.m3) (suffix_range 0 total rest)

let s_addr (off, b) = Printf.sprintf "%s+%d:%s" (s_of_n off) (llen b) (hex_of_bytes b)
let s_arp_view (v : arpView) =
  Printf.sprintf "len=%s hw=%s pt=%s hs=%s ps=%s op=%s shw=%s sp=%s thw=%s tp=%s" (s_of_n v.av_len)
    (s_of_n v.av_hw_type) (s_of_n v.av_proto_type) (s_of_n v.av_hw_size) (s_of_n v.av_proto_size)
    (s_of_n v.av_operation) (s_addr v.av_sender_hw) (s_addr v.av_sender_proto) (s_addr v.av_target_hw)
    (s_addr v.av_target_proto)
let s_arp_eth = function
  | ArpOk p ->
    Printf.sprintf "eth %s %s %s %s %s" (s_of_n p.arp_operation) (hex_of_bytes p.sender_mac)
      (hex_of_bytes p.sender_ipv4) (hex_of_bytes p.target_mac) (hex_of_bytes p.target_ipv4)
  | ArpLenErr e -> s_err e
  | ArpFromErr (NonMatchingHwType t) -> "ethE HwType " ^ s_of_n t
  | ArpFromErr (NonMatchingProtocolType t) -> "ethE ProtoType " ^ s_of_n t
  | ArpFromErr (NonMatchingHwAddrSize t) -> "ethE HwSize " ^ s_of_n t
  | ArpFromErr (NonMatchingProtoAddrSize t) -> "ethE ProtoSize " ^ s_of_n t
  | ArpUB n -> "UB" ^ s_of_n n

let run (line : string) : string =
  match Conv.split_ws line with
  | ["i4"; h] ->
    let bs = bytes_of_hex h in
    let total = llen bs in
    let pr ((ty, hl), p) = Printf.sprintf "%s hl=%s pl=%s" (s_v4 ty) (s_of_n hl) (suffix_range 0 total p) in
    s_res pr (Icmpv4Slice.view bs) ^ " | " ^ s_res pr (icmp4 bs)
  | ["i6"; h] ->
    let bs = bytes_of_hex h in
    let total = llen bs in
    let pr (ty, p) = Printf.sprintf "%s pl=%s" (s_v6 ty) (suffix_range 0 total p) in
    s_res pr (Icmpv6Slice.view bs) ^ " | " ^ s_res pr (icmp6 bs)
  | ["p6"; h] ->
    let bs = bytes_of_hex h in
    let total = llen bs in
    let pr = s_res (s_pview total) in
    let spec = pr (icmp6_payload bs) in
    pr (Icmpv6PayloadSlice.payload_slice_view bs) ^ " ; " ^ pr (Icmpv6PayloadSlice.payload_slice_view_by_type bs)
    ^ " | " ^ spec ^ " ; " ^ spec
  | ["no"; h] ->
    let bs = bytes_of_hex h in
    ndp_model bs ^ " | " ^ ndp_spec bs
  | ["ig"; h] ->
    let bs = bytes_of_hex h in
    let total = llen bs in
    s_res (s_igmp total Igmp.as_10th_secs Igmp.flags Igmp.s_flag Igmp.qrv) (Igmp.view bs)
    ^ " | " ^ s_res (s_igmp total max_resp_time query_flags query_s_flag query_qrv) (igmp bs)
  | ["gr"; h] ->
    let bs = bytes_of_hex h in
    let total = llen bs in
    s_res (s_gr total) (Igmp.group_record_from_slice bs) ^ " | " ^ s_res (s_gr total) (group_record bs)
  | ["mr"; c] ->
    let c = n_of_int (int_of_string c) in
    Printf.sprintf "t10=%s fl=%s s=%s qrv=%s | t10=%s fl=%s s=%s qrv=%s"
      (s_of_n (Igmp.as_10th_secs c)) (s_of_n (Igmp.flags c)) (b01 (Igmp.s_flag c)) (s_of_n (Igmp.qrv c))
      (s_of_n (max_resp_time c)) (s_of_n (query_flags c)) (b01 (query_s_flag c)) (s_of_n (query_qrv c))
  | ["arp"; h] ->
    let bs = bytes_of_hex h in
    s_res s_arp_view (Arp.slice_view bs) ^ " ; " ^ s_arp_eth (Arp.eth_ipv4_view bs)
    ^ " | " ^ s_res s_arp_view (arp_view bs) ^ " ; " ^ s_arp_eth (arp_eth_ipv4 bs)
  (* ---- audit1-c17 ---- *)
  | ["oc"; k; h] ->
    (* a typed NDP option slice constructed directly from arbitrary bytes: model constructor |
       closed form; an accepted option is printed with its accessors like an iterator item *)
    let bs = bytes_of_hex h in
    let kind = match int_of_string k with
      | 1 -> KSrcLL | 2 -> KTgtLL | 3 -> KPrefix | 4 -> KRedir | 5 -> KMtu | _ -> KUnknownOpt in
    let pr view = function
      | Ndp.NOk s -> s_item 0 view (IOk (kind, s))
      | Ndp.NErr e -> s_nerr e
      | Ndp.NUB n -> "UB" ^ s_of_n n in
    pr Ndp.opt_accessors (typed_ctor kind bs) ^ " | " ^ pr (fun k s -> Ok (opt_view k s)) (typed_ctor_spec kind bs)
  (* ---- end audit1-c17 ---- *)
  | _ -> failwith ("bad c17 case: " ^ line)

let () =
  Conv.iter_lines Sys.argv.(1) (fun l ->
      print_endline (try run l with Failure m -> "MODEL-FAIL " ^ m))
