(* Conversions between the extracted Coq numbers and OCaml values, shared by
   all runners.  Functorised over nothing: each runner passes the extracted
   constructors explicitly through the small record below. *)
let unhex (s : string) : int list =
  if s = "-" then []
  else begin
    let n = String.length s in
    if n mod 2 <> 0 then failwith ("odd hex: " ^ s);
    let nib c =
      match c with
      | '0' .. '9' -> Char.code c - 48
      | 'a' .. 'f' -> Char.code c - 87
      | 'A' .. 'F' -> Char.code c - 55
      | _ -> failwith "bad hex"
    in
    List.init (n / 2) (fun i -> (nib s.[2 * i] lsl 4) lor nib s.[(2 * i) + 1])
  end

let hex (l : int list) : string =
  if l = [] then "-" else String.concat "" (List.map (Printf.sprintf "%02x") l)

let split_ws (s : string) : string list =
  List.filter (fun x -> x <> "") (String.split_on_char ' ' (String.trim s))

let iter_lines (file : string) (f : string -> unit) : unit =
  let ic = open_in file in
  (try
     while true do
       let l = String.trim (input_line ic) in
       if l <> "" && l.[0] <> '#' then f l
     done
   with End_of_file -> ());
  close_in ic
