(* accessor windows of the strict whole-packet slicers: model side.
   Output: `ok off+len,off+len,...` (order of SlicedPacketA.windows), `err`, or
   `BUG ...` when the slicer, an accessor run or a window accessor returns Bug. *)
open M_c01

let rec pos_of_z (z : Z.t) : positive =
  if Z.equal z Z.one then XH
  else if Z.testbit z 0 then XI (pos_of_z (Z.shift_right z 1))
  else XO (pos_of_z (Z.shift_right z 1))
let n_of_z z = if Z.sign z = 0 then N0 else Npos (pos_of_z z)
let rec z_of_pos = function
  | XH -> Z.one
  | XO p -> Z.shift_left (z_of_pos p) 1
  | XI p -> Z.succ (Z.shift_left (z_of_pos p) 1)
let z_of_n = function N0 -> Z.zero | Npos p -> z_of_pos p
let n_of_int i = n_of_z (Z.of_int i)
let sn n = Z.to_string (z_of_n n)
let bytes_of_hex h = List.map n_of_int (Conv.unhex h)

let show_windows ws =
  let ws = List.map (fun w ->
      match w with
      | Ok s -> let (o, l) = win_of s in sn o ^ "+" ^ sn l
      | Err _ -> "ERR"
      | Bug s -> "BUG" ^ sn s) ws in
  if ws = [] then "-" else String.concat "," ws

(* extend-c01b: LaxSlicedPacket entry points `leth`, `lip`, `let:<n>` *)
let run_lax (entry : string) (bs : n list) : string =
  let r =
    if entry = "leth" then LaxSlicedPacket.from_ethernet bs
    else if entry = "lip" then LaxSlicedPacket.from_ip bs
    else if String.length entry > 4 && String.sub entry 0 4 = "let:" then
      LaxSlicedPacket.from_ether_type (n_of_z (Z.of_string (String.sub entry 4 (String.length entry - 4)))) bs
    else failwith "entry"
  in
  match r with
  | Err _ -> "err"
  | Bug s -> "BUG slicer " ^ sn s
  | Ok p ->
    let bad = List.filter (fun a -> match a with Bug _ -> true | _ -> false) (LaxSlicedPacketA.accessors p) in
    if bad <> [] then "BUG accessor"
    else
      "ok " ^ show_windows (LaxSlicedPacketA.windows p) ^ " ids=" ^
      (match LaxSlicedPacketA.vlan_ids p with
       | Ok l -> String.concat "/" (List.map sn l)
       | Err _ -> "ERR"
       | Bug s -> "BUG" ^ sn s)

(* round 3: packet-level accessors of a STRICT result, entries `peth`, `psll`, `pip`, `pet:<n>`:
   values of payload_ether_type / ether_payload / ip_payload / is_ip_payload_fragmented / vlan /
   vlan_ids (Parse/PacketAccess.v) *)
let src_tag = function
  | LsSlice -> "slice" | LsIpv4HeaderTotalLen -> "v4total" | LsIpv6HeaderPayloadLen -> "v6payload"
  | LsUdpHeaderLen -> "udplen" | LsTcpHeaderLen -> "tcplen" | LsArpAddrLengths -> "arplen"
  | LsMacsecShortLength -> "macsec"
let win s = let (o, l) = win_of s in sn o ^ "+" ^ sn l
let show_res f = function Ok v -> f v | Err _ -> "ERR" | Bug s -> "BUG" ^ sn s
let run_pkt (entry : string) (bs : n list) : string =
  let r =
    if entry = "peth" then SlicedPacket.from_ethernet bs
    else if entry = "psll" then SlicedPacket.from_linux_sll bs
    else if entry = "pip" then SlicedPacket.from_ip bs
    else if String.length entry > 4 && String.sub entry 0 4 = "pet:" then
      SlicedPacket.from_ether_type (n_of_z (Z.of_string (String.sub entry 4 (String.length entry - 4)))) bs
    else failwith "entry"
  in
  match r with
  | Err _ -> "err"
  | Bug s -> "BUG slicer " ^ sn s
  | Ok p ->
    let bad = List.filter (fun a -> match a with Bug _ -> true | _ -> false) (SlicedPacketPA.packet_accessors p) in
    if bad <> [] then "BUG accessor"
    else
      "ok pet=" ^ show_res (function None -> "-" | Some v -> sn v) (SlicedPacketPA.payload_ether_type p)
      ^ " ep=" ^ show_res (function None -> "-" | Some e ->
            sn e.ep_ether_type ^ ":" ^ src_tag e.ep_src ^ ":" ^ win e.ep_slice) (SlicedPacketPA.ether_payload p)
      ^ " ip=" ^ show_res (function None -> "-" | Some i ->
            sn i.ipp_number ^ ":" ^ (if i.ipp_fragmented then "1" else "0") ^ ":" ^ src_tag i.ipp_src ^ ":" ^ win i.ipp_slice)
          (SlicedPacketPA.ip_payload p)
      ^ " frag=" ^ show_res (fun b -> if b then "1" else "0") (SlicedPacketPA.is_ip_payload_fragmented p)
      ^ " vlan=" ^ show_res (function None -> "-" | Some (a, None) -> win a | Some (a, Some b) -> win a ^ "/" ^ win b)
          (SlicedPacketPA.vlan p)
      ^ " ids=" ^ show_res (fun l -> String.concat "/" (List.map sn l)) (SlicedPacketPA.vlan_ids p)
      ^ " w=" ^ show_windows (SlicedPacketPA.packet_windows p)

let run (line : string) : string =
  match Conv.split_ws line with
  | [entry; h] when String.length entry > 0 && entry.[0] = 'p' -> run_pkt entry (bytes_of_hex h)
  | [entry; h] when String.length entry > 0 && entry.[0] = 'l' -> run_lax entry (bytes_of_hex h)
  | [entry; h] ->
    let bs = bytes_of_hex h in
    let r =
      if entry = "eth" then SlicedPacket.from_ethernet bs
      else if entry = "sll" then SlicedPacket.from_linux_sll bs
      else if entry = "ip" then SlicedPacket.from_ip bs
      else if String.length entry > 3 && String.sub entry 0 3 = "et:" then
        SlicedPacket.from_ether_type (n_of_z (Z.of_string (String.sub entry 3 (String.length entry - 3)))) bs
      else failwith "entry"
    in
    (match r with
     | Err _ -> "err"
     | Bug s -> "BUG slicer " ^ sn s
     | Ok p ->
       let bad = List.filter (fun a -> match a with Bug _ -> true | _ -> false) (SlicedPacketA.accessors p) in
       if bad <> [] then "BUG accessor"
       else
         let ws = List.map (fun w ->
             match w with
             | Ok s -> let (o, l) = win_of s in sn o ^ "+" ^ sn l
             | Err _ -> "ERR"
             | Bug s -> "BUG" ^ sn s) (SlicedPacketA.windows p) in
         "ok " ^ (if ws = [] then "-" else String.concat "," ws))
  | _ -> failwith ("bad c01acc case: " ^ line)

let () =
  Conv.iter_lines Sys.argv.(1) (fun l ->
      print_endline (try run l with Failure m -> "MODEL-FAIL " ^ m))
