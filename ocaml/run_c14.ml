(* model + spec side of the C14 correspondence: same case file as the Rust
   harness (harness/src/bin/c14.rs), one line per case:
   "<model result> | <what Limits/Spec.v demands>" *)
open M_c14

let rec pos_of_z (z : Z.t) : positive =
  if Z.equal z Z.one then XH
  else if Z.testbit z 0 then XI (pos_of_z (Z.shift_right z 1))
  else XO (pos_of_z (Z.shift_right z 1))
let n_of_z z = if Z.sign z = 0 then N0 else Npos (pos_of_z z)
let rec z_of_pos = function
  | XH -> Z.one
  | XO p -> Z.shift_left (z_of_pos p) 1
  | XI p -> Z.succ (Z.shift_left (z_of_pos p) 1)
let z_of_n = function N0 -> Z.zero | Npos p -> z_of_pos p
let ni i = n_of_z (Z.of_int i)
let ns s = n_of_z (Z.of_string s)
let sn n = Z.to_string (z_of_n n)
let int_of_n n = Z.to_int (z_of_n n)
let ( +! ) = N.add
let ( *! ) = N.mul
let sp = Printf.sprintf

(* ------------------------------------------------------------ constants *)
let src4 = [192; 168; 1; 1]
let dst4 = [10; 0; 0; 7]
let src6 = [1; 2; 3; 4; 5; 6; 7; 8; 9; 10; 11; 12; 13; 14; 15; 16]
let dst6 = [21; 22; 23; 24; 25; 26; 27; 28; 29; 30; 31; 32; 33; 34; 35; 36]
let sport = 0x1234
let dport = 0x5678
let be16 i = [(i lsr 8) land 255; i land 255]
let be32 i = [(i lsr 24) land 255; (i lsr 16) land 255; (i lsr 8) land 255; i land 255]
let zeros k = List.init k (fun _ -> 0)

(* RFC 1071 over a byte list (the extracted Checksum.Spec.rfc1071); the
   payload of every case is all-zero and contributes nothing to the sum *)
let ck (l : int list) : int = int_of_n (rfc1071 (List.map ni l))
let nz c = if c = 0 then 65535 else c
let udp_hdr_bytes lenfield = be16 sport @ be16 dport @ be16 lenfield @ [0; 0]
let ck_udp4 pseudo lenfield = nz (ck (src4 @ dst4 @ [0; 17] @ be16 pseudo @ udp_hdr_bytes lenfield))
let ck_udp6 pseudo lenfield = nz (ck (src6 @ dst6 @ [0; 17] @ be16 pseudo @ udp_hdr_bytes lenfield))
let tcp_hdr_bytes ol =
  be16 sport @ be16 dport @ zeros 8 @ [(5 + ol / 4) lsl 4; 0] @ zeros 6 @ zeros ol
let ck_tcp4 ol l = ck (src4 @ dst4 @ [0; 6] @ be16 l @ tcp_hdr_bytes ol)
let ck_tcp6 ol l = ck (src6 @ dst6 @ be32 l @ [0; 6] @ tcp_hdr_bytes ol)
let ck_icmp6 l = ck (src6 @ dst6 @ [0; 58] @ be32 l @ [128; 0; 1; 2; 3; 4])

(* ------------------------------------------------------------- printing *)
let kind = function
  | Ipv4PayloadLength -> "Ipv4PayloadLength"
  | Ipv6PayloadLength -> "Ipv6PayloadLength"
  | UdpPayloadLengthIpv4 -> "UdpPayloadLengthIpv4"
  | UdpPayloadLengthIpv6 -> "UdpPayloadLengthIpv6"
  | TcpPayloadLengthIpv4 -> "TcpPayloadLengthIpv4"
  | TcpPayloadLengthIpv6 -> "TcpPayloadLengthIpv6"
  | Icmpv6PayloadLength -> "Icmpv6PayloadLength"
  | MacsecShortLen -> "MacsecShortLen"
let vtb e = sp "Err a=%s m=%s t=%s" (sn e.actual) (sn e.max_allowed) (kind e.vtype)
let vtb3 a m k = sp "Err a=%s m=%s t=%s" (sn a) (sn m) (kind k)
let panic s = sp "PANIC model site %s" (sn s)
let hex2 n = let i = int_of_n n in sp "%02x%02x" ((i lsr 8) land 255) (i land 255)
let b01 b = if b then "1" else "0"
let opt = function Some n -> sn n | None -> "-"
let optn s = if s = "-" then None else Some (ns s)
let getn = function Ok n -> n | _ -> failwith "model arithmetic failed"
let icv_e = function IcvTooBig n -> sp "Err big %s" (sn n) | IcvUnaligned n -> sp "Err unal %s" (sn n)
let ext_e = function
  | ExtTooSmall n -> sp "Err small %s" (sn n)
  | ExtTooBig n -> sp "Err big %s" (sn n)
  | ExtUnaligned n -> sp "Err unal %s" (sn n)
let arp_e = function
  | ArpHwNonMatching (a, b) -> sp "Err hwnm %s %s" (sn a) (sn b)
  | ArpProtoNonMatching (a, b) -> sp "Err prnm %s %s" (sn a) (sn b)
  | ArpHwTooBig a -> sp "Err hwbig %s" (sn a)
  | ArpProtoTooBig a -> sp "Err prbig %s" (sn a)

(* ------------------------------------------------------------- headers *)
let v6x = function
  | [hop; dst; route; fin; frag; auth] ->
    { x_hop = optn hop; x_dst = optn dst;
      x_route = (match optn route with Some r -> Some (r, optn fin) | None -> None);
      x_frag = (frag = "1"); x_auth = optn auth }
  | _ -> failwith "v6exts"
(* the specification's own idea of the length of these extension headers:
   RFC 4302 (12 + ICV), RFC 8200 (2 + data, fragment header 8) *)
let spec_ah_len l = ni 12 +! (ni 4 *! l)
let spec_raw_len hl = ni 2 +! (ni 6 +! (ni 8 *! hl))
let spec_v4x = function Some l -> spec_ah_len l | None -> N0
let spec_v6x x =
  let o f = function Some l -> f l | None -> N0 in
  o spec_raw_len x.x_hop +! o spec_raw_len x.x_dst
  +! (match x.x_route with Some (r, f) -> spec_raw_len r +! o spec_raw_len f | None -> N0)
  +! (if x.x_frag then ni 8 else N0) +! o spec_ah_len x.x_auth

let transport_of s =
  if s = "none" then TNone else if s = "udp" then TUdp
  else if s = "icmp4" then TIcmpv4 (ni 8) else if s = "icmp6" then TIcmpv6
  else if String.length s > 4 && String.sub s 0 4 = "tcp:" then
    TTcp { t_opt_len = ns (String.sub s 4 (String.length s - 4)); t_rest = N0 }
  else failwith "transport"
(* RFC sizes of the transport headers used by the cases *)
let spec_transport_len = function
  | TNone -> N0 | TUdp -> ni 8 | TTcp h -> tcp_hdr_len h.t_opt_len | TIcmpv4 _ -> ni 8 | TIcmpv6 -> ni 8

let el_sizes (s : string) : n list =
  let out = ref [] in
  let i = ref 0 in
  while !i < String.length s do
    (match s.[!i] with
     | '-' -> ()
     | 'n' -> out := 1 :: !out
     | 'm' -> out := 4 :: !out
     | 'w' -> out := 3 :: !out
     | 'p' -> out := 2 :: !out
     | 't' -> out := 10 :: !out
     | 's' -> incr i; out := (10 + 8 * (Char.code s.[!i] - 48)) :: !out
     | _ -> failwith "element");
    incr i
  done;
  List.rev_map ni !out

let tcp_state ol =
  let d = getn (tcp_data_offset ol) in
  sp "ol=%s do=%s hl=%s enc=%s" (sn ol) (sn d) (sn (tcp_header_len { t_opt_len = ol; t_rest = N0 })) (sn d)
let spec_tcp_state ol =
  let hl = tcp_hdr_len ol in
  let d = int_of_n hl / 4 in
  sp "ol=%s do=%d hl=%s enc=%d" (sn ol) d (sn hl) d
let v4opt_state (h : ipv4h) =
  let ihl = getn (ipv4_ihl h) in
  sp "ol=%s ihl=%s hl=%s enc=%s" (sn h.v4_opt_len) (sn ihl) (sn (ipv4_header_len h)) (sn ihl)
let spec_v4opt_state o =
  let hl = ipv4_hdr_len o in
  let ihl = int_of_n hl / 4 in
  sp "ol=%s ihl=%d hl=%s enc=%d" (sn o) ihl (sn hl) ihl
let ah_state (h : ahh) =
  sp "f=%s hl=%s n=%s" (sn (getn (ah_len_byte h))) (sn (ah_header_len h.a_raw_icv_len)) (sn (ah_raw_icv_len_bytes h))
(* spec: field f with ah_dec f = n *)
let spec_ah_state n = sp "f=%d hl=%s n=%s" ((12 + int_of_n n) / 4 - 2) (sn (ni 12 +! n)) (sn n)
let ext_state (h : exth) =
  sp "f=%s hl=%s n=%s" (sn h.e_header_length) (sn (rawext_header_len h.e_header_length)) (sn (rawext_payload_len h))
let spec_ext_state n = sp "f=%d hl=%s n=%s" ((2 + int_of_n n) / 8 - 1) (sn (ni 2 +! n)) (sn n)
let arp_state (h : arph) =
  sp "hw=%s pr=%s enc=%02x%02x len=%s" (sn h.ar_hw_size) (sn h.ar_proto_size)
    (int_of_n h.ar_hw_size) (int_of_n h.ar_proto_size)
    (sn (ni 8 +! (ni 2 *! h.ar_hw_size) +! (ni 2 *! h.ar_proto_size)))

let spec_arp_pair tagnm tagbig s t =
  if not (N.eqb s t) then Some (sp "Err %s %s %s" tagnm (sn s) (sn t))
  else if not (arp_reprb s) then Some (sp "Err %s %s" tagbig (sn s))
  else None

(* ----------------------------------------------------------------- cases *)
let run (line : string) : string =
  let j m s = m ^ " | " ^ s in
  match Conv.split_ws line with
  | ["v4new"; _seed; v] ->
    let v = ns v in
    let m = (match ipv4_new v N0 with
        | Ok h -> sp "Ok tl=%s ol=%s enc=%s dec=%s" (sn h.v4_total_len) (sn h.v4_opt_len)
                    (hex2 h.v4_total_len) (opt (ipv4_payload_len h))
        | Err e -> vtb e | Panic s -> panic s) in
    let s = if ipv4_reprb N0 v then sp "Ok tl=%s ol=0 dec=%s" (sn (ipv4_hdr_len N0 +! v)) (sn v)
      else vtb3 v (ipv4_max N0) Ipv4PayloadLength in
    j m s
  | ["v4set"; ol; tl0; _seed; v] ->
    let ol = ns ol and tl0 = ns tl0 and v = ns v in
    let h = { v4_total_len = tl0; v4_opt_len = ol; v4_rest = ni 1 } in
    let (r, h') = ipv4_set_payload_len h v in
    let rest = b01 (h'.v4_opt_len = h.v4_opt_len && h'.v4_rest = h.v4_rest) in
    let m = (match r with
        | Ok () -> sp "Ok tl=%s enc=%s dec=%s rest=%s" (sn h'.v4_total_len) (hex2 h'.v4_total_len)
                     (opt (ipv4_payload_len h')) rest
        | Err e -> sp "%s tl=%s rest=%s" (vtb e) (sn h'.v4_total_len) rest
        | Panic s -> panic s) in
    let s = if ipv4_reprb ol v then sp "Ok tl=%s dec=%s rest=1" (sn (ipv4_hdr_len ol +! v)) (sn v)
      else sp "%s tl=%s rest=1" (vtb3 v (ipv4_max ol) Ipv4PayloadLength) (sn tl0) in
    j m s
  | ["v4opt"; n] ->
    let n = ns n in
    let m = (match ipv4_options_try_from n with
        | Ok l -> sp "Ok len=%s" (sn l) | Err b -> sp "Err bad_len=%s" (sn b) | Panic s -> panic s) in
    let s = if ipv4_opts_reprb n then sp "Ok len=%s" (sn n) else sp "Err bad_len=%s" (sn n) in
    j m s
  | ["v4setopt"; ol0; n] ->
    let ol0 = ns ol0 and n = ns n in
    let h = { v4_total_len = ni 1000; v4_opt_len = ol0; v4_rest = ni 1 } in
    let (r, h') = ipv4_set_options h n in
    let m = (match r with
        | Ok () -> sp "Ok %s" (v4opt_state h')
        | Err b -> sp "Err bad_len=%s %s%s" (sn b) (v4opt_state h') (if h' = h then "" else " MODIFIED")
        | Panic s -> panic s) in
    let s = if ipv4_opts_reprb n then sp "Ok %s" (spec_v4opt_state n)
      else sp "Err bad_len=%s %s" (sn n) (spec_v4opt_state ol0) in
    j m s
  | ["v6set"; pl0; _seed; v] ->
    let pl0 = ns pl0 and v = ns v in
    let h = { v6_payload_length = pl0; v6_rest = ni 1 } in
    let (r, h') = ipv6_set_payload_length h v in
    let rest = b01 (h'.v6_rest = h.v6_rest) in
    let m = (match r with
        | Ok () -> sp "Ok pl=%s enc=%s rest=%s" (sn h'.v6_payload_length) (hex2 h'.v6_payload_length) rest
        | Err e -> sp "%s pl=%s rest=%s" (vtb e) (sn h'.v6_payload_length) rest
        | Panic s -> panic s) in
    let s = if ipv6_reprb v then sp "Ok pl=%s rest=1" (sn v)
      else sp "%s pl=%s rest=1" (vtb3 v ipv6_max Ipv6PayloadLength) (sn pl0) in
    j m s
  | ["iph4"; ol; icv; tl0; v] ->
    let ol = ns ol and x = optn icv and tl0 = ns tl0 and v = ns v in
    let h = { v4_total_len = tl0; v4_opt_len = ol; v4_rest = ni 1 } in
    let (r, s') = iph_set_payload_len (IpV4 (h, x)) v in
    let (len, rest) = (match s' with
        | IpV4 (h', x') -> (h'.v4_total_len, b01 (h'.v4_opt_len = ol && h'.v4_rest = h.v4_rest && x' = x))
        | _ -> (N0, "0")) in
    let m = (match r with
        | Ok () -> sp "Ok len=%s rest=%s" (sn len) rest
        | Err e -> sp "%s len=%s rest=%s" (vtb e) (sn len) rest
        | Panic s -> panic s) in
    let e = spec_v4x x in
    let s = if iph4_reprb ol e v then sp "Ok len=%s rest=1" (sn (ipv4_hdr_len ol +! e +! v))
      else sp "%s len=%s rest=1" (vtb3 v (iph4_max ol e) Ipv4PayloadLength) (sn tl0) in
    j m s
  | ["iph6"; hop; dst; route; fin; frag; auth; pl0; v] ->
    let x = v6x [hop; dst; route; fin; frag; auth] and pl0 = ns pl0 and v = ns v in
    let h = { v6_payload_length = pl0; v6_rest = ni 1 } in
    let (r, s') = iph_set_payload_len (IpV6 (h, x)) v in
    let (len, rest) = (match s' with
        | IpV6 (h', x') -> (h'.v6_payload_length, b01 (h'.v6_rest = h.v6_rest && x' = x))
        | _ -> (N0, "0")) in
    let m = (match r with
        | Ok () -> sp "Ok len=%s rest=%s" (sn len) rest
        | Err e -> sp "%s len=%s rest=%s" (vtb e) (sn len) rest
        | Panic s -> panic s) in
    let e = spec_v6x x in
    let s = if iph6_reprb e v then sp "Ok len=%s rest=1" (sn (e +! v))
      else sp "%s len=%s rest=1" (vtb3 v (iph6_max e) Ipv6PayloadLength) (sn pl0) in
    j m s
  | [("udpwo" | "udpw4" | "udpw6") as t; v] ->
    let v = ns v in
    let (r, k) = (match t with
        | "udpwo" -> (udp_without_ipv4_checksum N0 v, UdpPayloadLengthIpv4)
        | "udpw4" -> (udp_with_ipv4_checksum N0 v, UdpPayloadLengthIpv4)
        | _ -> (udp_with_ipv6_checksum N0 v, UdpPayloadLengthIpv6)) in
    let ckf = if t = "udpw6" then ck_udp6 else ck_udp4 in
    let m = (match r with
        | Ok h ->
          let c = (match h.u_ck with None -> 0 | Some l -> ckf (int_of_n l) (int_of_n h.u_length)) in
          sp "Ok len=%s enc=%s ck=%d" (sn h.u_length) (hex2 h.u_length) c
        | Err e -> vtb e | Panic s -> panic s) in
    let s = if udp_reprb v then
        let l = int_of_n (ni 8 +! v) in
        sp "Ok len=%d ck=%d" l (if t = "udpwo" then 0 else ckf l l)
      else vtb3 v udp_max k in
    j m s
  | [("udpc4" | "udpc6") as t; len0; v] ->
    let len0 = ns len0 and v = ns v in
    let h = { u_length = len0; u_ck = None; u_rest = N0 } in
    let v4 = (t = "udpc4") in
    let m = (match (if v4 then udp_calc_checksum_ipv4 h v else udp_calc_checksum_ipv6 h v) with
        | Ok l -> sp "Ok ck=%d" ((if v4 then ck_udp4 else ck_udp6) (int_of_n l) (int_of_n len0))
        | Err e -> vtb e | Panic s -> panic s) in
    let s = if v4 then (if udp_reprb v then "Ok" else vtb3 v udp_max UdpPayloadLengthIpv4)
      else (if udp6_pseudo_reprb v then "Ok" else vtb3 v udp6_pseudo_max UdpPayloadLengthIpv6) in
    j m s
  | [("tcpc4" | "tcpc6" | "tcphs4" | "tcphs6") as t; ol; v] ->
    let oln = ns ol and v = ns v in
    let oli = int_of_string ol in
    let h = { t_opt_len = oln; t_rest = N0 } in
    let v4 = (t = "tcpc4" || t = "tcphs4") in
    let r = (match t with
        | "tcpc4" -> tcp_calc_checksum_ipv4 h v
        | "tcpc6" -> tcp_calc_checksum_ipv6 h v
        | "tcphs4" -> tcphs_calc_checksum_ipv4 (tcp_header_len h) v
        | _ -> tcphs_calc_checksum_ipv6 (tcp_header_len h) v) in
    let ckf = if v4 then ck_tcp4 else ck_tcp6 in
    let m = (match r with
        | Ok l -> sp "Ok ck=%d" (ckf oli (int_of_n l)) | Err e -> vtb e | Panic s -> panic s) in
    let hl = tcp_hdr_len oln in
    let s = if v4 then
        (if tcp4_reprb hl v then sp "Ok ck=%d" (ckf oli (int_of_n (hl +! v))) else vtb3 v (tcp4_max hl) TcpPayloadLengthIpv4)
      else
        (if tcp6_reprb hl v then sp "Ok ck=%d" (ckf oli (int_of_n (hl +! v))) else vtb3 v (tcp6_max hl) TcpPayloadLengthIpv6) in
    j m s
  | [("tcps4" | "tcps6") as t; ol; v] ->
    let oln = ns ol and v = ns v in
    let oli = int_of_string ol in
    let sl = tcp_header_len { t_opt_len = oln; t_rest = N0 } +! v in
    let v4 = (t = "tcps4") in
    let ckf = if v4 then ck_tcp4 else ck_tcp6 in
    let m = (match (if v4 then tcpslice_calc_checksum_ipv4 sl else tcpslice_calc_checksum_ipv6 sl) with
        | Ok l -> sp "Ok ck=%d" (ckf oli (int_of_n l)) | Err e -> vtb e | Panic s -> panic s) in
    let seg = tcp_hdr_len oln +! v in
    let s = if v4 then
        (if tcp4_reprb N0 seg then sp "Ok ck=%d" (ckf oli (int_of_n seg)) else vtb3 seg (tcp4_max N0) TcpPayloadLengthIpv4)
      else
        (if tcp6_reprb N0 seg then sp "Ok ck=%d" (ckf oli (int_of_n seg)) else vtb3 seg (tcp6_max N0) TcpPayloadLengthIpv6) in
    j m s
  | [("icmp6" | "icmp6w"); v] ->
    let v = ns v in
    let m = (match icmpv6_calc_checksum v with
        | Ok l -> sp "Ok ck=%d" (ck_icmp6 (int_of_n l)) | Err e -> vtb e | Panic s -> panic s) in
    let s = if icmp6_reprb v then sp "Ok ck=%d" (ck_icmp6 (int_of_n (ni 8 +! v)))
      else vtb3 v icmp6_max Icmpv6PayloadLength in
    j m s
  | ["macsec"; unmod; sl0; _seed; v] ->
    let u = (unmod = "1") and sl0 = ns sl0 and v = ns v in
    let h = { m_unmodified = u; m_short_len = sl0; m_rest = ni 1 } in
    let (r, h') = macsec_set_payload_len h v in
    let m = (match r with
        | Ok () -> sp "Ok sl=%s enc=%s dec=%s rest=%s" (sn h'.m_short_len) (sn (macsec_sl_byte h'))
                     (opt (macsec_expected_payload_len h'))
                     (b01 (h'.m_unmodified = u && h'.m_rest = h.m_rest))
        | Err e -> vtb e | Panic s -> panic s) in
    let f = if macsec_reprb u v then macsec_sl u v else macsec_unknown in
    let s = sp "Ok sl=%s enc=%s dec=%s rest=1" (sn f) (sn f) (opt (macsec_dec u f)) in
    j m s
  | ["mslfl"; v] ->
    let v = ns v in
    j (sp "sl=%s" (sn (macsec_short_len_from_len v)))
      (sp "sl=%s" (sn (if macsec_reprb false v then v else macsec_unknown)))
  | ["msltry"; v] ->
    let v = ns v in
    let m = (match macsec_short_len_try_from_u8 v with
        | Ok s -> sp "Ok sl=%s" (sn s) | Err e -> vtb e | Panic s -> panic s) in
    let s = if macsec_reprb false v then sp "Ok sl=%s" (sn v) else vtb3 v (field_max (ni 6)) MacsecShortLen in
    j m s
  | ["ahnew"; n] ->
    let n = ns n in
    let m = (match ah_new N0 n with
        | Ok h -> sp "Ok %s" (ah_state h) | Err e -> icv_e e | Panic s -> panic s) in
    let s = if ah_reprb n then sp "Ok %s" (spec_ah_state n) else icv_e (ah_bad n) in
    j m s
  | ["ahset"; l0; n] ->
    let l0 = ns l0 and n = ns n in
    let h = { a_raw_icv_len = l0; a_rest = ni 1 } in
    let (r, h') = ah_set_raw_icv h n in
    let m = (match r with
        | Ok () -> sp "Ok %s" (ah_state h')
        | Err e -> sp "%s %s%s" (icv_e e) (ah_state h') (if h' = h then "" else " MODIFIED")
        | Panic s -> panic s) in
    let s = if ah_reprb n then sp "Ok %s" (spec_ah_state n)
      else sp "%s %s" (icv_e (ah_bad n)) (spec_ah_state (ni 4 *! l0)) in
    j m s
  | ["extnew"; n] ->
    let n = ns n in
    let m = (match rawext_new_raw N0 n with
        | Ok h -> sp "Ok %s" (ext_state h) | Err e -> ext_e e | Panic s -> panic s) in
    let s = if ext_reprb n then sp "Ok %s" (spec_ext_state n) else ext_e (ext_bad n) in
    j m s
  | ["extset"; hl0; n] ->
    let hl0 = ns hl0 and n = ns n in
    let h = { e_header_length = hl0; e_rest = ni 1 } in
    let (r, h') = rawext_set_payload h n in
    let m = (match r with
        | Ok () -> sp "Ok %s" (ext_state h')
        | Err e -> sp "%s %s%s" (ext_e e) (ext_state h') (if h' = h then "" else " MODIFIED")
        | Panic s -> panic s) in
    let s = if ext_reprb n then sp "Ok %s" (spec_ext_state n)
      else sp "%s %s" (ext_e (ext_bad n)) (spec_ext_state (ni 6 +! (ni 8 *! hl0))) in
    j m s
  | ["tcpoptraw"; ol0; n] ->
    let ol0 = ns ol0 and n = ns n in
    let h = { t_opt_len = ol0; t_rest = ni 1 } in
    let (r, h') = tcp_set_options_raw h n in
    let m = (match r with
        | Ok () -> sp "Ok %s" (tcp_state h'.t_opt_len)
        | Err k -> sp "Err nes=%s %s%s" (sn k) (tcp_state h'.t_opt_len) (if h' = h then "" else " MODIFIED")
        | Panic s -> panic s) in
    let s = if tcp_opts_reprb n then sp "Ok %s" (spec_tcp_state (pad4 n))
      else sp "Err nes=%s %s" (sn n) (spec_tcp_state ol0) in
    j m s
  | ["tcpoptel"; ol0; els] ->
    let ol0 = ns ol0 and sizes = el_sizes els in
    let h = { t_opt_len = ol0; t_rest = ni 1 } in
    let (r, h') = tcp_set_options h sizes in
    let m = (match r with
        | Ok () -> sp "Ok %s" (tcp_state h'.t_opt_len)
        | Err k -> sp "Err nes=%s %s%s" (sn k) (tcp_state h'.t_opt_len) (if h' = h then "" else " MODIFIED")
        | Panic s -> panic s) in
    let n = List.fold_left N.add N0 sizes in
    let s = if tcp_opts_reprb n then sp "Ok %s" (spec_tcp_state (pad4 n))
      else sp "Err nes=%s %s" (sn n) (spec_tcp_state ol0) in
    j m s
  | ["arpnew"; shw; spr; thw; tpr] ->
    let shw = ns shw and spr = ns spr and thw = ns thw and tpr = ns tpr in
    let m = (match arp_new N0 shw spr thw tpr with
        | Ok h -> sp "Ok %s" (arp_state h) | Err e -> arp_e e | Panic s -> panic s) in
    (* documented order: both length pairs have to match, then each has to fit 8 bit *)
    let s =
      if not (N.eqb shw thw) then sp "Err hwnm %s %s" (sn shw) (sn thw)
      else if not (N.eqb spr tpr) then sp "Err prnm %s %s" (sn spr) (sn tpr)
      else if not (arp_reprb shw) then sp "Err hwbig %s" (sn shw)
      else if not (arp_reprb spr) then sp "Err prbig %s" (sn spr)
      else sp "Ok hw=%s pr=%s len=%s" (sn shw) (sn spr) (sn (ni 8 +! (ni 2 *! shw) +! (ni 2 *! spr))) in
    j m s
  | [("arphw" | "arppr") as t; hw0; pr0; a; b] ->
    let hw0 = ns hw0 and pr0 = ns pr0 and a = ns a and b = ns b in
    let h = { ar_hw_size = hw0; ar_proto_size = pr0; ar_rest = ni 1 } in
    let hw = (t = "arphw") in
    let (r, h') = if hw then arp_set_hw_addrs h a b else arp_set_protocol_addrs h a b in
    let m = (match r with
        | Ok () -> sp "Ok %s" (arp_state h')
        | Err e -> sp "%s %s%s" (arp_e e) (arp_state h') (if h' = h then "" else " MODIFIED")
        | Panic s -> panic s) in
    let st x y = sp "hw=%s pr=%s len=%s" (sn x) (sn y) (sn (ni 8 +! (ni 2 *! x) +! (ni 2 *! y))) in
    let s = (match (if hw then spec_arp_pair "hwnm" "hwbig" a b else spec_arp_pair "prnm" "prbig" a b) with
        | Some e -> sp "%s %s" e (st hw0 pr0)
        | None -> sp "Ok %s" (if hw then st a pr0 else st hw0 a)) in
    j m s
  | "bld4" :: ol :: icv :: tr :: [v] ->
    let oln = ns ol and x = optn icv and t = transport_of tr and v = ns v in
    let h = { v4_total_len = N0; v4_opt_len = oln; v4_rest = ni 1 } in
    let tcp_ol = (match t with TTcp th -> int_of_n th.t_opt_len | _ -> 0) in
    let pck l udp = (match t with
        | TUdp -> string_of_int (ck_udp4 l udp) | TTcp _ -> string_of_int (ck_tcp4 tcp_ol l) | _ -> "-") in
    let m = (match build_ipv4 h x t v with
        | Ok b ->
          let udp = (match b.b_udp_len with Some l -> int_of_n l | None -> 0) in
          sp "Ok ip=%s udp=%s ck=%s" (sn b.b_ip_len) (opt b.b_udp_len)
            (match b.b_pseudo_len with Some l -> pck (int_of_n l) udp | None -> "-")
        | Err (BPayloadLen e) -> vtb e | Err BIcmpv6InIpv4 -> "Err icmp6in4" | Panic s -> panic s) in
    let e = spec_v4x x and tl = spec_transport_len t in
    let s = if build4_reprb oln e tl v then
        (if t = TIcmpv6 then "Err icmp6in4"
         else
           let ipl = e +! tl +! v in
           let tlen = int_of_n (tl +! v) in
           sp "Ok ip=%s udp=%s ck=%s" (sn (ipv4_hdr_len oln +! ipl))
             (if t = TUdp then string_of_int tlen else "-")
             (match t with TUdp | TTcp _ -> pck tlen tlen | _ -> "-"))
      else vtb3 (e +! tl +! v) (ipv4_max oln) Ipv4PayloadLength in
    j m s
  | "bld6" :: hop :: dst :: route :: fin :: frag :: auth :: tr :: [v] ->
    let x = v6x [hop; dst; route; fin; frag; auth] and t = transport_of tr and v = ns v in
    let h = { v6_payload_length = N0; v6_rest = ni 1 } in
    let tcp_ol = (match t with TTcp th -> int_of_n th.t_opt_len | _ -> 0) in
    let pck l udp = (match t with
        | TUdp -> string_of_int (ck_udp6 l udp) | TTcp _ -> string_of_int (ck_tcp6 tcp_ol l)
        | TIcmpv6 -> string_of_int (ck_icmp6 l) | _ -> "-") in
    let m = (match build_ipv6 h x t v with
        | Ok b ->
          let udp = (match b.b_udp_len with Some l -> int_of_n l | None -> 0) in
          sp "Ok ip=%s udp=%s ck=%s" (sn b.b_ip_len) (opt b.b_udp_len)
            (match b.b_pseudo_len with Some l -> pck (int_of_n l) udp | None -> "-")
        | Err (BPayloadLen e) -> vtb e | Err BIcmpv6InIpv4 -> "Err icmp6in4" | Panic s -> panic s) in
    let e = spec_v6x x and tl = spec_transport_len t in
    let s = if build6_reprb e tl v then
        let ipl = e +! tl +! v in
        let tlen = int_of_n (tl +! v) in
        sp "Ok ip=%s udp=%s ck=%s" (sn ipl)
          (if t = TUdp then string_of_int tlen else "-")
          (match t with TUdp | TTcp _ | TIcmpv6 -> pck tlen tlen | _ -> "-")
      else vtb3 (e +! tl +! v) ipv6_max Ipv6PayloadLength in
    j m s
  | "bsz" :: ol :: icv :: tr :: [v] ->
    let oln = ns ol and x = optn icv and t = transport_of tr and v = ns v in
    let net = ipv4_header_len { v4_total_len = N0; v4_opt_len = oln; v4_rest = N0 } +! v4exts_header_len x in
    let m = (match build_size (ni 14) net t v with
        | Ok s -> sp "size=%s" (sn s) | Err _ -> "Err" | Panic s -> panic s) in
    let s = sp "size=%s" (sn (ni 14 +! ipv4_hdr_len oln +! spec_v4x x +! spec_transport_len t +! v)) in
    j m s
  | _ -> failwith ("bad c14 case: " ^ line)

let () =
  Conv.iter_lines Sys.argv.(1) (fun l ->
      print_endline (try run l with Failure m -> "MODEL-FAIL " ^ m))
