(* model + spec side of the C10 correspondence: same case file as the Rust
   harness (harness/src/bin/c10.rs), one line per case:
     "<verdict> size=<n> <hex of the bytes written> | wire=<reference decoder on these bytes> exp=<expected view or ->
      upto=<ok|DIFF|-> ts=<ok|DIFF|-> dec=<ok|DIFF|->"   (instances of C10_parse_back_upto_transport,
      C10_timestamp_wrong_size_rejected, C10_icmp4/6_value_back evaluated on the extracted definitions)
   Case:  b <link> <vlan> <net> <transport> <payload>      (see tools/props/c10.py) *)
open M_c10
(*INCLUDE pfmt.ml.in*)

let n_of_s s = n_of_z (Z.of_string s)
let int_of_n n = Z.to_int (z_of_n n)
let hexs (bs : n list) = Conv.hex (List.map int_of_n bs)
let split c s = String.split_on_char c s
let b_of s = s = "1"

exception Unmodelled

let payload_of (t : string) : n list =
  if t = "-" then []
  else if t.[0] = 'g' then begin
    match split '.' (String.sub t 1 (String.length t - 1)) with
    | [l; seed] ->
      let l = int_of_string l and seed = int_of_string seed in
      List.init l (fun i -> n_of_int ((seed + (131 * i) + (7 * (i lsr 8))) land 255))
    | _ -> failwith "payload g"
  end else if t.[0] = 'c' && String.contains t '.' then begin
    match split '.' (String.sub t 1 (String.length t - 1)) with
    | [l; b] -> let b = n_of_int (int_of_string b) in List.init (int_of_string l) (fun _ -> b)
    | _ -> failwith "payload c"
  end else bytes_of_hex t

let link_of (t : string) : link_cfg =
  match split '/' t with
  | ["n"] -> LkNone
  | ["e"; s; d] -> LkEthernet2 (bytes_of_hex s, bytes_of_hex d)
  | ["s"; pt; vl; a] -> LkLinuxSll (n_of_s pt, n_of_s vl, bytes_of_hex a)
  | _ -> failwith "link"

let vlan1 (t : string) : singleVlanHeader =
  match split '.' t with
  | [pcp; dei; vid; et] ->
    { vlan_pcp = n_of_s pcp; vlan_dei = b_of dei; vlan_id = n_of_s vid; vlan_ether_type = n_of_s et }
  | _ -> failwith "vlan1"
let vlan_simple vid = { vlan_pcp = N0; vlan_dei = false; vlan_id = n_of_s vid; vlan_ether_type = N0 }

let vlan_of (t : string) : vlan_cfg =
  match split '/' t with
  | ["n"] -> VlNone
  | ["1s"; vid] -> VlSingle (vlan_simple vid)
  | ["2s"; o; i] -> VlDouble (vlan_simple o, vlan_simple i)
  | ["1h"; v] -> VlSingle (vlan1 v)
  | ["2h"; o; i] -> VlDouble (vlan1 o, vlan1 i)
  | _ -> failwith "vlan"

let raw_of (t : string) : rawExt option =
  if t = "-" then None
  else match split ':' t with
    | [nh; p] ->
      let p = bytes_of_hex p in
      let l = List.length p in
      if l < 6 || (l - 6) mod 8 <> 0 || l > 2046 then failwith "raw payload size";
      Some { r_next_header = n_of_s nh; r_header_length = n_of_int ((l - 6) / 8); r_payload = p }
    | _ -> failwith "raw token"
let frag_of (t : string) : frag option =
  if t = "-" then None
  else match split ':' t with
    | [nh; off; m; id] ->
      Some { f_next_header = n_of_s nh; f_fragment_offset = n_of_s off;
             f_more_fragments = (m = "1"); f_identification = n_of_s id }
    | _ -> failwith "frag token"
let auth_of (t : string) : authH option =
  if t = "-" then None
  else match split ':' t with
    | [nh; spi; seq; icv] ->
      let icv = bytes_of_hex icv in
      let l = List.length icv in
      if l mod 4 <> 0 || l > 1016 then failwith "icv size";
      Some { a_next_header = n_of_s nh; a_spi = n_of_s spi; a_sequence_number = n_of_s seq;
             a_raw_icv_len = n_of_int (l / 4); a_raw_icv = icv }
    | _ -> failwith "auth token"

let zeros k = List.init k (fun _ -> N0)

let net_of (t : string) : net_cfg =
  match split '/' t with
  | ["4s"; s; d; ttl] ->
    NtIpv4 ({ i4_dscp = N0; i4_ecn = N0; i4_total_len = N0; i4_identification = N0;
              i4_dont_fragment = true; i4_more_fragments = false; i4_fragment_offset = N0;
              i4_time_to_live = n_of_s ttl; i4_protocol = n_of_int 255; i4_header_checksum = N0;
              i4_source = bytes_of_hex s; i4_destination = bytes_of_hex d;
              i4_options = { i4o_len = N0; i4o_buf = zeros 40 } }, None)
  | ["4h"; f; s; d; o; a] ->
    (match split '.' f with
     | [dscp; ecn; tl; id; df; mf; fo; ttl; proto; ck] ->
       let o = bytes_of_hex o in
       let ol = List.length o in
       NtIpv4 ({ i4_dscp = n_of_s dscp; i4_ecn = n_of_s ecn; i4_total_len = n_of_s tl;
                 i4_identification = n_of_s id; i4_dont_fragment = b_of df;
                 i4_more_fragments = b_of mf; i4_fragment_offset = n_of_s fo;
                 i4_time_to_live = n_of_s ttl; i4_protocol = n_of_s proto;
                 i4_header_checksum = n_of_s ck;
                 i4_source = bytes_of_hex s; i4_destination = bytes_of_hex d;
                 i4_options = { i4o_len = n_of_int ol; i4o_buf = o @ zeros (40 - ol) } }, auth_of a)
     | _ -> failwith "4h fields")
  | ["6s"; s; d; hop] ->
    NtIpv6 ({ v6_traffic_class = N0; v6_flow_label = N0; v6_payload_length = N0;
              v6_next_header = n_of_int 255; v6_hop_limit = n_of_s hop;
              v6_source = bytes_of_hex s; v6_destination = bytes_of_hex d },
            { hop_by_hop_options = None; destination_options = None; routing = None;
              fragment = None; auth = None })
  | ["6h"; f; s; d; x] ->
    (match split '.' f, split ';' x with
     | [tc; fl; pl; nh; hop], [h; dst; rt; fin; fr; au] ->
       let routing = match raw_of rt with
         | None -> None
         | Some r -> Some { rt_routing = r; rt_final_destination_options = raw_of fin } in
       NtIpv6 ({ v6_traffic_class = n_of_s tc; v6_flow_label = n_of_s fl; v6_payload_length = n_of_s pl;
                 v6_next_header = n_of_s nh; v6_hop_limit = n_of_s hop;
                 v6_source = bytes_of_hex s; v6_destination = bytes_of_hex d },
               { hop_by_hop_options = raw_of h; destination_options = raw_of dst; routing;
                 fragment = frag_of fr; auth = auth_of au })
     | _ -> failwith "6h fields")
  | ["a"; f; shw; sp; thw; tp] ->
    (match split '.' f with
     | [hw; pr; op] ->
       NtArp { arp_hw_addr_type = n_of_s hw; arp_proto_addr_type = n_of_s pr; arp_operation = n_of_s op;
               arp_sender_hw = bytes_of_hex shw; arp_sender_proto = bytes_of_hex sp;
               arp_target_hw = bytes_of_hex thw; arp_target_proto = bytes_of_hex tp }
     | _ -> failwith "arp fields")
  | _ -> failwith "net"

(* ICMP tokens (tools/props/c10.py): raw u.<type>.<code>.<bytes5to8>, echo q|p|Q|P.<id>.<seq>, and the
   typed kinds field by field *)
let b4_of (h : string) : n * n * n * n =
  match bytes_of_hex h with [a; b; c; d] -> (a, b, c, d) | _ -> failwith "4 bytes"
let nth_of l i = List.nth l (int_of_string i)

let icmp4_of (t : string) : icmpv4Type =
  match split '.' t with
  | ["u"; ty; code; b] -> let (a, b, c, d) = b4_of b in V4Unknown (n_of_s ty, n_of_s code, a, b, c, d)
  | ["q"; id; seq] | ["Q"; id; seq] -> V4EchoRequest (n_of_s id, n_of_s seq)
  | ["p"; id; seq] | ["P"; id; seq] -> V4EchoReply (n_of_s id, n_of_s seq)
  | ["du"; code; mtu] ->
    V4DestinationUnreachable
      (nth_of [DuNetwork; DuHost; DuProtocol; DuPort; DuFragmentationNeeded (n_of_s mtu); DuSourceRouteFailed;
               DuNetworkUnknown; DuHostUnknown; DuIsolated; DuNetworkProhibited; DuHostProhibited; DuTosNetwork;
               DuTosHost; DuFilterProhibited; DuHostPrecedenceViolation; DuPrecedenceCutoff] code)
  | ["rd"; code; gw] ->
    let (a, b, c, d) = b4_of gw in
    V4Redirect (nth_of [RedirectForNetwork; RedirectForHost; RedirectForTypeOfServiceAndNetwork;
                        RedirectForTypeOfServiceAndHost] code, a, b, c, d)
  | ["te"; code] -> V4TimeExceeded (nth_of [TtlExceededInTransit; FragmentReassemblyTimeExceeded4] code)
  | ["pp"; code; ptr] ->
    V4ParameterProblem (nth_of [PointerIndicatesError (n_of_s ptr); MissingRequiredOption; BadLength] code)
  | [("tq" | "tp") as k; id; seq; o; r; x] ->
    let m = { ts_id = n_of_s id; ts_seq = n_of_s seq; ts_originate = n_of_s o; ts_receive = n_of_s r;
              ts_transmit = n_of_s x } in
    if k = "tq" then V4TimestampRequest m else V4TimestampReply m
  | "x" :: _ -> raise Unmodelled
  | _ -> failwith "icmp4"

let icmp6_of (t : string) : icmpv6Type =
  match split '.' t with
  | ["u"; ty; code; b] -> let (a, b, c, d) = b4_of b in V6Unknown (n_of_s ty, n_of_s code, a, b, c, d)
  | ["q"; id; seq] | ["Q"; id; seq] -> V6EchoRequest (n_of_s id, n_of_s seq)
  | ["p"; id; seq] | ["P"; id; seq] -> V6EchoReply (n_of_s id, n_of_s seq)
  | ["du"; code] ->
    V6DestinationUnreachable
      (nth_of [NoRoute; Prohibited; BeyondScope; Address6; Port6; SourceAddressFailedPolicy; RejectRoute] code)
  | ["tb"; mtu] -> V6PacketTooBig (n_of_s mtu)
  | ["te"; code] -> V6TimeExceeded (nth_of [HopLimitExceeded; FragmentReassemblyTimeExceeded6] code)
  | ["pp"; code; ptr] ->
    V6ParameterProblem
      (nth_of [ErroneousHeaderField; UnrecognizedNextHeader; UnrecognizedIpv6Option;
               Ipv6FirstFragmentIncompleteHeaderChain; SrUpperLayerHeaderError;
               UnrecognizedNextHeaderByIntermediateNode; ExtensionHeaderTooBig; ExtensionHeaderChainTooLong;
               TooManyExtensionHeaders; TooManyOptionsInExtensionHeader; OptionTooBig] code, n_of_s ptr)
  | ["rs"] -> V6RouterSolicitation
  | ["ra"; chl; m; o; lt] -> V6RouterAdvertisement (n_of_s chl, b_of m, b_of o, n_of_s lt)
  | ["ns"] -> V6NeighborSolicitation
  | ["na"; r; sl; o] -> V6NeighborAdvertisement (b_of r, b_of sl, b_of o)
  | ["rd"] -> V6Redirect
  | "x" :: _ -> raise Unmodelled
  | _ -> failwith "icmp6"

let tr_of (t : string) : transport_cfg =
  match split '/' t with
  | ["r"; n] -> TrNone (n_of_s n)
  | ["u"; f] ->
    (match split '.' f with [sp; dp] -> TrUdp (n_of_s sp, n_of_s dp) | _ -> failwith "udp")
  | ("ts" | "th" | "te") :: f :: o :: _ ->
    (match split '.' f with
     | [sp; dp; seq; ackn; flags; win; urgp; ck] ->
       let fl = int_of_string flags in
       let bit k = fl land (1 lsl k) <> 0 in
       let o = bytes_of_hex o in
       let ol = List.length o in
       TrTcp { source_port = n_of_s sp; destination_port = n_of_s dp; sequence_number = n_of_s seq;
               acknowledgment_number = n_of_s ackn;
               fin = bit 0; syn = bit 1; rst = bit 2; psh = bit 3; ack = bit 4; urg = bit 5;
               ece = bit 6; cwr = bit 7; ns = bit 8;
               window_size = n_of_s win; checksum = n_of_s ck; urgent_pointer = n_of_s urgp;
               options = { o_len = n_of_int ol; o_buf = o @ zeros (40 - ol) } }
     | _ -> failwith "tcp fields")
  | ["i4"; k] -> TrIcmpv4 (icmp4_of k)
  | ["i6"; k] -> TrIcmpv6 (icmp6_of k)
  | _ -> failwith "transport"

let vt_s = function
  | VtIpv4PayloadLength -> "Ipv4PayloadLength" | VtIpv6PayloadLength -> "Ipv6PayloadLength"
  | VtUdpPayloadLengthIpv4 -> "UdpPayloadLengthIpv4" | VtUdpPayloadLengthIpv6 -> "UdpPayloadLengthIpv6"
  | VtTcpPayloadLengthIpv4 -> "TcpPayloadLengthIpv4" | VtTcpPayloadLengthIpv6 -> "TcpPayloadLengthIpv6"
  | VtIcmpv6PayloadLength -> "Icmpv6PayloadLength"
let walk_s = function HopByHopNotAtStart -> "hbh" | ExtNotReferenced m -> "nr:" ^ sn m
let err_s = function
  | EPayloadLen (a, m, vt) -> Printf.sprintf "payloadlen:%s:%s:%s" (sn a) (sn m) (vt_s vt)
  | EIpv4Exts w -> "ip4exts:" ^ walk_s w
  | EIpv6Exts w -> "ip6exts:" ^ walk_s w
  | EIcmpv6InIpv4 -> "icmpv6inipv4"

let vpacket_s p =
  Printf.sprintf "ok link=%s exts=[%s] net=%s tr=%s" (vlink p.v_link)
    (String.concat ";" (List.map vext p.v_exts)) (vnet p.v_net) (vtr p.v_transport)

let run (line : string) : string =
  match Conv.split_ws line with
  | ["b"; l; v; nt; t; p] ->
    (try
       let c = { c_link = link_of l; c_vlan = vlan_of v; c_net = net_of nt; c_transport = tr_of t } in
       let payload = payload_of p in
       let plen = n_of_int (List.length payload) in
       let verdict, bs = build_run LE c payload in
       let size = final_size c plen in
       let m = Printf.sprintf "%s size=%s %s"
           (match verdict with
            | VdOk -> "ok" | VdErr e -> "err " ^ err_s e | VdPanic s -> "PANIC " ^ sn s)
           (sn size) (hexs bs) in
       let spec =
         match verdict with
         | VdOk ->
           let w = match c.c_link with
             | LkEthernet2 _ -> wire_ethernet bs
             | LkLinuxSll _ -> wire_linux_sll bs
             | LkNone -> wire_from_ip bs in
           (* blanks inside the view are replaced so that the spec column stays two tokens *)
           let us s = String.concat "_" (split ' ' s) in
           let is_arp = (match c.c_net with NtArp _ -> true | _ -> false) in
           let offt = off_transport c in
           let seg = drop offt bs in
           (* C10_parse_back_upto_transport: decoder = its transport stage behind the configured layers *)
           let upto =
             if is_arp || not (chain_ok c) then "-"
             else if w = wire_transport bs (upto_net c plen) (tr_ip_number c.c_transport) (is_fragmented_x c)
                       (ip_len_src c) offt (len bs)
             then "ok" else "DIFF" in
           (* C10_timestamp_wrong_size_rejected: the exact Len error *)
           let ts =
             match c.c_transport with
             | TrIcmpv4 t when (not is_arp) && (not (is_fragmented_x c)) && not (icmp4_admits t plen) ->
               if w = cut (n_of_int 20) (N.add (icmp4_type_header_len t) plen) (ip_len_src c) (ts_layer t) offt
               then "ok" else "DIFF"
             | _ -> "-" in
           (* C10_icmp4_value_back / C10_icmp6_value_back: the C08 decoder model on the transport
              segment returns the configured type and the payload *)
           let dec =
             if is_arp then "-" else
             match c.c_transport with
             | TrIcmpv4 t when wf_icmp4_type t && (int_of_n (icmp4_type_header_len t) = 8 || payload = []) ->
               (match icmp4_from_slice seg with
                | Ok (h, rest) when h.icmp4_type = t && rest = payload -> "ok"
                | _ -> "DIFF")
             | TrIcmpv6 t when wf_icmp6_type t ->
               (match icmp6_from_slice seg with
                | Ok (h, rest) when h.icmp6_type = t && rest = payload -> "ok"
                | _ -> "DIFF")
             | _ -> "-" in
           Printf.sprintf "wire=%s exp=%s upto=%s ts=%s dec=%s" (us (vres w))
             (* C10_parse_back: every admitted payload, extension headers included; without
                extension headers expected_x = expected (C10_parse_back_no_exts) *)
             (if payload_admitted c plen then
                (if parse_pre c plen && vpacket_s (expected c plen) <> vpacket_s (expected_x c plen)
                 then "EXPECTED-DIFFER" else us (vpacket_s (expected_x c plen)))
              else "-") upto ts dec
         | _ -> "-" in
       m ^ " | " ^ spec
     with Unmodelled -> "unmodelled | -")
  | _ -> failwith ("bad c10 case: " ^ line)

let () =
  Conv.iter_lines Sys.argv.(1) (fun l ->
      print_endline (try run l with Failure m -> "MODEL-FAIL " ^ m))
