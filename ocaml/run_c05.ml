(* C05: `lax model || strict model | strict wire spec |L lax reference decoder |P strict
   reference decoder with the partial packet at the point of rejection |N the finer instrumented
   strict reference decoder (network layer decoded so far / resumed decoding)` per case.
   Whole-packet entries eth / et:<n> / ip; single-layer entries lip, lip4, lip6,
   lmacsec, ludp, lx6:<nh>, lx4:<nh> (spec part `-`). *)
open M_c05
(*INCLUDE pfmt.ml.in*)

let stop_s = function
  | None -> "none"
  | Some (e, ly) -> "(" ^ slice_err e ^ ")@" ^ layer_tag ly
let stop1_s = function
  | None -> "none"
  | Some e -> "(" ^ slice_err e ^ ")"
let lvep e =
  Printf.sprintf "%s,%s,%s,%s" (b01 e.lvep_incomplete) (sn e.lvep_type) (src_tag e.lvep_src) (win e.lvep_win)
let lvip p =
  Printf.sprintf "pl(%s,%s,%s,%s,%s)" (b01 p.lvip_incomplete) (sn p.lvip_number) (b01 p.lvip_frag)
    (src_tag p.lvip_src) (win p.lvip_win)
let lvext = function
  | LVVlan w -> "vlan(" ^ win w ^ ")"
  | LVMacsec (h, LVMpUnmodified e) -> "macsec(" ^ win h ^ ",un(" ^ lvep e ^ "))"
  | LVMacsec (h, LVMpModified (i, w)) -> "macsec(" ^ win h ^ ",mod(" ^ b01 i ^ "," ^ win w ^ "))"
let lvnet1 = function
  | LVIpv4 (h, a, p) ->
    Printf.sprintf "v4(%s,%s,%s)" (win h) (match a with Some w -> win w | None -> "-") (lvip p)
  | LVIpv6 (h, f, fr, x, p) ->
    Printf.sprintf "v6(%s,%s,%s,%s,%s)" (win h) (match f with Some v -> sn v | None -> "-") (b01 fr) (win x) (lvip p)
  | LVArp w -> "arp(" ^ win w ^ ")"
let lvnet = function None -> "none" | Some n -> lvnet1 n
let lvres = function
  | LVOk p ->
    Printf.sprintf "ok link=%s exts=[%s] net=%s tr=%s stop=%s" (vlink p.lv_link)
      (String.concat ";" (List.map lvext p.lv_exts)) (lvnet p.lv_net) (vtr p.lv_transport)
      (stop_s p.lv_stop)
  | LVErr e -> "err " ^ slice_err e
  | LVBug s -> "BUG " ^ sn s

(* instrumented strict reference decoder: `rej <error> @@ <layers in front of the fault>` *)
let pres_s = function
  | PAcc p -> vres (VOk p)
  | PRej (p, e) ->
    let s = vres (VOk p) in
    "rej " ^ slice_err e ^ " @@ " ^ String.sub s 3 (String.length s - 3)
  | PBug s -> "BUG " ^ sn s

(* ---- audit round 1: finer instrumented strict reference decoder (Parse/LaxWire2.v) ----
   `acc net=<strict net>` | `rej <error> net=<strict net>` |
   `rejnet (<error>)@<tag> net=<network layer as far as decoded, lax rendering>` |
   `fb <error> inc=<0|1> -> <resumed decoding>` *)
let rec pres2_s = function
  | P2Acc p -> "acc net=" ^ vnet p.v_net
  | P2Rej (p, e) -> "rej " ^ slice_err e ^ " net=" ^ vnet p.v_net
  | P2RejNet (_, n, tag, e) -> "rejnet (" ^ slice_err e ^ ")@" ^ layer_tag tag ^ " net=" ^ lvnet1 n
  | P2Fb (_, e, inc, r) -> "fb " ^ slice_err e ^ " inc=" ^ b01 inc ^ " -> " ^ pres2_s r
  | P2Bug s -> "BUG " ^ sn s
(* ---- end audit round 1 ---- *)

(* ---- round 3 c05d: pwire3 (Parse/LaxWire3.v), whole packets: ` |R ...`
   `acc <packet>` | `rej <error> @@ <packet in front>` | `rejnet (<error>)@<tag> net=<lax net> @@ <packet in front>` |
   `fb <error> inc=<0|1> @@ <packet in front> -> <resumed decoding>`; <packet> = `link=.. exts=[..] net=.. tr=..` *)
let vpkt p = let s = vres (VOk p) in String.sub s 3 (String.length s - 3)
let rec pres3_s = function
  | P2Acc p -> "acc " ^ vpkt p
  | P2Rej (p, e) -> "rej " ^ slice_err e ^ " @@ " ^ vpkt p
  | P2RejNet (p, n, tag, e) ->
    "rejnet (" ^ slice_err e ^ ")@" ^ layer_tag tag ^ " net=" ^ lvnet1 n ^ " @@ " ^ vpkt p
  | P2Fb (p, e, inc, r) -> "fb " ^ slice_err e ^ " inc=" ^ b01 inc ^ " @@ " ^ vpkt p ^ " -> " ^ pres3_s r
  | P2Bug s -> "BUG " ^ sn s
(* ---- end round 3 c05d ---- *)

(* generic result printing *)
let pres f = function
  | Ok a -> "ok " ^ f a
  | Err e -> "err " ^ slice_err e
  | Bug s -> "BUG " ^ sn s

let x6 x = Printf.sprintf "x6(%s,%s,%s)" (match x.x6_first with Some v -> sn v | None -> "-")
    (b01 x.x6_fragmented) (win (win_of x.x6_slice))
let optwin = function Some s -> win (win_of s) | None -> "-"

let arg entry k = n_of_z (Z.of_string (String.sub entry k (String.length entry - k)))
let starts entry p = String.length entry > String.length p && String.sub entry 0 (String.length p) = p

let run (line : string) : string =
  match Conv.split_ws line with
  | [entry; h] ->
    let bs = bytes_of_hex h in
    let s = mk_slice bs in
    if entry = "eth" then
      lvres (lvres_of (LaxSlicedPacket.from_ethernet bs)) ^ " || "
      ^ vres (vres_of (SlicedPacket.from_ethernet bs)) ^ " | " ^ vres (wire_ethernet bs)
      ^ " |L " ^ lvres (lwire_ethernet bs) ^ " |P " ^ pres_s (pwire_ethernet bs)
      ^ " |N " ^ pres2_s (pwire2_ethernet bs) ^ " |R " ^ pres3_s (pwire3_ethernet bs)
    else if entry = "ip" then
      lvres (lvres_of (LaxSlicedPacket.from_ip bs)) ^ " || "
      ^ vres (vres_of (SlicedPacket.from_ip bs)) ^ " | " ^ vres (wire_from_ip bs)
      ^ " |L " ^ lvres (lwire_from_ip bs) ^ " |P " ^ pres_s (pwire_from_ip bs)
      ^ " |N " ^ pres2_s (pwire2_from_ip bs) ^ " |R " ^ pres3_s (pwire2_from_ip bs)
    else if starts entry "et:" then begin
      let et = arg entry 3 in
      lvres (lvres_of (LaxSlicedPacket.from_ether_type et bs)) ^ " || "
      ^ vres (vres_of (SlicedPacket.from_ether_type et bs)) ^ " | " ^ vres (wire_ether_type bs et)
      ^ " |L " ^ lvres (lwire_ether_type bs et) ^ " |P " ^ pres_s (pwire_ether_type bs et)
      ^ " |N " ^ pres2_s (pwire2_ether_type bs et) ^ " |R " ^ pres3_s (pwire3_ether_type bs et)
    end
    else if entry = "lip" then
      pres (fun (ip, st) ->
          "net=" ^ (match ip with LIpV4 v -> lvnet1 (lview_v4 v) | LIpV6 v -> lvnet1 (lview_v6 v))
          ^ " stop=" ^ stop_s st) (LaxIpSlice.from_slice s)
      ^ " || "
      ^ pres (fun ip -> "net=" ^ vnet (Some (view_net (match ip with IpV4 v -> NtIpv4 v | IpV6 v -> NtIpv6 v))))
        (IpSlice.from_slice s) ^ " | -"
    else if entry = "lip4" then
      pres (fun (v, st) -> "net=" ^ lvnet1 (lview_v4 v) ^ " stop=" ^ stop1_s st) (LaxIpv4Slice.from_slice s)
      ^ " || " ^ pres (fun v -> "net=" ^ vnet (Some (view_net (NtIpv4 v)))) (Ipv4Slice.from_slice s) ^ " | -"
    else if entry = "lip6" then
      pres (fun (v, st) -> "net=" ^ lvnet1 (lview_v6 v) ^ " stop=" ^ stop_s st) (LaxIpv6Slice.from_slice s)
      ^ " || " ^ pres (fun v -> "net=" ^ vnet (Some (view_net (NtIpv6 v)))) (Ipv6Slice.from_slice s) ^ " | -"
    else if entry = "lmacsec" then
      pres (fun m -> lvext (lview_macsec m)) (LaxMacsecSlice.from_slice s)
      ^ " || " ^ pres (fun m -> vext (view_ext (LeMacsec m))) (Macsec.from_slice s) ^ " | -"
    else if entry = "ludp" then
      pres (fun u -> "udp(" ^ win (win_of u) ^ ")") (UdpSlice.from_slice_lax s)
      ^ " || " ^ pres (fun u -> "udp(" ^ win (win_of u) ^ ")") (UdpSlice.from_slice s) ^ " | -"
    else if starts entry "lx6:" then begin
      let nh = arg entry 4 in
      pres (fun (((x, next), rest), st) ->
          Printf.sprintf "%s next=%s rest=%s stop=%s" (x6 x) (sn next) (win (win_of rest)) (stop_s st))
        (LaxIpv6Exts.from_slice_lax nh s)
      ^ " || "
      ^ pres (fun ((x, next), rest) -> Printf.sprintf "%s next=%s rest=%s" (x6 x) (sn next) (win (win_of rest)))
        (Ipv6ExtensionsSlice.from_slice nh s) ^ " | -"
    end
    else if starts entry "lx4:" then begin
      let nh = arg entry 4 in
      pres (fun (((a, next), rest), st) ->
          Printf.sprintf "auth=%s next=%s rest=%s stop=%s" (optwin a) (sn next) (win (win_of rest)) (stop1_s st))
        (LaxIpv4Exts.from_slice_lax nh s)
      ^ " || "
      ^ pres (fun ((a, next), rest) -> Printf.sprintf "auth=%s next=%s rest=%s" (optwin a) (sn next) (win (win_of rest)))
        (Ipv4Exts.from_slice nh s) ^ " | -"
    end
    else failwith "entry"
  | _ -> failwith ("bad c05 case: " ^ line)

let () =
  Conv.iter_lines Sys.argv.(1) (fun l ->
      print_endline (try run l with Failure m -> "MODEL-FAIL " ^ m))
