(* model | spec for the strict whole-packet slicers *)
open M_c03
(*INCLUDE pfmt.ml.in*)

let run (line : string) : string =
  match Conv.split_ws line with
  | [entry; h] ->
    let bs = bytes_of_hex h in
    let m, s =
      if entry = "eth" then (vres_of (SlicedPacket.from_ethernet bs), wire_ethernet bs)
      else if entry = "sll" then (vres_of (SlicedPacket.from_linux_sll bs), wire_linux_sll bs)
      else if entry = "ip" then (vres_of (SlicedPacket.from_ip bs), wire_from_ip bs)
      else if String.length entry > 3 && String.sub entry 0 3 = "et:" then begin
        let et = n_of_z (Z.of_string (String.sub entry 3 (String.length entry - 3))) in
        (vres_of (SlicedPacket.from_ether_type et bs), wire_ether_type bs et)
      end else failwith "entry"
    in
    vres m ^ " | " ^ vres s
  | _ -> failwith ("bad c03 case: " ^ line)

let () =
  Conv.iter_lines Sys.argv.(1) (fun l ->
      print_endline (try run l with Failure m -> "MODEL-FAIL " ^ m))
