(* C04: model of PacketHeaders | converted model of SlicedPacket | converted
   model of the slicing algorithm cut at the first refilled IPv6 extension | ... |
   model of LaxPacketHeaders;  `sll <hex>`: model of LaxPacketHeaders::from_linux_sll *)
open M_c04
(*INCLUDE pfmt.ml.in*)

let wlen (_, l) = sn l
let hvpayload = function
  | HvpEmpty -> "empty"
  | HvpEther e -> Printf.sprintf "ether(%s,%s,%s)" (sn e.vep_type) (src_tag e.vep_src) (win e.vep_win)
  | HvpMacsecMod w -> "macsecmod(" ^ win w ^ ")"
  | HvpIp p -> Printf.sprintf "ip(%s,%s,%s,%s)" (sn p.vip_number) (b01 p.vip_frag) (src_tag p.vip_src) (win p.vip_win)
  | HvpUdp w -> "udp(" ^ win w ^ ")"
  | HvpTcp w -> "tcp(" ^ win w ^ ")"
  | HvpIcmpv4 w -> "icmp4(" ^ win w ^ ")"
  | HvpIcmpv6 w -> "icmp6(" ^ win w ^ ")"
let hvlink = function None -> "none" | Some w -> "eth(" ^ wlen w ^ ")"
let hvext = function HvVlan w -> "vlan(" ^ wlen w ^ ")" | HvMacsec w -> "macsec(" ^ wlen w ^ ")"
let hvnet = function
  | None -> "none"
  | Some (HvIpv4 (h, a)) ->
    Printf.sprintf "v4(%s,%s)" (wlen h) (match a with Some w -> wlen w | None -> "-")
  | Some (HvIpv6 (h, f, fr, x)) ->
    Printf.sprintf "v6(%s,%s,%s,%s)" (wlen h) (match f with Some v -> sn v | None -> "-") (b01 fr) (wlen x)
  | Some (HvArp w) -> "arp(" ^ wlen w ^ ")"
let hvtr = function
  | None -> "none"
  | Some (HvUdp w) -> "udp(" ^ wlen w ^ ")"
  | Some (HvTcp w) -> "tcp(" ^ wlen w ^ ")"
  | Some (HvIcmpv4 w) -> "icmp4(" ^ wlen w ^ ")"
  | Some (HvIcmpv6 w) -> "icmp6(" ^ wlen w ^ ")"
(* header windows (model only): appended after the impl-comparable part *)
let hvwins v =
  let o = function None -> "-" | Some w -> win w in
  let n = match v.hv_net with
    | None -> "-"
    | Some (HvIpv4 (h, a)) -> win h ^ "," ^ o a
    | Some (HvIpv6 (h, _, _, x)) -> win h ^ "," ^ win x
    | Some (HvArp w) -> win w in
  let t = match v.hv_tr with
    | None -> "-"
    | Some (HvUdp w) | Some (HvTcp w) | Some (HvIcmpv4 w) | Some (HvIcmpv6 w) -> win w in
  Printf.sprintf "%s [%s] %s %s" (o v.hv_link)
    (String.concat ";" (List.map (function HvVlan w | HvMacsec w -> win w) v.hv_exts)) n t
let hvres = function
  | HOk v ->
    Printf.sprintf "ok link=%s exts=[%s] net=%s tr=%s pl=%s" (hvlink v.hv_link)
      (String.concat ";" (List.map hvext v.hv_exts)) (hvnet v.hv_net) (hvtr v.hv_tr)
      (hvpayload v.hv_payload)
  | HErr e -> "err " ^ slice_err e
  | HBug s -> "BUG " ^ sn s
let hvw = function HOk v -> hvwins v | _ -> "-"

(* lax struct family: the format of harness/src/hdrlax.rs *)
let lhvlink = function
  | None -> "none"
  | Some (HvlEthernet2 w) -> "eth(" ^ wlen w ^ ")"
  | Some (HvlLinuxSll w) -> "sll(" ^ wlen w ^ ")"
let sllpt = function
  | SllIgnored v -> "ignored:" ^ sn v | SllNetlink v -> "netlink:" ^ sn v | SllGre v -> "gre:" ^ sn v
  | SllEtherType v -> "ethertype:" ^ sn v | SllNonstandard v -> "nonstandard:" ^ sn v
let lhvpayload = function
  | LHvpEmpty -> "empty"
  | LHvpEther e ->
    Printf.sprintf "ether(%s,%s,%s,%s)" (sn e.lvep_type) (src_tag e.lvep_src) (b01 e.lvep_incomplete) (win e.lvep_win)
  | LHvpMacsecMod (i, w) -> Printf.sprintf "macsecmod(%s,%s)" (b01 i) (win w)
  | LHvpIp p ->
    Printf.sprintf "ip(%s,%s,%s,%s,%s)" (sn p.lvip_number) (b01 p.lvip_frag) (src_tag p.lvip_src)
      (b01 p.lvip_incomplete) (win p.lvip_win)
  | LHvpUdp (i, w) -> Printf.sprintf "udp(%s,%s)" (b01 i) (win w)
  | LHvpTcp (i, w) -> Printf.sprintf "tcp(%s,%s)" (b01 i) (win w)
  | LHvpIcmpv4 (i, w) -> Printf.sprintf "icmp4(%s,%s)" (b01 i) (win w)
  | LHvpIcmpv6 (i, w) -> Printf.sprintf "icmp6(%s,%s)" (b01 i) (win w)
  | LHvpLinuxSll (pt, w) -> Printf.sprintf "sll(%s,%s)" (sllpt pt) (win w)
let lstop = function None -> "none" | Some (e, l) -> layer_tag l ^ ":" ^ slice_err e
let lhvres = function
  | LHOk v ->
    Printf.sprintf "ok[link=%s,exts=[%s],net=%s,tr=%s,pl=%s,stop=%s]" (lhvlink v.lhv_link)
      (String.concat ";" (List.map hvext v.lhv_exts)) (hvnet v.lhv_net) (hvtr v.lhv_tr)
      (lhvpayload v.lhv_payload) (lstop v.lhv_stop)
  | LHErr e -> "err(" ^ slice_err e ^ ")"
  | LHBug s -> "BUG " ^ sn s

let run (line : string) : string =
  match Conv.split_ws line with
  | ["sll"; h] ->
    (* only LaxPacketHeaders has a Linux SLL entry point *)
    "sll H=" ^ lhvres (lhvres_of_h (LaxPacketHeaders.from_linux_sll (bytes_of_hex h)))
  | [entry; h] ->
    let bs = bytes_of_hex h in
    let lm =
      if entry = "eth" then LaxPacketHeaders.from_ethernet bs
      else if entry = "ip" then LaxPacketHeaders.from_ip bs
      else if String.length entry > 3 && String.sub entry 0 3 = "et:" then
        LaxPacketHeaders.from_ether_type (n_of_z (Z.of_string (String.sub entry 3 (String.length entry - 3)))) bs
      else failwith "entry" in
    let hm, sm, cm =
      if entry = "eth" then
        (PacketHeaders.from_ethernet_slice bs, SlicedPacket.from_ethernet bs, Cut.from_ethernet true bs)
      else if entry = "ip" then
        (PacketHeaders.from_ip_slice bs, SlicedPacket.from_ip bs, Cut.from_ip true bs)
      else if String.length entry > 3 && String.sub entry 0 3 = "et:" then begin
        let et = n_of_z (Z.of_string (String.sub entry 3 (String.length entry - 3))) in
        (PacketHeaders.from_ether_type et bs, SlicedPacket.from_ether_type et bs, Cut.from_ether_type true et bs)
      end else failwith "entry"
    in
    let hv = hvres_of_h hm and sv = hvres_of_s sm and cv = hvres_of_s cm in
    Printf.sprintf "%s | %s | %s | stopped=%s | hw=%s | cw=%s | laxH=%s" (hvres hv) (hvres sv) (hvres cv)
      (b01 (stopped_at_ext cm)) (hvw hv) (hvw cv) (lhvres (lhvres_of_h lm))
    (* ---- audit1-c04 ---- the slots of the struct Ipv6Extensions one by one, behind " ## " *)
    ^ (let slot = function
         | None -> "-"
         | Some (_, b) ->
           Printf.sprintf "%d/%s" (List.length b) (match b with x :: _ -> sn x | [] -> "?") in
       let slots = function
         | Some (HnIp (IhV6 (_, x))) ->
           Printf.sprintf "hbh:%s,dst:%s,rt:%s,fdst:%s,frag:%s,auth:%s" (slot x.x_hbh) (slot x.x_dest)
             (slot x.x_route) (slot x.x_fdest) (slot x.x_frag) (slot x.x_auth)
         | _ -> "-" in
       Printf.sprintf " ## slots=%s laxslots=%s"
         (match hm with Ok p -> slots p.h_net | _ -> "-")
         (match lm with Ok p -> slots p.lh_net | _ -> "-"))
    (* ---- end audit1-c04 ---- *)
  | _ -> failwith ("bad c04 case: " ^ line)

let () =
  Conv.iter_lines Sys.argv.(1) (fun l ->
      print_endline (try run l with Failure m -> "MODEL-FAIL " ^ m))
