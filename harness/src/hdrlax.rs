//! C04, lax half: LaxPacketHeaders vs LaxSlicedPacket on the same bytes.
//!
//! Output (single line):
//!   `lax H=<h> S=<s> hdrs=<eq|diff(layer)|-> pl=<eq|diff|-> stop=<eq|diff|->`
//! `<h>` is the LaxPacketHeaders result, `<s>` the LaxSlicedPacket result with
//! every slice converted by its `to_header()`; both are printed as
//!   `err(<canonical error>)` or
//!   `ok[link=..,exts=[..],net=..,tr=..,pl=..,stop=..]`
//! Headers are printed as kind(length) by `hdrfmt::render`; the payload as
//! `<kind>(<numbers>,<incomplete 0/1>,<off+len>)`; `stop=` is `none` or
//! `<layer>:<canonical slice error>`.  Nothing is normalised: the IPv6
//! duplicate-extension behaviour of the struct family shows up as `pl=diff`.
#[allow(unused_imports)]
use super::hdrfmt;
#[allow(unused_imports)]
use etherparse::err::packet::SliceError;
#[allow(unused_imports)]
use etherparse::err::Layer;
#[allow(unused_imports)]
use etherparse::*;
#[allow(unused_imports)]
use vh::off;
#[allow(unused_imports)]
use vh::parsefmt::{layer_tag, len_err, slice_err, src_tag};

/// what both lax families are reduced to before they are compared
#[allow(dead_code)]
pub struct Lax<'a> {
    pub link: Option<LinkHeader>,
    pub exts: Vec<LinkExtHeader>,
    pub net: Option<NetHeaders>,
    pub transport: Option<TransportHeader>,
    pub payload: LaxPayloadSlice<'a>,
    pub stop: Option<(SliceError, Layer)>,
}

#[allow(dead_code)]
pub fn of_lax_headers<'a>(h: &LaxPacketHeaders<'a>) -> Lax<'a> {
    Lax {
        link: h.link.clone(),
        exts: h.link_exts.iter().cloned().collect(),
        net: h.net.clone(),
        transport: h.transport.clone(),
        payload: h.payload.clone(),
        stop: h.stop_err.clone(),
    }
}

/// `to_header()` of every slice plus the innermost payload and the stop error
#[allow(dead_code)]
pub fn of_lax_sliced<'a>(s: &LaxSlicedPacket<'a>) -> Lax<'a> {
    let link = match &s.link {
        Some(l) => l.to_header(),
        None => None,
    };
    let exts: Vec<LinkExtHeader> = s.link_exts.iter().map(|x| x.to_header()).collect();
    let net = match &s.net {
        None => None,
        Some(LaxNetSlice::Ipv4(v)) => Some(NetHeaders::Ipv4(
            v.header().to_header(),
            v.extensions().to_header(),
        )),
        Some(LaxNetSlice::Ipv6(v)) => {
            let hd = v.header();
            // there is no to_header on Ipv6ExtensionsSlice: decode the bytes
            // the slice covers with the struct decoder
            let x = Ipv6Extensions::from_slice_lax(hd.next_header(), v.extensions().slice()).0;
            Some(NetHeaders::Ipv6(hd.to_header(), x))
        }
        Some(LaxNetSlice::Arp(a)) => Some(NetHeaders::Arp(a.to_packet())),
    };
    let transport = match &s.transport {
        None => None,
        Some(TransportSlice::Udp(u)) => Some(TransportHeader::Udp(u.to_header())),
        Some(TransportSlice::Tcp(t)) => Some(TransportHeader::Tcp(t.to_header())),
        Some(TransportSlice::Icmpv4(i)) => Some(TransportHeader::Icmpv4(i.header())),
        Some(TransportSlice::Icmpv6(i)) => Some(TransportHeader::Icmpv6(i.header())),
    };
    Lax {
        link,
        exts,
        net,
        transport,
        payload: innermost(s),
        stop: s.stop_err.clone(),
    }
}

/// innermost payload of a lax sliced packet.  The transport slices carry no
/// `incomplete` flag; LaxPacketHeaders copies the flag of the enclosing IP
/// payload, which is what is observable on the slice side as well.
#[allow(dead_code)]
pub fn innermost<'a>(s: &LaxSlicedPacket<'a>) -> LaxPayloadSlice<'a> {
    let ip_pl: Option<&LaxIpPayloadSlice<'a>> = match &s.net {
        Some(LaxNetSlice::Ipv4(v)) => Some(v.payload()),
        Some(LaxNetSlice::Ipv6(v)) => Some(v.payload()),
        _ => None,
    };
    if let Some(t) = &s.transport {
        let incomplete = match ip_pl {
            Some(p) => p.incomplete,
            None => false,
        };
        return match t {
            TransportSlice::Udp(u) => LaxPayloadSlice::Udp { payload: u.payload(), incomplete },
            TransportSlice::Tcp(t) => LaxPayloadSlice::Tcp { payload: t.payload(), incomplete },
            TransportSlice::Icmpv4(i) => {
                LaxPayloadSlice::Icmpv4 { payload: i.payload(), incomplete }
            }
            TransportSlice::Icmpv6(i) => {
                LaxPayloadSlice::Icmpv6 { payload: i.payload(), incomplete }
            }
        };
    }
    if let Some(n) = &s.net {
        return match n {
            LaxNetSlice::Ipv4(v) => LaxPayloadSlice::Ip(v.payload().clone()),
            LaxNetSlice::Ipv6(v) => LaxPayloadSlice::Ip(v.payload().clone()),
            LaxNetSlice::Arp(_) => LaxPayloadSlice::Empty,
        };
    }
    if let Some(LaxLinkExtSlice::Macsec(m)) = s.link_exts.last() {
        if let LaxMacsecPayloadSlice::Modified { incomplete, payload } = &m.payload {
            return LaxPayloadSlice::MacsecModified { payload, incomplete: *incomplete };
        }
    }
    match s.ether_payload() {
        Some(e) => LaxPayloadSlice::Ether(e),
        None => LaxPayloadSlice::Empty,
    }
}

#[allow(dead_code)]
fn b(x: bool) -> u8 {
    if x {
        1
    } else {
        0
    }
}

/// `<kind>(<numbers>,<incomplete>,<off+len>)`
#[allow(dead_code)]
pub fn payload(base: &[u8], p: &LaxPayloadSlice) -> String {
    match p {
        LaxPayloadSlice::Empty => "empty".to_string(),
        LaxPayloadSlice::Ether(e) => format!(
            "ether({},{},{},{})",
            e.ether_type.0,
            src_tag(e.len_source),
            b(e.incomplete),
            off(base, e.payload)
        ),
        LaxPayloadSlice::MacsecModified { payload, incomplete } => {
            format!("macsecmod({},{})", b(*incomplete), off(base, payload))
        }
        LaxPayloadSlice::Ip(p) => format!(
            "ip({},{},{},{},{})",
            p.ip_number.0,
            b(p.fragmented),
            src_tag(p.len_source),
            b(p.incomplete),
            off(base, p.payload)
        ),
        LaxPayloadSlice::Udp { payload, incomplete } => {
            format!("udp({},{})", b(*incomplete), off(base, payload))
        }
        LaxPayloadSlice::Tcp { payload, incomplete } => {
            format!("tcp({},{})", b(*incomplete), off(base, payload))
        }
        LaxPayloadSlice::Icmpv4 { payload, incomplete } => {
            format!("icmp4({},{})", b(*incomplete), off(base, payload))
        }
        LaxPayloadSlice::Icmpv6 { payload, incomplete } => {
            format!("icmp6({},{})", b(*incomplete), off(base, payload))
        }
        LaxPayloadSlice::LinuxSll(l) => {
            let (k, v): (&str, u16) = match l.protocol_type {
                LinuxSllProtocolType::Ignored(v) => ("ignored", v),
                LinuxSllProtocolType::NetlinkProtocolType(v) => ("netlink", v),
                LinuxSllProtocolType::GenericRoutingEncapsulationProtocolType(v) => ("gre", v),
                LinuxSllProtocolType::EtherType(v) => ("ethertype", v.0),
                LinuxSllProtocolType::LinuxNonstandardEtherType(v) => ("nonstandard", v.into()),
            };
            format!("sll({}:{},{})", k, v, off(base, l.payload))
        }
    }
}

#[allow(dead_code)]
pub fn stop(s: &Option<(SliceError, Layer)>) -> String {
    match s {
        None => "none".to_string(),
        Some((e, l)) => format!("{}:{}", layer_tag(*l), slice_err(e)),
    }
}

/// the header part as an `hdrfmt::Hdrs` (payload left out) so that the header
/// rendering and the layer by layer `==` are literally those of the strict half
#[allow(dead_code)]
fn hdrs_of<'a>(x: &Lax<'a>) -> hdrfmt::Hdrs<'a> {
    hdrfmt::Hdrs {
        link: x.link.clone(),
        exts: x.exts.clone(),
        net: x.net.clone(),
        transport: x.transport.clone(),
        payload: PayloadSlice::Empty,
        v6: None,
    }
}

/// `link=..,exts=[..],net=..,tr=..` with the kind(length) texts of hdrfmt::render
#[allow(dead_code)]
fn headers(x: &Lax) -> String {
    let r = hdrfmt::render(&[], &hdrs_of(x));
    // hdrfmt::render gives "ok link=A exts=[B] net=C tr=D pl=empty"
    let r = r.strip_prefix("ok ").unwrap_or(&r);
    let r = r.strip_suffix(" pl=empty").unwrap_or(r);
    r.replace(' ', ",")
}

#[allow(dead_code)]
pub fn render(base: &[u8], x: &Lax) -> String {
    format!(
        "ok[{},pl={},stop={}]",
        headers(x),
        payload(base, &x.payload),
        stop(&x.stop)
    )
}

#[allow(dead_code)]
fn ip_err(e: &err::ip::LaxHeaderSliceError) -> String {
    use err::ip::LaxHeaderSliceError as I;
    match e {
        I::Len(l) => len_err(l),
        I::Content(c) => slice_err(&SliceError::Ip(c.clone())),
    }
}

/// `sll <hex>`: LaxPacketHeaders::from_linux_sll (the only lax Linux SLL entry point)
#[allow(dead_code)]
pub fn run_sll(data: &[u8]) -> String {
    use err::linux_sll::HeaderSliceError as E;
    match LaxPacketHeaders::from_linux_sll(data) {
        Ok(h) => format!("sll H={}", render(data, &of_lax_headers(&h))),
        Err(E::Len(l)) => format!("sll H=err({})", len_err(&l)),
        Err(E::Content(c)) => format!("sll H=err({})", slice_err(&SliceError::LinuxSll(c))),
    }
}

pub fn run(entry: &str, data: &[u8]) -> String {
    // both families, errors already in canonical text
    let (h, s): (Result<LaxPacketHeaders, String>, Result<LaxSlicedPacket, String>) =
        if entry == "eth" {
            (
                LaxPacketHeaders::from_ethernet(data).map_err(|e| len_err(&e)),
                LaxSlicedPacket::from_ethernet(data).map_err(|e| len_err(&e)),
            )
        } else if entry == "ip" {
            (
                LaxPacketHeaders::from_ip(data).map_err(|e| ip_err(&e)),
                LaxSlicedPacket::from_ip(data).map_err(|e| ip_err(&e)),
            )
        } else if let Some(et) = entry.strip_prefix("et:") {
            let et = EtherType(et.parse().unwrap());
            (
                Ok(LaxPacketHeaders::from_ether_type(et, data)),
                Ok(LaxSlicedPacket::from_ether_type(et, data)),
            )
        } else {
            panic!("bad entry {}", entry)
        };
    let hh = h.as_ref().ok().map(of_lax_headers);
    let ss = s.as_ref().ok().map(of_lax_sliced);
    let hl = match (&h, &hh) {
        (Err(e), _) => format!("err({})", e),
        (_, Some(x)) => render(data, x),
        _ => unreachable!(),
    };
    let sl = match (&s, &ss) {
        (Err(e), _) => format!("err({})", e),
        (_, Some(x)) => render(data, x),
        _ => unreachable!(),
    };
    let (ch, cp, cs) = match (&hh, &ss) {
        (Some(a), Some(b)) => (
            hdrfmt::compare(&hdrs_of(a), &hdrs_of(b)),
            if payload(data, &a.payload) == payload(data, &b.payload) { "eq" } else { "diff" }
                .to_string(),
            if a.stop == b.stop { "eq" } else { "diff" }.to_string(),
        ),
        _ => ("-".to_string(), "-".to_string(), "-".to_string()),
    };
    format!("lax H={} S={} hdrs={} pl={} stop={}", hl, sl, ch, cp, cs)
}
