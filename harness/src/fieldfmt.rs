//! C03 (field values): canonical rendering of the header field values of a strict
//! slicing result, read through the REAL slice accessors.  Format (the same as
//! ocaml/run_c03f.ml): `ok <layer>:<field>=<value>;... <layer>:...`; numbers
//! decimal, flags 0/1, octet runs lowercase hex (`-` = empty).
//! Every layer is additionally converted with `to_header()` / `to_packet()`; a
//! struct field that differs from the accessor value is reported as
//! `TOHDR(<layer>.<field>)` at the end of the line (never printed by the model).
use etherparse::*;

pub struct Out {
    layers: Vec<String>,
    cur: Vec<String>,
    tag: &'static str,
    pub bad: Vec<String>,
}

fn be(b: &[u8]) -> u128 {
    b.iter().fold(0u128, |a, x| (a << 8) | (*x as u128))
}

impl Out {
    pub fn new() -> Out {
        Out { layers: Vec::new(), cur: Vec::new(), tag: "", bad: Vec::new() }
    }
    fn start(&mut self, tag: &'static str) {
        self.tag = tag;
        self.cur.clear();
    }
    fn n<T: Into<u128>>(&mut self, f: &str, v: T) {
        self.cur.push(format!("{}={}", f, v.into()));
    }
    fn b(&mut self, f: &str, v: bool) {
        self.cur.push(format!("{}={}", f, if v { 1 } else { 0 }));
    }
    fn x(&mut self, f: &str, v: &[u8]) {
        self.cur.push(format!("{}={}", f, vh::hex(v)));
    }
    fn end(&mut self) {
        self.layers.push(format!("{}:{}", self.tag, self.cur.join(";")));
    }
    fn chk(&mut self, what: &str, same: bool) {
        if !same {
            self.bad.push(format!("TOHDR({}.{})", self.tag, what));
        }
    }
    /// audit follow-up: a ready-made layer (the derived accessor layers of fieldfmt2.rs)
    pub fn add_layer(&mut self, l: String) {
        self.layers.push(l);
    }
    pub fn finish(self) -> String {
        let mut s = if self.layers.is_empty() { "ok -".to_string() } else { format!("ok {}", self.layers.join(" ")) };
        for b in self.bad {
            s.push(' ');
            s.push_str(&b);
        }
        s
    }
}

pub fn link(o: &mut Out, l: &LinkSlice) {
    match l {
        LinkSlice::Ethernet2(e) => {
            o.start("eth");
            o.n("dst", be(&e.destination()));
            o.n("src", be(&e.source()));
            o.n("ether_type", e.ether_type().0);
            let h = e.to_header();
            o.chk("destination", h.destination == e.destination());
            o.chk("source", h.source == e.source());
            o.chk("ether_type", h.ether_type == e.ether_type());
            o.end();
        }
        LinkSlice::LinuxSll(s) => {
            o.start("sll");
            o.n("packet_type", u16::from(s.packet_type()));
            o.n("hw_type", s.arp_hardware_type().0);
            o.n("addr_len", s.sender_address_valid_length());
            o.x("addr", &s.sender_address_full());
            o.n("protocol", u16::from(s.protocol_type()));
            let h = s.to_header();
            o.chk("packet_type", h.packet_type == s.packet_type());
            o.chk("arp_hrd_type", h.arp_hrd_type == s.arp_hardware_type());
            o.chk("sender_address_valid_length", h.sender_address_valid_length == s.sender_address_valid_length());
            o.chk("sender_address", h.sender_address == s.sender_address_full());
            o.chk("protocol_type", h.protocol_type == s.protocol_type());
            o.end();
        }
        LinkSlice::EtherPayload(_) => {}
        LinkSlice::LinuxSllPayload(_) => {}
    }
}

pub fn link_ext(o: &mut Out, x: &LinkExtSlice) {
    match x {
        LinkExtSlice::Vlan(v) => {
            o.start("vlan");
            o.n("pcp", v.priority_code_point().value());
            o.b("dei", v.drop_eligible_indicator());
            o.n("vid", v.vlan_identifier().value());
            o.n("ether_type", v.ether_type().0);
            let h = v.to_header();
            o.chk("pcp", h.pcp == v.priority_code_point());
            o.chk("drop_eligible_indicator", h.drop_eligible_indicator == v.drop_eligible_indicator());
            o.chk("vlan_id", h.vlan_id == v.vlan_identifier());
            o.chk("ether_type", h.ether_type == v.ether_type());
            o.end();
        }
        LinkExtSlice::Macsec(m) => {
            let s = &m.header;
            o.start("macsec");
            o.b("v", s.tci_an_raw() & 0x80 != 0);
            o.b("es", s.endstation_id());
            o.b("sc", s.sci_present());
            o.b("scb", s.tci_scb());
            o.b("e", s.encrypted());
            o.b("c", s.userdata_changed());
            o.n("an", s.an().value());
            o.n("sl", s.short_len().value());
            o.n("pn", s.packet_nr());
            if let Some(sci) = s.sci() {
                o.n("sci", sci);
            }
            let h = s.to_header();
            o.chk("endstation_id", h.endstation_id == s.endstation_id());
            o.chk("scb", h.scb == s.tci_scb());
            o.chk("an", h.an == s.an());
            o.chk("short_len", h.short_len == s.short_len());
            o.chk("packet_nr", h.packet_nr == s.packet_nr());
            o.chk("sci", h.sci == s.sci());
            o.chk("ptype", h.ptype == s.ptype());
            o.end();
        }
    }
}

fn auth(o: &mut Out, a: &IpAuthHeaderSlice) {
    o.start("auth");
    let h = a.to_header();
    o.n("next_header", a.next_header().0);
    o.n("payload_len", (h.raw_icv().len() / 4 + 1) as u64);
    o.n("spi", a.spi());
    o.n("seq", a.sequence_number());
    o.x("icv", a.raw_icv());
    o.chk("next_header", h.next_header == a.next_header());
    o.chk("spi", h.spi == a.spi());
    o.chk("sequence_number", h.sequence_number == a.sequence_number());
    o.chk("raw_icv", h.raw_icv() == a.raw_icv());
    o.chk("header_len", h.header_len() == a.slice().len());
    o.end();
}

fn raw_ext(o: &mut Out, tag: &'static str, r: &Ipv6RawExtHeaderSlice) {
    o.start(tag);
    let h = r.to_header();
    o.n("next_header", r.next_header().0);
    o.n("len_byte", (h.header_len() / 8 - 1) as u64);
    o.x("payload", r.payload());
    o.chk("next_header", h.next_header == r.next_header());
    o.chk("payload", h.payload() == r.payload());
    o.end();
}

pub fn net(o: &mut Out, n: &NetSlice) {
    match n {
        NetSlice::Ipv4(v) => {
            let s = v.header();
            o.start("ipv4");
            o.n("version", s.version());
            o.n("ihl", s.ihl());
            o.n("dscp", s.dcp().value());
            o.n("ecn", s.ecn().value());
            o.n("total_len", s.total_len());
            o.n("ident", s.identification());
            o.b("df", s.dont_fragment());
            o.b("mf", s.more_fragments());
            o.n("frag_off", s.fragments_offset().value());
            o.n("ttl", s.ttl());
            o.n("protocol", s.protocol().0);
            o.n("checksum", s.header_checksum());
            o.n("src", be(&s.source()));
            o.n("dst", be(&s.destination()));
            o.x("options", s.options());
            let h = s.to_header();
            o.chk("dscp", h.dscp == s.dcp());
            o.chk("ecn", h.ecn == s.ecn());
            o.chk("total_len", h.total_len == s.total_len());
            o.chk("identification", h.identification == s.identification());
            o.chk("dont_fragment", h.dont_fragment == s.dont_fragment());
            o.chk("more_fragments", h.more_fragments == s.more_fragments());
            o.chk("fragment_offset", h.fragment_offset == s.fragments_offset());
            o.chk("time_to_live", h.time_to_live == s.ttl());
            o.chk("protocol", h.protocol == s.protocol());
            o.chk("header_checksum", h.header_checksum == s.header_checksum());
            o.chk("source", h.source == s.source());
            o.chk("destination", h.destination == s.destination());
            o.chk("options", h.options.as_slice() == s.options());
            o.chk("source_addr", s.source_addr().octets() == s.source());
            o.chk("destination_addr", s.destination_addr().octets() == s.destination());
            o.end();
            if let Some(a) = &v.extensions().auth {
                auth(o, a);
            }
        }
        NetSlice::Ipv6(v) => {
            let s = v.header();
            o.start("ipv6");
            o.n("version", s.version());
            o.n("traffic_class", s.traffic_class());
            o.n("flow_label", s.flow_label().value());
            o.n("payload_len", s.payload_length());
            o.n("next_header", s.next_header().0);
            o.n("hop_limit", s.hop_limit());
            o.x("src", &s.source());
            o.x("dst", &s.destination());
            let h = s.to_header();
            o.chk("traffic_class", h.traffic_class == s.traffic_class());
            o.chk("flow_label", h.flow_label == s.flow_label());
            o.chk("payload_length", h.payload_length == s.payload_length());
            o.chk("next_header", h.next_header == s.next_header());
            o.chk("hop_limit", h.hop_limit == s.hop_limit());
            o.chk("source", h.source == s.source());
            o.chk("destination", h.destination == s.destination());
            o.chk("source_addr", s.source_addr().octets() == s.source());
            o.chk("destination_addr", s.destination_addr().octets() == s.destination());
            o.chk("dscp", s.dscp().value() == s.traffic_class() >> 2);
            o.chk("ecn", s.ecn().value() == s.traffic_class() & 3);
            o.end();
            for e in v.extensions().clone().into_iter() {
                match e {
                    Ipv6ExtensionSlice::HopByHop(r) => raw_ext(o, "hopbyhop", &r),
                    Ipv6ExtensionSlice::Routing(r) => raw_ext(o, "routing", &r),
                    Ipv6ExtensionSlice::DestinationOptions(r) => raw_ext(o, "destopts", &r),
                    Ipv6ExtensionSlice::Fragment(f) => {
                        o.start("fragment");
                        o.n("next_header", f.next_header().0);
                        o.n("frag_off", f.fragment_offset().value());
                        o.b("mf", f.more_fragments());
                        o.n("ident", f.identification());
                        let h = f.to_header();
                        o.chk("next_header", h.next_header == f.next_header());
                        o.chk("fragment_offset", h.fragment_offset == f.fragment_offset());
                        o.chk("more_fragments", h.more_fragments == f.more_fragments());
                        o.chk("identification", h.identification == f.identification());
                        o.end();
                    }
                    Ipv6ExtensionSlice::Authentication(a) => auth(o, &a),
                }
            }
        }
        NetSlice::Arp(a) => {
            o.start("arp");
            o.n("hw_type", a.hw_addr_type().0);
            o.n("proto_type", a.proto_addr_type().0);
            o.n("hw_size", a.hw_addr_size());
            o.n("proto_size", a.proto_addr_size());
            o.n("operation", a.operation().0);
            o.x("sender_hw", a.sender_hw_addr());
            o.x("sender_proto", a.sender_protocol_addr());
            o.x("target_hw", a.target_hw_addr());
            o.x("target_proto", a.target_protocol_addr());
            let p = a.to_packet();
            o.chk("hw_addr_type", p.hw_addr_type == a.hw_addr_type());
            o.chk("proto_addr_type", p.proto_addr_type == a.proto_addr_type());
            o.chk("operation", p.operation == a.operation());
            o.chk("sender_hw_addr", p.sender_hw_addr() == a.sender_hw_addr());
            o.chk("sender_protocol_addr", p.sender_protocol_addr() == a.sender_protocol_addr());
            o.chk("target_hw_addr", p.target_hw_addr() == a.target_hw_addr());
            o.chk("target_protocol_addr", p.target_protocol_addr() == a.target_protocol_addr());
            o.end();
        }
    }
}

pub fn transport(o: &mut Out, t: &TransportSlice) {
    match t {
        TransportSlice::Udp(u) => {
            o.start("udp");
            o.n("src_port", u.source_port());
            o.n("dst_port", u.destination_port());
            o.n("length", u.length());
            o.n("checksum", u.checksum());
            let h = u.to_header();
            o.chk("source_port", h.source_port == u.source_port());
            o.chk("destination_port", h.destination_port == u.destination_port());
            o.chk("length", h.length == u.length());
            o.chk("checksum", h.checksum == u.checksum());
            o.end();
        }
        TransportSlice::Tcp(t) => {
            o.start("tcp");
            o.n("src_port", t.source_port());
            o.n("dst_port", t.destination_port());
            o.n("seq", t.sequence_number());
            o.n("ack_nr", t.acknowledgment_number());
            o.n("data_offset", t.data_offset());
            o.b("ns", t.ns());
            o.b("cwr", t.cwr());
            o.b("ece", t.ece());
            o.b("urg", t.urg());
            o.b("ack", t.ack());
            o.b("psh", t.psh());
            o.b("rst", t.rst());
            o.b("syn", t.syn());
            o.b("fin", t.fin());
            o.n("window", t.window_size());
            o.n("checksum", t.checksum());
            o.n("urgent", t.urgent_pointer());
            o.x("options", t.options());
            let h = t.to_header();
            o.chk("source_port", h.source_port == t.source_port());
            o.chk("destination_port", h.destination_port == t.destination_port());
            o.chk("sequence_number", h.sequence_number == t.sequence_number());
            o.chk("acknowledgment_number", h.acknowledgment_number == t.acknowledgment_number());
            o.chk("data_offset", h.data_offset() == t.data_offset());
            o.chk("ns", h.ns == t.ns());
            o.chk("fin", h.fin == t.fin());
            o.chk("syn", h.syn == t.syn());
            o.chk("rst", h.rst == t.rst());
            o.chk("psh", h.psh == t.psh());
            o.chk("ack", h.ack == t.ack());
            o.chk("urg", h.urg == t.urg());
            o.chk("ece", h.ece == t.ece());
            o.chk("cwr", h.cwr == t.cwr());
            o.chk("window_size", h.window_size == t.window_size());
            o.chk("checksum", h.checksum == t.checksum());
            o.chk("urgent_pointer", h.urgent_pointer == t.urgent_pointer());
            o.chk("options", h.options.as_slice() == t.options());
            o.end();
        }
        TransportSlice::Icmpv4(i) => {
            o.start("icmp4");
            o.n("type", i.type_u8());
            o.n("code", i.code_u8());
            o.n("checksum", i.checksum());
            o.x("bytes4to8", &i.bytes5to8());
            let h = i.header();
            o.chk("checksum", h.checksum == i.checksum());
            o.chk("icmp_type", h.icmp_type == i.icmp_type());
            o.end();
        }
        TransportSlice::Icmpv6(i) => {
            o.start("icmp6");
            o.n("type", i.type_u8());
            o.n("code", i.code_u8());
            o.n("checksum", i.checksum());
            o.x("bytes4to8", &i.bytes5to8());
            let h = i.header();
            o.chk("checksum", h.checksum == i.checksum());
            o.chk("icmp_type", h.icmp_type == i.icmp_type());
            o.end();
        }
    }
}

#[allow(dead_code)]
pub fn packet(p: &SlicedPacket) -> String {
    packet_out(p).finish()
}

/// the raw field layers, not yet rendered (fieldfmt2.rs appends the derived layers)
pub fn packet_out(p: &SlicedPacket) -> Out {
    let mut o = Out::new();
    if let Some(l) = &p.link {
        link(&mut o, l);
    }
    for x in p.link_exts.iter() {
        link_ext(&mut o, x);
    }
    if let Some(n) = &p.net {
        net(&mut o, n);
    }
    if let Some(t) = &p.transport {
        transport(&mut o, t);
    }
    o
}
