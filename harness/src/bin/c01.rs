//! C01 / C02: every public decoder of the crate on arbitrary bytes, followed by
//! every accessor / conversion / iterator / Debug rendering of the result, with
//! the input placed (a) end-aligned against a PROT_NONE page, (b) start-aligned
//! behind a PROT_NONE page, (c) in the middle of a poisoned buffer.
//!
//! `c01 <casefile>` is a supervisor: it feeds the cases to worker processes
//! (`c01 --worker`) and attributes an abnormal worker exit (SIGSEGV on a guard
//! page, SIGABRT from core's unsafe-precondition checks, abort) to the case that
//! was being run.  One line per case:
//!   `ok h=<digest> n=<sub-slices checked> items=<iterator items>`
//!   `DIFF <placement> ...`        result depends on the placement
//!   `OUTSIDE <what>`              a returned sub-slice leaves the input
//!   `PANIC <msg>` / `CRASH signal=<n>` / `HANG`
use etherparse::*;
use std::cell::RefCell;
use std::fmt::Write as FmtWrite;
use std::io::{BufRead, BufReader, Write};
use vh::*;

thread_local! {
    static BASE: RefCell<(usize, usize)> = RefCell::new((0, 0));
    static OUT: RefCell<String> = RefCell::new(String::new());
    static NSUB: RefCell<usize> = RefCell::new(0);
    static NITEMS: RefCell<usize> = RefCell::new(0);
    static OUTSIDE: RefCell<Option<String>> = RefCell::new(None);
}

fn put(s: &str) {
    OUT.with(|o| {
        let mut o = o.borrow_mut();
        o.push_str(s);
        o.push('\n');
    });
}

/// records a sub-slice handed back by the crate; must lie inside the input
fn sub(name: &str, s: &[u8]) {
    NSUB.with(|n| *n.borrow_mut() += 1);
    let (b, l) = BASE.with(|b| *b.borrow());
    let p = s.as_ptr() as usize;
    // an empty slice holds no byte: the crate hands out `&[]` for "no payload"
    if s.is_empty() && (p < b || p > b + l) {
        put(&format!("{}:empty", name));
        return;
    }
    if p < b || p + s.len() > b + l {
        OUTSIDE.with(|o| {
            if o.borrow().is_none() {
                *o.borrow_mut() = Some(format!("{} {}+{}", name, (p as isize) - (b as isize), s.len()));
            }
        });
        put(&format!("{}:OUTSIDE", name));
    } else {
        put(&format!("{}:{}+{}", name, p - b, s.len()));
    }
}

fn dbg<T: core::fmt::Debug>(name: &str, v: &T) {
    let mut s = String::new();
    let _ = write!(s, "{}={:?}", name, v);
    put(&s);
}

fn disp<T: core::fmt::Display>(name: &str, v: &T) {
    let mut s = String::new();
    let _ = write!(s, "{}={}", name, v);
    put(&s);
}

fn item() {
    NITEMS.with(|n| *n.borrow_mut() += 1);
}

// ---- per type exercisers ---------------------------------------------------

fn ex_eth(p: &str, s: &Ethernet2Slice) {
    sub(&format!("{p}.eth.slice"), s.slice());
    sub(&format!("{p}.eth.header"), s.header_slice());
    sub(&format!("{p}.eth.payload"), s.payload_slice());
    sub(&format!("{p}.eth.payload2"), s.payload().payload);
    dbg(&format!("{p}.eth"), s);
    dbg(&format!("{p}.eth.hdr"), &s.to_header());
    dbg(&format!("{p}.eth.fcs"), &s.fcs());
}

fn ex_sll(p: &str, s: &LinuxSllSlice) {
    sub(&format!("{p}.sll.slice"), s.slice());
    sub(&format!("{p}.sll.header"), s.header_slice());
    sub(&format!("{p}.sll.payload"), s.payload_slice());
    sub(&format!("{p}.sll.addr"), s.sender_address());
    dbg(&format!("{p}.sll"), s);
    dbg(&format!("{p}.sll.hdr"), &s.to_header());
}

fn ex_vlan(p: &str, s: &SingleVlanSlice) {
    sub(&format!("{p}.vlan.slice"), s.slice());
    sub(&format!("{p}.vlan.header"), s.header_slice());
    sub(&format!("{p}.vlan.payload"), s.payload_slice());
    dbg(&format!("{p}.vlan"), s);
    dbg(&format!("{p}.vlan.hdr"), &s.to_header());
}

fn ex_macsec_header(p: &str, h: &MacsecHeaderSlice) {
    sub(&format!("{p}.macsec.header"), h.slice());
    dbg(&format!("{p}.macsec.h"), h);
    dbg(&format!("{p}.macsec.hdr"), &h.to_header());
    dbg(&format!("{p}.macsec.net"), &h.next_ether_type());
    dbg(&format!("{p}.macsec.epl"), &h.expected_payload_len());
    dbg(&format!("{p}.macsec.sci"), &h.sci());
    dbg(&format!("{p}.macsec.ptype"), &h.ptype());
}

fn ex_macsec(p: &str, m: &MacsecSlice) {
    ex_macsec_header(p, &m.header);
    match &m.payload {
        MacsecPayloadSlice::Unmodified(e) => sub(&format!("{p}.macsec.un"), e.payload),
        MacsecPayloadSlice::Modified(x) => sub(&format!("{p}.macsec.mod"), x),
    }
    dbg(&format!("{p}.macsec"), m);
    dbg(&format!("{p}.macsec.ep"), &m.ether_payload());
}

fn ex_arp(p: &str, a: &ArpPacketSlice) {
    sub(&format!("{p}.arp.slice"), a.slice());
    sub(&format!("{p}.arp.shw"), a.sender_hw_addr());
    sub(&format!("{p}.arp.spr"), a.sender_protocol_addr());
    sub(&format!("{p}.arp.thw"), a.target_hw_addr());
    sub(&format!("{p}.arp.tpr"), a.target_protocol_addr());
    dbg(&format!("{p}.arp"), a);
    dbg(&format!("{p}.arp.pkt"), &a.to_packet());
}

fn ex_ipv4_header(p: &str, h: &Ipv4HeaderSlice) {
    sub(&format!("{p}.v4h.slice"), h.slice());
    sub(&format!("{p}.v4h.options"), h.options());
    dbg(&format!("{p}.v4h"), h);
    dbg(&format!("{p}.v4h.hdr"), &h.to_header());
}

fn ex_auth(p: &str, a: &IpAuthHeaderSlice) {
    sub(&format!("{p}.ah.slice"), a.slice());
    sub(&format!("{p}.ah.icv"), a.raw_icv());
    dbg(&format!("{p}.ah"), a);
    dbg(&format!("{p}.ah.hdr"), &a.to_header());
}

fn ex_ip_payload(p: &str, pl: &IpPayloadSlice) {
    sub(&format!("{p}.ippl"), pl.payload);
    dbg(&format!("{p}.ippl.d"), pl);
}

fn ex_ipv4(p: &str, v: &Ipv4Slice) {
    ex_ipv4_header(p, &v.header());
    if let Some(a) = v.extensions().auth {
        ex_auth(p, &a);
    }
    dbg(&format!("{p}.v4.exts"), &v.extensions().to_header());
    ex_ip_payload(p, v.payload());
    dbg(&format!("{p}.v4"), v);
}

fn ex_ipv6_header(p: &str, h: &Ipv6HeaderSlice) {
    sub(&format!("{p}.v6h.slice"), h.slice());
    dbg(&format!("{p}.v6h"), h);
    dbg(&format!("{p}.v6h.hdr"), &h.to_header());
}

fn ex_ipv6_exts(p: &str, x: &Ipv6ExtensionsSlice) {
    sub(&format!("{p}.v6x.slice"), x.slice());
    dbg(&format!("{p}.v6x"), x);
    dbg(&format!("{p}.v6x.first"), &x.first_header());
    let mut n = 0;
    for e in x.clone().into_iter() {
        item();
        n += 1;
        if n > 5000 {
            put("v6x.iter:TOO-MANY");
            break;
        }
        match e {
            Ipv6ExtensionSlice::HopByHop(r) => {
                sub(&format!("{p}.v6x.hbh"), r.slice());
                sub(&format!("{p}.v6x.hbh.pl"), r.payload());
                dbg(&format!("{p}.v6x.hbh.h"), &r.to_header());
            }
            Ipv6ExtensionSlice::Routing(r) => {
                sub(&format!("{p}.v6x.rt"), r.slice());
                sub(&format!("{p}.v6x.rt.pl"), r.payload());
                dbg(&format!("{p}.v6x.rt.h"), &r.to_header());
            }
            Ipv6ExtensionSlice::DestinationOptions(r) => {
                sub(&format!("{p}.v6x.do"), r.slice());
                sub(&format!("{p}.v6x.do.pl"), r.payload());
                dbg(&format!("{p}.v6x.do.h"), &r.to_header());
            }
            Ipv6ExtensionSlice::Fragment(f) => {
                sub(&format!("{p}.v6x.fr"), f.slice());
                dbg(&format!("{p}.v6x.fr.h"), &f.to_header());
            }
            Ipv6ExtensionSlice::Authentication(a) => ex_auth(&format!("{p}.v6x"), &a),
        }
    }
}

fn ex_ipv6(p: &str, v: &Ipv6Slice) {
    ex_ipv6_header(p, &v.header());
    ex_ipv6_exts(p, v.extensions());
    ex_ip_payload(p, v.payload());
    dbg(&format!("{p}.v6"), v);
}

fn ex_udp(p: &str, u: &UdpSlice) {
    sub(&format!("{p}.udp.slice"), u.slice());
    sub(&format!("{p}.udp.header"), u.header_slice());
    sub(&format!("{p}.udp.payload"), u.payload());
    dbg(&format!("{p}.udp"), u);
    dbg(&format!("{p}.udp.hdr"), &u.to_header());
}

fn ex_tcp_opts(p: &str, it: TcpOptionsIterator) {
    let mut it = it;
    let mut n = 0;
    loop {
        sub(&format!("{p}.tcpopt.rest"), it.rest());
        match it.next() {
            None => break,
            Some(x) => {
                item();
                dbg(&format!("{p}.tcpopt"), &x);
                if let Err(e) = &x {
                    disp(&format!("{p}.tcpopt.err"), e);
                }
            }
        }
        n += 1;
        if n > 100 {
            put("tcpopt:TOO-MANY");
            break;
        }
    }
}

fn ex_tcp(p: &str, t: &TcpSlice) {
    sub(&format!("{p}.tcp.slice"), t.slice());
    sub(&format!("{p}.tcp.header"), t.header_slice());
    sub(&format!("{p}.tcp.options"), t.options());
    sub(&format!("{p}.tcp.payload"), t.payload());
    dbg(&format!("{p}.tcp"), t);
    dbg(&format!("{p}.tcp.hdr"), &t.to_header());
    ex_tcp_opts(p, t.options_iterator());
}

fn ex_icmp4(p: &str, i: &Icmpv4Slice) {
    sub(&format!("{p}.icmp4.slice"), i.slice());
    sub(&format!("{p}.icmp4.payload"), i.payload());
    dbg(&format!("{p}.icmp4"), i);
    dbg(&format!("{p}.icmp4.hdr"), &i.header());
    dbg(&format!("{p}.icmp4.type"), &i.icmp_type());
    dbg(&format!("{p}.icmp4.hl"), &i.header_len());
}

fn ex_icmp6(p: &str, i: &Icmpv6Slice) {
    sub(&format!("{p}.icmp6.slice"), i.slice());
    sub(&format!("{p}.icmp6.payload"), i.payload());
    dbg(&format!("{p}.icmp6"), i);
    dbg(&format!("{p}.icmp6.hdr"), &i.header());
    dbg(&format!("{p}.icmp6.type"), &i.icmp_type());
    dbg(&format!("{p}.icmp6.valid4"), &i.is_checksum_valid([1; 16], [2; 16]));
    dbg(&format!("{p}.icmp6.hl"), &(i.header_len(), i.type_u8(), i.code_u8(), i.checksum(), i.bytes5to8()));
    match i.payload_slice() {
        Ok(ps) => ex_icmp6_payload(&format!("{p}.icmp6"), &ps),
        Err(e) => dbg(&format!("{p}.icmp6.ps.err"), &e),
    }
}

/// NDP option iteration: must end within len + 2 calls of next() (every item covers at least
/// 8 bytes, an error ends the iteration), every item inside the input
fn ex_ndp_opts(p: &str, it: icmpv6::NdpOptionsIterator, area_len: usize) {
    use icmpv6::*;
    let mut it = it;
    let mut n = 0usize;
    loop {
        sub(&format!("{p}.ndp.rest"), it.rest());
        dbg(&format!("{p}.ndp.it"), &it);
        match it.next() {
            None => break,
            Some(Ok(o)) => {
                item();
                sub(&format!("{p}.ndp.opt"), o.as_bytes());
                dbg(&format!("{p}.ndp.ty"), &o.option_type());
                dbg(&format!("{p}.ndp.o"), &o);
                match &o {
                    NdpOptionSlice::SourceLinkLayerAddress(v) => sub(&format!("{p}.ndp.sll"), v.link_layer_address()),
                    NdpOptionSlice::TargetLinkLayerAddress(v) => sub(&format!("{p}.ndp.tll"), v.link_layer_address()),
                    NdpOptionSlice::PrefixInformation(v) => {
                        sub(&format!("{p}.ndp.pi"), &v.as_bytes()[..]);
                        dbg(&format!("{p}.ndp.piv"), &v.prefix_information());
                        dbg(&format!("{p}.ndp.pif"), &(v.prefix_length(), v.on_link(), v.autonomous_address_configuration(),
                            v.valid_lifetime(), v.preferred_lifetime(), v.prefix()));
                    }
                    NdpOptionSlice::RedirectedHeader(v) => sub(&format!("{p}.ndp.rh"), v.redirected_packet()),
                    NdpOptionSlice::Mtu(v) => dbg(&format!("{p}.ndp.mtu"), &v.mtu()),
                    NdpOptionSlice::Unknown(v) => {
                        sub(&format!("{p}.ndp.unk"), v.data());
                        dbg(&format!("{p}.ndp.unkt"), &v.option_type());
                    }
                    _ => put("ndp:other"),
                }
            }
            Some(Err(e)) => {
                item();
                dbg(&format!("{p}.ndp.err"), &e);
                disp(&format!("{p}.ndp.errd"), &e);
            }
        }
        n += 1;
        if n > area_len + 2 {
            put("ndp:TOO-MANY");
            panic!("NdpOptionsIterator yields more items than there are bytes (no progress)");
        }
    }
}

fn ex_icmp6_payload(p: &str, ps: &icmpv6::Icmpv6PayloadSlice) {
    use icmpv6::Icmpv6PayloadSlice as S;
    sub(&format!("{p}.ps.slice"), ps.slice());
    dbg(&format!("{p}.ps"), ps);
    if let Some((pl, rest)) = ps.to_payload() {
        dbg(&format!("{p}.ps.to"), &pl);
        sub(&format!("{p}.ps.to.rest"), rest);
    }
    match ps {
        S::DestinationUnreachable(v) => { sub(&format!("{p}.ps.du"), v.slice()); sub(&format!("{p}.ps.du.inv"), v.invoking_packet()); }
        S::PacketTooBig(v) => { sub(&format!("{p}.ps.ptb"), v.slice()); sub(&format!("{p}.ps.ptb.inv"), v.invoking_packet()); }
        S::TimeExceeded(v) => { sub(&format!("{p}.ps.te"), v.slice()); sub(&format!("{p}.ps.te.inv"), v.invoking_packet()); }
        S::ParameterProblem(v) => {
            sub(&format!("{p}.ps.pp"), v.slice());
            sub(&format!("{p}.ps.pp.inv"), v.invoking_packet());
            match v.as_lax_ip_slice() {
                Ok((ip, stop)) => {
                    dbg(&format!("{p}.ps.pp.ip"), &ip);
                    dbg(&format!("{p}.ps.pp.stop"), &stop);
                    sub(&format!("{p}.ps.pp.ip.pl"), ip.payload().payload);
                }
                Err(e) => dbg(&format!("{p}.ps.pp.iperr"), &e),
            }
        }
        S::EchoRequest(v) => { sub(&format!("{p}.ps.erq"), v.slice()); sub(&format!("{p}.ps.erq.d"), v.data()); }
        S::EchoReply(v) => { sub(&format!("{p}.ps.erp"), v.slice()); sub(&format!("{p}.ps.erp.d"), v.data()); }
        S::RouterSolicitation(v) => {
            sub(&format!("{p}.ps.rs"), v.slice());
            sub(&format!("{p}.ps.rs.o"), v.options());
            ex_ndp_opts(&format!("{p}.rs"), v.options_iterator(), v.options().len());
            let (pl, rest) = v.to_payload(); dbg(&format!("{p}.ps.rs.to"), &pl); sub(&format!("{p}.ps.rs.to.rest"), rest);
        }
        S::RouterAdvertisement(v) => {
            sub(&format!("{p}.ps.ra"), v.slice());
            dbg(&format!("{p}.ps.ra.f"), &(v.reachable_time(), v.retrans_timer()));
            sub(&format!("{p}.ps.ra.o"), v.options());
            ex_ndp_opts(&format!("{p}.ra"), v.options_iterator(), v.options().len());
            let (pl, rest) = v.to_payload(); dbg(&format!("{p}.ps.ra.to"), &pl); sub(&format!("{p}.ps.ra.to.rest"), rest);
        }
        S::NeighborSolicitation(v) => {
            sub(&format!("{p}.ps.ns"), v.slice());
            dbg(&format!("{p}.ps.ns.t"), &v.target_address());
            sub(&format!("{p}.ps.ns.o"), v.options());
            ex_ndp_opts(&format!("{p}.ns"), v.options_iterator(), v.options().len());
            let (pl, rest) = v.to_payload(); dbg(&format!("{p}.ps.ns.to"), &pl); sub(&format!("{p}.ps.ns.to.rest"), rest);
        }
        S::NeighborAdvertisement(v) => {
            sub(&format!("{p}.ps.na"), v.slice());
            dbg(&format!("{p}.ps.na.t"), &v.target_address());
            sub(&format!("{p}.ps.na.o"), v.options());
            ex_ndp_opts(&format!("{p}.na"), v.options_iterator(), v.options().len());
            let (pl, rest) = v.to_payload(); dbg(&format!("{p}.ps.na.to"), &pl); sub(&format!("{p}.ps.na.to.rest"), rest);
        }
        S::Redirect(v) => {
            sub(&format!("{p}.ps.rd"), v.slice());
            dbg(&format!("{p}.ps.rd.t"), &(v.target_address(), v.destination_address()));
            sub(&format!("{p}.ps.rd.o"), v.options());
            ex_ndp_opts(&format!("{p}.rd"), v.options_iterator(), v.options().len());
            let (pl, rest) = v.to_payload(); dbg(&format!("{p}.ps.rd.to"), &pl); sub(&format!("{p}.ps.rd.to.rest"), rest);
        }
        S::Raw(r) => sub(&format!("{p}.ps.raw"), r),
        _ => put("ps:other"),
    }
}

/// control-message decoders, NDP option decoders, IGMP, the IPv4 extension decoders, the
/// length-limited readers and the remaining `_lax` / `from_bytes` doors, on raw data
fn exercise_more(data: &[u8]) {
    use icmpv6::*;
    // every typed ICMPv6 payload decoder on the raw bytes
    macro_rules! ps {
        ($name:expr, $t:ident, $variant:ident) => {
            match $t::from_slice(data) {
                Ok(v) => ex_icmp6_payload($name, &Icmpv6PayloadSlice::$variant(v)),
                Err(e) => dbg(&format!("{}.err", $name), &e),
            }
        };
    }
    ps!("m.du", DestinationUnreachablePayloadSlice, DestinationUnreachable);
    ps!("m.ptb", PacketTooBigPayloadSlice, PacketTooBig);
    ps!("m.te", TimeExceededPayloadSlice, TimeExceeded);
    ps!("m.pp", ParameterProblemPayloadSlice, ParameterProblem);
    ps!("m.erq", EchoRequestPayloadSlice, EchoRequest);
    ps!("m.erp", EchoReplyPayloadSlice, EchoReply);
    ps!("m.rs", RouterSolicitationPayloadSlice, RouterSolicitation);
    ps!("m.ra", RouterAdvertisementPayloadSlice, RouterAdvertisement);
    ps!("m.ns", NeighborSolicitationPayloadSlice, NeighborSolicitation);
    ps!("m.na", NeighborAdvertisementPayloadSlice, NeighborAdvertisement);
    ps!("m.rd", RedirectPayloadSlice, Redirect);
    // the NDP option iterator and every option decoder on the raw bytes
    ex_ndp_opts("m.raw", NdpOptionsIterator::from_slice(data), data.len());
    macro_rules! opt {
        ($name:expr, $t:ident) => {
            match $t::from_slice(data) {
                Ok(v) => { sub($name, &v.as_bytes()[..]); dbg(&format!("{}.v", $name), &v); }
                Err(e) => { dbg(&format!("{}.err", $name), &e); disp(&format!("{}.errd", $name), &e); }
            }
        };
    }
    opt!("m.o.sll", SourceLinkLayerAddressOptionSlice);
    opt!("m.o.tll", TargetLinkLayerAddressOptionSlice);
    opt!("m.o.pi", PrefixInformationOptionSlice);
    opt!("m.o.rh", RedirectedHeaderOptionSlice);
    opt!("m.o.mtu", MtuOptionSlice);
    opt!("m.o.unk", UnknownNdpOptionSlice);
    match NdpOptionHeader::from_slice(data) {
        Ok((h, rest)) => { dbg("m.o.hdr", &h); sub("m.o.hdr.rest", rest); }
        Err(e) => dbg("m.o.hdr.err", &e),
    }
    dbg("m.o.piv", &PrefixInformation::from_slice(data));
    // IGMP
    match IgmpHeader::from_slice(data) {
        Ok((h, rest)) => { dbg("m.igmp", &h); sub("m.igmp.rest", rest); dbg("m.igmp.b", &h.to_bytes()); }
        Err(e) => dbg("m.igmp.err", &e),
    }
    match igmp::ReportGroupRecordV3Header::from_slice(data) {
        Ok((h, rest)) => { dbg("m.igmpgr", &h); sub("m.igmpgr.rest", rest); }
        Err(e) => dbg("m.igmpgr.err", &e),
    }
    // standalone header slices
    match MacsecHeaderSlice::from_slice(data) {
        Ok(h) => ex_macsec_header("m", &h),
        Err(e) => dbg("m.macsech.err", &e),
    }
    // IPv4 / IPv6 extension decoders with every start number that names an extension, and two that do not
    for nh in [0u8, 43, 44, 51, 60, 6, 17, 59, 135, 139, 140] {
        match Ipv4ExtensionsSlice::from_slice(IpNumber(nh), data) {
            Ok((x, n, rest)) => { dbg(&format!("m.x4s.{nh}"), &(x.to_header(), n)); sub(&format!("m.x4s.{nh}.rest"), rest);
                                  if let Some(a) = &x.auth { ex_auth(&format!("m.x4s.{nh}"), a); } }
            Err(e) => dbg(&format!("m.x4s.{nh}.err"), &e),
        }
        {
            let (x, n, rest, stop) = Ipv4ExtensionsSlice::from_slice_lax(IpNumber(nh), data);
            dbg(&format!("m.x4sl.{nh}"), &(x.to_header(), n, stop)); sub(&format!("m.x4sl.{nh}.rest"), rest);
        }
        match Ipv4Extensions::from_slice(IpNumber(nh), data) {
            Ok((x, n, rest)) => { dbg(&format!("m.x4.{nh}"), &(x, n)); sub(&format!("m.x4.{nh}.rest"), rest); }
            Err(e) => dbg(&format!("m.x4.{nh}.err"), &e),
        }
        {
            let (x, n, rest, stop) = Ipv4Extensions::from_slice_lax(IpNumber(nh), data);
            dbg(&format!("m.x4l.{nh}"), &(x, n, stop)); sub(&format!("m.x4l.{nh}.rest"), rest);
        }
        match Ipv6ExtensionsSlice::from_slice(IpNumber(nh), data) {
            Ok((x, n, rest)) => { ex_ipv6_exts(&format!("m.x6s.{nh}"), &x); dbg(&format!("m.x6s.{nh}.n"), &n); sub(&format!("m.x6s.{nh}.rest"), rest); }
            Err(e) => dbg(&format!("m.x6s.{nh}.err"), &e),
        }
        {
            let (x, n, rest, stop) = Ipv6ExtensionsSlice::from_slice_lax(IpNumber(nh), data);
            ex_ipv6_exts(&format!("m.x6sl.{nh}"), &x); dbg(&format!("m.x6sl.{nh}.n"), &(n, stop)); sub(&format!("m.x6sl.{nh}.rest"), rest);
        }
        match Ipv6Extensions::from_slice(IpNumber(nh), data) {
            Ok((x, n, rest)) => { dbg(&format!("m.x6.{nh}"), &(x, n)); sub(&format!("m.x6.{nh}.rest"), rest); }
            Err(e) => dbg(&format!("m.x6.{nh}.err"), &e),
        }
        {
            let (x, n, rest, stop) = Ipv6Extensions::from_slice_lax(IpNumber(nh), data);
            dbg(&format!("m.x6l.{nh}"), &(x, n, stop)); sub(&format!("m.x6l.{nh}.rest"), rest);
        }
        // reader doors, unlimited and length-limited (limit = the data, one less, far more)
        {
            let mut c = std::io::Cursor::new(data);
            let r = Ipv4Extensions::read(&mut c, IpNumber(nh));
            dbg(&format!("m.x4r.{nh}"), &(r.map_err(|e| format!("{:?}", e).chars().take(60).collect::<String>()), c.position()));
            let mut c = std::io::Cursor::new(data);
            let r = Ipv6Extensions::read(&mut c, IpNumber(nh));
            dbg(&format!("m.x6r.{nh}"), &(r.map_err(|e| format!("{:?}", e).chars().take(60).collect::<String>()), c.position()));
        }
        for lim in [data.len(), data.len().saturating_sub(1), data.len() + 1000, 0] {
            let mut lr = etherparse::io::LimitedReader::new(std::io::Cursor::new(data), lim, LenSource::Ipv4HeaderTotalLen, 3, err::Layer::Ipv4Header);
            let r = Ipv4Extensions::read_limited(&mut lr, IpNumber(nh));
            dbg(&format!("m.x4rl.{nh}.{lim}"), &(r.map_err(|e| format!("{:?}", e).chars().take(80).collect::<String>())));
            let mut lr = etherparse::io::LimitedReader::new(std::io::Cursor::new(data), lim, LenSource::Ipv6HeaderPayloadLen, 5, err::Layer::Ipv6Header);
            let r = Ipv6Extensions::read_limited(&mut lr, IpNumber(nh));
            dbg(&format!("m.x6rl.{nh}.{lim}"), &(r.map_err(|e| format!("{:?}", e).chars().take(80).collect::<String>())));
        }
    }
    for lim in [data.len(), data.len().saturating_sub(1), data.len() + 1000, 0] {
        let mut lr = etherparse::io::LimitedReader::new(std::io::Cursor::new(data), lim, LenSource::Ipv6HeaderPayloadLen, 7, err::Layer::IpAuthHeader);
        dbg(&format!("m.ahrl.{lim}"), &IpAuthHeader::read_limited(&mut lr).map_err(|e| format!("{:?}", e).chars().take(80).collect::<String>()));
        let mut lr = etherparse::io::LimitedReader::new(std::io::Cursor::new(data), lim, LenSource::Ipv6HeaderPayloadLen, 7, err::Layer::Ipv6ExtHeader);
        dbg(&format!("m.rawrl.{lim}"), &Ipv6RawExtHeader::read_limited(&mut lr).map_err(|e| format!("{:?}", e).chars().take(80).collect::<String>()));
        let mut lr = etherparse::io::LimitedReader::new(std::io::Cursor::new(data), lim, LenSource::Ipv6HeaderPayloadLen, 7, err::Layer::Ipv6FragHeader);
        dbg(&format!("m.fragrl.{lim}"), &Ipv6FragmentHeader::read_limited(&mut lr).map_err(|e| format!("{:?}", e).chars().take(80).collect::<String>()));
    }
    {
        let mut c = std::io::Cursor::new(data);
        let r = Ipv4Header::read_without_version(&mut c, 0x45).map_err(|e| format!("{:?}", e).chars().take(60).collect::<String>());
        dbg("m.v4rwv", &(r, c.position()));
        let mut c = std::io::Cursor::new(data);
        let r = Ipv6Header::read_without_version(&mut c, 0x60).map_err(|e| format!("{:?}", e).chars().take(60).collect::<String>());
        dbg("m.v6rwv", &(r, c.position()));
    }
    // the lax copy of Ipv6Slice
    match Ipv6Slice::from_slice_lax(data) {
        Ok(v) => ex_ipv6("m.v6lax", &v),
        Err(e) => dbg("m.v6lax.err", &e),
    }
    // fixed-size doors
    if let Ok(b) = <[u8; 14]>::try_from(data) { dbg("m.fb.eth", &Ethernet2Header::from_bytes(b)); }
    if let Ok(b) = <[u8; 16]>::try_from(data) { dbg("m.fb.sll", &LinuxSllHeader::from_bytes(b)); }
    if let Ok(b) = <[u8; 4]>::try_from(data) { dbg("m.fb.vlan", &SingleVlanHeader::from_bytes(b)); dbg("m.fb.echo", &IcmpEchoHeader::from_bytes(b)); }
    if let Ok(b) = <[u8; 8]>::try_from(data) { dbg("m.fb.udp", &UdpHeader::from_bytes(b)); }
    if let Ok(b) = <[u8; 2]>::try_from(data) { dbg("m.fb.ndph", &NdpOptionHeader::from_bytes(b)); }
    if let Ok(b) = <[u8; 32]>::try_from(data) { dbg("m.fb.pi", &PrefixInformation::from_bytes(b)); }
}

fn ex_sliced(p: &str, r: &Result<SlicedPacket, err::packet::SliceError>) {
    match r {
        Err(e) => {
            dbg(&format!("{p}.err"), e);
            disp(&format!("{p}.errd"), e);
        }
        Ok(s) => {
            match &s.link {
                Some(LinkSlice::Ethernet2(e)) => ex_eth(p, e),
                Some(LinkSlice::LinuxSll(e)) => ex_sll(p, e),
                Some(LinkSlice::EtherPayload(e)) => sub(&format!("{p}.etp"), e.payload),
                Some(LinkSlice::LinuxSllPayload(e)) => sub(&format!("{p}.sllp"), e.payload),
                None => {}
            }
            for x in s.link_exts.iter() {
                match x {
                    LinkExtSlice::Vlan(v) => ex_vlan(p, v),
                    LinkExtSlice::Macsec(m) => ex_macsec(p, m),
                }
            }
            match &s.net {
                Some(NetSlice::Ipv4(v)) => ex_ipv4(p, v),
                Some(NetSlice::Ipv6(v)) => ex_ipv6(p, v),
                Some(NetSlice::Arp(a)) => ex_arp(p, a),
                None => {}
            }
            match &s.transport {
                Some(TransportSlice::Udp(u)) => ex_udp(p, u),
                Some(TransportSlice::Tcp(t)) => ex_tcp(p, t),
                Some(TransportSlice::Icmpv4(i)) => ex_icmp4(p, i),
                Some(TransportSlice::Icmpv6(i)) => ex_icmp6(p, i),
                None => {}
            }
            dbg(&format!("{p}.pkt"), s);
            dbg(&format!("{p}.ether_payload"), &s.ether_payload());
            dbg(&format!("{p}.ip_payload"), &s.ip_payload());
            dbg(&format!("{p}.vlan"), &s.vlan());
            dbg(&format!("{p}.vlan_ids"), &s.vlan_ids());
            if let Some(e) = s.ether_payload() {
                sub(&format!("{p}.ether_payload.s"), e.payload);
            }
            if let Some(e) = s.ip_payload() {
                sub(&format!("{p}.ip_payload.s"), e.payload);
            }
        }
    }
}

fn ex_lax_sliced(p: &str, s: &LaxSlicedPacket) {
    match &s.link {
        Some(LinkSlice::Ethernet2(e)) => ex_eth(p, e),
        Some(LinkSlice::LinuxSll(e)) => ex_sll(p, e),
        Some(LinkSlice::EtherPayload(e)) => sub(&format!("{p}.etp"), e.payload),
        Some(LinkSlice::LinuxSllPayload(e)) => sub(&format!("{p}.sllp"), e.payload),
        None => {}
    }
    for x in s.link_exts.iter() {
        match x {
            LaxLinkExtSlice::Vlan(v) => ex_vlan(p, v),
            LaxLinkExtSlice::Macsec(m) => {
                ex_macsec_header(p, &m.header);
                match &m.payload {
                    LaxMacsecPayloadSlice::Unmodified(e) => sub(&format!("{p}.lmacsec.un"), e.payload),
                    LaxMacsecPayloadSlice::Modified { payload, .. } => sub(&format!("{p}.lmacsec.mod"), payload),
                }
                dbg(&format!("{p}.lmacsec"), m);
            }
        }
    }
    match &s.net {
        Some(LaxNetSlice::Ipv4(v)) => {
            ex_ipv4_header(p, &v.header());
            if let Some(a) = v.extensions().auth {
                ex_auth(p, &a);
            }
            sub(&format!("{p}.lv4.pl"), v.payload().payload);
            dbg(&format!("{p}.lv4"), v);
        }
        Some(LaxNetSlice::Ipv6(v)) => {
            ex_ipv6_header(p, &v.header());
            ex_ipv6_exts(p, v.extensions());
            sub(&format!("{p}.lv6.pl"), v.payload().payload);
            dbg(&format!("{p}.lv6"), v);
        }
        Some(LaxNetSlice::Arp(a)) => ex_arp(p, a),
        None => {}
    }
    match &s.transport {
        Some(TransportSlice::Udp(u)) => ex_udp(p, u),
        Some(TransportSlice::Tcp(t)) => ex_tcp(p, t),
        Some(TransportSlice::Icmpv4(i)) => ex_icmp4(p, i),
        Some(TransportSlice::Icmpv6(i)) => ex_icmp6(p, i),
        None => {}
    }
    dbg(&format!("{p}.lpkt"), s);
    dbg(&format!("{p}.stop"), &s.stop_err);
    if let Some((e, _)) = &s.stop_err {
        disp(&format!("{p}.stopd"), e);
    }
    dbg(&format!("{p}.lether_payload"), &s.ether_payload());
    dbg(&format!("{p}.lip_payload"), &s.ip_payload());
    if let Some(e) = s.ether_payload() {
        sub(&format!("{p}.lether_payload.s"), e.payload);
    }
    if let Some(e) = s.ip_payload() {
        sub(&format!("{p}.lip_payload.s"), e.payload);
    }
}

fn ex_payload(p: &str, pl: &PayloadSlice) {
    sub(&format!("{p}.payload"), pl.slice());
    dbg(&format!("{p}.payload.d"), pl);
}

fn ex_lax_payload(p: &str, pl: &LaxPayloadSlice) {
    sub(&format!("{p}.lpayload"), pl.slice());
    dbg(&format!("{p}.lpayload.d"), pl);
}

fn ets(data: &[u8]) -> Vec<u16> {
    let mut v = vec![0x0800u16, 0x86dd, 0x0806, 0x8100, 0x88a8, 0x9100, 0x88e5];
    if data.len() >= 2 {
        v.push(u16::from_be_bytes([data[0], data[1]]));
    }
    v
}

/// every decoder on `data`, every accessor on what it returns
fn exercise(data: &[u8]) {
    BASE.with(|b| *b.borrow_mut() = (data.as_ptr() as usize, data.len()));
    // whole packet, strict slices
    ex_sliced("s_eth", &SlicedPacket::from_ethernet(data));
    ex_sliced("s_sll", &SlicedPacket::from_linux_sll(data));
    ex_sliced("s_ip", &SlicedPacket::from_ip(data));
    for et in ets(data) {
        ex_sliced(&format!("s_et{et}"), &SlicedPacket::from_ether_type(EtherType(et), data));
    }
    // whole packet, lax slices
    match LaxSlicedPacket::from_ethernet(data) {
        Ok(s) => ex_lax_sliced("l_eth", &s),
        Err(e) => dbg("l_eth.err", &e),
    }
    match LaxSlicedPacket::from_ip(data) {
        Ok(s) => ex_lax_sliced("l_ip", &s),
        Err(e) => {
            dbg("l_ip.err", &e);
            disp("l_ip.errd", &e);
        }
    }
    for et in ets(data) {
        ex_lax_sliced(&format!("l_et{et}"), &LaxSlicedPacket::from_ether_type(EtherType(et), data));
    }
    // whole packet, header structs
    match PacketHeaders::from_ethernet_slice(data) {
        Ok(h) => {
            dbg("h_eth", &h);
            ex_payload("h_eth", &h.payload);
        }
        Err(e) => dbg("h_eth.err", &e),
    }
    match PacketHeaders::from_ip_slice(data) {
        Ok(h) => {
            dbg("h_ip", &h);
            ex_payload("h_ip", &h.payload);
        }
        Err(e) => dbg("h_ip.err", &e),
    }
    for et in ets(data) {
        match PacketHeaders::from_ether_type(EtherType(et), data) {
            Ok(h) => {
                dbg(&format!("h_et{et}"), &h);
                ex_payload(&format!("h_et{et}"), &h.payload);
            }
            Err(e) => dbg(&format!("h_et{et}.err"), &e),
        }
        let h = LaxPacketHeaders::from_ether_type(EtherType(et), data);
        dbg(&format!("lh_et{et}"), &h);
        ex_lax_payload(&format!("lh_et{et}"), &h.payload);
    }
    match LaxPacketHeaders::from_ethernet(data) {
        Ok(h) => {
            dbg("lh_eth", &h);
            ex_lax_payload("lh_eth", &h.payload);
        }
        Err(e) => dbg("lh_eth.err", &e),
    }
    match LaxPacketHeaders::from_ip(data) {
        Ok(h) => {
            dbg("lh_ip", &h);
            ex_lax_payload("lh_ip", &h.payload);
        }
        Err(e) => dbg("lh_ip.err", &e),
    }
    match LaxPacketHeaders::from_linux_sll(data) {
        Ok(h) => {
            dbg("lh_sll", &h);
            ex_lax_payload("lh_sll", &h.payload);
        }
        Err(e) => dbg("lh_sll.err", &e),
    }
    // single layer slicers
    match Ethernet2Slice::from_slice_without_fcs(data) {
        Ok(s) => ex_eth("x", &s),
        Err(e) => dbg("x.eth.err", &e),
    }
    match Ethernet2Slice::from_slice_with_crc32_fcs(data) {
        Ok(s) => ex_eth("xf", &s),
        Err(e) => dbg("xf.eth.err", &e),
    }
    match Ethernet2HeaderSlice::from_slice(data) {
        Ok(s) => {
            sub("x.ethh", s.slice());
            dbg("x.ethh.d", &s.to_header());
        }
        Err(e) => dbg("x.ethh.err", &e),
    }
    match LinuxSllSlice::from_slice(data) {
        Ok(s) => ex_sll("x", &s),
        Err(e) => dbg("x.sll.err", &e),
    }
    match LinuxSllHeaderSlice::from_slice(data) {
        Ok(s) => {
            sub("x.sllh", s.slice());
            sub("x.sllh.addr", s.sender_address());
            dbg("x.sllh.d", &s.to_header());
        }
        Err(e) => dbg("x.sllh.err", &e),
    }
    match SingleVlanSlice::from_slice(data) {
        Ok(s) => ex_vlan("x", &s),
        Err(e) => dbg("x.vlan.err", &e),
    }
    match SingleVlanHeaderSlice::from_slice(data) {
        Ok(s) => {
            sub("x.vlanh", s.slice());
            dbg("x.vlanh.d", &s.to_header());
        }
        Err(e) => dbg("x.vlanh.err", &e),
    }
    match MacsecSlice::from_slice(data) {
        Ok(s) => ex_macsec("x", &s),
        Err(e) => dbg("x.macsec.err", &e),
    }
    match LaxMacsecSlice::from_slice(data) {
        Ok(m) => {
            ex_macsec_header("xl", &m.header);
            match &m.payload {
                LaxMacsecPayloadSlice::Unmodified(e) => sub("xl.macsec.un", e.payload),
                LaxMacsecPayloadSlice::Modified { payload, .. } => sub("xl.macsec.mod", payload),
            }
            dbg("xl.macsec", &m);
        }
        Err(e) => dbg("xl.macsec.err", &e),
    }
    match ArpPacketSlice::from_slice(data) {
        Ok(s) => ex_arp("x", &s),
        Err(e) => dbg("x.arp.err", &e),
    }
    match Ipv4HeaderSlice::from_slice(data) {
        Ok(s) => ex_ipv4_header("x", &s),
        Err(e) => dbg("x.v4h.err", &e),
    }
    match Ipv4Slice::from_slice(data) {
        Ok(s) => ex_ipv4("x", &s),
        Err(e) => dbg("x.v4.err", &e),
    }
    match LaxIpv4Slice::from_slice(data) {
        Ok((v, stop)) => {
            ex_ipv4_header("xl", &v.header());
            if let Some(a) = v.extensions().auth {
                ex_auth("xl", &a);
            }
            sub("xl.v4.pl", v.payload().payload);
            dbg("xl.v4", &v);
            dbg("xl.v4.stop", &stop);
        }
        Err(e) => dbg("xl.v4.err", &e),
    }
    match Ipv6HeaderSlice::from_slice(data) {
        Ok(s) => ex_ipv6_header("x", &s),
        Err(e) => dbg("x.v6h.err", &e),
    }
    match Ipv6Slice::from_slice(data) {
        Ok(s) => ex_ipv6("x", &s),
        Err(e) => dbg("x.v6.err", &e),
    }
    match LaxIpv6Slice::from_slice(data) {
        Ok((v, stop)) => {
            ex_ipv6_header("xl", &v.header());
            ex_ipv6_exts("xl", v.extensions());
            sub("xl.v6.pl", v.payload().payload);
            dbg("xl.v6", &v);
            dbg("xl.v6.stop", &stop);
        }
        Err(e) => dbg("xl.v6.err", &e),
    }
    match IpSlice::from_slice(data) {
        Ok(s) => {
            match &s {
                IpSlice::Ipv4(v) => ex_ipv4("xi", v),
                IpSlice::Ipv6(v) => ex_ipv6("xi", v),
            }
            dbg("xi.to_header", &s.to_header());
            ex_ip_payload("xi", s.payload());
        }
        Err(e) => dbg("xi.err", &e),
    }
    match LaxIpSlice::from_slice(data) {
        Ok((s, stop)) => {
            match &s {
                LaxIpSlice::Ipv4(v) => {
                    ex_ipv4_header("xli", &v.header());
                    sub("xli.v4.pl", v.payload().payload);
                }
                LaxIpSlice::Ipv6(v) => {
                    ex_ipv6_header("xli", &v.header());
                    ex_ipv6_exts("xli", v.extensions());
                    sub("xli.v6.pl", v.payload().payload);
                }
            }
            dbg("xli", &s);
            dbg("xli.stop", &stop);
        }
        Err(e) => dbg("xli.err", &e),
    }
    for first in [0u8, 43, 44, 51, 60, 17] {
        match Ipv6ExtensionsSlice::from_slice(IpNumber(first), data) {
            Ok((x, n, rest)) => {
                ex_ipv6_exts(&format!("xx{first}"), &x);
                sub(&format!("xx{first}.rest"), rest);
                dbg(&format!("xx{first}.next"), &n);
            }
            Err(e) => dbg(&format!("xx{first}.err"), &e),
        }
        let (x, n, rest, e) = Ipv6ExtensionsSlice::from_slice_lax(IpNumber(first), data);
        ex_ipv6_exts(&format!("xxl{first}"), &x);
        sub(&format!("xxl{first}.rest"), rest);
        dbg(&format!("xxl{first}.next"), &n);
        dbg(&format!("xxl{first}.e"), &e);
        match Ipv6Extensions::from_slice(IpNumber(first), data) {
            Ok((x, n, rest)) => {
                dbg(&format!("hx{first}"), &x);
                sub(&format!("hx{first}.rest"), rest);
                dbg(&format!("hx{first}.next"), &n);
            }
            Err(e) => dbg(&format!("hx{first}.err"), &e),
        }
        let (x, n, rest, e) = Ipv6Extensions::from_slice_lax(IpNumber(first), data);
        dbg(&format!("hxl{first}"), &x);
        sub(&format!("hxl{first}.rest"), rest);
        dbg(&format!("hxl{first}.next"), &n);
        dbg(&format!("hxl{first}.e"), &e);
    }
    match Ipv6RawExtHeaderSlice::from_slice(data) {
        Ok(s) => {
            sub("x.raw", s.slice());
            sub("x.raw.pl", s.payload());
            dbg("x.raw.h", &s.to_header());
        }
        Err(e) => dbg("x.raw.err", &e),
    }
    match Ipv6FragmentHeaderSlice::from_slice(data) {
        Ok(s) => {
            sub("x.frag", s.slice());
            dbg("x.frag.h", &s.to_header());
        }
        Err(e) => dbg("x.frag.err", &e),
    }
    match IpAuthHeaderSlice::from_slice(data) {
        Ok(s) => ex_auth("x", &s),
        Err(e) => dbg("x.ah.err", &e),
    }
    match UdpSlice::from_slice(data) {
        Ok(s) => ex_udp("x", &s),
        Err(e) => dbg("x.udp.err", &e),
    }
    match UdpSlice::from_slice_lax(data) {
        Ok(s) => ex_udp("xl", &s),
        Err(e) => dbg("xl.udp.err", &e),
    }
    match UdpHeaderSlice::from_slice(data) {
        Ok(s) => {
            sub("x.udph", s.slice());
            dbg("x.udph.h", &s.to_header());
        }
        Err(e) => dbg("x.udph.err", &e),
    }
    match TcpSlice::from_slice(data) {
        Ok(s) => ex_tcp("x", &s),
        Err(e) => dbg("x.tcp.err", &e),
    }
    match TcpHeaderSlice::from_slice(data) {
        Ok(s) => {
            sub("x.tcph", s.slice());
            sub("x.tcph.options", s.options());
            dbg("x.tcph.h", &s.to_header());
            ex_tcp_opts("x.tcph", s.options_iterator());
        }
        Err(e) => dbg("x.tcph.err", &e),
    }
    ex_tcp_opts("x.raw", TcpOptionsIterator::from_slice(data));
    match Icmpv4Slice::from_slice(data) {
        Ok(s) => ex_icmp4("x", &s),
        Err(e) => dbg("x.icmp4.err", &e),
    }
    match Icmpv6Slice::from_slice(data) {
        Ok(s) => ex_icmp6("x", &s),
        Err(e) => dbg("x.icmp6.err", &e),
    }
    // header structs from slices
    macro_rules! hs {
        ($name:expr, $e:expr) => {
            match $e {
                Ok((h, rest)) => {
                    dbg($name, &h);
                    sub(&format!("{}.rest", $name), rest);
                }
                Err(e) => dbg(&format!("{}.err", $name), &e),
            }
        };
    }
    hs!("hs.eth", Ethernet2Header::from_slice(data));
    hs!("hs.sll", LinuxSllHeader::from_slice(data));
    hs!("hs.vlan", SingleVlanHeader::from_slice(data));
    match MacsecHeader::from_slice(data) {
        Ok(h) => dbg("hs.macsec", &h),
        Err(e) => dbg("hs.macsec.err", &e),
    }
    hs!("hs.v4", Ipv4Header::from_slice(data));
    hs!("hs.v6", Ipv6Header::from_slice(data));
    hs!("hs.ah", IpAuthHeader::from_slice(data));
    hs!("hs.raw", Ipv6RawExtHeader::from_slice(data));
    hs!("hs.frag", Ipv6FragmentHeader::from_slice(data));
    hs!("hs.udp", UdpHeader::from_slice(data));
    hs!("hs.tcp", TcpHeader::from_slice(data));
    hs!("hs.icmp4", Icmpv4Header::from_slice(data));
    hs!("hs.icmp6", Icmpv6Header::from_slice(data));
    match ArpPacket::from_slice(data) {
        Ok(a) => dbg("hs.arp", &a),
        Err(e) => dbg("hs.arp.err", &e),
    }
    match IpHeaders::from_slice(data) {
        Ok((h, p)) => {
            dbg("hs.ip", &h);
            ex_ip_payload("hs.ip", &p);
        }
        Err(e) => dbg("hs.ip.err", &e),
    }
    match IpHeaders::from_slice_lax(data) {
        Ok((h, p, stop)) => {
            dbg("hs.ipl", &h);
            sub("hs.ipl.pl", p.payload);
            dbg("hs.ipl.p", &p);
            dbg("hs.ipl.stop", &stop);
        }
        Err(e) => dbg("hs.ipl.err", &e),
    }
    match IpHeaders::from_ipv4_slice(data) {
        Ok((h, p)) => {
            dbg("hs.ip4", &h);
            ex_ip_payload("hs.ip4", &p);
        }
        Err(e) => dbg("hs.ip4.err", &e),
    }
    match IpHeaders::from_ipv6_slice(data) {
        Ok((h, p)) => {
            dbg("hs.ip6", &h);
            ex_ip_payload("hs.ip6", &p);
        }
        Err(e) => dbg("hs.ip6.err", &e),
    }
    match IpHeaders::from_ipv4_slice_lax(data) {
        Ok((h, p, stop)) => {
            dbg("hs.ip4l", &h);
            sub("hs.ip4l.pl", p.payload);
            dbg("hs.ip4l.stop", &stop);
        }
        Err(e) => dbg("hs.ip4l.err", &e),
    }
    match IpHeaders::from_ipv6_slice_lax(data) {
        Ok((h, p, stop)) => {
            dbg("hs.ip6l", &h);
            sub("hs.ip6l.pl", p.payload);
            dbg("hs.ip6l.stop", &stop);
        }
        Err(e) => dbg("hs.ip6l.err", &e),
    }
    // readers (io::Read): the cursor position must stay inside the data
    macro_rules! rd {
        ($name:expr, $e:expr) => {{
            let mut c = std::io::Cursor::new(data);
            let r = $e(&mut c);
            match r {
                Ok(h) => dbg($name, &h),
                Err(e) => dbg(&format!("{}.err", $name), &format!("{:?}", e).chars().take(60).collect::<String>()),
            }
            dbg(&format!("{}.pos", $name), &c.position());
        }};
    }
    rd!("rd.eth", Ethernet2Header::read);
    rd!("rd.sll", LinuxSllHeader::read);
    rd!("rd.vlan", SingleVlanHeader::read);
    rd!("rd.macsec", MacsecHeader::read);
    rd!("rd.v4", Ipv4Header::read);
    rd!("rd.v6", Ipv6Header::read);
    rd!("rd.ah", IpAuthHeader::read);
    rd!("rd.raw", Ipv6RawExtHeader::read);
    rd!("rd.frag", Ipv6FragmentHeader::read);
    rd!("rd.udp", UdpHeader::read);
    rd!("rd.tcp", TcpHeader::read);
    rd!("rd.icmp4", Icmpv4Header::read);
    rd!("rd.icmp6", Icmpv6Header::read);
    rd!("rd.arp", ArpPacket::read);
    rd!("rd.ip", IpHeaders::read);
    // Ipv6Header's extension skipping helpers: every next_header value as the announced first header
    for nh in 0..=255u8 {
        match Ipv6Header::skip_header_extension_in_slice(data, IpNumber(nh)) {
            Ok((n, rest)) => {
                sub(&format!("skip1.{nh}.rest"), rest);
                dbg(&format!("skip1.{nh}.n"), &n.0);
            }
            Err(e) => dbg(&format!("skip1.{nh}.err"), &e),
        }
        match Ipv6Header::skip_all_header_extensions_in_slice(data, IpNumber(nh)) {
            Ok((n, rest)) => {
                sub(&format!("skipa.{nh}.rest"), rest);
                dbg(&format!("skipa.{nh}.n"), &n.0);
            }
            Err(e) => dbg(&format!("skipa.{nh}.err"), &e),
        }
        let mut c = std::io::Cursor::new(data);
        let r = Ipv6Header::skip_header_extension(&mut c, IpNumber(nh)).map(|n| n.0).map_err(|e| e.kind());
        dbg(&format!("skip1r.{nh}"), &(r, c.position()));
        let mut c = std::io::Cursor::new(data);
        let r = Ipv6Header::skip_all_header_extensions(&mut c, IpNumber(nh)).map(|n| n.0).map_err(|e| e.kind());
        dbg(&format!("skipar.{nh}"), &(r, c.position()));
    }
    // raw TCP option area of any length (rejected above 40 bytes)
    match TcpOptions::try_from_slice(data) {
        Ok(o) => {
            dbg("tcpopts.len", &o.len());
            // (owned copy of the bytes: its iterator's slices do not point into the input)
            let items: Vec<String> = o.elements_iter().take(64).map(|e| format!("{:?}", e)).collect();
            dbg("tcpopts.items", &items);
        }
        Err(e) => dbg("tcpopts.err", &e),
    }
    {
        let mut h = TcpHeader::new(1, 2, 3, 4);
        let r = h.set_options_raw(data);
        dbg("tcphdr.set_options_raw", &(r, h.header_len()));
    }
    // deprecated aliases (still public)
    #[allow(deprecated)]
    {
        if let Ok((_, rest)) = Ethernet2Header::read_from_slice(data) { sub("dep.eth.rest", rest); }
        if let Ok((_, rest)) = SingleVlanHeader::read_from_slice(data) { sub("dep.vlan.rest", rest); }
        if let Ok((_, rest)) = Ipv4Header::read_from_slice(data) { sub("dep.v4.rest", rest); }
        if let Ok((_, rest)) = Ipv6Header::read_from_slice(data) { sub("dep.v6.rest", rest); }
        if let Ok((_, _, rest)) = IpHeaders::read_from_slice(data) { sub("dep.ip.rest", rest); }
        if let Ok((_, rest)) = UdpHeader::read_from_slice(data) { sub("dep.udp.rest", rest); }
        if let Ok((_, rest)) = TcpHeader::read_from_slice(data) { sub("dep.tcp.rest", rest); }
    }
    exercise_more(data);
}

// ---- placements -------------------------------------------------------------

struct Region {
    base: *mut u8,
    total: usize,
    page: usize,
}

impl Region {
    fn new(max: usize) -> Region {
        let page = 4096usize;
        let inner = ((max + page - 1) / page + 1) * page;
        let total = inner + 2 * page;
        unsafe {
            let p = libc::mmap(
                std::ptr::null_mut(),
                total,
                libc::PROT_READ | libc::PROT_WRITE,
                libc::MAP_PRIVATE | libc::MAP_ANONYMOUS,
                -1,
                0,
            );
            assert!(p != libc::MAP_FAILED);
            let p = p as *mut u8;
            assert!(libc::mprotect(p as *mut libc::c_void, page, libc::PROT_NONE) == 0);
            assert!(libc::mprotect(p.add(total - page) as *mut libc::c_void, page, libc::PROT_NONE) == 0);
            Region { base: p, total, page }
        }
    }
    /// the data end-aligned against the trailing guard page
    fn at_end(&self, data: &[u8], poison: u8) -> &[u8] {
        unsafe {
            let inner = self.base.add(self.page);
            let ilen = self.total - 2 * self.page;
            std::ptr::write_bytes(inner, poison, ilen);
            let dst = inner.add(ilen - data.len());
            std::ptr::copy_nonoverlapping(data.as_ptr(), dst, data.len());
            std::slice::from_raw_parts(dst, data.len())
        }
    }
    /// the data start-aligned directly behind the leading guard page
    fn at_start(&self, data: &[u8], poison: u8) -> &[u8] {
        unsafe {
            let inner = self.base.add(self.page);
            let ilen = self.total - 2 * self.page;
            std::ptr::write_bytes(inner, poison, ilen);
            std::ptr::copy_nonoverlapping(data.as_ptr(), inner, data.len());
            std::slice::from_raw_parts(inner, data.len())
        }
    }
    fn in_middle(&self, data: &[u8], poison: u8) -> &[u8] {
        unsafe {
            let inner = self.base.add(self.page);
            let ilen = self.total - 2 * self.page;
            std::ptr::write_bytes(inner, poison, ilen);
            let dst = inner.add(97);
            std::ptr::copy_nonoverlapping(data.as_ptr(), dst, data.len());
            std::slice::from_raw_parts(dst, data.len())
        }
    }
}

fn fnv(s: &str) -> u64 {
    let mut h: u64 = 0xcbf29ce484222325;
    for b in s.as_bytes() {
        h ^= *b as u64;
        h = h.wrapping_mul(0x100000001b3);
    }
    h
}

fn reset() {
    OUT.with(|o| o.borrow_mut().clear());
    NSUB.with(|n| *n.borrow_mut() = 0);
    NITEMS.with(|n| *n.borrow_mut() = 0);
    OUTSIDE.with(|o| *o.borrow_mut() = None);
}

fn run_one(region: &Region, data: &[u8]) -> String {
    let mut renders: Vec<String> = Vec::new();
    let mut nsub = 0;
    let mut nitems = 0;
    for placement in 0..3 {
        reset();
        let d: &[u8] = match placement {
            0 => region.at_end(data, 0xA5),
            1 => region.at_start(data, 0x5A),
            _ => region.in_middle(data, 0xFF),
        };
        let r = std::panic::catch_unwind(|| exercise(d));
        if let Err(e) = r {
            let msg = if let Some(s) = e.downcast_ref::<&str>() {
                s.to_string()
            } else if let Some(s) = e.downcast_ref::<String>() {
                s.clone()
            } else {
                "?".to_string()
            };
            let last = OUT.with(|o| o.borrow().lines().last().unwrap_or("").chars().take(80).collect::<String>());
            return format!("PANIC placement={} after='{}' msg={}", placement, last, msg.replace('\n', " "));
        }
        if let Some(w) = OUTSIDE.with(|o| o.borrow().clone()) {
            return format!("OUTSIDE placement={} {}", placement, w);
        }
        nsub = NSUB.with(|n| *n.borrow());
        nitems = NITEMS.with(|n| *n.borrow());
        renders.push(OUT.with(|o| o.borrow().clone()));
    }
    for p in 1..3 {
        if renders[p] != renders[0] {
            let a: Vec<&str> = renders[0].lines().collect();
            let b: Vec<&str> = renders[p].lines().collect();
            let mut k = 0;
            while k < a.len() && k < b.len() && a[k] == b[k] {
                k += 1;
            }
            return format!(
                "DIFF placement={} line {}: '{}' vs '{}'",
                p,
                k,
                a.get(k).unwrap_or(&"<end>").chars().take(100).collect::<String>(),
                b.get(k).unwrap_or(&"<end>").chars().take(100).collect::<String>()
            );
        }
    }
    format!("ok h={:016x} n={} items={}", fnv(&renders[0]), nsub, nitems)
}

fn worker() {
    std::panic::set_hook(Box::new(|_| {}));
    let region = Region::new(1 << 16);
    // packets at the start of a large buffer (generator tag |big): up to 2^17 + a packet
    let big = Region::new(3 << 16);
    let stdin = std::io::stdin();
    let stdout = std::io::stdout();
    for line in stdin.lock().lines() {
        let line = line.unwrap();
        let data = unhex(line.trim());
        let r = run_one(if data.len() + 200 > (1 << 16) { &big } else { &region }, &data);
        let mut o = stdout.lock();
        writeln!(o, "{}", r).unwrap();
        o.flush().unwrap();
    }
}

fn supervisor(path: &str) {
    use std::sync::mpsc;
    let cases: Vec<String> = BufReader::new(std::fs::File::open(path).expect("case file"))
        .lines()
        .map(|l| l.unwrap().trim().to_string())
        .filter(|l| !l.is_empty() && !l.starts_with('#'))
        .collect();
    let exe = std::env::current_exe().unwrap();
    let mut i = 0;
    let mut abnormal = 0;
    let mut hangs = 0;
    let out = std::io::stdout();
    while i < cases.len() {
        if abnormal >= 25 || hangs >= 3 {
            // the tree is badly broken: enough witnesses, do not restart a worker per case
            let mut o = out.lock();
            while i < cases.len() {
                writeln!(o, "SKIPPED after 25 abnormal worker exits / 3 hangs").unwrap();
                i += 1;
            }
            break;
        }
        let mut child = std::process::Command::new(&exe)
            .arg("--worker")
            .stdin(std::process::Stdio::piped())
            .stdout(std::process::Stdio::piped())
            .stderr(std::process::Stdio::null())
            .spawn()
            .expect("spawn worker");
        let mut cin = child.stdin.take().unwrap();
        let cout = BufReader::new(child.stdout.take().unwrap());
        // reader thread: one message per line, None at EOF
        let (tx, rx) = mpsc::channel::<Option<String>>();
        let th = std::thread::spawn(move || {
            let mut cout = cout;
            loop {
                let mut resp = String::new();
                match cout.read_line(&mut resp) {
                    Ok(0) | Err(_) => {
                        let _ = tx.send(None);
                        break;
                    }
                    Ok(_) => {
                        if tx.send(Some(resp)).is_err() {
                            break;
                        }
                    }
                }
            }
        });
        while i < cases.len() {
            let sent = writeln!(cin, "{}", cases[i]).is_ok() && cin.flush().is_ok();
            // budget: generous and proportional to the input (rendering a 130 kB packet through every
            // Debug impl takes seconds on a loaded machine); a real hang exceeds any budget
            let budget = 60 + (cases[i].len() as u64) / 1000;
            let got = if sent { rx.recv_timeout(std::time::Duration::from_secs(budget)) } else { Ok(None) };
            match got {
                Ok(Some(resp)) => {
                    let mut o = out.lock();
                    write!(o, "{}", resp).unwrap();
                    i += 1;
                }
                Ok(None) => {
                    // worker died while running case i
                    let st = child.wait().ok();
                    use std::os::unix::process::ExitStatusExt;
                    let sig = st.and_then(|s| s.signal()).unwrap_or(0);
                    let code = st.and_then(|s| s.code()).unwrap_or(-1);
                    let mut o = out.lock();
                    writeln!(o, "CRASH signal={} code={}", sig, code).unwrap();
                    i += 1;
                    abnormal += 1;
                    break;
                }
                Err(_) => {
                    // no answer within the budget: the worker hangs (or lost its way)
                    let _ = child.kill();
                    let _ = child.wait();
                    let mut o = out.lock();
                    writeln!(o, "HANG no answer within {}s", budget).unwrap();
                    hangs += 1;
                    i += 1;
                    abnormal += 1;
                    break;
                }
            }
        }
        drop(cin);
        let _ = child.kill();
        let _ = child.wait();
        let _ = th.join();
    }
}

fn main() {
    let args: Vec<String> = std::env::args().collect();
    if args.len() >= 2 && args[1] == "--worker" {
        worker();
    } else if args.len() >= 2 {
        supervisor(&args[1]);
    } else {
        eprintln!("usage: c01 <casefile>");
        std::process::exit(2);
    }
}
