//! C09: checksum helpers and protocol checksums.
use vh::*;
use etherparse::checksum::*;

fn main() {
    main_loop(run);
}

fn run(line: &str) -> String {
    let mut it = line.split_whitespace();
    let tag = it.next().unwrap();
    match tag {
        "h64" => {
            let start: u64 = it.next().unwrap().parse().unwrap();
            let bs = unhex(it.next().unwrap());
            let s = u64_16bit_word::add_slice(start, &bs);
            format!(
                "sum={} oc={} nz={}",
                s,
                u64_16bit_word::ones_complement(s).to_be(),
                u64_16bit_word::ones_complement_with_no_zero(s).to_be()
            )
        }
        "h32" => {
            let start: u32 = it.next().unwrap().parse().unwrap();
            let bs = unhex(it.next().unwrap());
            let s = u32_16bit_word::add_slice(start, &bs);
            format!(
                "sum={} oc={} nz={}",
                s,
                u32_16bit_word::ones_complement(s).to_be(),
                u32_16bit_word::ones_complement_with_no_zero(s).to_be()
            )
        }
        "seq" => {
            let mut s = Sum16BitWords::new();
            let mut s32: u32 = 0;
            for p in it {
                let (k, h) = p.split_once(':').unwrap();
                let b = unhex(h);
                match k {
                    "2" => {
                        s = s.add_2bytes([b[0], b[1]]);
                        s32 = u32_16bit_word::add_2bytes(s32, [b[0], b[1]]);
                    }
                    "4" => {
                        s = s.add_4bytes([b[0], b[1], b[2], b[3]]);
                        s32 = u32_16bit_word::add_4bytes(s32, [b[0], b[1], b[2], b[3]]);
                    }
                    "8" => {
                        let a: [u8; 8] = b[..8].try_into().unwrap();
                        s = s.add_8bytes(a);
                        s32 = u32_16bit_word::add_4bytes(s32, [b[0], b[1], b[2], b[3]]);
                        s32 = u32_16bit_word::add_4bytes(s32, [b[4], b[5], b[6], b[7]]);
                    }
                    "16" => {
                        let a: [u8; 16] = b[..16].try_into().unwrap();
                        s = s.add_16bytes(a);
                        for i in 0..4 {
                            s32 = u32_16bit_word::add_4bytes(
                                s32,
                                [b[4 * i], b[4 * i + 1], b[4 * i + 2], b[4 * i + 3]],
                            );
                        }
                    }
                    "s" => {
                        s = s.add_slice(&b);
                        s32 = u32_16bit_word::add_slice(s32, &b);
                    }
                    _ => panic!("bad piece"),
                }
            }
            format!(
                "oc={} nz={} oc32={} nz32={}",
                s.ones_complement().to_be(),
                s.to_ones_complement_with_no_zero().to_be(),
                u32_16bit_word::ones_complement(s32).to_be(),
                u32_16bit_word::ones_complement_with_no_zero(s32).to_be()
            )
        }
        _ => panic!("bad c09 tag {}", tag),
    }
}
