//! C09: checksum helpers and protocol checksums.
//! Helper tags: h64 h32 seq.  Protocol tags (one per crate function): ip4h,
//! udp4 udp6 udp4w udp6w, tcp4 tcp6 tcp4hs tcp6hs tcp4s tcp6s, icmp4, icmp6,
//! icmp6v, igmp, upd4 upd6.  Output: `ck=<u16>` (+ ` hdr=<bytes written with
//! that checksum>` where the crate serialises the header), `err=<actual>,<max>`,
//! `reject` (from_slice refused the bytes), `valid=0|1`.  Where two entry points
//! must agree (raw / non-raw, calc / with_checksum / update_checksum) the
//! harness calls both and prints `DISAGREE ...` if they differ.
use vh::*;
use etherparse::checksum::*;
use etherparse::*;

fn main() {
    main_loop(run);
}

fn run(line: &str) -> String {
    let mut it = line.split_whitespace();
    let tag = it.next().unwrap();
    match tag {
        "h64" => {
            let start: u64 = it.next().unwrap().parse().unwrap();
            let bs = unhex(it.next().unwrap());
            let s = u64_16bit_word::add_slice(start, &bs);
            format!(
                "sum={} oc={} nz={}",
                s,
                u64_16bit_word::ones_complement(s).to_be(),
                u64_16bit_word::ones_complement_with_no_zero(s).to_be()
            )
        }
        "h32" => {
            let start: u32 = it.next().unwrap().parse().unwrap();
            let bs = unhex(it.next().unwrap());
            let s = u32_16bit_word::add_slice(start, &bs);
            format!(
                "sum={} oc={} nz={}",
                s,
                u32_16bit_word::ones_complement(s).to_be(),
                u32_16bit_word::ones_complement_with_no_zero(s).to_be()
            )
        }
        "seq" => {
            let mut s = Sum16BitWords::new();
            let mut s32: u32 = 0;
            for p in it {
                let (k, h) = p.split_once(':').unwrap();
                let b = unhex(h);
                match k {
                    "2" => {
                        s = s.add_2bytes([b[0], b[1]]);
                        s32 = u32_16bit_word::add_2bytes(s32, [b[0], b[1]]);
                    }
                    "4" => {
                        s = s.add_4bytes([b[0], b[1], b[2], b[3]]);
                        s32 = u32_16bit_word::add_4bytes(s32, [b[0], b[1], b[2], b[3]]);
                    }
                    "8" => {
                        let a: [u8; 8] = b[..8].try_into().unwrap();
                        s = s.add_8bytes(a);
                        s32 = u32_16bit_word::add_4bytes(s32, [b[0], b[1], b[2], b[3]]);
                        s32 = u32_16bit_word::add_4bytes(s32, [b[4], b[5], b[6], b[7]]);
                    }
                    "16" => {
                        let a: [u8; 16] = b[..16].try_into().unwrap();
                        s = s.add_16bytes(a);
                        for i in 0..4 {
                            s32 = u32_16bit_word::add_4bytes(
                                s32,
                                [b[4 * i], b[4 * i + 1], b[4 * i + 2], b[4 * i + 3]],
                            );
                        }
                    }
                    "s" => {
                        s = s.add_slice(&b);
                        s32 = u32_16bit_word::add_slice(s32, &b);
                    }
                    _ => panic!("bad piece"),
                }
            }
            format!(
                "oc={} nz={} oc32={} nz32={}",
                s.ones_complement().to_be(),
                s.to_ones_complement_with_no_zero().to_be(),
                u32_16bit_word::ones_complement(s32).to_be(),
                u32_16bit_word::ones_complement_with_no_zero(s32).to_be()
            )
        }
        _ => proto(tag, &mut it),
    }
}

type It<'a> = std::str::SplitWhitespace<'a>;

fn num(it: &mut It) -> u64 {
    it.next().unwrap().parse().unwrap()
}
fn bytes(it: &mut It) -> Vec<u8> {
    unhex(it.next().unwrap())
}
fn a4(it: &mut It) -> [u8; 4] {
    bytes(it)[..].try_into().unwrap()
}
fn a16(it: &mut It) -> [u8; 16] {
    bytes(it)[..].try_into().unwrap()
}
fn res(r: Result<u16, err::ValueTooBigError<usize>>) -> String {
    match r {
        Ok(v) => format!("ck={}", v),
        Err(e) => format!("err={},{}", e.actual, e.max_allowed),
    }
}
fn same(a: String, b: String, what: &str) -> String {
    if a == b {
        a
    } else {
        format!("DISAGREE {} {} / {}", what, a, b)
    }
}
fn ip4_with(src: [u8; 4], dst: [u8; 4]) -> Ipv4Header {
    let mut h: Ipv4Header = Default::default();
    h.source = src;
    h.destination = dst;
    h
}
fn ip6_with(src: [u8; 16], dst: [u8; 16]) -> Ipv6Header {
    let mut h: Ipv6Header = Default::default();
    h.source = src;
    h.destination = dst;
    h
}

fn udp_hdr(it: &mut It) -> UdpHeader {
    UdpHeader {
        source_port: num(it) as u16,
        destination_port: num(it) as u16,
        length: num(it) as u16,
        checksum: 0x5a5a, // must not be read
    }
}

fn tcp_hdr(it: &mut It) -> TcpHeader {
    let mut h = TcpHeader::new(num(it) as u16, num(it) as u16, num(it) as u32, 0);
    h.acknowledgment_number = num(it) as u32;
    let f = num(it);
    h.ns = f & 256 != 0;
    h.fin = f & 1 != 0;
    h.syn = f & 2 != 0;
    h.rst = f & 4 != 0;
    h.psh = f & 8 != 0;
    h.ack = f & 16 != 0;
    h.urg = f & 32 != 0;
    h.ece = f & 64 != 0;
    h.cwr = f & 128 != 0;
    h.window_size = num(it) as u16;
    h.urgent_pointer = num(it) as u16;
    h.checksum = 0xa5a5; // must not be read
    let o = bytes(it);
    h.set_options_raw(&o).unwrap();
    h
}

fn icmp4_type(it: &mut It) -> Icmpv4Type {
    use etherparse::icmpv4::*;
    let v = it.next().unwrap();
    match v {
        "unk" => Icmpv4Type::Unknown {
            type_u8: num(it) as u8,
            code_u8: num(it) as u8,
            bytes5to8: a4(it),
        },
        "erep" => Icmpv4Type::EchoReply(IcmpEchoHeader { id: num(it) as u16, seq: num(it) as u16 }),
        "ereq" => Icmpv4Type::EchoRequest(IcmpEchoHeader { id: num(it) as u16, seq: num(it) as u16 }),
        "du" => {
            let code = num(it) as u8;
            let mtu = num(it) as u16;
            Icmpv4Type::DestinationUnreachable(DestUnreachableHeader::from_values(code, mtu).unwrap())
        }
        "red" => Icmpv4Type::Redirect(RedirectHeader {
            code: RedirectCode::from_u8(num(it) as u8).unwrap(),
            gateway_internet_address: a4(it),
        }),
        "te" => Icmpv4Type::TimeExceeded(TimeExceededCode::from_u8(num(it) as u8).unwrap()),
        "pp" => {
            let code = num(it) as u8;
            let p = num(it) as u8;
            Icmpv4Type::ParameterProblem(ParameterProblemHeader::from_values(code, p).unwrap())
        }
        "tsq" | "tsr" => {
            let m = TimestampMessage {
                id: num(it) as u16,
                seq: num(it) as u16,
                originate_timestamp: num(it) as u32,
                receive_timestamp: num(it) as u32,
                transmit_timestamp: num(it) as u32,
            };
            if v == "tsq" {
                Icmpv4Type::TimestampRequest(m)
            } else {
                Icmpv4Type::TimestampReply(m)
            }
        }
        _ => panic!("bad icmp4 variant {}", v),
    }
}

fn icmp6_type(it: &mut It) -> Icmpv6Type {
    use etherparse::icmpv6::*;
    let v = it.next().unwrap();
    match v {
        "unk" => Icmpv6Type::Unknown {
            type_u8: num(it) as u8,
            code_u8: num(it) as u8,
            bytes5to8: a4(it),
        },
        "du" => Icmpv6Type::DestinationUnreachable(DestUnreachableCode::from_u8(num(it) as u8).unwrap()),
        "ptb" => Icmpv6Type::PacketTooBig { mtu: num(it) as u32 },
        "te" => Icmpv6Type::TimeExceeded(TimeExceededCode::from_u8(num(it) as u8).unwrap()),
        "pp" => Icmpv6Type::ParameterProblem(ParameterProblemHeader {
            code: ParameterProblemCode::from_u8(num(it) as u8).unwrap(),
            pointer: num(it) as u32,
        }),
        "ereq" => Icmpv6Type::EchoRequest(IcmpEchoHeader { id: num(it) as u16, seq: num(it) as u16 }),
        "erep" => Icmpv6Type::EchoReply(IcmpEchoHeader { id: num(it) as u16, seq: num(it) as u16 }),
        "rs" => Icmpv6Type::RouterSolicitation,
        "ra" => Icmpv6Type::RouterAdvertisement(RouterAdvertisementHeader {
            cur_hop_limit: num(it) as u8,
            managed_address_config: num(it) != 0,
            other_config: num(it) != 0,
            router_lifetime: num(it) as u16,
        }),
        "ns" => Icmpv6Type::NeighborSolicitation,
        "na" => Icmpv6Type::NeighborAdvertisement(NeighborAdvertisementHeader {
            router: num(it) != 0,
            solicited: num(it) != 0,
            r#override: num(it) != 0,
        }),
        "red" => Icmpv6Type::Redirect,
        _ => panic!("bad icmp6 variant {}", v),
    }
}

fn igmp_type(it: &mut It) -> IgmpType {
    use etherparse::igmp::*;
    let v = it.next().unwrap();
    match v {
        "q" => IgmpType::MembershipQuery(MembershipQueryType {
            max_response_time: num(it) as u8,
            group_address: GroupAddress { octets: a4(it) },
        }),
        "qs" => IgmpType::MembershipQueryWithSources(MembershipQueryWithSourcesHeader {
            max_response_code: MaxResponseCode(num(it) as u8),
            group_address: GroupAddress { octets: a4(it) },
            raw_byte_8: num(it) as u8,
            qqic: num(it) as u8,
            num_of_sources: num(it) as u16,
        }),
        "r1" => IgmpType::MembershipReportV1(MembershipReportV1Type {
            group_address: GroupAddress { octets: a4(it) },
        }),
        "r2" => IgmpType::MembershipReportV2(MembershipReportV2Type {
            group_address: GroupAddress { octets: a4(it) },
        }),
        "r3" => {
            let f = bytes(it);
            IgmpType::MembershipReportV3(MembershipReportV3Header {
                flags: [f[0], f[1]],
                num_of_records: num(it) as u16,
            })
        }
        "lg" => IgmpType::LeaveGroup(LeaveGroupType {
            group_address: GroupAddress { octets: a4(it) },
        }),
        "unk" => IgmpType::Unknown(UnknownHeader {
            igmp_type: num(it) as u8,
            raw_byte_1: num(it) as u8,
            raw_bytes_4_7: a4(it),
        }),
        _ => panic!("bad igmp variant {}", v),
    }
}

fn transport(kind: &str, it: &mut It) -> TransportHeader {
    match kind {
        "udp" => TransportHeader::Udp(udp_hdr(it)),
        "tcp" => TransportHeader::Tcp(tcp_hdr(it)),
        "icmp4" => TransportHeader::Icmpv4(Icmpv4Header { icmp_type: icmp4_type(it), checksum: 0x1234 }),
        "icmp6" => TransportHeader::Icmpv6(Icmpv6Header { icmp_type: icmp6_type(it), checksum: 0x1234 }),
        _ => panic!("bad transport kind {}", kind),
    }
}

fn transport_ck(t: &TransportHeader) -> u16 {
    match t {
        TransportHeader::Udp(h) => h.checksum,
        TransportHeader::Tcp(h) => h.checksum,
        TransportHeader::Icmpv4(h) => h.checksum,
        TransportHeader::Icmpv6(h) => h.checksum,
    }
}

fn proto(tag: &str, it: &mut It) -> String {
    match tag {
        "ip4h" => {
            let mut h: Ipv4Header = Default::default();
            h.dscp = IpDscp::try_new(num(it) as u8).unwrap();
            h.ecn = IpEcn::try_new(num(it) as u8).unwrap();
            h.total_len = num(it) as u16;
            h.identification = num(it) as u16;
            h.dont_fragment = num(it) != 0;
            h.more_fragments = num(it) != 0;
            h.fragment_offset = IpFragOffset::try_new(num(it) as u16).unwrap();
            h.time_to_live = num(it) as u8;
            h.protocol = IpNumber(num(it) as u8);
            h.source = a4(it);
            h.destination = a4(it);
            let o = bytes(it);
            h.options = Ipv4Options::try_from(&o[..]).unwrap();
            h.header_checksum = 0x7777; // must not be read
            let ck = h.calc_header_checksum();
            h.header_checksum = ck;
            format!("ck={} hdr={}", ck, hex(&h.to_bytes()))
        }
        "udp4" => {
            let h = udp_hdr(it);
            let (s, d, p) = (a4(it), a4(it), bytes(it));
            same(
                res(h.calc_checksum_ipv4_raw(s, d, &p)),
                res(h.calc_checksum_ipv4(&ip4_with(s, d), &p)),
                "raw/hdr",
            )
        }
        "udp6" => {
            let h = udp_hdr(it);
            let (s, d, p) = (a16(it), a16(it), bytes(it));
            same(
                res(h.calc_checksum_ipv6_raw(s, d, &p)),
                res(h.calc_checksum_ipv6(&ip6_with(s, d), &p)),
                "raw/hdr",
            )
        }
        "udp4w" => {
            let (sp, dp) = (num(it) as u16, num(it) as u16);
            let (s, d, p) = (a4(it), a4(it), bytes(it));
            match UdpHeader::with_ipv4_checksum(sp, dp, &ip4_with(s, d), &p) {
                Ok(h) => format!("ck={} hdr={}", h.checksum, hex(&h.to_bytes())),
                Err(e) => format!("err={},{}", e.actual, e.max_allowed),
            }
        }
        "udp6w" => {
            let (sp, dp) = (num(it) as u16, num(it) as u16);
            let (s, d, p) = (a16(it), a16(it), bytes(it));
            match UdpHeader::with_ipv6_checksum(sp, dp, &ip6_with(s, d), &p) {
                Ok(h) => format!("ck={} hdr={}", h.checksum, hex(&h.to_bytes())),
                Err(e) => format!("err={},{}", e.actual, e.max_allowed),
            }
        }
        "tcp4" => {
            let mut h = tcp_hdr(it);
            let (s, d, p) = (a4(it), a4(it), bytes(it));
            let r = h.calc_checksum_ipv4_raw(s, d, &p);
            let out = same(res(r.clone()), res(h.calc_checksum_ipv4(&ip4_with(s, d), &p)), "raw/hdr");
            if let Ok(ck) = r {
                h.checksum = ck;
                format!("{} hdr={}", out, hex(&h.to_bytes()))
            } else {
                out
            }
        }
        "tcp6" => {
            let mut h = tcp_hdr(it);
            let (s, d, p) = (a16(it), a16(it), bytes(it));
            let r = h.calc_checksum_ipv6_raw(s, d, &p);
            let out = same(res(r.clone()), res(h.calc_checksum_ipv6(&ip6_with(s, d), &p)), "raw/hdr");
            if let Ok(ck) = r {
                h.checksum = ck;
                format!("{} hdr={}", out, hex(&h.to_bytes()))
            } else {
                out
            }
        }
        "tcp4hs" => {
            let hb = bytes(it);
            let (s, d, p) = (a4(it), a4(it), bytes(it));
            match TcpHeaderSlice::from_slice(&hb) {
                Err(_) => "reject".to_string(),
                Ok(hs) => {
                    // the Ipv4HeaderSlice variant needs a serialised IPv4 header
                    let ipb = ip4_with(s, d).to_bytes();
                    let ips = Ipv4HeaderSlice::from_slice(&ipb).unwrap();
                    same(
                        res(hs.calc_checksum_ipv4_raw(s, d, &p)),
                        res(hs.calc_checksum_ipv4(&ips, &p)),
                        "raw/hdr",
                    )
                }
            }
        }
        "tcp6hs" => {
            let hb = bytes(it);
            let (s, d, p) = (a16(it), a16(it), bytes(it));
            match TcpHeaderSlice::from_slice(&hb) {
                Err(_) => "reject".to_string(),
                Ok(hs) => {
                    let ipb = ip6_with(s, d).to_bytes();
                    let ips = Ipv6HeaderSlice::from_slice(&ipb).unwrap();
                    same(
                        res(hs.calc_checksum_ipv6_raw(s, d, &p)),
                        res(hs.calc_checksum_ipv6(&ips, &p)),
                        "raw/hdr",
                    )
                }
            }
        }
        "tcp4s" => {
            let b = bytes(it);
            let (s, d) = (a4(it), a4(it));
            match TcpSlice::from_slice(&b) {
                Err(_) => "reject".to_string(),
                Ok(ts) => res(ts.calc_checksum_ipv4(s, d)),
            }
        }
        "tcp6s" => {
            let b = bytes(it);
            let (s, d) = (a16(it), a16(it));
            match TcpSlice::from_slice(&b) {
                Err(_) => "reject".to_string(),
                Ok(ts) => res(ts.calc_checksum_ipv6(s, d)),
            }
        }
        "icmp4" => {
            let t = icmp4_type(it);
            let p = bytes(it);
            let ck = t.calc_checksum(&p);
            let w = Icmpv4Header::with_checksum(t.clone(), &p);
            let mut u = Icmpv4Header { icmp_type: t, checksum: 0x4321 };
            u.update_checksum(&p);
            if w.checksum != ck || u.checksum != ck {
                return format!("DISAGREE calc={} with={} update={}", ck, w.checksum, u.checksum);
            }
            format!("ck={} hdr={}", ck, hex(&w.to_bytes()))
        }
        "icmp6" => {
            let t = icmp6_type(it);
            let (s, d, p) = (a16(it), a16(it), bytes(it));
            let r = t.calc_checksum(s, d, &p);
            match r {
                Err(e) => format!("err={},{}", e.actual, e.max_allowed),
                Ok(ck) => {
                    let w = Icmpv6Header::with_checksum(t.clone(), s, d, &p).unwrap();
                    let mut u = Icmpv6Header { icmp_type: t.clone(), checksum: 0x4321 };
                    u.update_checksum(s, d, &p).unwrap();
                    let th = t.to_header(s, d, &p).unwrap();
                    if w.checksum != ck || u.checksum != ck || th.checksum != ck {
                        return format!(
                            "DISAGREE calc={} with={} update={} to_header={}",
                            ck, w.checksum, u.checksum, th.checksum
                        );
                    }
                    format!("ck={} hdr={}", ck, hex(&w.to_bytes()))
                }
            }
        }
        "icmp6v" => {
            let b = bytes(it);
            let (s, d) = (a16(it), a16(it));
            match Icmpv6Slice::from_slice(&b) {
                Err(_) => "reject".to_string(),
                Ok(sl) => format!("valid={}", sl.is_checksum_valid(s, d) as u8),
            }
        }
        "igmp" => {
            let t = igmp_type(it);
            let p = bytes(it);
            let h0 = IgmpHeader { igmp_type: t.clone(), checksum: 0x4321 };
            let ck = h0.calc_checksum(&p);
            let w = IgmpHeader::with_checksum(t, &p);
            if w.checksum != ck {
                return format!("DISAGREE calc={} with={}", ck, w.checksum);
            }
            format!("ck={} hdr={}", ck, hex(&w.to_bytes()))
        }
        "upd4" => {
            let kind = it.next().unwrap();
            let mut t = transport(kind, it);
            let (s, d, p) = (a4(it), a4(it), bytes(it));
            match t.update_checksum_ipv4(&ip4_with(s, d), &p) {
                Ok(()) => format!("ck={}", transport_ck(&t)),
                Err(err::packet::TransportChecksumError::PayloadLen(e)) => {
                    format!("err={},{}", e.actual, e.max_allowed)
                }
                Err(err::packet::TransportChecksumError::Icmpv6InIpv4) => "err=icmpv6-in-ipv4".to_string(),
            }
        }
        "upd6" => {
            let kind = it.next().unwrap();
            let mut t = transport(kind, it);
            let (s, d, p) = (a16(it), a16(it), bytes(it));
            match t.update_checksum_ipv6(&ip6_with(s, d), &p) {
                Ok(()) => format!("ck={}", transport_ck(&t)),
                Err(e) => format!("err={},{}", e.actual, e.max_allowed),
            }
        }
        _ => panic!("bad c09 tag {}", tag),
    }
}
